(** C20 — property theorems (placeholder while the pipeline is brought up). *)
From Coq Require Import List ZArith NArith String Bool.
From SV Require Import Common.Tok C20.Gen C20.Model C20.Proofs.
Import ListNotations.
Open Scope Z_scope.

Theorem numbering_total : forall M rs, List.length (number M rs) = List.length rs.
Proof. intros; apply number_from_length. Qed.
