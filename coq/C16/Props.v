(** C16 — property theorems (statements only; proofs are in C16/Proofs.v).

    Every statement is about the executable model of C16/Model.v, whose
    operations ([apply_op]: the accept path, teardown, the per-IP gate, runtime
    limit changes, slab pressure) are the ones the correspondence check compares
    with the real [SessionManager] on every run. *)
From Coq Require Import List Arith ZArith NArith Bool Lia.
From Coq Require Import Sorting.Permutation.
From SV Require Import C16.Model C16.Proofs C16.QModel C16.QProofs.
From SV Require Import C16.DModel C16.DProofs.
Import ListNotations.
Open Scope N_scope.

(** 1. Refinement of the two private maps to one relation "token holds
    (cluster, ip)": after every history, the forward count of every
    (cluster, ip) is the number of tokens whose reverse-index entry contains it
    (one slot per connection per cluster and ip: entries are duplicate-free
    sets, tracking twice changes nothing), no zero-count entry is retained, only
    live connections hold slots, every slot a token holds has a positive count
    (the [saturating_sub] of [untrack_all] never saturates), and when no
    connection is live both maps are empty (baseline). *)
Theorem fwd_is_count :
  forall (ops : list op),
    let st := run_ops init ops in
    let s := st_sm st in
    (forall k, fwd_get k (fwd s) = holders k (rev s)) /\
    (forall e, In e (fwd s) -> 0 < snd e) /\
    (forall t, NoDup (rev_get t (rev s))) /\
    (forall t, rev_get t (rev s) <> [] -> In t (live st)) /\
    (forall t k, In k (rev_get t (rev s)) -> 1 <= fwd_get k (fwd s)) /\
    (live st = [] -> fwd s = [] /\ rev s = []).
Proof.
  intros ops st s. pose proof (run_ops_ok ops init init_ok) as OK. fold st in OK.
  pose proof (so_sm _ OK) as SM. fold s in SM.
  repeat split.
  - apply (ok_count _ SM).
  - apply (ok_pos _ SM).
  - apply (ok_sets _ SM).
  - intros t Ht. apply (so_toks _ OK). apply rev_get_in. exact Ht.
  - intros t k Hk. eapply untrack_no_underflow; eauto.
  - apply baseline_lemma; assumption.
  - apply baseline_lemma; assumption.
Qed.

Theorem one_slot_per_connection :
  forall s tok k, track (track s tok k) tok k = track s tok k.
Proof. exact track_idempotent. Qed.

(** 2. Admission: after every history, [nb_connections] is exactly the number
    of connections being served, never exceeds [max_connections], and neither
    [assert!] of [incr]/[decr] has fired. *)
Theorem never_over_max :
  forall (ops : list op),
    let st := run_ops init ops in
    nb (st_sm st) = N.of_nat (length (live st)) /\
    nb (st_sm st) <= max (st_sm st) /\
    panicked st = false.
Proof.
  intros ops st. pose proof (run_ops_ok ops init init_ok) as OK. fold st in OK.
  repeat split; [apply (so_nb _ OK)|apply (so_max _ OK)|apply (so_nopanic _ OK)].
Qed.

(** 3. The per-IP gate: it only lets a token through that already holds the
    slot, or when the count is strictly below the effective limit (so granting
    keeps it within the limit); and over any history that leaves the global
    limit [L > 0] alone (no runtime [SetMaxConnectionsPerIp], no per-cluster
    override — the documented exceptions), no (cluster, ip) ever exceeds [L]. *)
Theorem gate_sound :
  forall s tok k ov,
    at_limit s tok k ov = false ->
    let lim := match ov with Some v => v | None => limit s end in
    lim = 0 \/ mem k (rev_get tok (rev s)) = true \/ fwd_get k (fwd s) < lim.
Proof. exact at_limit_sound. Qed.

Theorem limit_respected :
  forall (mx L : N) (ops : list op),
    Forall op_plain ops -> 0 < L ->
    forall k, fwd_get k (fwd (st_sm (run_ops (apply_op init (ONew mx L)) ops))) <= L.
Proof.
  intros mx L ops HP HL.
  assert (G : forall ops st, Forall op_plain ops -> st_ok st -> cap_ok L st -> cap_ok L (run_ops st ops)).
  { clear. unfold run_ops. induction ops as [|o t IH]; intros st HP OK C; cbn [fold_left]; [assumption|].
    inversion HP; subst. apply IH; auto using apply_op_ok. apply cap_step; auto. }
  destruct (G ops (apply_op init (ONew mx L)) HP) as [_ HC].
  - apply apply_op_ok, init_ok.
  - split; cbn; [reflexivity|]. intros _ k. lia.
  - exact (HC HL).
Qed.

(** 3b. Changing the limit at run time (the [SetMaxConnectionsPerIp] handler as
    the driver replicates it).  Setting it to any [n > 0] — enabling it from 0,
    raising it, lowering it — forgets nothing: both maps, hence every count and
    every held slot, are what they were ([fwd_is_count] holds across the change
    as for every history), and from then on the gate refuses exactly the tokens
    that hold no slot for a (cluster, ip) whose count is already [>= n]: a limit
    enabled with connections open counts them, a lowered limit lets nobody new in
    until enough have left.  Only 0 wipes the accounting (both maps empty). *)
Theorem limit_change_keeps_slots :
  forall (ops : list op) (n : N) (tok : N) (k : key),
    let st := run_ops init ops in
    (n <> 0 ->
     fwd (st_sm (set_limit_op st n)) = fwd (st_sm st) /\
     rev (st_sm (set_limit_op st n)) = rev (st_sm st) /\
     at_limit (st_sm (set_limit_op st n)) tok k None =
       negb (mem k (rev_get tok (rev (st_sm st)))) && (n <=? fwd_get k (fwd (st_sm st)))) /\
    (fwd (st_sm (set_limit_op st 0)) = [] /\ rev (st_sm (set_limit_op st 0)) = []).
Proof.
  intros ops n tok k st. split.
  - intros H. destruct (set_limit_keeps_slots st n H) as (F & R & _). repeat split; auto.
    apply gate_after_limit_change. exact H.
  - apply set_limit_zero_wipes.
Qed.

(** 4. Accepting resumes: after every history, closing a live connection
    leaves [can_accept = true] as soon as the remaining count is below the
    re-enable threshold [max(1, max*90/100)]; in particular, for every
    [max_connections >= 1] (incl. 1, where [1*90/100 = 0]), when the last
    connection closes. *)
Theorem accept_resumes :
  forall (ops : list op) (tok : N),
    let st := run_ops init ops in
    In tok (live st) ->
    let st' := close st tok in
    (nb (st_sm st') < resume_threshold (max (st_sm st')) -> can_accept (st_sm st') = true) /\
    (live st = [tok] -> can_accept (st_sm st') = true /\ nb (st_sm st') = 0).
Proof.
  intros ops tok st Hin st'.
  pose proof (run_ops_ok ops init init_ok) as OK. fold st in OK.
  assert (R : nb (st_sm st') < resume_threshold (max (st_sm st')) -> can_accept (st_sm st') = true).
  { unfold st', close. apply lmem_In in Hin. rewrite Hin.
    destruct (decr (untrack_all (set_slab (st_sm st) (slab (st_sm st) - 1)) tok)) as [s2|] eqn:D.
    - cbn [st_sm]. apply (decr_resumes _ _ D).
    - exfalso. unfold decr in D. cbn [untrack_all set_maps set_slab nb] in D.
      destruct (nb (st_sm st) =? 0) eqn:Z; [|discriminate].
      apply N.eqb_eq in Z. rewrite (so_nb _ OK) in Z. apply lmem_In in Hin.
      destruct (live st); [destruct Hin|cbn in Z; lia]. }
  split; [exact R|].
  intros L. pose proof (close_ok st tok OK) as OK'. fold st' in OK'.
  assert (Z : nb (st_sm st') = 0).
  { rewrite (so_nb _ OK'). pose proof (so_nopanic _ OK') as P.
    unfold st', close in P |- *. apply lmem_In in Hin. rewrite Hin in P |- *.
    destruct (decr _) as [s2|]; cbn [live panicked] in P |- *.
    - rewrite L. unfold lremove. cbn [filter]. rewrite N.eqb_refl. reflexivity.
    - discriminate. }
  split; [|exact Z]. apply R. rewrite Z. pose proof (resume_threshold_pos (max (st_sm st'))). lia.
Qed.

(** 4b. ... and the gate never closes on an idle worker: after every history,
    when no connection is served and the slab holds no session entry, a
    connection is admitted whatever the number of listeners and system entries
    ([fill]) and for every [max_connections >= 1] (before the fix, 8 listeners
    and [max_connections = 1] were enough to refuse for good). *)
Theorem idle_admits :
  forall (ops : list op),
    let st := run_ops init ops in
    live st = [] -> backs st = 0 -> 1 <= max (st_sm st) ->
    snd (check_limits (st_sm st)) = true.
Proof.
  intros ops st. apply idle_admits_lemma.
  - apply run_ops_ok, init_ok.
  - apply run_ops_slab; [apply init_ok|apply init_slab].
Qed.

(** 5. Buffer pool: over every history of checkouts and returns, the number of
    buffers in use is the number of checkouts held (back to 0 when all are
    returned), within the capacity, within the maximum; and a checkout is
    refused only when the pool is exhausted (also for a pool created empty). *)
Theorem pool_balance :
  forall (mn mx : N) (ops : list pop),
    let p := fold_left pool_step ops (pool_new mn mx) in
    p_used p = N.of_nat (length (p_held p)) /\ p_used p <= p_cap p /\ p_cap p <= p_max p /\
    (p_held p = [] -> p_used p = 0) /\
    (forall id, lmem id (p_held p) = false -> p_used p < p_max p -> snd (pool_checkout p id) = true).
Proof.
  intros mn mx ops p. pose proof (pool_run_ok ops (pool_new mn mx) (pool_new_ok mn mx)) as OK. fold p in OK.
  destruct OK as (A & B & C & D). repeat split; auto.
  - intros E. rewrite A, E. reflexivity.
  - intros id L U. apply pool_checkout_live; [repeat split; assumption|assumption|assumption].
Qed.

(** 6. The accept queue ([Server::accept] / [create_sessions] as modelled in
    C16/QModel.v).  After every history of accepts, [create_sessions] rounds,
    clock ticks, session events, closes and zombie checks, with or without
    [evict_on_queue_full]: every connection ever taken from a listener is in
    exactly one of three places — still queued, served (it became a session) or
    dropped (queue timeout, or refused at the cap) — never two of them, and it
    never disappears; [nb_connections] is the number of sessions and never
    exceeds [max_connections].  The queue itself has no bound in the code: its
    length is what was accepted minus what was served or dropped. *)
Theorem queued_served_or_dropped_exactly_once :
  forall (mx timeout : N) (evict : bool) (ops ops2 : list qop),
    let s := q_run (srv_new mx timeout evict) ops in
    NoDup (map fst (v_queue s) ++ v_served s ++ v_dropped s) /\
    (forall id, In id (all_ids s) -> In id (all_ids (q_run s ops2))) /\
    v_nb s = N.of_nat (length (v_sessions s)) /\ v_nb s <= v_max s.
Proof.
  intros mx timeout evict ops ops2 s. split; [|split].
  - apply (q_run_nodup ops (srv_new mx timeout evict)). constructor.
  - intros id. apply q_run_keeps.
  - apply (q_run_counts ops (srv_new mx timeout evict)). split; cbn; lia.
Qed.

(** 7. Eviction ([evict_least_active_sessions]): the victims are the sessions
    owning the [count] least recently active slab entries — no survivor is less
    recently active than a victim —, at least one whenever a session exists,
    victims and survivors together are exactly the sessions there were, the
    slab entries released are exactly the victims', and [nb_connections] drops
    by exactly their number; queue, served and dropped are untouched. *)
Theorem eviction_least_active :
  forall (s : srv) (count : N),
    let sorted := isort (v_sessions s) in
    let k := snd (evict s count) in
    let s' := fst (evict s count) in
    (forall v w, In v (firstn k sorted) -> In w (v_sessions s') -> s_last v <= s_last w) /\
    Permutation (firstn k sorted ++ v_sessions s') (v_sessions s) /\
    sum_entries (v_sessions s') + sum_entries (firstn k sorted) = sum_entries (v_sessions s) /\
    v_nb s' = v_nb s - N.of_nat k /\
    (1 <= count -> v_sessions s <> [] -> (1 <= k)%nat) /\
    v_queue s' = v_queue s /\ v_served s' = v_served s /\ v_dropped s' = v_dropped s.
Proof.
  intros s count. destruct (evict_spec s count) as (_ & A & B & C & D & _ & E & F & G & H & _).
  cbn zeta. repeat split; assumption.
Qed.

(** 8. Zombie check: it reclaims exactly the sessions idle for longer than the
    interval — a session survives iff it was there and its last event is at
    most [interval] old — and the counters follow. *)
Theorem zombie_reclaims_exactly :
  forall (s : srv) (interval : N) (x : sess),
    (In x (v_sessions (zombie_check s interval)) <-> In x (v_sessions s) /\ v_now s - s_last x <= interval) /\
    (v_nb s = N.of_nat (length (v_sessions s)) -> v_nb s <= v_max s ->
     v_nb (zombie_check s interval) = N.of_nat (length (v_sessions (zombie_check s interval)))).
Proof.
  intros s interval x. split; [apply zombie_spec|].
  intros A B. pose proof (q_apply_counts s (QZombie interval) (conj A B)) as [C _]. exact C.
Qed.

(* ------------------------------------------------------------------ *)
(** non-vacuity *)

Definition demo : list op :=
  [ ONew 2 1; OAccept 0; OAccept 1; OAccept 2;
    OTrack 0 (0, 0) None; OTrack 0 (0, 0) None; OTrack 1 (0, 0) None; OTrack 1 (0, 1) None ].

Example fwd_is_count_nonvacuous :
  let st := run_ops init demo in
  live st = [0; 1] /\ nb (st_sm st) = 2 /\ can_accept (st_sm st) = false /\
  fwd_get (0, 0) (fwd (st_sm st)) = 1 /\ fwd_get (0, 1) (fwd (st_sm st)) = 1 /\
  holders (0, 0) (rev (st_sm st)) = 1 /\
  let st2 := run_ops st [OClose 0; OClose 1] in
  live st2 = [] /\ fwd (st_sm st2) = [] /\ rev (st_sm st2) = [] /\ can_accept (st_sm st2) = true.
Proof. vm_compute. repeat split. Qed.

Example limit_respected_nonvacuous :
  Forall op_plain (tl demo) /\ fwd_get (0, 0) (fwd (st_sm (run_ops (apply_op init (ONew 2 1)) (tl demo)))) = 1.
Proof. split; [repeat constructor|vm_compute; reflexivity]. Qed.

Example accept_resumes_nonvacuous :
  let st := run_ops init [ONew 1 0; OAccept 0; OAccept 1] in
  live st = [0] /\ can_accept (st_sm st) = false /\ can_accept (st_sm (close st 0)) = true.
Proof. vm_compute. repeat split. Qed.

Example pool_balance_nonvacuous :
  let p := fold_left pool_step [PCheckout 0; PCheckout 1; PCheckout 2; PCheckin 1] (pool_new 0 2) in
  p_used p = 1 /\ p_cap p = 2 /\ p_held p = [0] /\ snd (pool_checkout (pool_new 0 2) 5) = true.
Proof. vm_compute. repeat split. Qed.

Example idle_admits_nonvacuous :
  let st := run_ops init [ONew 1 0; OFill 12] in
  live st = [] /\ slab (st_sm st) = 12 /\ snd (check_limits (st_sm st)) = true /\
  snd (check_limits (st_sm (run_ops st [OBackfill 2]))) = false.
Proof. vm_compute. repeat split. Qed.

Example queue_nonvacuous :
  let ops := [QEnqueue 1; QEnqueue 2; QEnqueue 3; QCreate; QTick 5; QEnqueue 4; QTouch 3; QCreate; QTick 100; QZombie 50] in
  let s := q_run (srv_new 2 3 false) ops in
  v_served s = [2; 3] /\ v_dropped s = [1] /\ v_queue s = [] /\ v_sessions s = [] /\ v_nb s = 0 /\ v_accept s = true.
Proof. vm_compute. repeat split. Qed.

Example eviction_nonvacuous :
  let s := q_run (srv_new 2 60 true) [QEnqueue 1; QCreate; QTick 1; QEnqueue 2; QCreate; QTick 1; QTouch 1; QEnqueue 3; QCreate] in
  (* the cap was reached with sessions 1 and 2; 2 is the least recently active: evicted for connection 3 *)
  map s_tok (v_sessions s) = [3; 1] /\ v_served s = [3; 2; 1] /\ v_dropped s = [] /\ v_nb s = 2.
Proof. vm_compute. repeat split. Qed.

Example limit_change_nonvacuous :
  let st := run_ops init [ONew 5 0; OAccept 0; OAccept 1; OAccept 2;
                          OTrack 0 (0, 0) None; OTrack 1 (0, 0) None; OSetLimit 2] in
  fwd_get (0, 0) (fwd (st_sm st)) = 2 /\
  at_limit (st_sm st) 2 (0, 0) None = true /\ at_limit (st_sm st) 1 (0, 0) None = false.
Proof. vm_compute. repeat split. Qed.


(* ------------------------------------------------------------------ *)
(** * The gauges of the local metrics drain ([lib/src/metrics/local_drain.rs], model C16/DModel.v) *)

(** 13. A gauge driven by relative updates that never take it below zero
    (every decrement paired with an earlier increment) holds exactly the sum of
    the updates — back at its starting value when they cancel — and no
    underflow is counted; for any state of the drain in which the slot is live
    (labels kept by the detail level, cluster neither switched off nor
    removed), any slot, any such sequence. *)
Theorem gauge_paired_updates_exact :
  forall (d : drain) (sc : scope) (k : N) (ds : list Z),
    slot_live d sc -> never_below (gauge_of d sc k) ds ->
    gauge_of (adds d sc k ds) sc k = (gauge_of d sc k + fold_right Z.add 0 ds)%Z /\
    d_under (adds d sc k ds) = d_under d.
Proof. intros d sc k ds. apply adds_balance. Qed.

(** 14. A relative update that would take a gauge below zero stores exactly 0
    (never a wrapped value) and is counted once. *)
Theorem gauge_underflow_clamps_and_is_counted :
  forall (d : drain) (sc : scope) (k : N) (x : Z) (v : N),
    slot_live d sc -> lookup d sc k = Some v -> (Z.of_N v + x < 0)%Z ->
    lookup (receive d sc k (MAdd x)) sc k = Some 0 /\
    d_under (receive d sc k (MAdd x)) = d_under d + 1.
Proof. exact underflow_clamps. Qed.

(** 15. Whatever the history, removing a cluster empties its rows (its own and
    its backends') and what is received for it afterwards is dropped, until the
    cluster is added again or the drain is cleared. *)
Theorem removed_cluster_metrics_stay_gone :
  forall (ops : list dop) (c : N) (sc sc' : scope) (k k' : N) (m : mval),
    let d := drun (ops ++ [DRemoveCluster c]) in
    scope_cluster sc = Some c ->
    scope_cluster (filter_scope (d_detail d) sc') = Some c ->
    lookup d sc k = None /\ receive d sc' k' m = d.
Proof.
  intros ops c sc sc' k k' m d S S'. unfold d, drun. rewrite fold_left_app. cbn [fold_left].
  split; [apply remove_cluster_empties; exact S|].
  apply (tombstoned_dropped _ sc' k' m c).
  - unfold d, drun in S'. rewrite fold_left_app in S'. exact S'.
  - apply remove_cluster_tombstones.
Qed.

Example gauge_theorems_nonvacuous :
  let d0 := drun [DDetail 3] in
  (* two sessions on backend (0,1): +1 +1 -1 -1 is back at 0, nothing counted *)
  lookup (adds d0 (SBackend 0 1) 0 [1; 1; -1; -1]%Z) (SBackend 0 1) 0 = Some 0 /\
  d_under (adds d0 (SBackend 0 1) 0 [1; 1; -1; -1]%Z) = 0 /\
  (* a clear with one session in flight: its decrement is clamped and counted *)
  let d1 := drun [DDetail 3; DRecv (SBackend 0 1) 0 (MAdd 1); DClear; DRecv (SBackend 0 1) 0 (MAdd 1);
                  DRecv (SBackend 0 1) 0 (MAdd (-1)); DRecv (SBackend 0 1) 0 (MAdd (-1))] in
  lookup d1 (SBackend 0 1) 0 = Some 0 /\ d_under d1 = 1 /\
  (* a removed cluster: the late decrement is dropped, after add_cluster the row starts again *)
  let d2 := drun [DRecv (SCluster 1) 0 (MAdd 1); DRemoveCluster 1; DRecv (SCluster 1) 0 (MAdd (-1))] in
  lookup d2 (SCluster 1) 0 = None /\ d_under d2 = 0 /\
  lookup (dstep (dstep d2 (DAddCluster 1)) (DRecv (SCluster 1) 0 (MAdd 2))) (SCluster 1) 0 = Some 2 /\
  (* at the default detail level a backend label is folded into its cluster *)
  lookup (drun [DRecv (SBackend 0 1) 1 (MGauge 7)]) (SCluster 0) 1 = Some 7.
Proof. vm_compute. repeat split. Qed.
