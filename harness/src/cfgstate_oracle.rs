//! C07 oracle on the implementation, independent of the Gallina model and of
//! the integer encoding of the op language: it looks only at the real
//! `Request` and at the real `ConfigState` before and after `dispatch`.
//!
//! * `objects` splits a state into individually named objects (one cluster, one
//!   backend, one listener, one frontend, one certificate, the existence of a
//!   bucket, the order inside a bucket);
//! * `named` lists the objects a request names;
//! * `check_accepted`: every object that changed must be named, and the named
//!   object must have ended up as the command says (per verb);
//! * `check_rejected`: nothing may have changed; reported per map.
use std::collections::{BTreeMap, BTreeSet};
use std::net::SocketAddr;

use sozu_command_lib::{
    certificate::Fingerprint,
    proto::command::{
        request::RequestType, CertificateAndKey, CustomHttpAnswers, HttpListenerConfig, HttpsListenerConfig, ListenerType, Request,
        RequestHttpFrontend, TcpListenerConfig, UdpListenerConfig, UpdateHttpListenerConfig, UpdateHttpsListenerConfig,
        UpdateTcpListenerConfig, UpdateUdpListenerConfig,
    },
    response::{Backend, TcpFrontend, UdpFrontend},
    state::ConfigState,
};

pub fn objects(s: &ConfigState) -> BTreeMap<String, String> {
    let mut m = BTreeMap::new();
    let mut put = |k: String, v: String| {
        let mut k2 = k.clone();
        let mut n = 1;
        while m.contains_key(&k2) {
            n += 1;
            k2 = format!("{k}#{n}");
        }
        m.insert(k2, v);
    };
    for (k, c) in &s.clusters {
        put(format!("cluster/{k}"), format!("{c:?}"));
    }
    for (k, v) in &s.backends {
        put(format!("backends/{k}"), "bucket".into());
        put(format!("order/backends/{k}"), format!("{:?}", v.iter().map(|b| (&b.backend_id, b.address)).collect::<Vec<_>>()));
        for b in v {
            put(format!("backend/{k}/{}/{}", b.backend_id, b.address), format!("{b:?}"));
        }
    }
    for (k, l) in &s.http_listeners {
        put(format!("http_listener/{k}"), format!("{l:?}"));
    }
    for (k, l) in &s.https_listeners {
        put(format!("https_listener/{k}"), format!("{l:?}"));
    }
    for (k, l) in &s.tcp_listeners {
        put(format!("tcp_listener/{k}"), format!("{l:?}"));
    }
    for (k, l) in &s.udp_listeners {
        put(format!("udp_listener/{k}"), format!("{l:?}"));
    }
    for (k, f) in &s.http_fronts {
        put(format!("http_front/{k}"), format!("{f:?}"));
    }
    for (k, f) in &s.https_fronts {
        put(format!("https_front/{k}"), format!("{f:?}"));
    }
    for (k, v) in &s.tcp_fronts {
        put(format!("tcp_fronts/{k}"), "bucket".into());
        put(format!("order/tcp_fronts/{k}"), format!("{:?}", v.iter().map(|f| (f.address, &f.tags)).collect::<Vec<_>>()));
        for f in v {
            put(format!("tcp_front/{k}/{}/{:?}", f.address, f.tags), format!("{f:?}"));
        }
    }
    for (k, v) in &s.udp_fronts {
        put(format!("udp_fronts/{k}"), "bucket".into());
        put(format!("order/udp_fronts/{k}"), format!("{:?}", v.iter().map(|f| (f.address, &f.tags)).collect::<Vec<_>>()));
        for f in v {
            put(format!("udp_front/{k}/{}/{:?}", f.address, f.tags), format!("{f:?}"));
        }
    }
    let expiry = |k: &SocketAddr, fp: &sozu_command_lib::certificate::Fingerprint| s.certificate_expirations.get(k).and_then(|m| m.get(fp)).copied();
    for (k, v) in &s.certificates {
        put(format!("certs/{k}"), "bucket".into());
        for (fp, c) in v {
            // the expiration override given with the certificate is part of its value
            put(format!("cert/{k}/{fp}"), format!("{c:?} expired_at={:?}", expiry(k, fp)));
        }
    }
    for (k, v) in &s.certificate_expirations {
        if v.is_empty() {
            put(format!("cert/{k}/-"), "empty bucket of expiration overrides".into());
        }
        for (fp, t) in v {
            if !s.certificates.get(k).is_some_and(|m| m.contains_key(fp)) {
                put(format!("cert/{k}/{fp}"), format!("expiration override {t} of a certificate that is not stored"));
            }
        }
    }
    m
}

fn map_of(key: &str) -> &'static str {
    let k = key.strip_prefix("order/").unwrap_or(key);
    match k.split('/').next().unwrap_or("") {
        "cluster" => "clusters",
        "backends" | "backend" => "backends",
        "http_listener" => "http_listeners",
        "https_listener" => "https_listeners",
        "tcp_listener" => "tcp_listeners",
        "udp_listener" => "udp_listeners",
        "http_front" => "http_fronts",
        "https_front" => "https_fronts",
        "tcp_fronts" | "tcp_front" => "tcp_fronts",
        "udp_fronts" | "udp_front" => "udp_fronts",
        "certs" | "cert" => "certificates",
        _ => "?",
    }
}

fn changed(before: &BTreeMap<String, String>, after: &BTreeMap<String, String>) -> Vec<String> {
    let keys: BTreeSet<&String> = before.keys().chain(after.keys()).collect();
    keys.into_iter().filter(|k| before.get(*k) != after.get(*k)).cloned().collect()
}

fn short(s: &str) -> String {
    if s.chars().count() > 160 {
        let t: String = s.chars().take(160).collect();
        format!("{t}..")
    } else {
        s.to_string()
    }
}

fn listener_key(proxy: i32, a: SocketAddr) -> Option<String> {
    Some(match ListenerType::try_from(proxy).ok()? {
        ListenerType::Http => format!("http_listener/{a}"),
        ListenerType::Https => format!("https_listener/{a}"),
        ListenerType::Tcp => format!("tcp_listener/{a}"),
        ListenerType::Udp => format!("udp_listener/{a}"),
    })
}

fn new_fingerprint(c: &CertificateAndKey) -> Option<Fingerprint> {
    c.fingerprint().ok()
}

/// the objects a request names (exact keys of `objects`)
pub fn named(req: &Request, before: &ConfigState) -> BTreeSet<String> {
    let mut n = BTreeSet::new();
    let Some(rt) = &req.request_type else { return n };
    match rt {
        RequestType::AddCluster(c) => {
            n.insert(format!("cluster/{}", c.cluster_id));
        }
        RequestType::RemoveCluster(id) | RequestType::RemoveHealthCheck(id) => {
            n.insert(format!("cluster/{id}"));
        }
        RequestType::SetHealthCheck(h) => {
            n.insert(format!("cluster/{}", h.cluster_id));
        }
        RequestType::AddHttpListener(l) => {
            n.insert(format!("http_listener/{}", SocketAddr::from(l.address)));
        }
        RequestType::AddHttpsListener(l) => {
            n.insert(format!("https_listener/{}", SocketAddr::from(l.address)));
        }
        RequestType::AddTcpListener(l) => {
            n.insert(format!("tcp_listener/{}", SocketAddr::from(l.address)));
        }
        RequestType::AddUdpListener(l) => {
            n.insert(format!("udp_listener/{}", SocketAddr::from(l.address)));
        }
        RequestType::UpdateHttpListener(p) => {
            n.insert(format!("http_listener/{}", SocketAddr::from(p.address)));
        }
        RequestType::UpdateHttpsListener(p) => {
            n.insert(format!("https_listener/{}", SocketAddr::from(p.address)));
        }
        RequestType::UpdateTcpListener(p) => {
            n.insert(format!("tcp_listener/{}", SocketAddr::from(p.address)));
        }
        RequestType::UpdateUdpListener(p) => {
            n.insert(format!("udp_listener/{}", SocketAddr::from(p.address)));
        }
        RequestType::RemoveListener(r) => {
            n.extend(listener_key(r.proxy, r.address.into()));
        }
        RequestType::ActivateListener(r) => {
            n.extend(listener_key(r.proxy, r.address.into()));
        }
        RequestType::DeactivateListener(r) => {
            n.extend(listener_key(r.proxy, r.address.into()));
        }
        RequestType::AddHttpFrontend(f) | RequestType::RemoveHttpFrontend(f) => {
            n.insert(format!("http_front/{f}"));
        }
        RequestType::AddHttpsFrontend(f) | RequestType::RemoveHttpsFrontend(f) => {
            n.insert(format!("https_front/{f}"));
        }
        RequestType::AddTcpFrontend(f) => {
            let a: SocketAddr = f.address.into();
            n.insert(format!("tcp_fronts/{}", f.cluster_id));
            n.insert(format!("order/tcp_fronts/{}", f.cluster_id));
            n.insert(format!("tcp_front/{}/{a}/{:?}", f.cluster_id, f.tags));
        }
        RequestType::AddUdpFrontend(f) => {
            let a: SocketAddr = f.address.into();
            n.insert(format!("udp_fronts/{}", f.cluster_id));
            n.insert(format!("order/udp_fronts/{}", f.cluster_id));
            n.insert(format!("udp_front/{}/{a}/{:?}", f.cluster_id, f.tags));
        }
        RequestType::RemoveTcpFrontend(f) => {
            // removal is by (cluster, address): every frontend of the cluster at that address is named
            let a: SocketAddr = f.address.into();
            n.insert(format!("order/tcp_fronts/{}", f.cluster_id));
            for x in before.tcp_fronts.get(&f.cluster_id).into_iter().flatten().filter(|x| x.address == a) {
                n.insert(format!("tcp_front/{}/{a}/{:?}", f.cluster_id, x.tags));
            }
        }
        RequestType::RemoveUdpFrontend(f) => {
            let a: SocketAddr = f.address.into();
            n.insert(format!("order/udp_fronts/{}", f.cluster_id));
            for x in before.udp_fronts.get(&f.cluster_id).into_iter().flatten().filter(|x| x.address == a) {
                n.insert(format!("udp_front/{}/{a}/{:?}", f.cluster_id, x.tags));
            }
        }
        RequestType::AddBackend(b) => {
            let a: SocketAddr = b.address.into();
            n.insert(format!("backends/{}", b.cluster_id));
            n.insert(format!("order/backends/{}", b.cluster_id));
            n.insert(format!("backend/{}/{}/{a}", b.cluster_id, b.backend_id));
        }
        RequestType::RemoveBackend(b) => {
            let a: SocketAddr = b.address.into();
            n.insert(format!("order/backends/{}", b.cluster_id));
            n.insert(format!("backend/{}/{}/{a}", b.cluster_id, b.backend_id));
        }
        RequestType::AddCertificate(c) => {
            let a: SocketAddr = c.address.into();
            n.insert(format!("certs/{a}"));
            if let Some(fp) = new_fingerprint(&c.certificate) {
                n.insert(format!("cert/{a}/{fp}"));
            }
        }
        RequestType::RemoveCertificate(c) => {
            let a: SocketAddr = c.address.into();
            n.insert(format!("cert/{a}/{}", c.fingerprint.to_lowercase()));
        }
        RequestType::ReplaceCertificate(c) => {
            let a: SocketAddr = c.address.into();
            n.insert(format!("cert/{a}/{}", c.old_fingerprint.to_lowercase()));
            if let Some(fp) = new_fingerprint(&c.new_certificate) {
                n.insert(format!("cert/{a}/{fp}"));
            }
        }
        _ => {}
    }
    n
}

macro_rules! apply_patch {
    ($l:ident, $p:ident; opt: [$($o:ident),*]; plain: [$($q:ident),*]) => {
        $( if let Some(v) = &$p.$o { $l.$o = Some(v.clone()); } )*
        $( if let Some(v) = &$p.$q { $l.$q = v.clone(); } )*
    };
}
fn merge_answers(t: &mut Option<CustomHttpAnswers>, p: &Option<CustomHttpAnswers>) {
    if let Some(p) = p {
        let c = t.get_or_insert_with(CustomHttpAnswers::default);
        macro_rules! mf {
            ($($f:ident),*) => { $( if let Some(v) = &p.$f { c.$f = Some(v.clone()); } )* };
        }
        mf!(answer_301, answer_400, answer_401, answer_404, answer_408, answer_413, answer_421, answer_502, answer_503, answer_504, answer_507);
    }
}
/// command.proto on the `answers` map of a patch: an entry with a non-empty value replaces the listener's
/// stored template for that status, an empty one preserves it
fn merge_answers_map(t: &mut std::collections::BTreeMap<String, String>, p: &std::collections::BTreeMap<String, String>) {
    for (k, v) in p {
        if !v.is_empty() {
            t.insert(k.clone(), v.clone());
        }
    }
}
/// what the documentation of the patch verbs says: `Some` fields replace, `None` fields preserve
fn expect_http(b: &HttpListenerConfig, p: &UpdateHttpListenerConfig) -> HttpListenerConfig {
    let mut l = b.clone();
    apply_patch!(l, p;
        opt: [public_address, h2_max_rst_stream_per_window, h2_max_ping_per_window, h2_max_settings_per_window,
              h2_max_empty_data_per_window, h2_max_continuation_frames, h2_max_glitch_count, h2_initial_connection_window,
              h2_max_concurrent_streams, h2_stream_shrink_ratio, h2_max_rst_stream_lifetime, h2_max_rst_stream_abusive_lifetime,
              h2_max_rst_stream_emitted_lifetime, h2_max_header_list_size, h2_max_header_table_size, h2_max_header_fields,
              h2_stream_idle_timeout_seconds, h2_graceful_shutdown_deadline_seconds, h2_max_window_update_stream0_per_window,
              sozu_id_header, elide_x_real_ip, send_x_real_ip];
        plain: [expect_proxy, sticky_name, front_timeout, back_timeout, connect_timeout, request_timeout]);
    merge_answers(&mut l.http_answers, &p.http_answers);
    merge_answers_map(&mut l.answers, &p.answers);
    l
}
fn expect_https(b: &HttpsListenerConfig, p: &UpdateHttpsListenerConfig) -> HttpsListenerConfig {
    let mut l = b.clone();
    apply_patch!(l, p;
        opt: [public_address, strict_sni_binding, disable_http11, h2_max_rst_stream_per_window, h2_max_ping_per_window,
              h2_max_settings_per_window, h2_max_empty_data_per_window, h2_max_continuation_frames, h2_max_glitch_count,
              h2_initial_connection_window, h2_max_concurrent_streams, h2_stream_shrink_ratio, h2_max_rst_stream_lifetime,
              h2_max_rst_stream_abusive_lifetime, h2_max_rst_stream_emitted_lifetime, h2_max_header_list_size,
              h2_max_header_table_size, h2_max_header_fields, h2_stream_idle_timeout_seconds,
              h2_graceful_shutdown_deadline_seconds, h2_max_window_update_stream0_per_window, sozu_id_header,
              elide_x_real_ip, send_x_real_ip, hsts];
        plain: [expect_proxy, sticky_name, front_timeout, back_timeout, connect_timeout, request_timeout]);
    if let Some(a) = &p.alpn_protocols {
        l.alpn_protocols = a.values.clone();
    }
    merge_answers(&mut l.http_answers, &p.http_answers);
    merge_answers_map(&mut l.answers, &p.answers);
    l
}
fn expect_tcp(b: &TcpListenerConfig, p: &UpdateTcpListenerConfig) -> TcpListenerConfig {
    let mut l = *b;
    apply_patch!(l, p; opt: [public_address]; plain: [expect_proxy, front_timeout, back_timeout, connect_timeout]);
    l
}
fn expect_udp(b: &UdpListenerConfig, p: &UpdateUdpListenerConfig) -> UdpListenerConfig {
    let mut l = *b;
    apply_patch!(l, p; opt: [public_address]; plain: [front_timeout, back_timeout, max_rx_datagram_size, max_flows]);
    l
}

fn same_backends_except(b: &[Backend], a: &[Backend], id: &str, addr: SocketAddr) -> bool {
    let f = |v: &[Backend]| {
        let mut x: Vec<Backend> = v.iter().filter(|b| !(b.backend_id == id && b.address == addr)).cloned().collect();
        x.sort();
        x
    };
    f(b) == f(a)
}

/// (class suffix, text) for every way the accepted command did not do exactly what it says
pub fn check_accepted(req: &Request, before: &ConfigState, after: &ConfigState) -> Vec<(String, String)> {
    let mut v = vec![];
    let (ob, oa) = (objects(before), objects(after));
    let names = named(req, before);
    for k in changed(&ob, &oa) {
        if !names.contains(&k) {
            v.push((
                "frame".to_string(),
                format!(
                    "accepted {} changed an object it does not name: {k} (map {}): {} -> {}",
                    req.short_name(),
                    map_of(&k),
                    short(ob.get(&k).map(|s| s.as_str()).unwrap_or("absent")),
                    short(oa.get(&k).map(|s| s.as_str()).unwrap_or("absent"))
                ),
            ));
        }
    }
    let mut post = |ok: bool, what: &str| {
        if !ok {
            v.push(("post".to_string(), format!("accepted {}: {what}", req.short_name())));
        }
    };
    let Some(rt) = &req.request_type else { return v };
    match rt {
        RequestType::AddCluster(c) => post(after.clusters.get(&c.cluster_id) == Some(c), "the stored cluster is not the one given"),
        RequestType::RemoveCluster(id) => {
            post(before.clusters.contains_key(id), "removal accepted although the cluster did not exist");
            post(!after.clusters.contains_key(id), "the cluster is still there");
        }
        RequestType::SetHealthCheck(h) => {
            let want = before.clusters.get(&h.cluster_id).map(|c| {
                let mut c = c.clone();
                c.health_check = Some(h.config.clone());
                c
            });
            post(want.is_some() && after.clusters.get(&h.cluster_id) == want.as_ref(), "cluster is not (old cluster with the new health check)");
        }
        RequestType::RemoveHealthCheck(id) => {
            let want = before.clusters.get(id).map(|c| {
                let mut c = c.clone();
                c.health_check = None;
                c
            });
            post(want.is_some() && after.clusters.get(id) == want.as_ref(), "cluster is not (old cluster without health check)");
        }
        RequestType::AddHttpListener(l) => {
            let a: SocketAddr = l.address.into();
            post(!before.http_listeners.contains_key(&a), "accepted although a listener existed at the address");
            post(after.http_listeners.get(&a) == Some(l), "the stored listener is not the one given");
        }
        RequestType::AddHttpsListener(l) => {
            let a: SocketAddr = l.address.into();
            post(!before.https_listeners.contains_key(&a), "accepted although a listener existed at the address");
            post(after.https_listeners.get(&a) == Some(l), "the stored listener is not the one given");
        }
        RequestType::AddTcpListener(l) => {
            let a: SocketAddr = l.address.into();
            post(!before.tcp_listeners.contains_key(&a), "accepted although a listener existed at the address");
            post(after.tcp_listeners.get(&a) == Some(l), "the stored listener is not the one given");
        }
        RequestType::AddUdpListener(l) => {
            let a: SocketAddr = l.address.into();
            post(!before.udp_listeners.contains_key(&a), "accepted although a listener existed at the address");
            post(after.udp_listeners.get(&a) == Some(l), "the stored listener is not the one given");
        }
        RequestType::RemoveListener(r) => {
            let a: SocketAddr = r.address.into();
            let (was, is) = match ListenerType::try_from(r.proxy) {
                Ok(ListenerType::Http) => (before.http_listeners.contains_key(&a), after.http_listeners.contains_key(&a)),
                Ok(ListenerType::Https) => (before.https_listeners.contains_key(&a), after.https_listeners.contains_key(&a)),
                Ok(ListenerType::Tcp) => (before.tcp_listeners.contains_key(&a), after.tcp_listeners.contains_key(&a)),
                Ok(ListenerType::Udp) => (before.udp_listeners.contains_key(&a), after.udp_listeners.contains_key(&a)),
                Err(_) => (false, true),
            };
            post(was, "removal accepted although no such listener existed");
            post(!is, "the listener is still there");
        }
        RequestType::ActivateListener(_) | RequestType::DeactivateListener(_) => {
            let (proxy, a, want): (i32, SocketAddr, bool) = match rt {
                RequestType::ActivateListener(r) => (r.proxy, r.address.into(), true),
                RequestType::DeactivateListener(r) => (r.proxy, r.address.into(), false),
                _ => unreachable!(),
            };
            let ok = match ListenerType::try_from(proxy) {
                Ok(ListenerType::Http) => before.http_listeners.get(&a).map(|l| {
                    let mut l = l.clone();
                    l.active = want;
                    Some(&l) == after.http_listeners.get(&a)
                }),
                Ok(ListenerType::Https) => before.https_listeners.get(&a).map(|l| {
                    let mut l = l.clone();
                    l.active = want;
                    Some(&l) == after.https_listeners.get(&a)
                }),
                Ok(ListenerType::Tcp) => before.tcp_listeners.get(&a).map(|l| {
                    let mut l = *l;
                    l.active = want;
                    Some(&l) == after.tcp_listeners.get(&a)
                }),
                Ok(ListenerType::Udp) => before.udp_listeners.get(&a).map(|l| {
                    let mut l = *l;
                    l.active = want;
                    Some(&l) == after.udp_listeners.get(&a)
                }),
                Err(_) => None,
            };
            post(ok == Some(true), "listener is not (old listener with the requested activation)");
        }
        RequestType::UpdateHttpListener(p) => {
            let a: SocketAddr = p.address.into();
            let want = before.http_listeners.get(&a).map(|l| expect_http(l, p));
            let but_answers = want.clone().zip(before.http_listeners.get(&a)).map(|(mut w, b)| {
                w.answers = b.answers.clone();
                w
            });
            if want.is_some() && after.http_listeners.get(&a) != want.as_ref() && after.http_listeners.get(&a) == but_answers.as_ref() {
                post(false, "the `answers` map of the patch is not recorded in the listener (every other field is)");
            } else {
                post(want.is_some() && after.http_listeners.get(&a) == want.as_ref(), "listener is not (old listener with exactly the fields of the patch replaced)");
            }
        }
        RequestType::UpdateHttpsListener(p) => {
            let a: SocketAddr = p.address.into();
            let want = before.https_listeners.get(&a).map(|l| expect_https(l, p));
            let but_answers = want.clone().zip(before.https_listeners.get(&a)).map(|(mut w, b)| {
                w.answers = b.answers.clone();
                w
            });
            if want.is_some() && after.https_listeners.get(&a) != want.as_ref() && after.https_listeners.get(&a) == but_answers.as_ref() {
                post(false, "the `answers` map of the patch is not recorded in the listener (every other field is)");
            } else {
                post(want.is_some() && after.https_listeners.get(&a) == want.as_ref(), "listener is not (old listener with exactly the fields of the patch replaced)");
            }
        }
        RequestType::UpdateTcpListener(p) => {
            let a: SocketAddr = p.address.into();
            let want = before.tcp_listeners.get(&a).map(|l| expect_tcp(l, p));
            post(want.is_some() && after.tcp_listeners.get(&a) == want.as_ref(), "listener is not (old listener with exactly the fields of the patch replaced)");
        }
        RequestType::UpdateUdpListener(p) => {
            let a: SocketAddr = p.address.into();
            let want = before.udp_listeners.get(&a).map(|l| expect_udp(l, p));
            post(want.is_some() && after.udp_listeners.get(&a) == want.as_ref(), "listener is not (old listener with exactly the fields of the patch replaced)");
        }
        RequestType::AddHttpFrontend(f) | RequestType::AddHttpsFrontend(f) => {
            let (mb, ma) = if matches!(rt, RequestType::AddHttpFrontend(_)) { (&before.http_fronts, &after.http_fronts) } else { (&before.https_fronts, &after.https_fronts) };
            let key = f.to_string();
            post(!mb.contains_key(&key), "accepted although the route existed");
            post(ma.get(&key).map(|x| RequestHttpFrontend::from(x.clone())) == Some(f.clone()), "the stored frontend is not the one given");
        }
        RequestType::RemoveHttpFrontend(f) | RequestType::RemoveHttpsFrontend(f) => {
            let (mb, ma) = if matches!(rt, RequestType::RemoveHttpFrontend(_)) { (&before.http_fronts, &after.http_fronts) } else { (&before.https_fronts, &after.https_fronts) };
            let key = f.to_string();
            post(mb.contains_key(&key), "removal accepted although the route did not exist");
            post(!ma.contains_key(&key), "the route is still there");
        }
        RequestType::AddTcpFrontend(f) => {
            let new = TcpFrontend { cluster_id: f.cluster_id.clone(), address: f.address.into(), tags: f.tags.clone() };
            let mut want = before.tcp_fronts.get(&f.cluster_id).cloned().unwrap_or_default();
            post(!want.iter().any(|x| x.address == new.address), "accepted although the cluster had a frontend at that address");
            post(!before.tcp_fronts.iter().any(|(c, v)| *c != f.cluster_id && v.iter().any(|x| x.address == new.address)), "accepted although the address is bound to another cluster");
            want.push(new);
            post(after.tcp_fronts.get(&f.cluster_id) == Some(&want), "bucket is not (old bucket followed by the new frontend)");
        }
        RequestType::AddUdpFrontend(f) => {
            let new = UdpFrontend { cluster_id: f.cluster_id.clone(), address: f.address.into(), tags: f.tags.clone() };
            let mut want = before.udp_fronts.get(&f.cluster_id).cloned().unwrap_or_default();
            post(!want.iter().any(|x| x.address == new.address), "accepted although the cluster had a frontend at that address");
            post(!before.udp_fronts.iter().any(|(c, v)| *c != f.cluster_id && v.iter().any(|x| x.address == new.address)), "accepted although the address is bound to another cluster");
            want.push(new);
            post(after.udp_fronts.get(&f.cluster_id) == Some(&want), "bucket is not (old bucket followed by the new frontend)");
        }
        RequestType::RemoveTcpFrontend(f) => {
            let a: SocketAddr = f.address.into();
            let old = before.tcp_fronts.get(&f.cluster_id).cloned().unwrap_or_default();
            let want: Vec<TcpFrontend> = old.iter().filter(|x| x.address != a).cloned().collect();
            post(want.len() < old.len(), "removal accepted although no frontend of the cluster had that address");
            post(after.tcp_fronts.get(&f.cluster_id) == Some(&want), "bucket is not (old bucket without the frontends at that address)");
        }
        RequestType::RemoveUdpFrontend(f) => {
            let a: SocketAddr = f.address.into();
            let old = before.udp_fronts.get(&f.cluster_id).cloned().unwrap_or_default();
            let want: Vec<UdpFrontend> = old.iter().filter(|x| x.address != a).cloned().collect();
            post(want.len() < old.len(), "removal accepted although no frontend of the cluster had that address");
            post(after.udp_fronts.get(&f.cluster_id) == Some(&want), "bucket is not (old bucket without the frontends at that address)");
        }
        RequestType::AddBackend(b) => {
            let a: SocketAddr = b.address.into();
            let old = before.backends.get(&b.cluster_id).cloned().unwrap_or_default();
            let new = after.backends.get(&b.cluster_id).cloned().unwrap_or_default();
            let mine: Vec<&Backend> = new.iter().filter(|x| x.backend_id == b.backend_id && x.address == a).collect();
            post(
                mine.len() == 1
                    && mine[0].cluster_id == b.cluster_id
                    && mine[0].sticky_id == b.sticky_id
                    && mine[0].load_balancing_parameters == b.load_balancing_parameters
                    && mine[0].backup == b.backup,
                "the bucket does not hold exactly one backend (id, address) equal to the one given",
            );
            post(same_backends_except(&old, &new, &b.backend_id, a), "another backend of the cluster changed");
        }
        RequestType::RemoveBackend(b) => {
            let a: SocketAddr = b.address.into();
            let old = before.backends.get(&b.cluster_id).cloned().unwrap_or_default();
            let new = after.backends.get(&b.cluster_id).cloned().unwrap_or_default();
            post(old.iter().any(|x| x.backend_id == b.backend_id && x.address == a), "removal accepted although no backend with that (id, address) existed");
            post(!new.iter().any(|x| x.backend_id == b.backend_id && x.address == a), "the backend is still there");
            post(same_backends_except(&old, &new, &b.backend_id, a), "another backend of the cluster changed");
        }
        RequestType::AddCertificate(c) => {
            let a: SocketAddr = c.address.into();
            match new_fingerprint(&c.certificate) {
                None => post(false, "accepted although the certificate has no fingerprint"),
                Some(fp) => {
                    let was = before.certificates.get(&a).and_then(|m| m.get(&fp));
                    let is = after.certificates.get(&a).and_then(|m| m.get(&fp));
                    match (was, is) {
                        (Some(w), Some(i)) => post(w == i, "a certificate already present under the fingerprint was modified"),
                        (None, Some(i)) => {
                            let mut want = c.certificate.clone();
                            post(want.apply_overriding_names().is_ok() && *i == want, "the stored certificate is not the one given with its names resolved");
                            post(after.certificate_expirations.get(&a).and_then(|m| m.get(&fp)).copied() == c.expired_at, "the expiration override given with the certificate (expired_at) is not the one recorded");
                        }
                        (_, None) => post(false, "the certificate is not in the state"),
                    }
                }
            }
        }
        RequestType::RemoveCertificate(c) => {
            let a: SocketAddr = c.address.into();
            let gone = after.certificates.get(&a).map(|m| !m.keys().any(|k| k.to_string() == c.fingerprint.to_lowercase())).unwrap_or(true);
            post(gone, "the certificate is still there");
            let no_override = after.certificate_expirations.get(&a).map(|m| !m.keys().any(|k| k.to_string() == c.fingerprint.to_lowercase())).unwrap_or(true);
            post(no_override, "the expiration override of the removed certificate is still there");
        }
        RequestType::ReplaceCertificate(c) => {
            let a: SocketAddr = c.address.into();
            match new_fingerprint(&c.new_certificate) {
                None => post(false, "accepted although the new certificate has no fingerprint"),
                Some(fp) => {
                    let mut want = c.new_certificate.clone();
                    let is = after.certificates.get(&a).and_then(|m| m.get(&fp));
                    post(want.apply_overriding_names().is_ok() && is == Some(&want), "the new certificate is not stored with its names resolved");
                    let old_gone = fp.to_string() == c.old_fingerprint.to_lowercase()
                        || after.certificates.get(&a).map(|m| !m.keys().any(|k| k.to_string() == c.old_fingerprint.to_lowercase())).unwrap_or(true);
                    post(old_gone, "the old certificate is still there");
                    post(after.certificate_expirations.get(&a).and_then(|m| m.get(&fp)).copied() == c.new_expired_at, "the expiration override given with the new certificate (new_expired_at) is not the one recorded");
                    post(before.certificates.contains_key(&a), "accepted although the address had no certificate bucket");
                }
            }
        }
        _ => post(changed(&ob, &oa).is_empty(), "a verb that does not concern the configuration changed it"),
    }
    // standing invariant the handlers maintain: backend buckets are sorted and unique on (id, address)
    for (k, b) in &after.backends {
        if !b.windows(2).all(|w| w[0] <= w[1]) {
            v.push(("inv".to_string(), format!("after accepted {} the backends of {k} are not sorted", req.short_name())));
        }
        let ks: BTreeSet<(&String, SocketAddr)> = b.iter().map(|x| (&x.backend_id, x.address)).collect();
        if ks.len() != b.len() {
            v.push(("inv".to_string(), format!("after accepted {} the backends of {k} are not unique on (id, address)", req.short_name())));
        }
    }
    v
}

/// a rejected command must change nothing: one line per changed object, grouped by map
pub fn check_rejected(req: &Request, before: &ConfigState, after: &ConfigState) -> Vec<String> {
    let (ob, oa) = (objects(before), objects(after));
    let mut per_map: BTreeMap<&str, Vec<String>> = BTreeMap::new();
    for k in changed(&ob, &oa) {
        per_map.entry(map_of(&k)).or_default().push(format!(
            "{k}: {} -> {}",
            short(ob.get(&k).map(|s| s.as_str()).unwrap_or("absent")),
            short(oa.get(&k).map(|s| s.as_str()).unwrap_or("absent"))
        ));
    }
    // whole-map comparison as a backstop (anything `objects` would not show)
    macro_rules! whole {
        ($f:ident) => {
            if before.$f != after.$f && !per_map.contains_key(stringify!($f)) {
                per_map.entry(stringify!($f)).or_default().push("map differs".to_string());
            }
        };
    }
    whole!(clusters);
    whole!(backends);
    whole!(http_listeners);
    whole!(https_listeners);
    whole!(tcp_listeners);
    whole!(udp_listeners);
    whole!(http_fronts);
    whole!(https_fronts);
    whole!(tcp_fronts);
    whole!(udp_fronts);
    whole!(certificates);
    whole!(certificate_expirations);
    per_map.into_iter().map(|(m, ch)| format!("{} rejected but map {m} changed: {}", req.short_name(), ch.join("; "))).collect()
}
