"""Helpers of the C04 / C17 translators: read facts of the Rust source by meaning.

A fact is read at the place(s) where it lives:
  * `locate` finds the construct (a call, a statement head) inside a scope (a function body, or the file);
  * `ok` are the forms of that construct that say what the model says (locals are free: W);
  * every located site must carry an ok form (`expect` of them at least): a construct that is FOUND but reads
    otherwise is a HARD failure; a construct that is not found at all is `unreadable:` -- soft only when the
    fact is declared soft (its change is observed by the correspondence run, and that was tested), else hard.
"""
import re

W = r"[A-Za-z_][A-Za-z0-9_]*"


def strip(src):
    src = re.sub(r"/\*.*?\*/", "", src, flags=re.S)
    return re.sub(r"//[^\n]*", "", src)


def fn_body(src, name):
    """text of `fn <name>(...) ... { body }` (brace matched), or None"""
    m = re.search(r"\bfn\s+%s\s*(<[^>]*>)?\s*\(" % re.escape(name), src)
    if not m:
        return None
    i = src.find("{", m.end())
    depth, j = 0, i
    while 0 <= i and j < len(src):
        if src[j] == "{":
            depth += 1
        elif src[j] == "}":
            depth -= 1
            if depth == 0:
                return src[i + 1:j]
        j += 1
    return None


def fact(fails, scope, where, what, locate, ok, expect=1, soft=False):
    """see module doc; patterns may use %(W)s"""
    sub = dict(W=W)
    if scope is None:
        fails.append(("unreadable: " if soft else "") + "%s: function not found; the model assumes: %s" % (where, what))
        return
    nloc = len(re.findall(locate % sub, scope, re.S))
    if nloc == 0:
        fails.append(("unreadable: " if soft else "") + "%s: construct /%s/ not found; the model assumes: %s" % (where, locate % sub, what))
        return
    nok = max(len(re.findall(o % sub, scope, re.S)) for o in ok) if len(ok) == 1 else sum(len(re.findall(o % sub, scope, re.S)) for o in ok)
    if nok < expect:
        fails.append("%s: %s -- the construct is there (%d site(s)) but only %d of the expected %d read that way" % (where, what, nloc, nok, expect))


def conjuncts(scope, anchor):
    """the `&&`-conjuncts of the `if` condition that contains `anchor` (a literal), with one level of
    `let x = <expr>;` bindings of the same scope substituted; list of sets (one per site)"""
    out = []
    for m in re.finditer(r"\bif\s+([^{};]*?%s[^{};]*?)\{" % re.escape(anchor), scope, re.S):
        parts = [re.sub(r"\s+", "", p) for p in m.group(1).split("&&")]
        res = set()
        for p in parts:
            b = re.search(r"\blet\s+%s\s*=\s*([^;]+);" % re.escape(p), scope) if re.fullmatch(W, p) else None
            res.add(re.sub(r"\s+", "", b.group(1)) if b else p)
        out.append(res)
    return out
