//! C02 black-box tier: a real worker (own thread), one cluster + scripted raw
//! HTTP/1 backend per scenario, a raw HTTP/1 client per scenario that waits
//! with a deadline for every request. All scenarios run concurrently on
//! separate clusters/connections; nothing is synchronised by sleeping: every
//! wait is a blocking read with a deadline.
//!
//! input  (argv[1]): lines `scn <id> <kind> <k>`
//! output: `res <id> <req> status=<n> complete=<0|1> eof=<0|1> hang=<0|1> body=<len> extra=<len> ms=<t>`
use std::{
    io::{Read, Write},
    net::{Shutdown, SocketAddr, TcpListener, TcpStream},
    os::fd::IntoRawFd,
    os::unix::net::UnixStream,
    time::{Duration, Instant},
};

use sozu_command_lib::{
    channel::Channel,
    config::{ConfigBuilder, FileConfig, ListenerBuilder},
    proto::command::{
        request::RequestType, ActivateListener, AddBackend, Cluster, ListenerType, LoadBalancingParams, PathRule,
        Request, RequestHttpFrontend, RulePosition, ServerConfig, SocketAddress, WorkerRequest, WorkerResponse,
    },
    scm_socket::{Listeners, ScmSocket},
    state::ConfigState,
};
use sozu_lib::server::Server;

const HEAD_CL: &str = "HTTP/1.1 200 OK\r\nContent-Length: 20\r\nX-Test: abcdefgh\r\n\r\n";
const HEAD_CH: &str = "HTTP/1.1 200 OK\r\nTransfer-Encoding: chunked\r\n\r\n";
const HEAD_CD: &str = "HTTP/1.1 200 OK\r\nConnection: close\r\n\r\n";
const HEAD_CLC: &str = "HTTP/1.1 200 OK\r\nContent-Length: 20\r\nConnection: close\r\n\r\n";
const BODY: &str = "0123456789abcdefghij";
const CHUNKED_BODY: &str = "a\r\n0123456789\r\na\r\nabcdefghij\r\n0\r\n\r\n";
const DEADLINE: Duration = Duration::from_secs(8);

#[derive(Clone)]
struct Scn {
    id: String,
    kind: String,
    k: usize,
}

struct Worker {
    channel: Channel<WorkerRequest, WorkerResponse>,
    n: usize,
}

impl Worker {
    fn send(&mut self, r: RequestType) {
        self.n += 1;
        self.channel
            .write_message(&WorkerRequest { id: format!("ID-{}", self.n), content: Request { request_type: Some(r) } })
            .expect("write to worker");
    }
    /// waits until the worker has answered every request sent so far
    fn drain(&mut self) {
        let mut done = 0;
        while done < self.n {
            match self.channel.read_message() {
                Ok(resp) => {
                    // 0 = Ok, 1 = Processing, 2 = Failure
                    if resp.status != 1 {
                        done += 1;
                    }
                    if resp.status == 2 {
                        eprintln!("worker refused {}: {}", resp.id, resp.message);
                    }
                }
                Err(e) => panic!("worker channel: {e}"),
            }
        }
    }
}

fn start_worker() -> Worker {
    let config = ConfigBuilder::new(FileConfig::default(), "").into_config().expect("config");
    let sc = ServerConfig::from(&config);
    let (mut main_ch, worker_ch): (Channel<WorkerRequest, WorkerResponse>, Channel<WorkerResponse, WorkerRequest>) =
        Channel::generate(sc.command_buffer_size, sc.max_command_buffer_size).expect("channel");
    let (s1, s2) = UnixStream::pair().unwrap();
    let scm_main = ScmSocket::new(s1.into_raw_fd()).expect("scm");
    let scm_worker = ScmSocket::new(s2.into_raw_fd()).expect("scm");
    scm_main.send_listeners(&Listeners::default()).expect("send listeners");
    std::thread::spawn(move || {
        let level = std::env::var("BB_LOG").unwrap_or_default();
        if level.is_empty() {
            let _ = sozu_command_lib::logging::setup_logging("file:///dev/null", false, None, None, None, "error", "WRK");
        } else {
            let _ = sozu_command_lib::logging::setup_logging("stderr", false, None, None, None, &level, "WRK");
        }
        let mut server =
            Server::try_new_from_config(worker_ch, scm_worker, sc, ConfigState::new().produce_initial_state(), false).expect("worker");
        server.run();
    });
    main_ch.blocking().expect("blocking");
    Worker { channel: main_ch, n: 0 }
}

/// reads up to the end of the request head; -> number of body bytes already read behind it
fn read_request(s: &mut TcpStream) -> Option<usize> {
    let mut acc: Vec<u8> = vec![];
    let mut buf = [0u8; 4096];
    loop {
        if let Some(p) = acc.windows(4).position(|w| w == b"\r\n\r\n") {
            return Some(acc.len() - p - 4);
        }
        match s.read(&mut buf) {
            Ok(0) | Err(_) => return None,
            Ok(n) => acc.extend_from_slice(&buf[..n]),
        }
    }
}

fn rst_close(s: TcpStream) {
    // SO_LINGER {on, 0}: close sends RST
    let l = libc::linger { l_onoff: 1, l_linger: 0 };
    unsafe {
        use std::os::fd::AsRawFd;
        libc::setsockopt(s.as_raw_fd(), libc::SOL_SOCKET, libc::SO_LINGER, &l as *const _ as *const libc::c_void, std::mem::size_of::<libc::linger>() as u32);
    }
    drop(s);
}

/// keep-alive reuse: every connection answers its FIRST request completely and keeps the
/// connection; the fault (`kind` without the `reuse_` prefix) hits the SECOND request on it
fn reuse_backend(listener: TcpListener, scn: Scn, until: Instant) {
    listener.set_nonblocking(true).unwrap();
    let mut held: Vec<TcpStream> = vec![];
    let full_cl = format!("{HEAD_CL}{BODY}");
    while Instant::now() < until {
        let (mut s, _) = match listener.accept() {
            Ok(x) => x,
            Err(_) => {
                std::thread::sleep(Duration::from_millis(5));
                continue;
            }
        };
        s.set_nonblocking(false).unwrap();
        s.set_read_timeout(Some(Duration::from_secs(10))).unwrap();
        let _ = s.set_nodelay(true);
        if read_request(&mut s).is_none() {
            continue;
        }
        let _ = s.write_all(full_cl.as_bytes());
        let _ = s.flush();
        if read_request(&mut s).is_none() {
            continue;
        }
        let k = scn.k.min(full_cl.len());
        match scn.kind.as_str() {
            "reuse_stall" => held.push(s),
            "reuse_stall_after" => {
                let _ = s.write_all(&full_cl.as_bytes()[..k]);
                held.push(s);
            }
            "reuse_reset_at" => {
                let _ = s.write_all(&full_cl.as_bytes()[..k]);
                let _ = s.flush();
                rst_close(s);
            }
            _ => {
                let _ = s.write_all(&full_cl.as_bytes()[..k]);
                let _ = s.flush();
                let _ = s.shutdown(Shutdown::Both);
            }
        }
    }
}

/// `abort_then_next`: a request for /big gets the head of a 100000-byte response and 30000 bytes of it,
/// then the backend keeps the connection; any other request is answered 200 "second" — after the rest
/// of an unfinished response if this connection still owes one (what a server does)
fn abort_backend(listener: TcpListener) {
    for s in listener.incoming() {
        let Ok(mut s) = s else { continue };
        std::thread::spawn(move || {
            let _ = s.set_read_timeout(Some(Duration::from_secs(12)));
            let mut owed = 0usize;
            loop {
                let mut acc: Vec<u8> = vec![];
                let mut buf = [0u8; 4096];
                let head = loop {
                    if let Some(p) = acc.windows(4).position(|w| w == b"\r\n\r\n") {
                        break Some(String::from_utf8_lossy(&acc[..p]).to_string());
                    }
                    match s.read(&mut buf) {
                        Ok(0) | Err(_) => break None,
                        Ok(n) => acc.extend_from_slice(&buf[..n]),
                    }
                };
                let Some(head) = head else { return };
                if owed > 0 {
                    let _ = s.write_all(&vec![b'T'; owed]);
                    owed = 0;
                }
                if head.starts_with("GET /big") {
                    let _ = s.write_all(b"HTTP/1.1 200 OK\r\nContent-Length: 100000\r\n\r\n");
                    let _ = s.write_all(&vec![b'1'; 30000]);
                    owed = 70000;
                } else if s.write_all(b"HTTP/1.1 200 OK\r\nContent-Length: 6\r\n\r\nsecond").is_err() {
                    return;
                }
            }
        });
    }
}

/// scripted backend: serves connections until `until`
fn backend(listener: TcpListener, scn: Scn, until: Instant) {
    listener.set_nonblocking(true).unwrap();
    let mut served = 0usize;
    let mut held: Vec<TcpStream> = vec![];
    while Instant::now() < until {
        let (mut s, _) = match listener.accept() {
            Ok(x) => x,
            Err(_) => {
                std::thread::sleep(Duration::from_millis(5));
                continue;
            }
        };
        s.set_nonblocking(false).unwrap();
        s.set_read_timeout(Some(Duration::from_secs(10))).unwrap();
        let _ = s.set_nodelay(true);
        served += 1;
        let Some(body_seen) = read_request(&mut s) else { continue };
        let full_cl = format!("{HEAD_CL}{BODY}");
        let full_ch = format!("{HEAD_CH}{CHUNKED_BODY}");
        let full_cd = format!("{HEAD_CD}{BODY}");
        let full_clc = format!("{HEAD_CLC}{BODY}");
        match scn.kind.as_str() {
            "close_at" | "reset_at" | "stall_after" | "chunked_close_at" | "close_delim_at" | "cl_close_at" => {
                let full = match scn.kind.as_str() {
                    "chunked_close_at" => &full_ch,
                    "cl_close_at" => &full_clc,
                    "close_delim_at" => &full_cd,
                    _ => &full_cl,
                };
                let k = scn.k.min(full.len());
                let _ = s.write_all(&full.as_bytes()[..k]);
                let _ = s.flush();
                match scn.kind.as_str() {
                    "reset_at" => rst_close(s),
                    "stall_after" => held.push(s),
                    _ => {
                        if k == full.len() && scn.kind == "close_at" {
                            // complete keep-alive response: leave the connection to the proxy
                            held.push(s);
                        } else {
                            let _ = s.shutdown(Shutdown::Both);
                        }
                    }
                }
            }
            "stall" => held.push(s),
            "garbage" => {
                let _ = s.write_all(b"\x00\x01GARBAGE NOT HTTP\r\n\r\n\xff\xfe");
                held.push(s);
            }
            "continue_then_close" => {
                // an interim 100, then the backend dies before any final response
                if scn.k == 2 {
                    // the interim response and the first bytes of the final head in ONE segment, then death
                    let _ = s.write_all(b"HTTP/1.1 100 Continue\r\n\r\nHTTP/1.1 200 OK\r\nConte");
                } else {
                    let _ = s.write_all(b"HTTP/1.1 100 Continue\r\n\r\n");
                }
                let _ = s.flush();
                if scn.k == 1 {
                    // die at once, the interim response and the FIN travel together
                    let _ = s.shutdown(Shutdown::Both);
                    continue;
                }
                // let the proxy relay the interim response first: wait for the rest of the body
                let mut got = body_seen;
                let mut buf = [0u8; 4096];
                let _ = s.set_read_timeout(Some(Duration::from_secs(3)));
                while got < 64 {
                    match s.read(&mut buf) {
                        Ok(0) | Err(_) => break,
                        Ok(n) => got += n,
                    }
                }
                let _ = s.shutdown(Shutdown::Both);
            }
            "upgrade_then_close" => {
                // 101, then the backend dies before any tunnelled byte
                let _ = s.write_all(b"HTTP/1.1 101 Switching Protocols\r\nConnection: Upgrade\r\nUpgrade: websocket\r\n\r\n");
                let _ = s.flush();
                let _ = s.shutdown(Shutdown::Both);
            }
            "two_finals" => {
                // two complete responses for ONE request on a keep-alive connection; the same
                // connection then answers the next request properly
                let stale = format!("HTTP/1.1 200 OK\r\nContent-Length: 20\r\n\r\nSTALE-STALE-STALE-ST");
                let _ = s.write_all(format!("{full_cl}{stale}").as_bytes());
                let _ = s.flush();
                if read_request(&mut s).is_some() {
                    let _ = s.write_all(b"HTTP/1.1 200 OK\r\nContent-Length: 20\r\n\r\nBBBBBBBBBBBBBBBBBBBB");
                }
                held.push(s);
            }
            "early_response" => {
                // answer right after the request head, without waiting for the body
                let _ = s.write_all(full_cl.as_bytes());
                held.push(s);
            }
            "continue100" | "expect100" | "hints103" | "processing102" => {
                let interim = if scn.kind == "processing102" { "HTTP/1.1 102 Processing\r\n\r\n" } else if scn.kind == "hints103" { "HTTP/1.1 103 Early Hints\r\nLink: </s.css>; rel=preload\r\n\r\n" } else { "HTTP/1.1 100 Continue\r\n\r\n" };
                let _ = s.write_all(interim.as_bytes());
                let _ = s.flush();
                // then the whole request body, then the final answer
                let mut got = body_seen;
                let mut buf = [0u8; 4096];
                let _ = s.set_read_timeout(Some(Duration::from_secs(3)));
                while got < 64 {
                    match s.read(&mut buf) {
                        Ok(0) | Err(_) => break,
                        Ok(n) => got += n,
                    }
                }
                let _ = s.write_all(full_cl.as_bytes());
                held.push(s);
            }
            "burst103" | "burst100" => {
                // ONE segment: the interim response, the complete final response (k = 0: close-delimited,
                // k = 1: Content-Length) and the FIN
                let interim = if scn.kind == "burst103" { "HTTP/1.1 103 Early Hints\r\nLink: </s.css>; rel=preload\r\n\r\n" } else { "HTTP/1.1 100 Continue\r\n\r\n" };
                let fin = if scn.k == 0 { &full_cd } else { &full_cl };
                let _ = s.write_all(format!("{interim}{fin}").as_bytes());
                let _ = s.flush();
                let _ = s.shutdown(Shutdown::Both);
            }
            "cl_close_twice" => {
                // e2e test_keep_alive shape: a complete Content-Length response carrying
                // "Connection: close", then the backend closes ITS connection
                let _ = s.write_all(full_clc.as_bytes());
                let _ = s.flush();
                let _ = s.shutdown(Shutdown::Both);
            }
            "keepalive_close" => {
                // answer one request completely, then close the connection between requests
                let _ = s.write_all(full_cl.as_bytes());
                let _ = s.flush();
                // wait for the proxy to have relayed it: the client acknowledges by sending its
                // next request, which can only reach us on a NEW connection once this one is closed
                let _ = s.shutdown(Shutdown::Both);
            }
            _ => {
                let _ = s.write_all(full_cl.as_bytes());
                held.push(s);
            }
        }
        let _ = served;
    }
}

struct Resp {
    status: u32,
    complete: bool,
    eof: bool,
    hang: bool,
    body: usize,
    extra: usize,
    ms: u128,
    b0: u8,
    emb: bool,
}

/// reads one response with a deadline; `acc` carries bytes over between requests
fn read_response(s: &mut TcpStream, acc: &mut Vec<u8>, settle: bool) -> Resp {
    let t0 = Instant::now();
    let mut eof = false;
    let mut buf = [0u8; 8192];
    s.set_read_timeout(Some(Duration::from_millis(50))).unwrap();
    let mut done_at: Option<Instant> = None;
    loop {
        // parse what we have
        let mut status = 0u32;
        let mut complete = false;
        let mut body = 0usize;
        let mut used = 0usize;
        if let Some(pos) = acc.windows(4).position(|w| w == b"\r\n\r\n") {
            let head = String::from_utf8_lossy(&acc[..pos]).to_string();
            let mut lines = head.split("\r\n");
            let sl = lines.next().unwrap_or("");
            if sl.starts_with("HTTP/1.") && sl.len() >= 12 {
                status = sl[9..12].parse().unwrap_or(0);
            }
            let mut cl: Option<usize> = None;
            let mut chunked = false;
            for l in lines {
                let low = l.to_ascii_lowercase();
                if let Some(v) = low.strip_prefix("content-length:") {
                    cl = v.trim().parse().ok();
                }
                if low.starts_with("transfer-encoding:") && low.contains("chunked") {
                    chunked = true;
                }
            }
            let rest = &acc[pos + 4..];
            if status / 100 == 1 || status == 204 || status == 304 {
                // no body by definition
                complete = true;
                used = pos + 4;
            } else if chunked {
                // strict chunk reader
                let mut i = 0usize;
                loop {
                    let Some(e) = rest[i..].windows(2).position(|w| w == b"\r\n") else { break };
                    let Ok(sz) = usize::from_str_radix(String::from_utf8_lossy(&rest[i..i + e]).trim(), 16) else { break };
                    let start = i + e + 2;
                    if sz == 0 {
                        if rest.len() >= start + 2 && &rest[start..start + 2] == b"\r\n" {
                            complete = true;
                            used = pos + 4 + start + 2;
                        }
                        break;
                    }
                    if rest.len() < start + sz + 2 {
                        body += rest.len().saturating_sub(start).min(sz);
                        break;
                    }
                    body += sz;
                    i = start + sz + 2;
                }
            } else if let Some(n) = cl {
                body = rest.len().min(n);
                if rest.len() >= n {
                    complete = true;
                    used = pos + 4 + n;
                }
            } else {
                // close-delimited: complete at EOF
                body = rest.len();
                if eof {
                    complete = true;
                    used = acc.len();
                }
            }
        }
        let hang = t0.elapsed() >= DEADLINE;
        if complete && done_at.is_none() {
            done_at = Some(Instant::now());
        }
        // after a complete response keep listening a little for bytes that must not come
        let settled = match done_at {
            Some(t) => !settle || eof || t.elapsed() >= Duration::from_millis(150),
            None => false,
        };
        if settled || eof || hang {
            let extra = if complete { acc.len() - used } else { 0 };
            if std::env::var("BB_DUMP").is_ok() {
                eprintln!("DUMP {:?}", String::from_utf8_lossy(acc));
            }
            let b0 = acc.windows(4).position(|w| w == b"\r\n\r\n").and_then(|p| acc.get(p + 4).copied()).unwrap_or(0);
            // a status line inside what the client takes for the body: answer bytes appended to a started response
            let emb = acc.windows(4).position(|w| w == b"\r\n\r\n").map_or(false, |p| {
                acc[p + 4..].windows(12).any(|w| &w[..9] == b"HTTP/1.1 " && w[9..12].iter().all(|c| c.is_ascii_digit()))
            }) && status / 100 != 1;
            let r = Resp { status, complete, eof, hang: hang && !complete && !eof, body, extra, ms: t0.elapsed().as_millis(), b0, emb };
            if complete {
                acc.drain(..used);
            }
            return r;
        }
        match s.read(&mut buf) {
            Ok(0) => eof = true,
            Ok(n) => acc.extend_from_slice(&buf[..n]),
            Err(e) if e.kind() == std::io::ErrorKind::WouldBlock || e.kind() == std::io::ErrorKind::TimedOut => {}
            Err(_) => eof = true,
        }
    }
}

fn client(front: SocketAddr, scn: Scn) -> Vec<Resp> {
    let mut out = vec![];
    let Ok(mut s) = TcpStream::connect(front) else { return out };
    let _ = s.set_nodelay(true);
    let host = format!("s{}.test", scn.id);
    let req = format!("GET /x HTTP/1.1\r\nHost: {host}\r\nUser-Agent: verif\r\n\r\n");
    let mut acc = vec![];
    match scn.kind.as_str() {
        "slow_client" => {
            // half a request, then silence: the proxy owes a 408
            let _ = s.write_all(&req.as_bytes()[..req.len() - 6]);
            out.push(read_response(&mut s, &mut acc, true));
        }
        "upgrade_then_close" => {
            let r = format!("GET /ws HTTP/1.1\r\nHost: {host}\r\nConnection: Upgrade\r\nUpgrade: websocket\r\n\r\n");
            let _ = s.write_all(r.as_bytes());
            out.push(read_response(&mut s, &mut acc, false));
            // after the 101 the tunnel must end (EOF) since the backend is gone: wait for it
            let t0 = Instant::now();
            let mut buf = [0u8; 256];
            s.set_read_timeout(Some(Duration::from_millis(100))).unwrap();
            let mut eof = false;
            let mut extra = 0usize;
            while t0.elapsed() < DEADLINE {
                match s.read(&mut buf) {
                    Ok(0) => {
                        eof = true;
                        break;
                    }
                    Ok(n) => extra += n,
                    Err(e) if e.kind() == std::io::ErrorKind::WouldBlock || e.kind() == std::io::ErrorKind::TimedOut => {}
                    Err(_) => {
                        eof = true;
                        break;
                    }
                }
            }
            out.push(Resp { status: 0, complete: false, eof, hang: !eof, body: 0, extra, ms: t0.elapsed().as_millis(), b0: 0, emb: false });
        }
        "abort_then_next" => {
            // client 1 starts a big download and goes away in the middle of it
            let r = format!("GET /big HTTP/1.1\r\nHost: {host}\r\n\r\n");
            let _ = s.write_all(r.as_bytes());
            let mut got = 0usize;
            let mut buf = [0u8; 8192];
            s.set_read_timeout(Some(Duration::from_secs(5))).unwrap();
            while got < 10000 {
                match s.read(&mut buf) {
                    Ok(0) | Err(_) => break,
                    Ok(n) => got += n,
                }
            }
            out.push(Resp { status: 200, complete: false, eof: false, hang: false, body: got, extra: 0, ms: 0, b0: 0, emb: false });
            drop(s);
            // the next client (a new connection) asks the same cluster: it must get its own answer
            let Ok(mut s2) = TcpStream::connect(front) else { return out };
            let _ = s2.write_all(req.as_bytes());
            let mut acc2 = vec![];
            out.push(read_response(&mut s2, &mut acc2, true));
            return out;
        }
        "sticky_refusing" => {
            let r = format!("GET /x HTTP/1.1\r\nHost: {host}\r\nCookie: SOZUBALANCEID=sa\r\n\r\n");
            let _ = s.write_all(r.as_bytes());
            out.push(read_response(&mut s, &mut acc, true));
        }
        k if k.starts_with("reuse_") => {
            let _ = s.write_all(req.as_bytes());
            let r1 = read_response(&mut s, &mut acc, false);
            let ok = r1.complete && !r1.eof;
            out.push(r1);
            if ok {
                let _ = s.write_all(req.as_bytes());
                out.push(read_response(&mut s, &mut acc, true));
            }
        }
        "two_finals" => {
            let _ = s.write_all(req.as_bytes());
            let r1 = read_response(&mut s, &mut acc, true);
            let ok = r1.complete && !r1.eof;
            out.push(r1);
            if ok {
                acc.clear();
                let _ = s.write_all(req.as_bytes());
                out.push(read_response(&mut s, &mut acc, true));
            }
        }
        "early_response" | "continue100" | "hints103" | "expect100" | "continue_then_close" | "processing102" => {
            // a request with a 64-byte body sent in two halves; the backend answers after the head
            // (early_response), or sends an interim 100 / 103 first
            let expect = if scn.kind == "expect100" { "Expect: 100-continue\r\n" } else { "" };
            let head = format!("POST /x HTTP/1.1\r\nHost: {host}\r\n{expect}Content-Length: 64\r\n\r\n");
            let body = [b'b'; 64];
            let _ = s.write_all(head.as_bytes());
            let _ = s.write_all(&body[..32]);
            let r1 = read_response(&mut s, &mut acc, false);
            let interim = r1.status / 100 == 1;
            out.push(r1);
            let _ = s.write_all(&body[32..]);
            if interim {
                out.push(read_response(&mut s, &mut acc, true));
            } else {
                // the rest of the body of an already answered request must not produce a second answer
                let mut r2 = read_response(&mut s, &mut acc, true);
                r2.extra = r2.body + if r2.status != 0 { 1 } else { 0 };
                out.push(r2);
            }
        }
        "burst103" | "burst100" => {
            let _ = s.write_all(req.as_bytes());
            let r1 = read_response(&mut s, &mut acc, false);
            let interim = r1.status / 100 == 1;
            out.push(r1);
            if interim {
                out.push(read_response(&mut s, &mut acc, true));
            }
        }
        "keepalive_close" | "cl_close_twice" => {
            let _ = s.write_all(req.as_bytes());
            let r1 = read_response(&mut s, &mut acc, false);
            let ok = r1.complete && !r1.eof;
            out.push(r1);
            if ok {
                let _ = s.write_all(req.as_bytes());
                out.push(read_response(&mut s, &mut acc, true));
            }
        }
        _ => {
            let _ = s.write_all(req.as_bytes());
            out.push(read_response(&mut s, &mut acc, true));
        }
    }
    out
}

fn main() {
    let path = std::env::args().nth(1).expect("usage: c02bb <scenarios>");
    let text = std::fs::read_to_string(path).unwrap();
    let scns: Vec<Scn> = text
        .lines()
        .filter_map(|l| {
            let w: Vec<&str> = l.split_whitespace().collect();
            (w.len() >= 4 && w[0] == "scn").then(|| Scn { id: w[1].into(), kind: w[2].into(), k: w[3].parse().unwrap_or(0) })
        })
        .collect();
    let mut w = start_worker();
    let front: SocketAddr = SocketAddr::from(([127, 0, 0, 1], verif_harness::claim_port()));
    let fa: SocketAddress = front.into();
    let mut lc = ListenerBuilder::new_http(fa.clone()).to_http(None).expect("listener");
    lc.front_timeout = 3;
    lc.request_timeout = 2;
    lc.back_timeout = 1;
    lc.connect_timeout = 1;
    w.send(RequestType::AddHttpListener(lc));
    w.send(RequestType::ActivateListener(ActivateListener { address: fa.clone(), proxy: ListenerType::Http.into(), from_scm: false }));
    let until = Instant::now() + DEADLINE + Duration::from_secs(4);
    let mut backends = vec![];
    for scn in &scns {
        let cid = format!("c{}", scn.id);
        let host = format!("s{}.test", scn.id);
        if scn.kind == "nohost" {
            continue;
        }
        w.send(RequestType::AddCluster(Cluster {
            cluster_id: cid.clone(),
            https_redirect: scn.kind == "redirect",
            sticky_session: scn.kind == "sticky_refusing",
            ..Default::default()
        }));
        w.send(RequestType::AddHttpFrontend(RequestHttpFrontend {
            cluster_id: Some(cid.clone()),
            address: fa.clone(),
            hostname: host,
            path: PathRule::prefix("/".to_string()),
            position: RulePosition::Tree.into(),
            ..Default::default()
        }));
        if scn.kind == "nobackend" {
            continue;
        }
        let l = TcpListener::bind("127.0.0.1:0").unwrap();
        let addr = l.local_addr().unwrap();
        w.send(RequestType::AddBackend(AddBackend {
            cluster_id: cid,
            backend_id: format!("b{}", scn.id),
            address: addr.into(),
            load_balancing_parameters: Some(LoadBalancingParams::default()),
            sticky_id: if scn.kind == "sticky_refusing" { Some("sb".to_string()) } else { None },
            backup: None,
        }));
        if scn.kind == "sticky_refusing" {
            // a second backend of the same cluster that refuses connections; the client's cookie names it
            let dead = TcpListener::bind("127.0.0.1:0").unwrap();
            let dead_addr = dead.local_addr().unwrap();
            drop(dead);
            w.send(RequestType::AddBackend(AddBackend {
                cluster_id: format!("c{}", scn.id),
                backend_id: format!("b{}-dead", scn.id),
                address: dead_addr.into(),
                load_balancing_parameters: Some(LoadBalancingParams::default()),
                sticky_id: Some("sa".to_string()),
                backup: None,
            }));
        }
        if scn.kind == "refuse" {
            drop(l); // nothing listens there any more
        } else {
            let sc = scn.clone();
            if scn.kind == "abort_then_next" {
                backends.push(std::thread::spawn(move || abort_backend(l)));
            } else if scn.kind.starts_with("reuse_") {
                backends.push(std::thread::spawn(move || reuse_backend(l, sc, until)));
            } else {
                backends.push(std::thread::spawn(move || backend(l, sc, until)));
            }
        }
    }
    w.drain();
    let clients: Vec<_> = scns
        .iter()
        .map(|scn| {
            let sc = scn.clone();
            (scn.id.clone(), std::thread::spawn(move || client(front, sc)))
        })
        .collect();
    let stdout = std::io::stdout();
    let mut o = stdout.lock();
    for (id, h) in clients {
        match h.join() {
            Ok(rs) => {
                if rs.is_empty() {
                    writeln!(o, "res {id} 0 status=0 complete=0 eof=1 hang=0 body=0 extra=0 ms=0 noconnect=1").unwrap();
                }
                for (i, r) in rs.iter().enumerate() {
                    writeln!(
                        o,
                        "res {id} {i} status={} complete={} eof={} hang={} body={} extra={} ms={} b0={} emb={}",
                        r.status, r.complete as u8, r.eof as u8, r.hang as u8, r.body, r.extra, r.ms, r.b0, r.emb as u8
                    )
                    .unwrap();
                }
            }
            Err(_) => writeln!(o, "res {id} 0 clientpanic").unwrap(),
        }
    }
    o.flush().unwrap();
    std::process::exit(0);
}
