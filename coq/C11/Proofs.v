(** C11 — lemmas about the channel model. *)
From Coq Require Import List Arith NArith Lia Bool.
From SV Require Import Common.Buf C11.Model.
Import ListNotations.

Arguments N.add : simpl never.
Arguments N.mul : simpl never.
Arguments N.div : simpl never.
Arguments N.modulo : simpl never.
Arguments N.of_nat : simpl never.
Arguments N.to_nat : simpl never.
Arguments Nat.div : simpl never.
Arguments Nat.mul : simpl never.
Arguments Nat.min : simpl never.
Arguments Nat.max : simpl never.

#[local] Opaque consume shift grow shrink fill_bytes write_all.

Lemma delim_eq : delimiter_size = 8.
Proof. reflexivity. Qed.

(* ------------------------------------------------------------------ *)
(** ** little-endian length prefix *)

Lemma le_bytes_length k n : length (le_bytes k n) = k.
Proof. revert n; induction k as [|k IH]; intros n; cbn [le_bytes length]; [reflexivity|now rewrite IH]. Qed.

Lemma of_le_bytes_le_bytes k : forall n, of_le_bytes (le_bytes k n) = (n mod 256 ^ N.of_nat k)%N.
Proof.
  induction k as [|k IH]; intros n; cbn [le_bytes of_le_bytes].
  - change (N.of_nat 0) with 0%N. rewrite N.pow_0_r, N.mod_1_r. reflexivity.
  - rewrite IH. rewrite Nat2N.inj_succ, N.pow_succ_r'.
    rewrite (N.mod_mul_r n 256 (256 ^ N.of_nat k)) by (try apply N.pow_nonzero; lia).
    lia.
Qed.

Lemma le64_length n : length (le64 n) = 8.
Proof. apply le_bytes_length. Qed.

Lemma of_le64 n : (N.of_nat n < 2 ^ 64)%N -> of_le_bytes (le64 n) = N.of_nat n.
Proof.
  intros H. unfold le64. rewrite of_le_bytes_le_bytes.
  change (256 ^ N.of_nat 8)%N with (2 ^ 64)%N. apply N.mod_small, H.
Qed.

Lemma frame_length p : length (frame p) = delimiter_size + length p.
Proof. unfold frame. rewrite app_length, le64_length. reflexivity. Qed.

Lemma firstn_frame p rest : firstn delimiter_size (frame p ++ rest) = le64 (delimiter_size + length p).
Proof.
  unfold frame. rewrite <- app_assoc.
  rewrite firstn_app, le64_length. change (delimiter_size - 8) with 0.
  rewrite firstn_O, app_nil_r.
  rewrite <- (le64_length (delimiter_size + length p)) at 1. apply firstn_all.
Qed.

Lemma skipn_frame p rest : skipn delimiter_size (frame p ++ rest) = p ++ rest.
Proof.
  unfold frame. rewrite <- app_assoc.
  rewrite skipn_app, le64_length. change (delimiter_size - 8) with 0.
  rewrite <- (le64_length (delimiter_size + length p)) at 1. rewrite skipn_all. reflexivity.
Qed.

(* ------------------------------------------------------------------ *)
(** ** channel invariant *)

Definition chan_inv (c : chan) : Prop :=
  buf_ok (front c) /\ buf_ok (back c) /\
  cap (front c) <= maxb c /\ cap (back c) <= maxb c /\ initb c <= maxb c.

Lemma new_chan_inv init max : init <= max -> chan_inv (new_chan init max).
Proof.
  intros H. unfold chan_inv, new_chan; cbn [front back maxb initb].
  repeat split; try apply with_capacity_ok; cbn [cap with_capacity]; lia.
Qed.

Lemma grow_size_bound c cur n : grow_size c cur = Some n -> cur < n <= maxb c.
Proof.
  unfold grow_size. destruct (maxb c <=? cur) eqn:E; [discriminate|].
  apply Nat.leb_gt in E. intros H; injection H as <-. lia.
Qed.

Lemma grow_size_none c cur : grow_size c cur = None -> maxb c <= cur.
Proof.
  unfold grow_size. destruct (maxb c <=? cur) eqn:E; [|discriminate].
  intros _. now apply Nat.leb_le.
Qed.

(** setters keep everything but the field they set *)
Ltac unfold_setters :=
  unfold set_front, set_back, set_int_r, set_int_w, set_rdy_r, set_rdy_w, set_rdy_hup, handle_events in *;
  cbn [front back initb maxb int_r int_w rdy_r rdy_w rdy_hup] in *.

Lemma chan_inv_set_front c b :
  chan_inv c -> buf_ok b -> cap b <= maxb c -> chan_inv (set_front c b).
Proof. unfold chan_inv; intros (A & B & C & D & E) H1 H2; unfold_setters; auto 6. Qed.

Lemma chan_inv_set_back c b :
  chan_inv c -> buf_ok b -> cap b <= maxb c -> chan_inv (set_back c b).
Proof. unfold chan_inv; intros (A & B & C & D & E) H1 H2; unfold_setters; auto 6. Qed.

Lemma chan_inv_flags c :
  chan_inv c ->
  (forall v, chan_inv (set_int_r c v)) /\ (forall v, chan_inv (set_int_w c v)) /\
  (forall v, chan_inv (set_rdy_r c v)) /\ (forall v, chan_inv (set_rdy_w c v)) /\
  (forall v, chan_inv (set_rdy_hup c v)).
Proof. unfold chan_inv; intros (A & B & C & D & E); repeat split; unfold_setters; auto. Qed.

Lemma chan_inv_int_r c v : chan_inv c -> chan_inv (set_int_r c v).
Proof. intros H; apply (chan_inv_flags c H). Qed.
Lemma chan_inv_int_w c v : chan_inv c -> chan_inv (set_int_w c v).
Proof. intros H; apply (chan_inv_flags c H). Qed.
Lemma chan_inv_rdy_r c v : chan_inv c -> chan_inv (set_rdy_r c v).
Proof. intros H; apply (chan_inv_flags c H). Qed.
Lemma chan_inv_rdy_w c v : chan_inv c -> chan_inv (set_rdy_w c v).
Proof. intros H; apply (chan_inv_flags c H). Qed.
Lemma chan_inv_rdy_hup c v : chan_inv c -> chan_inv (set_rdy_hup c v).
Proof. intros H; apply (chan_inv_flags c H). Qed.

Lemma chan_inv_handle_events c r w : chan_inv c -> chan_inv (handle_events c r w).
Proof. intros H. unfold handle_events. apply chan_inv_rdy_w, chan_inv_rdy_r, H. Qed.

#[export] Hint Resolve chan_inv_int_r chan_inv_int_w chan_inv_rdy_r chan_inv_rdy_w chan_inv_rdy_hup
  chan_inv_handle_events : chan.

(* ------------------------------------------------------------------ *)
(** ** [readable]: invariant, stream conservation, nothing else touched *)

(** what [readable]/[read_message] never touch *)
Definition keeps_rest (c c' : chan) : Prop :=
  back c' = back c /\ maxb c' = maxb c /\ initb c' = initb c.

Lemma keeps_rest_refl c : keeps_rest c c.
Proof. unfold keeps_rest; auto. Qed.

Lemma keeps_rest_trans a b c : keeps_rest a b -> keeps_rest b c -> keeps_rest a c.
Proof. unfold keeps_rest; intros (A & B & C) (D & E & F). rewrite D, E, F. auto. Qed.

Lemma ensure_space_spec c c1 :
  chan_inv c -> ensure_space c = Some c1 ->
  chan_inv c1 /\ keeps_rest c c1 /\ dat (front c1) = dat (front c) /\ 0 < avail_space (front c1).
Proof.
  intros Hinv H. unfold ensure_space in H.
  destruct (avail_space (front c) =? 0) eqn:Esp.
  - destruct (grow_size c (cap (front c))) as [n|] eqn:Eg; [|discriminate].
    injection H as <-. apply grow_size_bound in Eg.
    destruct Hinv as (A & B & C & D & E).
    split; [|split; [|split]].
    + apply chan_inv_set_front; [repeat split; auto|apply grow_ok, A|rewrite grow_cap; lia].
    + unfold keeps_rest; unfold_setters; auto.
    + unfold_setters. apply grow_dat.
    + unfold_setters. apply Nat.eqb_eq in Esp.
      unfold avail_space, endp in *. rewrite grow_cap, grow_pos, grow_dat. unfold buf_ok, endp in A. lia.
  - injection H as <-. apply Nat.eqb_neq in Esp.
    repeat split; auto using keeps_rest_refl; try apply Hinv. lia.
Qed.

Lemma readable_loop_spec fuel : forall c s count c' s' r,
  chan_inv c ->
  readable_loop fuel c s count = (c', s', r) ->
  chan_inv c' /\ keeps_rest c c' /\
  dat (front c') ++ inq s' = dat (front c) ++ inq s /\
  ineof s' = ineof s /\ wsched s' = wsched s /\ outq s' = outq s.
Proof.
  induction fuel as [|f IH]; intros c s count c' s' r Hinv H; cbn [readable_loop] in H.
  { injection H as <- <- <-. auto 10 using keeps_rest_refl. }
  destruct (ensure_space c) as [c1|] eqn:Ee.
  2:{ injection H as <- <- <-. split; [apply chan_inv_int_r, Hinv|].
      split; [unfold keeps_rest; unfold_setters; auto|auto]. }
  destruct (ensure_space_spec c c1 Hinv Ee) as (Hinv1 & Hk1 & Hd1 & Hsp1).
  destruct (inq s) as [|x xs] eqn:Eq.
  - destruct (ineof s) eqn:Eeof; injection H as <- <- <-; rewrite ?Eq, ?Eeof.
    + split; [apply chan_inv_rdy_hup, chan_inv_rdy_r, chan_inv_int_w, chan_inv_int_r, Hinv1|].
      split; [eapply keeps_rest_trans; [exact Hk1|unfold keeps_rest; unfold_setters; auto]|].
      unfold_setters. rewrite Hd1. auto.
    + split; [apply chan_inv_rdy_r, Hinv1|].
      split; [eapply keeps_rest_trans; [exact Hk1|unfold keeps_rest; unfold_setters; auto]|].
      unfold_setters. rewrite Hd1. auto.
  - destruct (fill_bytes (front c1) (x :: xs)) as [fb n'] eqn:Ef.
    pose proof (fill_bytes_ok (front c1) (x :: xs)) as Hok.
    pose proof (fill_bytes_dat (front c1) (x :: xs)) as Hdat.
    pose proof (fill_bytes_cap (front c1) (x :: xs)) as Hcap.
    rewrite Ef in Hok, Hdat, Hcap; cbn [fst snd] in Hok, Hdat, Hcap.
    apply IH in H.
    2:{ destruct Hinv1 as (A & B & C & D & E). apply chan_inv_set_front; [repeat split; auto|auto|].
        rewrite Hcap. exact C. }
    destruct H as (I1 & I2 & I4 & I5 & I6 & I7). cbn [inq ineof wsched outq] in *.
    split; [exact I1|].
    split; [eapply keeps_rest_trans; [exact Hk1|]; eapply keeps_rest_trans; [|exact I2];
            unfold keeps_rest; unfold_setters; auto|].
    split; [|auto]. rewrite I4. unfold_setters. rewrite Hdat, <- app_assoc, firstn_skipn, Hd1. reflexivity.
Qed.

Lemma readable_spec c s c' s' r :
  chan_inv c -> readable c s = (c', s', r) ->
  chan_inv c' /\ keeps_rest c c' /\
  dat (front c') ++ inq s' = dat (front c) ++ inq s /\
  ineof s' = ineof s /\ wsched s' = wsched s /\ outq s' = outq s.
Proof.
  intros Hinv H. unfold readable in H.
  destruct (negb (int_r c && rdy_r c)).
  - injection H as <- <- <-. auto 10 using keeps_rest_refl.
  - eapply readable_loop_spec; eauto.
Qed.

(* ------------------------------------------------------------------ *)
(** ** [try_read_delimited_message] *)

Section Reader.
  Variable decodable : list N -> bool.

  Definition usize_ok (c : chan) : Prop := (N.of_nat (maxb c) < 2 ^ 64)%N.

  (** A complete frame at the head of the pending data is consumed exactly:
      delivered when its payload decodes, dropped with an error otherwise. *)
  Lemma try_read_frame c p rest c' r :
    chan_inv c -> usize_ok c ->
    dat (front c) = frame p ++ rest ->
    delimiter_size + length p <= maxb c ->
    try_read decodable c = (c', r) ->
    chan_inv c' /\ keeps_rest c c' /\ dat (front c') = rest /\
    r = (if decodable p then Ok (Some p) else Err EInvalidProto).
  Proof.
    intros Hinv Hus Hd Hfit H. unfold try_read in H. rewrite Hd in H.
    assert (Hlen : length (frame p ++ rest) = delimiter_size + length p + length rest)
      by (rewrite app_length, frame_length; lia).
    rewrite Hlen in H.
    destruct (delimiter_size <=? delimiter_size + length p + length rest) eqn:E1;
      [|apply Nat.leb_gt in E1; lia].
    rewrite firstn_frame in H.
    assert (Hml : of_le_bytes (le64 (delimiter_size + length p)) = N.of_nat (delimiter_size + length p)).
    { apply of_le64. unfold usize_ok in Hus. lia. }
    rewrite Hml in H.
    destruct (N.of_nat (maxb c) <? N.of_nat (delimiter_size + length p))%N eqn:E2;
      [apply N.ltb_lt in E2; lia|].
    destruct (N.of_nat (delimiter_size + length p) <? N.of_nat delimiter_size)%N eqn:E3;
      [apply N.ltb_lt in E3; lia|].
    destruct (N.of_nat (delimiter_size + length p) <=? N.of_nat (delimiter_size + length p + length rest))%N eqn:E4;
      [|apply N.leb_gt in E4; lia].
    rewrite Nat2N.id in H.
    replace (delimiter_size + length p - delimiter_size) with (length p) in H by lia.
    rewrite skipn_frame in H.
    rewrite firstn_app, Nat.sub_diag, firstn_O, app_nil_r, firstn_all in H.
    assert (Hc : dat (fst (consume (front c) (delimiter_size + length p))) = rest).
    { rewrite consume_dat, Hd. rewrite <- frame_length. rewrite skipn_app, skipn_all, Nat.sub_diag. reflexivity. }
    assert (Hi : chan_inv (set_front c (fst (consume (front c) (delimiter_size + length p))))).
    { destruct Hinv as (A & B & C & D & E). apply chan_inv_set_front; [repeat split; auto| |].
      - apply consume_ok, A.
      - rewrite consume_cap. exact C. }
    destruct (decodable p); injection H as <- <-.
    - split; [exact Hi|]. split; [unfold keeps_rest; unfold_setters; auto|]. split; [exact Hc|reflexivity].
    - split; [apply chan_inv_int_r, Hi|]. split; [unfold keeps_rest; unfold_setters; auto|].
      split; [exact Hc|reflexivity].
  Qed.

  (** A declared length below the prefix size: the 8 prefix bytes are dropped. *)
  Lemma try_read_short c c' r :
    chan_inv c -> delimiter_size <= maxb c ->
    delimiter_size <= length (dat (front c)) ->
    (of_le_bytes (firstn delimiter_size (dat (front c))) < N.of_nat delimiter_size)%N ->
    try_read decodable c = (c', r) ->
    chan_inv c' /\ keeps_rest c c' /\ dat (front c') = skipn delimiter_size (dat (front c)) /\
    r = Err EUnderDelim.
  Proof.
    intros Hinv Hmx Hl Hs H. unfold try_read in H.
    destruct (delimiter_size <=? length (dat (front c))) eqn:E1; [|apply Nat.leb_gt in E1; lia].
    destruct (N.of_nat (maxb c) <? of_le_bytes (firstn delimiter_size (dat (front c))))%N eqn:E2.
    { apply N.ltb_lt in E2. exfalso. lia. }
    destruct (of_le_bytes (firstn delimiter_size (dat (front c))) <? N.of_nat delimiter_size)%N eqn:E3;
      [|apply N.ltb_ge in E3; lia].
    injection H as <- <-.
    destruct Hinv as (A & B & C & D & E).
    split.
    { apply chan_inv_int_r, chan_inv_set_front; [repeat split; auto|apply consume_ok, A|rewrite consume_cap; exact C]. }
    split; [unfold keeps_rest; unfold_setters; auto|]. split; [|reflexivity].
    unfold_setters. apply consume_dat.
  Qed.

  (** A declared length above the ceiling: an error, nothing changes. *)
  Lemma try_read_oversize c c' r :
    delimiter_size <= length (dat (front c)) ->
    (N.of_nat (maxb c) < of_le_bytes (firstn delimiter_size (dat (front c))))%N ->
    try_read decodable c = (c', r) -> c' = c /\ r = Err ETooLarge.
  Proof.
    intros Hl Hs H. unfold try_read in H.
    destruct (delimiter_size <=? length (dat (front c))) eqn:E1; [|apply Nat.leb_gt in E1; lia].
    destruct (N.of_nat (maxb c) <? of_le_bytes (firstn delimiter_size (dat (front c))))%N eqn:E2;
      [|apply N.ltb_ge in E2; lia].
    injection H as <- <-. auto.
  Qed.
End Reader.

(* ------------------------------------------------------------------ *)
(** ** no wedge: an incomplete frame that fits the ceiling never yields
       BufferFull; room for at least one more byte is always made *)

Lemma read_fallthrough_progress c c' r :
  chan_inv c ->
  length (dat (front c)) < maxb c ->
  read_fallthrough c = (c', r) ->
  r = Ok None /\ chan_inv c' /\ keeps_rest c c' /\ dat (front c') = dat (front c) /\
  0 < avail_space (front c') /\
  int_r c' = int_r c /\ rdy_r c' = rdy_r c.
Proof.
  intros Hinv Hlt H. unfold read_fallthrough in H.
  destruct Hinv as (A & B & C & D & E).
  set (c1 := if avail_space (front c) =? 0 then set_front c (shift (front c)) else c) in *.
  assert (H1 : chan_inv c1 /\ keeps_rest c c1 /\ dat (front c1) = dat (front c) /\
               int_r c1 = int_r c /\ rdy_r c1 = rdy_r c /\
               (avail_space (front c1) = 0 -> cap (front c1) = length (dat (front c1)))).
  { unfold c1. destruct (avail_space (front c) =? 0) eqn:E0.
    - split; [apply chan_inv_set_front; [repeat split; auto|apply shift_ok, A|rewrite shift_cap; exact C]|].
      split; [unfold keeps_rest; unfold_setters; auto|]. unfold_setters.
      rewrite shift_dat. repeat split; auto.
      unfold avail_space, endp. rewrite shift_cap, shift_dat.
      assert (pos (shift (front c)) = 0) by reflexivity.
      pose proof (shift_ok _ A) as Hs. unfold buf_ok, endp in Hs. rewrite shift_cap, shift_dat in Hs. lia.
    - apply Nat.eqb_neq in E0. repeat split; auto using keeps_rest_refl. lia. }
  destruct H1 as (I1 & K1 & D1 & F1 & F2 & Hfull).
  destruct (avail_space (front c1) =? 0) eqn:E1.
  - apply Nat.eqb_eq in E1. specialize (Hfull E1).
    assert (Hm : maxb c1 = maxb c) by apply K1.
    destruct (maxb c1 <=? cap (front c1)) eqn:E2.
    { apply Nat.leb_le in E2. rewrite Hfull, D1, Hm in E2. lia. }
    apply Nat.leb_gt in E2. injection H as <- <-.
    set (n := match grow_size c1 (cap (front c1)) with Some n => n | None => maxb c1 end).
    assert (Hn : cap (front c1) < n <= maxb c1).
    { unfold n. destruct (grow_size c1 (cap (front c1))) eqn:Eg; [apply grow_size_bound in Eg; lia|lia]. }
    destruct I1 as (A1 & B1 & C1 & D1' & E1').
    split; [reflexivity|].
    split; [apply chan_inv_set_front; [repeat split; auto|apply grow_ok, A1|rewrite grow_cap; lia]|].
    split; [eapply keeps_rest_trans; [exact K1|unfold keeps_rest; unfold_setters; auto]|].
    unfold_setters. rewrite grow_dat. split; [exact D1|]. split; [|auto].
    unfold buf_ok in A1. unfold avail_space, endp in *. rewrite grow_cap, grow_pos, grow_dat. lia.
  - apply Nat.eqb_neq in E1. injection H as <- <-.
    repeat split; auto; try apply I1; try apply K1. lia.
Qed.

Section Reader2.
  Variable decodable : list N -> bool.

  (** the pending data is a strict prefix of a frame that fits the ceiling *)
  Definition incomplete (c : chan) (d : list N) : Prop :=
    length d < delimiter_size \/
    (delimiter_size <= length d /\
     (N.of_nat delimiter_size <= of_le_bytes (firstn delimiter_size d) <= N.of_nat (maxb c))%N /\
     (N.of_nat (length d) < of_le_bytes (firstn delimiter_size d))%N).

  Lemma try_read_incomplete c c' r :
    chan_inv c -> delimiter_size <= maxb c ->
    incomplete c (dat (front c)) ->
    try_read decodable c = (c', r) ->
    r = Ok None /\ chan_inv c' /\ keeps_rest c c' /\ dat (front c') = dat (front c) /\
    0 < avail_space (front c') /\ int_r c' = int_r c /\ rdy_r c' = rdy_r c.
  Proof.
    intros Hinv Hmx Hinc H. unfold try_read in H.
    destruct Hinc as [Hs | (Hl & (Hlo & Hhi) & Hlt)].
    - destruct (delimiter_size <=? length (dat (front c))) eqn:E1; [apply Nat.leb_le in E1; lia|].
      eapply read_fallthrough_progress; eauto. lia.
    - destruct (delimiter_size <=? length (dat (front c))) eqn:E1; [|apply Nat.leb_gt in E1; lia].
      destruct (N.of_nat (maxb c) <? _)%N eqn:E2; [apply N.ltb_lt in E2; lia|].
      destruct (_ <? N.of_nat delimiter_size)%N eqn:E3; [apply N.ltb_lt in E3; lia|].
      destruct (_ <=? N.of_nat (length (dat (front c))))%N eqn:E4; [apply N.leb_le in E4; lia|].
      eapply read_fallthrough_progress; eauto. lia.
  Qed.
End Reader2.

(* ------------------------------------------------------------------ *)
(** ** [read_message], shrinking, and the capacity ceiling on the read side *)

Lemma try_shrink_front_spec c :
  chan_inv c ->
  chan_inv (try_shrink_front c) /\ keeps_rest c (try_shrink_front c) /\
  dat (front (try_shrink_front c)) = dat (front c) /\
  int_r (try_shrink_front c) = int_r c /\ rdy_r (try_shrink_front c) = rdy_r c.
Proof.
  intros (A & B & C & D & E). unfold try_shrink_front.
  destruct (cap (front c) <=? initb c) eqn:E1; [repeat split; auto using keeps_rest_refl|].
  destruct (avail_data (front c) * 4 <? initb c) eqn:E2; [|repeat split; auto using keeps_rest_refl].
  split; [apply chan_inv_set_front; [repeat split; auto|apply shrink_ok, A|]|].
  - pose proof (shrink_cap_le (front c) (initb c)). lia.
  - split; [unfold keeps_rest; unfold_setters; auto|]. unfold_setters. rewrite shrink_dat. auto.
Qed.

Lemma read_fallthrough_inv c c' r :
  chan_inv c -> read_fallthrough c = (c', r) ->
  chan_inv c' /\ keeps_rest c c' /\ dat (front c') = dat (front c).
Proof.
  intros Hinv H. unfold read_fallthrough in H.
  destruct Hinv as (A & B & C & D & E).
  set (c1 := if avail_space (front c) =? 0 then set_front c (shift (front c)) else c) in *.
  assert (H1 : chan_inv c1 /\ keeps_rest c c1 /\ dat (front c1) = dat (front c)).
  { unfold c1. destruct (avail_space (front c) =? 0).
    - split; [apply chan_inv_set_front; [repeat split; auto|apply shift_ok, A|rewrite shift_cap; exact C]|].
      split; [unfold keeps_rest; unfold_setters; auto|]. unfold_setters. apply shift_dat.
    - repeat split; auto using keeps_rest_refl. }
  destruct H1 as (I1 & K1 & D1).
  destruct (avail_space (front c1) =? 0).
  - destruct (maxb c1 <=? cap (front c1)) eqn:E2; injection H as <- <-; [auto|].
    apply Nat.leb_gt in E2.
    set (n := match grow_size c1 (cap (front c1)) with Some n => n | None => maxb c1 end).
    assert (Hn : n <= maxb c1).
    { unfold n. destruct (grow_size c1 (cap (front c1))) eqn:Eg; [apply grow_size_bound in Eg; lia|lia]. }
    destruct I1 as (A1 & B1 & C1 & D1' & E1').
    split; [apply chan_inv_set_front; [repeat split; auto|apply grow_ok, A1|rewrite grow_cap; lia]|].
    split; [eapply keeps_rest_trans; [exact K1|unfold keeps_rest; unfold_setters; auto]|].
    unfold_setters. rewrite grow_dat. exact D1.
  - injection H as <- <-. auto.
Qed.

Section Reader3.
  Variable decodable : list N -> bool.

  (** whatever is pending — well-formed, malformed, adversarial — [try_read]
      keeps the invariant (so the front buffer never exceeds the ceiling) and
      only ever drops a prefix of the pending bytes *)
  Lemma try_read_inv c c' r :
    chan_inv c -> try_read decodable c = (c', r) ->
    chan_inv c' /\ keeps_rest c c' /\ exists k, dat (front c') = skipn k (dat (front c)).
  Proof.
    intros Hinv H. unfold try_read in H.
    assert (Hc : forall n, chan_inv (set_front c (fst (consume (front c) n)))).
    { intros n. destruct Hinv as (A & B & C & D & E).
      apply chan_inv_set_front; [repeat split; auto|apply consume_ok, A|rewrite consume_cap; exact C]. }
    assert (Hft : forall c' r, read_fallthrough c = (c', r) ->
              chan_inv c' /\ keeps_rest c c' /\ exists k, dat (front c') = skipn k (dat (front c))).
    { intros c2 r2 H2. destruct (read_fallthrough_inv c c2 r2 Hinv H2) as (I & K & Dd).
      split; [exact I|]. split; [exact K|]. exists 0. rewrite Dd. reflexivity. }
    destruct (delimiter_size <=? length (dat (front c))); [|eapply Hft, H].
    destruct (N.of_nat (maxb c) <? _)%N.
    { injection H as <- <-. split; [exact Hinv|]. split; [apply keeps_rest_refl|]. exists 0. reflexivity. }
    destruct (_ <? N.of_nat delimiter_size)%N.
    { injection H as <- <-. split; [apply chan_inv_int_r, Hc|].
      split; [unfold keeps_rest; unfold_setters; auto|]. unfold_setters.
      exists delimiter_size. apply consume_dat. }
    destruct (_ <=? N.of_nat (length (dat (front c))))%N; [|eapply Hft, H].
    destruct (decodable _); injection H as <- <-.
    - split; [apply Hc|]. split; [unfold keeps_rest; unfold_setters; auto|]. unfold_setters.
      eexists. apply consume_dat.
    - split; [apply chan_inv_int_r, Hc|]. split; [unfold keeps_rest; unfold_setters; auto|]. unfold_setters.
      eexists. apply consume_dat.
  Qed.

  Lemma read_message_inv c c' r :
    chan_inv c -> read_message decodable c = (c', r) ->
    chan_inv c' /\ keeps_rest c c' /\ exists k, dat (front c') = skipn k (dat (front c)).
  Proof.
    intros Hinv H. unfold read_message in H.
    destruct (try_read decodable c) as [c1 r1] eqn:Et.
    destruct (try_read_inv c c1 r1 Hinv Et) as (I1 & K1 & (k & Dk)).
    destruct r1 as [[m|]|e]; injection H as <- <-.
    - destruct (try_shrink_front_spec c1 I1) as (I2 & K2 & D2 & _).
      split; [exact I2|]. split; [eapply keeps_rest_trans; eauto|]. exists k. rewrite D2. exact Dk.
    - split; [apply chan_inv_int_r, I1|]. split; [eapply keeps_rest_trans; [exact K1|unfold keeps_rest; unfold_setters; auto]|].
      exists k. unfold_setters. exact Dk.
    - split; [exact I1|]. split; [exact K1|]. exists k. exact Dk.
  Qed.

  (** A complete, decodable, in-bounds frame at the head is delivered exactly
      once and exactly: the message is the payload, the frame is gone, the
      bytes behind it are untouched. *)
  Lemma read_message_delivers c p rest c' r :
    chan_inv c -> usize_ok c ->
    dat (front c) = frame p ++ rest ->
    delimiter_size + length p <= maxb c ->
    decodable p = true ->
    read_message decodable c = (c', r) ->
    r = Ok p /\ chan_inv c' /\ keeps_rest c c' /\ dat (front c') = rest.
  Proof.
    intros Hinv Hus Hd Hfit Hdec H. unfold read_message in H.
    destruct (try_read decodable c) as [c1 r1] eqn:Et.
    destruct (try_read_frame decodable c p rest c1 r1 Hinv Hus Hd Hfit Et) as (I1 & K1 & D1 & R1).
    rewrite Hdec in R1. subst r1. injection H as <- <-.
    destruct (try_shrink_front_spec c1 I1) as (I2 & K2 & D2 & _).
    split; [reflexivity|]. split; [exact I2|]. split; [eapply keeps_rest_trans; eauto|].
    rewrite D2. exact D1.
  Qed.

  (** An undecodable frame is an error, is dropped, and does not wedge: the
      bytes behind it are intact and READABLE interest is re-armed. *)
  Lemma read_message_undecodable c p rest c' r :
    chan_inv c -> usize_ok c ->
    dat (front c) = frame p ++ rest ->
    delimiter_size + length p <= maxb c ->
    decodable p = false ->
    read_message decodable c = (c', r) ->
    r = Err EInvalidProto /\ chan_inv c' /\ keeps_rest c c' /\ dat (front c') = rest /\ int_r c' = true.
  Proof.
    intros Hinv Hus Hd Hfit Hdec H. unfold read_message in H.
    destruct (try_read decodable c) as [c1 r1] eqn:Et.
    pose proof Et as Et'. unfold try_read in Et'.
    destruct (try_read_frame decodable c p rest c1 r1 Hinv Hus Hd Hfit Et) as (I1 & K1 & D1 & R1).
    rewrite Hdec in R1. subst r1. injection H as <- <-.
    split; [reflexivity|]. split; [exact I1|]. split; [exact K1|]. split; [exact D1|].
    (* interest: read it off the definition *)
    clear Et'. unfold try_read in Et. rewrite Hd in Et.
    assert (Hlen : length (frame p ++ rest) = delimiter_size + length p + length rest)
      by (rewrite app_length, frame_length; lia).
    rewrite Hlen in Et.
    destruct (delimiter_size <=? delimiter_size + length p + length rest) eqn:E1;
      [|apply Nat.leb_gt in E1; lia].
    rewrite firstn_frame in Et.
    assert (Hml : of_le_bytes (le64 (delimiter_size + length p)) = N.of_nat (delimiter_size + length p)).
    { apply of_le64. unfold usize_ok in Hus. lia. }
    rewrite Hml in Et.
    destruct (N.of_nat (maxb c) <? N.of_nat (delimiter_size + length p))%N eqn:E2;
      [apply N.ltb_lt in E2; lia|].
    destruct (N.of_nat (delimiter_size + length p) <? N.of_nat delimiter_size)%N eqn:E3;
      [apply N.ltb_lt in E3; lia|].
    destruct (N.of_nat (delimiter_size + length p) <=? N.of_nat (delimiter_size + length p + length rest))%N eqn:E4;
      [|apply N.leb_gt in E4; lia].
    rewrite Nat2N.id in Et.
    replace (delimiter_size + length p - delimiter_size) with (length p) in Et by lia.
    rewrite skipn_frame in Et.
    rewrite firstn_app, Nat.sub_diag, firstn_O, app_nil_r, firstn_all in Et.
    rewrite Hdec in Et. injection Et as <-. reflexivity.
  Qed.

  (** An incomplete frame: nothing is lost, the owner is told to come back
      (NothingRead, READABLE interest set), and there is room to read more. *)
  Lemma read_message_incomplete c c' r :
    chan_inv c -> delimiter_size <= maxb c ->
    incomplete c (dat (front c)) ->
    read_message decodable c = (c', r) ->
    r = Err ENothingRead /\ chan_inv c' /\ keeps_rest c c' /\ dat (front c') = dat (front c) /\
    0 < avail_space (front c') /\ int_r c' = true.
  Proof.
    intros Hinv Hmx Hinc H. unfold read_message in H.
    destruct (try_read decodable c) as [c1 r1] eqn:Et.
    destruct (try_read_incomplete decodable c c1 r1 Hinv Hmx Hinc Et) as (R & I1 & K1 & D1 & S1 & _).
    subst r1. injection H as <- <-.
    split; [reflexivity|]. split; [apply chan_inv_int_r, I1|].
    split; [eapply keeps_rest_trans; [exact K1|unfold keeps_rest; unfold_setters; auto]|].
    unfold_setters. auto.
  Qed.
End Reader3.

(* ------------------------------------------------------------------ *)
(** ** writer: [write_delimited_message] / [write_message] *)

Lemma double_until_reaches fuel : forall n needed,
  needed <= fuel + n -> needed <= double_until fuel n needed.
Proof.
  induction fuel as [|f IH]; intros n needed H; cbn [double_until]; [lia|].
  destruct (n <? needed) eqn:E.
  - apply IH. apply Nat.ltb_lt in E. lia.
  - apply Nat.ltb_ge in E. exact E.
Qed.

Lemma le64_comm_frame p : le64 (length p + delimiter_size) ++ p = frame p.
Proof. unfold frame. rewrite (Nat.add_comm (length p)). reflexivity. Qed.

(** The writer either appends exactly [frame p] to the pending output, or
    refuses with MessageTooLarge and leaves the pending output unchanged; it
    accepts whenever the frame fits under the ceiling next to what is pending.
    The read side is never touched and the ceiling is kept. *)
Lemma write_delimited_spec c p c' r :
  chan_inv c -> write_delimited c p = (c', r) ->
  chan_inv c' /\ front c' = front c /\ maxb c' = maxb c /\ initb c' = initb c /\
  ((r = Ok tt /\ dat (back c') = dat (back c) ++ frame p) \/
   (r = Err ETooLarge /\ dat (back c') = dat (back c) /\
    maxb c < length (dat (back c)) + length p + delimiter_size)).
Proof.
  intros Hinv H. unfold write_delimited in H.
  destruct Hinv as (A & B & C & D & E).
  set (plen := length p + delimiter_size) in *.
  set (b0 := if avail_space (back c) <? plen then shift (back c) else back c) in *.
  assert (Hb0 : buf_ok b0 /\ dat b0 = dat (back c) /\ cap b0 = cap (back c) /\
                (avail_space b0 < plen -> pos b0 = 0)).
  { unfold b0. destruct (avail_space (back c) <? plen) eqn:E0.
    - split; [apply shift_ok, B|]. rewrite shift_dat, shift_cap. auto.
    - apply Nat.ltb_ge in E0. repeat split; auto. lia. }
  destruct Hb0 as (Ok0 & D0 & C0 & P0).
  destruct (avail_space b0 <? plen) eqn:E1.
  - apply Nat.ltb_lt in E1. specialize (P0 E1).
    assert (Hneed : plen - avail_space b0 + cap b0 = length (dat b0) + plen).
    { unfold avail_space, endp in E1 |- *. unfold buf_ok, endp in Ok0. rewrite P0 in E1, Ok0 |- *. lia. }
    rewrite Hneed in H.
    destruct (maxb c <? length (dat b0) + plen) eqn:E2.
    + apply Nat.ltb_lt in E2. injection H as <- <-.
      split; [apply chan_inv_set_back; [repeat split; auto|exact Ok0|lia]|].
      unfold_setters. repeat split; auto. right. rewrite D0 in *. unfold plen in E2. repeat split; auto. lia.
    + apply Nat.ltb_ge in E2.
      set (nl := Nat.min (double_until (length (dat b0) + plen) (cap b0) (length (dat b0) + plen)) (maxb c)) in *.
      assert (Hnl : length (dat b0) + plen <= nl <= maxb c).
      { unfold nl. pose proof (double_until_reaches (length (dat b0) + plen) (cap b0) (length (dat b0) + plen)). lia. }
      set (b1 := grow b0 nl) in *.
      assert (Ok1 : buf_ok b1) by (apply grow_ok, Ok0).
      assert (D1 : dat b1 = dat b0) by apply grow_dat.
      assert (C1 : cap b1 <= maxb c) by (unfold b1; rewrite grow_cap; lia).
      assert (S1 : plen <= avail_space b1).
      { unfold b1, avail_space, endp. rewrite grow_cap, grow_pos, grow_dat, P0. lia. }
      pose proof (write_all_fits (S delimiter_size) b1 (le64 plen) Ok1) as W1.
      pose proof (write_all_fits_space (S delimiter_size) b1 (le64 plen) Ok1) as W1s.
      pose proof (write_all_ok (S delimiter_size) b1 (le64 plen) Ok1) as W1k.
      pose proof (write_all_cap (S delimiter_size) b1 (le64 plen)) as W1c.
      rewrite le64_length in W1, W1s. unfold plen in S1.
      destruct W1 as (W1a & W1b); [rewrite delim_eq in *; lia|rewrite delim_eq; lia|].
      specialize (W1s ltac:(rewrite delim_eq in *; lia) ltac:(rewrite delim_eq; lia)).
      destruct (write_all (S delimiter_size) b1 (le64 plen)) as [b2 ok1] eqn:Ew1.
      cbn [fst snd] in *. subst ok1.
      pose proof (write_all_fits (S (length p)) b2 p W1k) as W2.
      pose proof (write_all_ok (S (length p)) b2 p W1k) as W2k.
      pose proof (write_all_cap (S (length p)) b2 p) as W2c.
      destruct W2 as (W2a & W2b); [rewrite delim_eq in *; lia|lia|].
      destruct (write_all (S (length p)) b2 p) as [b3 ok2] eqn:Ew2.
      cbn [fst snd] in *. subst ok2. injection H as <- <-.
      split; [apply chan_inv_set_back; [repeat split; auto|exact W2k|lia]|].
      unfold_setters. repeat split; auto. left. split; [reflexivity|].
      rewrite W2b, W1b, D1, D0, <- app_assoc. f_equal. apply le64_comm_frame.
  - apply Nat.ltb_ge in E1.
    pose proof (write_all_fits (S delimiter_size) b0 (le64 plen) Ok0) as W1.
    pose proof (write_all_fits_space (S delimiter_size) b0 (le64 plen) Ok0) as W1s.
    pose proof (write_all_ok (S delimiter_size) b0 (le64 plen) Ok0) as W1k.
    pose proof (write_all_cap (S delimiter_size) b0 (le64 plen)) as W1c.
    rewrite le64_length in W1, W1s. unfold plen in E1.
    destruct W1 as (W1a & W1b); [rewrite delim_eq in *; lia|rewrite delim_eq; lia|].
    specialize (W1s ltac:(rewrite delim_eq in *; lia) ltac:(rewrite delim_eq; lia)).
    destruct (write_all (S delimiter_size) b0 (le64 plen)) as [b2 ok1] eqn:Ew1.
    cbn [fst snd] in *. subst ok1.
    pose proof (write_all_fits (S (length p)) b2 p W1k) as W2.
    pose proof (write_all_ok (S (length p)) b2 p W1k) as W2k.
    pose proof (write_all_cap (S (length p)) b2 p) as W2c.
    destruct W2 as (W2a & W2b); [rewrite delim_eq in *; lia|lia|].
    destruct (write_all (S (length p)) b2 p) as [b3 ok2] eqn:Ew2.
    cbn [fst snd] in *. subst ok2. injection H as <- <-.
    split; [apply chan_inv_set_back; [repeat split; auto|exact W2k|lia]|].
    unfold_setters. repeat split; auto. left. split; [reflexivity|].
    rewrite W2b, W1b, D0, <- app_assoc. f_equal. apply le64_comm_frame.
Qed.

Lemma write_message_spec c p c' r :
  chan_inv c -> write_message c p = (c', r) ->
  chan_inv c' /\ front c' = front c /\ maxb c' = maxb c /\ initb c' = initb c /\
  ((r = Ok tt /\ dat (back c') = dat (back c) ++ frame p /\ int_w c' = true) \/
   (r = Err ETooLarge /\ dat (back c') = dat (back c) /\
    maxb c < length (dat (back c)) + length p + delimiter_size)).
Proof.
  intros Hinv H. unfold write_message in H.
  destruct (write_delimited c p) as [c1 r1] eqn:Ew.
  destruct (write_delimited_spec c p c1 r1 Hinv Ew) as (I & F & M & In & [(R & Dd) | (R & Dd & L)]); subst r1.
  - injection H as <- <-. split; [apply chan_inv_int_w, I|]. unfold_setters. auto 10.
  - injection H as <- <-. auto 10.
Qed.

(* ------------------------------------------------------------------ *)
(** ** [writable]: under any partial-write schedule the peer receives a prefix
       of the pending output, in order; what is left is exactly the rest *)

Lemma try_shrink_back_spec c :
  chan_inv c ->
  chan_inv (try_shrink_back c) /\ front (try_shrink_back c) = front c /\
  maxb (try_shrink_back c) = maxb c /\ initb (try_shrink_back c) = initb c /\
  dat (back (try_shrink_back c)) = dat (back c).
Proof.
  intros (A & B & C & D & E). unfold try_shrink_back.
  destruct (cap (back c) <=? initb c); [repeat split; auto|].
  destruct (avail_data (back c) =? 0); [|repeat split; auto].
  split; [apply chan_inv_set_back; [repeat split; auto|apply shrink_ok, B|]|].
  - pose proof (shrink_cap_le (back c) (initb c)). lia.
  - unfold_setters. rewrite shrink_dat. auto.
Qed.

Lemma firstn_add_skipn {A} (n k : nat) (l : list A) :
  firstn (n + k) l = firstn n l ++ firstn k (skipn n l).
Proof.
  revert l; induction n as [|n IH]; intros l; [reflexivity|].
  destruct l as [|x l]; cbn [Nat.add firstn skipn app]; [now rewrite firstn_nil|].
  now rewrite IH.
Qed.

Lemma skipn_add_skipn {A} (n k : nat) (l : list A) : skipn (n + k) l = skipn k (skipn n l).
Proof.
  revert l; induction n as [|n IH]; intros l; [reflexivity|].
  destruct l as [|x l]; cbn [Nat.add skipn]; [now rewrite skipn_nil|]. apply IH.
Qed.

Ltac fin0 :=
  repeat match goal with |- _ /\ _ => split end; auto;
  try (exists 0; rewrite ?Nat.add_0_r, ?app_nil_r; auto).

Lemma writable_loop_spec fuel : forall c s count c' s' r,
  chan_inv c ->
  writable_loop fuel c s count = (c', s', r) ->
  chan_inv c' /\ front c' = front c /\ maxb c' = maxb c /\ initb c' = initb c /\
  inq s' = inq s /\ ineof s' = ineof s /\
  exists k, r = Ok (count + k) /\
            outq s' = outq s ++ firstn k (dat (back c)) /\
            dat (back c') = skipn k (dat (back c)).
Proof.
  induction fuel as [|f IH]; intros c s count c' s' r Hinv H; cbn [writable_loop] in H.
  { injection H as <- <- <-. fin0. }
  destruct (avail_data (back c) =? 0) eqn:E0.
  { injection H as <- <- <-.
    destruct (try_shrink_back_spec (set_int_w c false) (chan_inv_int_w c false Hinv)) as (I & F & M & In & Dd).
    unfold_setters. fin0. }
  destruct (wsched s) as [|[|k] sched'] eqn:Es.
  - injection H as <- <- <-. split; [apply chan_inv_rdy_w, Hinv|]. unfold_setters. cbn [inq ineof outq].
    fin0.
  - injection H as <- <- <-. split; [apply chan_inv_rdy_w, Hinv|]. unfold_setters. cbn [inq ineof outq].
    fin0.
  - destruct (consume (back c) (S k)) as [b' n] eqn:Ec.
    pose proof (consume_ok (back c) (S k)) as Hok.
    pose proof (consume_dat (back c) (S k)) as Hdat.
    pose proof (consume_cap (back c) (S k)) as Hcap.
    pose proof (consume_cnt (back c) (S k)) as Hcnt.
    rewrite Ec in Hok, Hdat, Hcap, Hcnt; cbn [fst snd] in Hok, Hdat, Hcap, Hcnt.
    destruct Hinv as (A & B & C & D & E).
    apply IH in H.
    2:{ apply chan_inv_set_back; [repeat split; auto|auto|lia]. }
    destruct H as (I1 & F1 & M1 & In1 & Q1 & Q2 & (k' & R & O & Dd)).
    unfold_setters. cbn [inq ineof outq] in *.
    repeat match goal with |- _ /\ _ => split end; auto.
    exists (n + k'). split; [rewrite R; f_equal; lia|].
    assert (Hsk : skipn n (dat (back c)) = skipn (S k) (dat (back c))).
    { rewrite Hcnt. unfold avail_data.
      destruct (Nat.le_ge_cases (S k) (length (dat (back c)))) as [L|L].
      - rewrite Nat.min_l by lia. reflexivity.
      - rewrite Nat.min_r by lia. rewrite !skipn_all2 by lia. reflexivity. }
    split.
    + rewrite O, <- app_assoc, firstn_add_skipn. rewrite Hdat, <- Hsk. reflexivity.
    + rewrite Dd, Hdat, skipn_add_skipn, <- Hsk. reflexivity.
Qed.

Lemma writable_spec c s c' s' r :
  chan_inv c -> writable c s = (c', s', r) ->
  chan_inv c' /\ front c' = front c /\ maxb c' = maxb c /\ initb c' = initb c /\
  inq s' = inq s /\ ineof s' = ineof s /\
  exists k, outq s' = outq s ++ firstn k (dat (back c)) /\
            dat (back c') = skipn k (dat (back c)).
Proof.
  intros Hinv H. unfold writable in H.
  destruct (negb (int_w c && rdy_w c)).
  - injection H as <- <- <-. fin0.
  - destruct (writable_loop_spec _ _ _ _ _ _ _ Hinv H) as (I & F & M & In & Q1 & Q2 & (k & _ & O & Dd)).
    repeat match goal with |- _ /\ _ => split end; auto. exists k. auto.
Qed.

(* ------------------------------------------------------------------ *)
(** ** the invariant over every API history *)

Section History.
  Variable decodable : list N -> bool.

  Lemma owner_loop_inv fuel : forall c s acc c' s' out,
    chan_inv c -> owner_loop decodable fuel c s acc = (c', s', out) ->
    chan_inv c' /\ maxb c' = maxb c.
  Proof.
    induction fuel as [|f IH]; intros c s acc c' s' out Hinv H; cbn [owner_loop] in H.
    { injection H as <- <- <-. auto. }
    destruct (read_message decodable c) as [c1 r1] eqn:Er.
    destruct (read_message_inv decodable c c1 r1 Hinv Er) as (I1 & (_ & M1 & _) & _).
    destruct r1 as [m|e].
    - destruct (IH _ _ _ _ _ _ I1 H) as (I & M). split; [exact I|congruence].
    - destruct (int_r c1 && rdy_r c1).
      + destruct (readable c1 s) as [[c2 s2] r2] eqn:Erd.
        destruct (readable_spec c1 s c2 s2 r2 I1 Erd) as (I2 & (_ & M2 & _) & _).
        destruct (IH _ _ _ _ _ _ I2 H) as (I & M). split; [exact I|congruence].
      + injection H as <- <- <-. auto.
  Qed.

  Lemma owner_turn_inv fuel c s c' s' out :
    chan_inv c -> owner_turn decodable fuel c s = (c', s', out) ->
    chan_inv c' /\ maxb c' = maxb c.
  Proof.
    intros Hinv H. unfold owner_turn in H.
    destruct (negb (int_r c && rdy_r c)); [injection H as <- <- <-; auto|].
    destruct (readable c s) as [[c1 s1] r1] eqn:Erd.
    destruct (readable_spec c s c1 s1 r1 Hinv Erd) as (I1 & (_ & M1 & _) & _).
    destruct (owner_loop_inv _ _ _ _ _ _ _ I1 H) as (I & M). split; [exact I|congruence].
  Qed.

  Lemma api_step_inv st o :
    chan_inv (fst st) ->
    chan_inv (fst (api_step decodable st o)) /\ maxb (fst (api_step decodable st o)) = maxb (fst st).
  Proof.
    destruct st as [c s]; cbn [fst]; intros Hinv.
    destruct o as [bs| |l|r w| | |p| |fuel]; cbn [api_step fst]; auto with chan.
    - destruct (readable c s) as [[c1 s1] r1] eqn:E. cbn [fst].
      destruct (readable_spec c s c1 s1 r1 Hinv E) as (I & (_ & M & _) & _). auto.
    - destruct (read_message decodable c) as [c1 r1] eqn:E. cbn [fst].
      destruct (read_message_inv decodable c c1 r1 Hinv E) as (I & (_ & M & _) & _). auto.
    - destruct (write_message c p) as [c1 r1] eqn:E. cbn [fst].
      destruct (write_message_spec c p c1 r1 Hinv E) as (I & _ & M & _). auto.
    - destruct (writable c s) as [[c1 s1] r1] eqn:E. cbn [fst].
      destruct (writable_spec c s c1 s1 r1 Hinv E) as (I & _ & M & _). auto.
    - destruct (owner_turn decodable fuel c s) as [[c1 s1] r1] eqn:E. cbn [fst].
      eapply owner_turn_inv; eauto.
  Qed.

  Lemma api_history_inv ops : forall st,
    chan_inv (fst st) ->
    chan_inv (fst (fold_left (api_step decodable) ops st)) /\
    maxb (fst (fold_left (api_step decodable) ops st)) = maxb (fst st).
  Proof.
    induction ops as [|o ops IH]; intros st H; cbn [fold_left]; [auto|].
    destruct (api_step_inv st o H) as (I & M).
    destruct (IH _ I) as (I' & M'). split; [exact I'|congruence].
  Qed.

  Lemma capacity_bounded_lemma init max ops :
    init <= max ->
    let c := fst (fold_left (api_step decodable) ops (new_chan init max, empty_sock)) in
    buf_ok (front c) /\ buf_ok (back c) /\ cap (front c) <= max /\ cap (back c) <= max.
  Proof.
    intros H c.
    destruct (api_history_inv ops (new_chan init max, empty_sock) (new_chan_inv init max H)) as (I & M).
    fold c in I, M. cbn [fst maxb new_chan] in M. destruct I as (A & B & C & D & E).
    rewrite M in C, D. auto.
  Qed.
End History.

(* ------------------------------------------------------------------ *)
(** ** end-to-end delivery: every message list, every chunking *)

Lemma ensure_space_flags c c1 :
  ensure_space c = Some c1 -> rdy_r c1 = rdy_r c /\ int_r c1 = int_r c.
Proof.
  unfold ensure_space. destruct (avail_space (front c) =? 0).
  - destruct (grow_size c (cap (front c))); [|discriminate]. intros H; injection H as <-. auto.
  - intros H; injection H as <-. auto.
Qed.

Lemma readable_loop_progress fuel : forall c s count c' s' r,
  rdy_r c = true -> ineof s = false ->
  readable_loop fuel c s count = (c', s', r) ->
  length (inq s') <= length (inq s) /\ (rdy_r c' = false -> inq s' = []).
Proof.
  induction fuel as [|f IH]; intros c s count c' s' r Hr He H; cbn [readable_loop] in H.
  { injection H as <- <- <-. split; [lia|congruence]. }
  destruct (ensure_space c) as [c1|] eqn:Ee.
  2:{ injection H as <- <- <-. unfold_setters. split; [lia|congruence]. }
  destruct (ensure_space_flags c c1 Ee) as (R1 & _).
  destruct (inq s) as [|x xs] eqn:Eq.
  - rewrite He in H. injection H as <- <- <-. rewrite Eq. auto.
  - destruct (fill_bytes (front c1) (x :: xs)) as [fb n] eqn:Ef.
    apply IH in H; [|unfold_setters; congruence|cbn [ineof]; exact He].
    cbn [inq] in H. destruct H as (L & Z). split; [|exact Z].
    rewrite skipn_length in L. lia.
Qed.

Lemma readable_loop_first fuel c s count c' s' r :
  rdy_r c = true -> ineof s = false ->
  inq s <> [] -> 0 < avail_space (front c) ->
  readable_loop (S fuel) c s count = (c', s', r) ->
  length (inq s') < length (inq s).
Proof.
  intros Hr He Hne Hsp H. cbn [readable_loop] in H.
  unfold ensure_space in H.
  destruct (avail_space (front c) =? 0) eqn:E0; [apply Nat.eqb_eq in E0; lia|].
  destruct (inq s) as [|x xs] eqn:Eq; [congruence|].
  destruct (fill_bytes (front c) (x :: xs)) as [fb n] eqn:Ef.
  pose proof (fill_bytes_cnt (front c) (x :: xs)) as Hn. rewrite Ef in Hn. cbn [snd] in Hn.
  apply readable_loop_progress in H; [|unfold_setters; exact Hr|cbn [ineof]; exact He].
  cbn [inq] in H. destruct H as (L & _). rewrite skipn_length in L.
  cbn [length] in *. lia.
Qed.

(** [read_message] never touches the READABLE readiness bit *)
Lemma read_message_rdy decodable c : rdy_r (fst (read_message decodable c)) = rdy_r c.
Proof.
  unfold read_message, try_read, read_fallthrough, try_shrink_front.
  repeat match goal with
         | |- context [if ?b then _ else _] => destruct b
         | |- context [match grow_size ?a ?b with _ => _ end] => destruct (grow_size a b)
         end; reflexivity.
Qed.

Definition stream (ps : list (list N)) : list N := concat (map frame ps).

(** every prefix of a well-formed stream is some complete frames followed by
    a strict prefix of the next frame *)
Lemma prefix_split : forall ps w z,
  w ++ z = stream ps ->
  exists ps1 ps2 tail,
    ps = ps1 ++ ps2 /\ w = stream ps1 ++ tail /\ tail ++ z = stream ps2 /\
    (ps2 = [] -> tail = []) /\
    (forall q ps2', ps2 = q :: ps2' -> length tail < length (frame q)).
Proof.
  induction ps as [|p ps IH]; intros w z H; unfold stream in *; cbn [map concat] in *.
  - apply app_eq_nil in H. destruct H as (-> & ->).
    exists [], [], []. repeat split; auto. intros; discriminate.
  - destruct (Nat.lt_ge_cases (length w) (length (frame p))) as [L|L].
    + exists [], (p :: ps), w. cbn [map concat app]. repeat split; auto; [discriminate|].
      intros q ps2' E; injection E as <- <-. exact L.
    + assert (Hw : w = frame p ++ skipn (length (frame p)) w).
      { rewrite <- (firstn_skipn (length (frame p)) w) at 1. f_equal.
        assert (F : firstn (length (frame p)) (w ++ z) = firstn (length (frame p)) (frame p ++ concat (map frame ps))) by (rewrite H; reflexivity).
        rewrite firstn_app in F. replace (length (frame p) - length w) with 0 in F by lia.
        rewrite firstn_O, app_nil_r in F. rewrite F.
        rewrite firstn_app, Nat.sub_diag, firstn_O, app_nil_r, firstn_all. reflexivity. }
      set (w' := skipn (length (frame p)) w) in *.
      assert (H' : w' ++ z = concat (map frame ps)).
      { rewrite Hw, <- app_assoc in H. apply app_inv_head in H. exact H. }
      destruct (IH w' z H') as (ps1 & ps2 & tail & E1 & E2 & E3 & E4 & E5).
      exists (p :: ps1), ps2, tail. cbn [map concat app].
      repeat split; auto; [rewrite E1; reflexivity|rewrite Hw, E2, app_assoc; reflexivity].
Qed.

(** [Channel::into] (re-typing) is the identity on everything the model tracks, so
    every statement about reads, writes and delivery holds across it. *)
Lemma retype_id : forall c, retype c = c.
Proof. reflexivity. Qed.

Lemma retype_transparent :
  forall (decodable : list N -> bool) c s,
    retype c = c /\
    read_message decodable (retype c) = read_message decodable c /\
    readable (retype c) s = readable c s /\
    writable (retype c) s = writable c s.
Proof. intros decodable c s. rewrite retype_id. repeat split. Qed.
