(** CfgState — composition of the proved sections of [diff] over the whole
    section order (C06). *)
From stdpp Require Import gmap strings.
From Coq Require Import NArith Lia.
From SV Require Import CfgState.Model CfgState.Spec CfgState.Proofs CfgState.ReplayProofs CfgState.ReplayBuckets
  CfgState.InvRProofs CfgState.DiffProofs CfgState.DiffApply CfgState.DiffChunks CfgState.DiffClusters CfgState.DiffAbs CfgState.DiffCerts
  CfgState.DiffBuckets CfgState.DiffTFronts CfgState.DiffBackends.
Open Scope N_scope.

Lemma norm_bucket_lookup (c : gmap N (list tfront)) cl :
  (isort tf_le <$> drop_empty c) !! cl =
  match default [] (c !! cl) with [] => None | _ => Some (isort tf_le (default [] (c !! cl))) end.
Proof.
  rewrite lookup_fmap. unfold drop_empty. destruct (c !! cl) as [l|] eqn:E; cbn [default].
  - destruct l as [|x l].
    + rewrite (proj2 (map_filter_lookup_None (fun kv : N * list tfront => snd kv <> []) c cl)); [reflexivity|]. right. intros l' Hl Hne. cbn in Hne. congruence.
    + rewrite (proj2 (map_filter_lookup_Some (fun kv : N * list tfront => snd kv <> []) c cl (x :: l))); [reflexivity|]. split; [exact E|discriminate].
  - rewrite (proj2 (map_filter_lookup_None (fun kv : N * list tfront => snd kv <> []) c cl)); [reflexivity|]. left. exact E.
Qed.

Lemma tabs_norm_set (c1 c2 : gmap N (list tfront)) :
  tIv c1 -> tIv c2 -> (forall k, tabs c1 k = tabs c2 k) ->
  isort tf_le <$> drop_empty c1 = isort tf_le <$> drop_empty c2.
Proof.
  intros H1 H2 He. apply map_eq. intros cl. rewrite !norm_bucket_lookup.
  set (e1 := default [] (c1 !! cl)). set (e2 := default [] (c2 !! cl)).
  assert (Hn : forall (c : gmap N (list tfront)), tIv c -> NoDup (default [] (c !! cl))).
  { intros c Hc. destruct (c !! cl) as [l|] eqn:E; cbn; [eapply NoDup_fmap_1; eapply Hc; eauto|constructor]. }
  assert (Hmem : forall t, t ∈ e1 <-> t ∈ e2) by (intros t; apply (labs_same_elements t_addr c1 c2 H1 H2 He)).
  assert (Hs : isort tf_le e1 = isort tf_le e2).
  { apply (sorted_nodup_eq tf_le tf_le_trans tf_le_antisym).
    - apply isort_sorted, tf_le_total.
    - apply isort_sorted, tf_le_total.
    - rewrite (isort_perm tf_le). apply Hn; exact H1.
    - rewrite (isort_perm tf_le). apply Hn; exact H2.
    - intros t. rewrite !elem_of_list_In, !In_isort, <- !elem_of_list_In. apply Hmem. }
  destruct e1 as [|x1 r1] eqn:E1; destruct e2 as [|x2 r2] eqn:E2; try reflexivity.
  - exfalso. assert (H : x2 ∈ ([] : list tfront)) by (apply Hmem; left). inversion H.
  - exfalso. assert (H : x1 ∈ ([] : list tfront)) by (apply Hmem; left). inversion H.
  - rewrite Hs. reflexivity.
Qed.

Section compose.
  Variable fingerprint : N -> option N.
  Variable inames : N -> option (list N).
  Variable hc_valid : N -> bool.
  Variable steps : lkind -> list step.
  Notation replay := (replay fingerprint inames hc_valid steps).
  Notation InvR := (InvR fingerprint inames hc_valid).

  (** Every request of diff(A,B) is accepted by an instance holding A, and the
      instance then holds B (modulo empty buckets) — for A, B satisfying the
      reachable-state invariant, whose backends and tcp/udp frontends agree
      (those three sections are not proved yet). *)
  Theorem apply_diff_sections A B :
    InvR A -> InvR B ->
    backends B = backends A -> tcp_f B = tcp_f A -> udp_f B = udp_f A ->
    exists Z, replay (diff A B) A = (Z, 0%nat) /\ norm Z = norm B.
  Proof.
    intros ([_ HfkA] & _ & _ & _ & _) ([HhcB HfkB] & _ & _ & HcB & _) Eb Et Eu.
    unfold diff. rewrite Eb, Et, Eu. rewrite diff_backends_self, !diff_tfronts_self. cbn [app].
    pose (P := fun k => piece_removed fingerprint inames hc_valid steps k).
    (* 1-8: removed / added, per kind *)
    rewrite replay_app, (piece_removed fingerprint inames hc_valid steps LTcp (tcp_l A) (tcp_l B) A eq_refl).
    set (s1 := set_l LTcp A _).
    rewrite replay_app, (piece_added fingerprint inames hc_valid steps LTcp (tcp_l A) (tcp_l B) s1 eq_refl).
    set (s2 := set_l LTcp s1 _).
    rewrite replay_app, (piece_removed fingerprint inames hc_valid steps LUdp (udp_l A) (udp_l B) s2 eq_refl).
    set (s3 := set_l LUdp s2 _).
    rewrite replay_app, (piece_added fingerprint inames hc_valid steps LUdp (udp_l A) (udp_l B) s3 eq_refl).
    set (s4 := set_l LUdp s3 _).
    rewrite replay_app, (piece_removed fingerprint inames hc_valid steps LHttp (http_l A) (http_l B) s4 eq_refl).
    set (s5 := set_l LHttp s4 _).
    rewrite replay_app, (piece_added fingerprint inames hc_valid steps LHttp (http_l A) (http_l B) s5 eq_refl).
    set (s6 := set_l LHttp s5 _).
    rewrite replay_app, (piece_removed fingerprint inames hc_valid steps LHttps (https_l A) (https_l B) s6 eq_refl).
    set (s7 := set_l LHttps s6 _).
    rewrite replay_app, (piece_added fingerprint inames hc_valid steps LHttps (https_l A) (https_l B) s7 eq_refl).
    set (s8 := set_l LHttps s7 _).
    (* 9-12: listeners present on both sides *)
    rewrite replay_app, (piece_common fingerprint inames hc_valid steps LTcp (tcp_l A) (tcp_l B) s8 eq_refl).
    set (s9 := set_l LTcp s8 _).
    rewrite replay_app, (piece_common fingerprint inames hc_valid steps LUdp (udp_l A) (udp_l B) s9 eq_refl).
    set (s10 := set_l LUdp s9 _).
    rewrite replay_app, (piece_common fingerprint inames hc_valid steps LHttp (http_l A) (http_l B) s10 eq_refl).
    set (s11 := set_l LHttp s10 _).
    rewrite replay_app, (piece_common fingerprint inames hc_valid steps LHttps (https_l A) (https_l B) s11 eq_refl).
    set (s12 := set_l LHttps s11 _).
    (* 13: clusters *)
    rewrite replay_app, (piece_clusters fingerprint inames hc_valid steps (clusters A) (clusters B) s12 eq_refl HhcB).
    set (s13 := set_clusters s12 _).
    (* 15-16: http / https frontends *)
    rewrite replay_app, (apply_diff_fronts fingerprint inames hc_valid steps false (http_f A) (http_f B) s13 eq_refl
                           (fun k f H => proj1 (HfkA false k f H)) (HfkB false)).
    set (s14 := set_f false s13 _).
    rewrite replay_app, (apply_diff_fronts fingerprint inames hc_valid steps true (https_f A) (https_f B) s14 eq_refl
                           (fun k f H => proj1 (HfkA true k f H)) (HfkB true)).
    set (s15 := set_f true s14 _).
    (* 19: certificates *)
    destruct (piece_certs fingerprint inames hc_valid steps (certs A) (certs B) s15 eq_refl HcB) as (c' & Hrc & Hc').
    rewrite replay_app, Hrc.
    set (s16 := set_certs s15 c').
    (* 20-21: late activation *)
    rewrite replay_app, (piece_late fingerprint inames hc_valid steps LTcp (tcp_l A) (tcp_l B) s16 eq_refl).
    rewrite (piece_late fingerprint inames hc_valid steps LUdp (udp_l A) (udp_l B) s16 eq_refl).
    exists s16. split; [reflexivity|].
    unfold norm. cbn. rewrite Eb, Et, Eu. f_equal. apply cabs_norm. exact Hc'.
  Qed.

  (** C06 at full strength on the model: for ANY two states satisfying the
      reachable-state invariant, every request of diff(A,B) is accepted by an
      instance holding A, which then holds B — all eleven maps, modulo empty
      buckets and the order inside tcp/udp frontend buckets. *)
  Theorem apply_diff A B :
    InvR A -> InvR B ->
    exists Z, replay (diff A B) A = (Z, 0%nat) /\ norm_set Z = norm_set B.
  Proof.
    intros ([_ HfkA] & HbA & HtA & _ & _) ([HhcB HfkB] & HbB & HtB & HcB & HgB).
    unfold diff.
    rewrite replay_app, (piece_removed fingerprint inames hc_valid steps LTcp (tcp_l A) (tcp_l B) A eq_refl).
    set (s1 := set_l LTcp A _).
    rewrite replay_app, (piece_added fingerprint inames hc_valid steps LTcp (tcp_l A) (tcp_l B) s1 eq_refl).
    set (s2 := set_l LTcp s1 _).
    rewrite replay_app, (piece_removed fingerprint inames hc_valid steps LUdp (udp_l A) (udp_l B) s2 eq_refl).
    set (s3 := set_l LUdp s2 _).
    rewrite replay_app, (piece_added fingerprint inames hc_valid steps LUdp (udp_l A) (udp_l B) s3 eq_refl).
    set (s4 := set_l LUdp s3 _).
    rewrite replay_app, (piece_removed fingerprint inames hc_valid steps LHttp (http_l A) (http_l B) s4 eq_refl).
    set (s5 := set_l LHttp s4 _).
    rewrite replay_app, (piece_added fingerprint inames hc_valid steps LHttp (http_l A) (http_l B) s5 eq_refl).
    set (s6 := set_l LHttp s5 _).
    rewrite replay_app, (piece_removed fingerprint inames hc_valid steps LHttps (https_l A) (https_l B) s6 eq_refl).
    set (s7 := set_l LHttps s6 _).
    rewrite replay_app, (piece_added fingerprint inames hc_valid steps LHttps (https_l A) (https_l B) s7 eq_refl).
    set (s8 := set_l LHttps s7 _).
    rewrite replay_app, (piece_common fingerprint inames hc_valid steps LTcp (tcp_l A) (tcp_l B) s8 eq_refl).
    set (s9 := set_l LTcp s8 _).
    rewrite replay_app, (piece_common fingerprint inames hc_valid steps LUdp (udp_l A) (udp_l B) s9 eq_refl).
    set (s10 := set_l LUdp s9 _).
    rewrite replay_app, (piece_common fingerprint inames hc_valid steps LHttp (http_l A) (http_l B) s10 eq_refl).
    set (s11 := set_l LHttp s10 _).
    rewrite replay_app, (piece_common fingerprint inames hc_valid steps LHttps (https_l A) (https_l B) s11 eq_refl).
    set (s12 := set_l LHttps s11 _).
    rewrite replay_app, (piece_clusters fingerprint inames hc_valid steps (clusters A) (clusters B) s12 eq_refl HhcB).
    set (s13 := set_clusters s12 _).
    destruct (piece_backends fingerprint inames hc_valid steps (backends A) (backends B) HbA HbB s13 eq_refl) as (cb & Hrb & Hib & Hab).
    rewrite replay_app, Hrb.
    set (s14 := set_backends s13 cb).
    rewrite replay_app, (apply_diff_fronts fingerprint inames hc_valid steps false (http_f A) (http_f B) s14 eq_refl
                           (fun k f H => proj1 (HfkA false k f H)) (HfkB false)).
    set (s15 := set_f false s14 _).
    rewrite replay_app, (apply_diff_fronts fingerprint inames hc_valid steps true (https_f A) (https_f B) s15 eq_refl
                           (fun k f H => proj1 (HfkA true k f H)) (HfkB true)).
    set (s16 := set_f true s15 _).
    destruct (piece_tfronts fingerprint inames hc_valid steps false (tcp_f A) (tcp_f B) s16 eq_refl (HtA false) (HtB false) (HgB false)) as (ct & Hrt & Hit & Hat).
    rewrite replay_app, Hrt.
    set (s17 := set_t false s16 ct).
    destruct (piece_tfronts fingerprint inames hc_valid steps true (udp_f A) (udp_f B) s17 eq_refl (HtA true) (HtB true) (HgB true)) as (cu & Hru & Hiu & Hau).
    rewrite replay_app, Hru.
    set (s18 := set_t true s17 cu).
    destruct (piece_certs fingerprint inames hc_valid steps (certs A) (certs B) s18 eq_refl HcB) as (cc & Hrc & Hcc).
    rewrite replay_app, Hrc.
    set (s19 := set_certs s18 cc).
    rewrite replay_app, (piece_late fingerprint inames hc_valid steps LTcp (tcp_l A) (tcp_l B) s19 eq_refl).
    rewrite (piece_late fingerprint inames hc_valid steps LUdp (udp_l A) (udp_l B) s19 eq_refl).
    exists s19. split; [reflexivity|].
    unfold norm_set, norm. cbn.
    rewrite (babs_norm cb (backends B) Hib HbB Hab).
    rewrite (tabs_norm_set ct (tcp_f B) Hit (HtB false) Hat).
    rewrite (tabs_norm_set cu (udp_f B) Hiu (HtB true) Hau).
    rewrite (cabs_norm cc (certs B) Hcc). reflexivity.
  Qed.
End compose.
