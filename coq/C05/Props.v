(** C05 — property theorems (placeholder while the check is brought up). *)
From SV Require Import CfgState.Model CfgState.Gen CfgState.GenSteps.
Theorem gen_atomic : forall k, atomic (steps_of k) = true.
Proof. intros []; vm_compute; reflexivity. Qed.
