//! C05 driver: the shared `ConfigState` interpreter with the C05 oracle switched on
//! (see harness/src/cfgstate.rs).
fn main() {
    verif_harness::cfgstate::main_for(verif_harness::cfgstate::Mode::C05);
}
