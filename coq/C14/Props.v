(** C14 — property theorems (statements; proofs are in C14/Proofs.v). *)
From Coq Require Import List ZArith Bool Lia.
From SV Require Import C14.Gen C14.Model C14.Proofs.
Import ListNotations.
Open Scope Z_scope.

(** 1. Never over the peer's limits.  Whatever the windows (including windows a
    SETTINGS shrink drove negative), the peer's max frame size and the queued
    body, what one stream puts on the wire in a write pass is: DATA frames each
    within [max_frame]; in total at most [max 0 (min stream_window
    connection_window)] (so nothing when either window is <= 0); both windows
    decrease by exactly that total (no byte escapes the books); no body byte is
    lost.  Since every accepted WINDOW_UPDATE / SETTINGS adds exactly its
    increment / delta to the same window ([overflow_is_error] below), the books
    [window = credit granted - bytes sent] are preserved along every schedule. *)
Theorem never_over_window :
  forall fuel c x x' cw' frames,
    0 <= max_frame c -> Forall (fun b => 0 <= b) (body x) ->
    I32_MIN <= swin x <= I32_MAX -> I32_MIN <= cwin c <= I32_MAX ->
    write_stream fuel c x = Some (x', cw', frames) ->
    Forall (fun f => 0 <= f /\ f <= max_frame c) frames /\
    0 <= sumz frames <= Z.max 0 (Z.min (swin x) (cwin c)) /\
    swin x' = swin x - sumz frames /\ cw' = cwin c - sumz frames /\
    sumz frames + sumz (body x') = sumz (body x) /\ sid x' = sid x.
Proof. exact write_stream_sound. Qed.

Example never_over_window_nonvacuous :
  write_stream 100 (mkconn 20000 65535 16384 100 2 true [] false) (mkstream 1 65535 [40000]) =
  Some (mkstream 1 45535 [20000], 0, [16384; 3616]) /\
  write_stream 100 (mkconn 20000 65535 16384 100 2 true [] false) (mkstream 1 (-5) [40000]) =
  Some (mkstream 1 (-5) [40000], 20000, []).
Proof. vm_compute. split; reflexivity. Qed.

(** 2. Zero increments and overflows are errors of the prescribed kind, and an
    accepted update adds exactly its increment (connection: GOAWAY; stream:
    RST_STREAM); SETTINGS_INITIAL_WINDOW_SIZE applies its delta to every
    stream or is a connection error. *)
Theorem overflow_is_error :
  (forall c inc, 0 <= inc <= I32_MAX -> I32_MIN <= cwin c ->
     match on_window_update c 0 inc with
     | (_, GoAway ProtocolError) => inc = 0
     | (_, GoAway FlowControlError) => inc <> 0 /\ I32_MAX < cwin c + inc
     | (c', Continue) => inc <> 0 /\ cwin c' = cwin c + inc /\ cwin c' <= I32_MAX /\
                         streams c' = streams c /\ (cwin c <= 0 -> 0 < cwin c' -> writable c' = true)
     | (_, RstStream _ _) => False
     end) /\
  (forall c s inc x, s <> 0 -> 0 <= inc <= I32_MAX -> find_stream s (streams c) = Some x -> I32_MIN <= swin x ->
     match on_window_update c s inc with
     | (_, RstStream s' ProtocolError) => s' = s /\ inc = 0
     | (_, RstStream s' FlowControlError) => s' = s /\ inc <> 0 /\ I32_MAX < swin x + inc
     | (c', Continue) => inc <> 0 /\ swin x + inc <= I32_MAX /\ cwin c' = cwin c
     | (_, GoAway _) => False
     end) /\
  (forall c v, 0 <= v ->
     match on_settings_initial_window c v with
     | (c', Continue) =>
       v <= FLOW_CONTROL_MAX_WINDOW /\ init_win c' = v /\ cwin c' = cwin c /\
       map sid (streams c') = map sid (streams c) /\
       map swin (streams c') = map (fun x => swin x + (v - init_win c)) (streams c)
     | (_, GoAway FlowControlError) =>
       FLOW_CONTROL_MAX_WINDOW < v \/
       exists x, In x (streams c) /\ (I32_MAX < swin x + (v - init_win c) \/ swin x + (v - init_win c) < I32_MIN)
     | (_, GoAway ProtocolError) => False
     | (_, RstStream _ _) => False
     end).
Proof.
  split; [exact window_update_conn|]. split; [exact window_update_stream|exact settings_initial_window_spec].
Qed.

Example overflow_is_error_nonvacuous :
  snd (on_window_update (conn_new true) 0 2147418113) = GoAway FlowControlError /\
  snd (on_window_update (conn_new true) 0 2147418112) = Continue /\
  snd (on_window_update (conn_new true) 0 0) = GoAway ProtocolError.
Proof. vm_compute. repeat split; reflexivity. Qed.

(** 3. Identifiers: 31 bits, strictly above everything issued before, parity of
    the role from an even watermark, [None] once the space is exhausted; new
    streams only while fewer than the peer's MAX_CONCURRENT_STREAMS are open. *)
Theorem ids_legal :
  (forall last client issued next, 0 <= last -> next_stream_id last client = Some (issued, next) ->
     next = last + 2 /\ 0 <= issued <= STREAM_ID_MAX /\ last - 0 <= issued + 0 /\ issued < next /\
     (Z.even last = true -> Z.odd issued = client)) /\
  (forall last client, STREAM_ID_MAX + 1 <= last -> next_stream_id last client = None) /\
  (forall c chunks c' r, start_stream c chunks = (c', r) ->
     (r <> None -> Z.of_nat (length (streams c)) < max_conc c /\ length (streams c') = S (length (streams c))) /\
     (r = None -> c' = c)).
Proof.
  split; [exact next_stream_id_spec|]. split; [exact next_stream_id_exhausted|exact start_stream_bound].
Qed.

Example ids_legal_nonvacuous :
  next_stream_id 0 true = Some (1, 2) /\ next_stream_id 2147483646 true = Some (2147483647, 2147483648) /\
  next_stream_id 2147483648 true = None.
Proof. vm_compute. repeat split; reflexivity. Qed.

(** 4. Progress.  With both windows positive, a legal max frame size and bytes
    left, a write pass emits at least one DATA byte and strictly reduces what
    is left (no zero-length spin, no stall with positive credit); every
    transition of a window from <= 0 to > 0 arms WRITABLE (theorem 2).
    Full statement (whole body sent under any legal eventually-sufficient
    schedule, by induction on the bytes left) follows from this measure
    decrease for chunk lists whose entries are positive; the iteration itself is
    not mechanised: [progress] is the step it rests on. *)
Theorem progress :
  forall fuel c x b rest x' cw' frames,
    body x = b :: rest -> 0 < b -> Forall (fun k => 0 <= k) rest ->
    0 < swin x <= I32_MAX -> 0 < cwin c <= I32_MAX -> 0 < max_frame c -> (0 < fuel)%nat ->
    write_stream fuel c x = Some (x', cw', frames) ->
    sumz (body x') < sumz (body x) /\ 0 < sumz frames.
Proof. exact progress_round. Qed.

Example progress_nonvacuous :
  write_stream 10 (mkconn 1 65535 16384 100 2 true [] false) (mkstream 1 1 [70000]) =
  Some (mkstream 1 0 [69999], 0, [1]).
Proof. vm_compute. reflexivity. Qed.

(** 5. Receiver: coalesced WINDOW_UPDATE increments stay legal (1 .. 2^31-1). *)
Theorem replenish_legal :
  forall cap q s inc, 0 < inc -> Forall (fun e => 0 < snd e <= I32_MAX) q ->
    Forall (fun e => 0 < snd e <= I32_MAX) (queue_window_update cap q s inc).
Proof. exact queue_window_update_legal. Qed.

Example replenish_legal_nonvacuous :
  queue_window_update 3 [(1, 10); (3, 2147483000)] 3 70000 = [(1, 10); (3, 2147483647)].
Proof. vm_compute. reflexivity. Qed.

(** 6. Schedule level.  One stream and its connection, with the PEER's own books
    next to them (credit granted, bytes received: ghost fields), driven by ANY
    list of events: WINDOW_UPDATE on the connection / on the stream (any
    increment: illegal ones end the run), SETTINGS_INITIAL_WINDOW_SIZE (any
    value, shrinking included), other streams' write turns, this stream's write
    turns.  At every point (the statement is for every list, hence for every
    prefix): each window equals credit granted minus bytes sent, for the stream
    and for the connection; a step never moves [sent] above
    [max sent credit] (so [sent <= credit] whenever no SETTINGS shrink took
    credit back below what was already sent, and nothing is emitted while a
    window is <= 0); every DATA frame is within the peer's max frame size. *)
Theorem never_over_window_schedule :
  (forall evs b b' out, balanced b -> brun b evs = (b', out) ->
     balanced b' /\ k_ss b <= k_ss b' /\ k_sc b <= k_sc b') /\
  (forall b e b' fr, balanced b -> bstep b e = (b', fr) ->
     balanced b' /\ Forall (fun f => 0 <= f /\ f <= b_mf b) fr /\
     k_ss b' = k_ss b + sumz fr /\ k_sc b' >= k_sc b + sumz fr /\
     k_ss b' <= Z.max (k_ss b) (k_cs b) /\ k_sc b' <= Z.max (k_sc b) (k_cc b) /\
     k_ss b <= k_ss b' /\ k_sc b <= k_sc b') /\
  (forall b, balanced b ->
     (0 <= b_sw b -> k_ss b <= k_cs b) /\ (0 <= b_cw b -> k_sc b <= k_cc b)).
Proof.
  split; [exact brun_balanced|]. split; [exact bstep_balanced|exact balanced_sent_le_credit].
Qed.

Example never_over_window_schedule_nonvacuous :
  let b0 := mkbooks 65535 65535 65535 16384 [200000] 65535 0 65535 0 false in
  balanced b0 /\
  (let '(b, out) := brun b0 [EWrite 100; ESettingsIW 100; EWrite 100; EWUconn 50000; EWUstream 70000; EWrite 100] in
   (b_sw b, b_cw b, k_ss b, k_cs b, out) =
   (0, 45435, 70100, 70100, [[16384; 16384; 16384; 16383]; []; []; []; []; [4565]])).
Proof.
  split.
  - unfold balanced, I32_MIN, I32_MAX. cbn. repeat split; try lia. repeat constructor; lia.
  - vm_compute. reflexivity.
Qed.

(** 7. Complete transfer.  A round = the peer's updates have made both windows
    positive (ANY positive values: tiny drips included) and the stream gets a
    write turn with a legal max frame size.  After at most as many rounds as
    there are body bytes, nothing is left queued: the whole body was sent
    (induction on the bytes left, from [progress]).  The delivery of the
    WRITABLE event that starts each round is the runtime part (theorem 2 shows
    it is armed on every <=0 -> >0 transition). *)
Theorem transfer_completes :
  forall n x x', Forall (fun c => 0 < c) (body x) -> rounds n x x' ->
    sumz (body x) <= Z.of_nat n -> body x' = [].
Proof. exact transfer_completes_l. Qed.

Example transfer_completes_nonvacuous :
  exists x', rounds 3 (mkstream 1 0 [3]) x' /\ body x' = [].
Proof.
  exists (mkstream 1 0 []).
  split; [|reflexivity].
  eapply rounds_S.
  { eapply (round_intro (mkstream 1 0 [3]) (mkconn 1 65535 16384 100 2 true [] false) 1 10); try (unfold I32_MAX; cbn; lia). vm_compute. reflexivity. }
  eapply rounds_S.
  { eapply (round_intro (mkstream 1 0 [2]) (mkconn 1 65535 16384 100 2 true [] false) 1 10); try (unfold I32_MAX; cbn; lia). vm_compute. reflexivity. }
  eapply rounds_S.
  { eapply (round_intro (mkstream 1 0 [1]) (mkconn 1 65535 16384 100 2 true [] false) 1 10); try (unfold I32_MAX; cbn; lia). vm_compute. reflexivity. }
  apply rounds_O.
Qed.

(** 8. No lost wake-up.  The books plus the WRITABLE bit, driven by ANY list of
    peer events (WINDOW_UPDATE, SETTINGS, other streams' turns), arrivals of
    new body bytes from the other side of the stream, and event-loop turns (a
    write pass runs iff WRITABLE is armed and strips it afterwards): at every
    point, whenever bytes are queued and both windows are positive, WRITABLE is
    armed, so the loop will run a write pass, and that pass strictly reduces
    what is queued.  With theorem 7 this is the whole liveness argument up to
    the delivery of armed events by epoll. *)
Theorem no_lost_wakeup :
  (forall evs s, wk_inv s -> wk_inv (fold_left (fun st e => fst (wstep true st e)) evs s)) /\
  (forall s fuel, wk_inv s -> sendable (wb s) ->
     armed s = true /\
     forall s' fr, wstep true s (WLoop fuel) = (s', fr) ->
       prepare fuel false (Z.min (b_sw (wb s)) (b_cw (wb s))) (b_mf (wb s)) (b_body (wb s)) [] <> None ->
       (0 < fuel)%nat ->
       sumz (b_body (wb s')) < sumz (b_body (wb s)) /\ 0 < sumz fr).
Proof. split; [exact wrun_inv|exact wakeup_then_progress]. Qed.

Example no_lost_wakeup_nonvacuous :
  let s0 := mkwk (mkbooks 0 65535 0 16384 [] 0 0 65535 0 false) false in
  wk_inv s0 /\
  (let s := fold_left (fun st e => fst (wstep true st e)) [WData 5000; WLoop 10; WPeer (EWUstream 1000)] s0 in
   armed s = true /\ b_sw (wb s) = 1000 /\ b_body (wb s) = [5000]).
Proof.
  split.
  - unfold wk_inv, balanced, sendable, I32_MIN, I32_MAX. cbn. repeat split; try lia; try constructor.
    all: intros (_ & H & _); contradiction.
  - vm_compute. repeat split; reflexivity.
Qed.

(** the arming on credit arrival is what makes it true: a connection that would
    not arm WRITABLE when a window crosses zero reaches a stalled state
    (bytes queued, both windows positive, nothing will ever run) *)
Example lost_wakeup_without_arming :
  let s0 := mkwk (mkbooks 0 65535 0 16384 [] 0 0 65535 0 false) false in
  let s := fold_left (fun st e => fst (wstep false st e)) [WData 5000; WLoop 10; WPeer (EWUstream 1000)] s0 in
  b_body (wb s) = [5000] /\ 0 < b_sw (wb s) /\ 0 < b_cw (wb s) /\ armed s = false /\
  fst (wstep false s (WLoop 10)) = s.
Proof. vm_compute. repeat split; reflexivity. Qed.

(** 9. The full ledger.  EVERY stream of a connection with the peer's books per
    stream and for the connection, driven by ANY list of: WINDOW_UPDATE on the
    connection or on any stream, SETTINGS_INITIAL_WINDOW_SIZE (delta applied to
    all open streams), SETTINGS_MAX_CONCURRENT_STREAMS, stream open (start_stream)
    / close, and whole write passes over all the streams sharing the connection
    window.  At every point: every stream window and the connection window are
    exactly credit minus sent; the total sent on the connection never exceeds
    the connection credit; a stream with a non-negative window has sent no more
    than its credit; a write pass sends in total at most the connection window,
    in frames within the peer's max frame size; a stream is opened only while
    fewer than the peer's MAX_CONCURRENT_STREAMS are open. *)
Theorem never_over_window_all_streams :
  (forall evs c c' outs, mc_ok c -> mrun c evs = (c', outs) ->
     mc_ok c' /\ m_sc c' = m_sc c + sumz (map (fun o => sumz (map snd o)) outs)) /\
  (forall c e c' out, mc_ok c -> mstep c e = (c', out) ->
     mc_ok c' /\
     m_sc c' = m_sc c + sumz (map snd out) /\ 0 <= sumz (map snd out) <= m_cw c /\
     Forall (fun p => 0 <= snd p /\ snd p <= m_mf c) out /\
     (forall sid chunks, e = MOpen sid chunks -> length (m_streams c') = S (length (m_streams c)) ->
        Z.of_nat (length (m_streams c)) < m_maxc c)) /\
  (forall c, mc_ok c ->
     m_sc c <= m_cc c /\ Forall (fun x => 0 <= ms_w x -> ms_sent x <= ms_credit x) (m_streams c)) /\
  (forall fuel mf l cw l' cw' out, 0 <= mf -> Forall ms_ok l -> 0 <= cw <= I32_MAX ->
     mpass fuel cw mf l = Some (l', cw', out) ->
     Forall2 (fun x x' => ms_sent x <= ms_sent x' /\ ms_sent x' <= Z.max (ms_sent x) (ms_credit x)) l l').
Proof.
  split; [exact mrun_ok|]. split; [exact mstep_ok|]. split; [exact mc_ok_ledger|].
  intros fuel mf l cw l' cw' out Hm Hl Hc H.
  destruct (mpass_sound fuel mf l cw l' cw' out Hm Hl Hc H) as (_ & _ & _ & _ & _ & _ & _ & R). exact R.
Qed.

Example never_over_window_all_streams_nonvacuous :
  let c0 := mkmc 65535 65535 16384 2 [] 65535 0 false in
  mc_ok c0 /\
  (let '(c, outs) := mrun c0 [MOpen 1 [50000]; MOpen 3 [50000]; MOpen 5 [10]; MWrite 100; MSettingsIW 1000;
                              MWUconn 40000; MWrite 100; MWUstream 3 70000; MWrite 100; MClose 1] in
   (m_cw c, m_sc c, m_cc c, map ms_id (m_streams c), map ms_w (m_streams c), map ms_sent (m_streams c), outs) =
   (5535, 100000, 105535, [3], [21000], [50000],
    [[]; []; []; [(1, 16384); (1, 16384); (1, 16384); (1, 848); (3, 15535)]; []; []; []; []; [(3, 16384); (3, 16384); (3, 1697)]; []])).
Proof.
  split.
  - unfold mc_ok, I32_MAX. cbn. repeat split; try lia. constructor.
  - vm_compute. reflexivity.
Qed.

(** the ledger's write pass IS the model's write pass (the one the correspondence
    run ties to the real converter), ghost fields erased *)
Corollary ledger_pass_is_model_pass :
  forall fuel mf l cw,
    write_pass_from fuel cw mf (map erase l) =
    match mpass fuel cw mf l with
    | Some (l', cw', out) => Some (map erase l', cw', out)
    | None => None
    end.
Proof. exact mpass_erases. Qed.

(** 10. Receiver side.  For ANY sequence of DATA frames (wire payload lengths,
    padding included, with or without END_STREAM) and any threshold, what sozu
    queues as WINDOW_UPDATE is exactly what it consumed: on the connection,
    credited + still pending = consumed; on the stream, credited = consumed by
    the frames that did not end the stream.  (A receiver that credited less,
    e.g. without the padding, starves the sender for good: mutation m3.) *)
Theorem credited_is_consumed :
  forall frames acc thr acc' cs ss,
    credit_run acc thr frames = (acc', cs, ss) ->
    sumz cs + acc' = acc + sumz (map fst frames) /\
    sumz ss = sumz (map fst (filter (fun f => negb (snd f)) frames)).
Proof. exact credit_conservation. Qed.

Example credited_is_consumed_nonvacuous :
  credit_run 0 500 [(266, false); (266, false); (266, false); (266, true)] = (0, [532; 532], [266; 266; 266]).
Proof. vm_compute. reflexivity. Qed.

(** 11. MAX_CONCURRENT_STREAMS toward a backend, under any list of attach /
    SETTINGS / write-pass / end events: a write pass never raises the number
    of streams open on the wire above the limit in force (when the limit was
    lowered below the open count it opens none), keeps every attached stream
    (open or waiting, in id order), and leaves a stream waiting only when the
    limit is reached. *)
Theorem concurrent_streams_bound :
  forall w e,
    let w' := wire_step w e in
    Z.of_nat (length (w_opened w')) <= Z.max (Z.of_nat (length (w_opened w))) (w_limit w) /\
    (e = WPass -> w_opened w' ++ w_waiting w' = w_opened w ++ w_waiting w /\
                  (w_waiting w' <> [] -> w_limit w <= Z.of_nat (length (w_opened w')))).
Proof. exact wire_step_bound. Qed.

Example concurrent_streams_bound_nonvacuous :
  fold_left wire_step [WAttach 1; WAttach 3; WAttach 5; WSettingsMCS 1; WPass; WEnd 1; WPass; WSettingsMCS 0; WEnd 3; WPass]
            (mkwire 100 [] []) = mkwire 0 [] [5].
Proof. vm_compute. reflexivity. Qed.

(** 12. The ready loop ([Mux::ready]).  With the test in force since fix
    50dae8f, when every hung-up connection in the loop is a backend kept for
    its undelivered bytes, "the loop continues" implies that some connection
    has READABLE or WRITABLE work, i.e. an I/O handler runs in the iteration:
    the loop cannot spin on bits that no handler consumes.  Before the fix it
    could: [ready_loop_spin_before_fix] is the state of the `truncated`
    finding (response waiting for the client's WINDOW_UPDATE, backend hung up):
    no I/O possible, yet the loop continued until MAX_LOOP_ITERATIONS closed
    the session. *)
Theorem ready_loop_has_io :
  forall front backends,
    (forall c, In c (front :: backends) -> cr_hup c = true -> cr_dead_kept c = true) ->
    loop_continues true front backends = true ->
    exists c, In c (front :: backends) /\ (cr_r c = true \/ cr_w c = true).
Proof. exact loop_continues_has_io. Qed.

Example ready_loop_spin_before_fix :
  let front := mkcr false false false false in          (* window-blocked: nothing to write, nothing readable yet *)
  let back := mkcr false false true true in             (* close-delimited backend hung up, its buffer still full *)
  loop_continues false front [back] = true /\ loop_continues true front [back] = false.
Proof. vm_compute. split; reflexivity. Qed.

(** 13. Reading DATA into per-stream buffers.  If the peer was never granted
    more than the free space of the target stream's buffer, a read attempt
    never parks the connection, so a WINDOW_UPDATE queued behind DATA is always
    reached.  Before the repair sozu granted 65535 per stream up front and
    returned stream credit when a frame was read, not when its bytes left the
    16 KiB buffer, so the premise did not hold: [wedge_reachable] is the final
    state of the finding `proxy-wedged` (both connections parked on a DATA
    frame for a full buffer, each one's send window at 0, each peer's
    WINDOW_UPDATE unread behind the parked frame): no read step is possible on
    either side.  [stream_credit_follows_buffer] (14) establishes the premise
    for the repaired receiver. *)
Theorem reading_never_parks_under_buffer_credit :
  forall c f r,
    rc_incoming c = f :: r ->
    (forall s len, f = FData s len -> len <= nth s (rc_free c) 0) ->
    read_one c <> None.
Proof. exact read_one_never_parks. Qed.

Example wedge_reachable :
  let front := mkrc [FData 0 16377; FWindowUpdate 65535] [16] 0 in   (* client socket: DATA for a full request buffer, then the credit *)
  let back := mkrc [FData 0 16384; FWindowUpdate 65535] [12] 0 in    (* backend socket: DATA for a full response buffer, then the credit *)
  read_one front = None /\ read_one back = None /\ rc_send_window front = 0 /\ rc_send_window back = 0.
Proof. vm_compute. repeat split; reflexivity. Qed.


(** 14. Stream credit follows the buffer (repair of `proxy-wedged`).  The
    announced stream window is at most the buffer capacity; received DATA is
    owed, not credited; [release_stream_credit] grants what keeps the peer's
    remaining window within the buffer's free space.  From a stream whose
    buffer is empty (its head has been forwarded), under any interleaving of
    compliant DATA frames, drains and releases: the peer's remaining window
    never exceeds the free space, so every DATA frame fits (reading never
    parks on this stream); no credit is lost or invented; and a release gives
    the peer its whole window back or exactly the free space (a blocked peer
    whose bytes were drained is always unblocked).
    Not covered: DATA that arrives while the request/response head still
    occupies the buffer, or before the peer has applied our SETTINGS (first
    flight): such a frame can still park the connection until the head is
    forwarded, which needs no flow-control credit. *)
Theorem stream_credit_follows_buffer :
  forall capacity b evs b' gs,
    let a := announced_stream_window capacity in
    sb_inv a b -> sb_legal_run a b evs -> sb_run a b evs = (b', gs) ->
    sb_inv a b' /\ sb_all_fit a b evs /\
    sb_owed b' + sumz gs = sb_owed b + sumz (map sb_received evs).
Proof.
  intros capacity b evs b' gs a I L R.
  destruct (sb_run_inv a evs b I L) as [I' F]. rewrite R in I'. cbn [fst] in I'.
  repeat split; try assumption; try apply I'. exact (sb_run_conservation a evs b b' gs R).
Qed.

Theorem stream_credit_initial_and_release :
  forall capacity, 0 <= capacity ->
    let a := announced_stream_window capacity in
    sb_inv a (mksb capacity 0) /\
    forall b, sb_inv a b ->
      let b' := fst (sb_step a b SRelease) in
      sb_owed b' = 0 \/ a - sb_owed b' = sb_free b'.
Proof.
  intros capacity H a. split.
  - unfold sb_inv, a, announced_stream_window, DEFAULT_INITIAL_WINDOW_SIZE. cbn [sb_free sb_owed]. lia.
  - intros b I. exact (sb_release_maximal a b I).
Qed.

Theorem reading_never_parks_after_repair :
  forall a c s len r b,
    rc_incoming c = FData s len :: r ->
    nth s (rc_free c) 0 = sb_free b ->
    sb_inv a b -> sb_legal a b (SData len) ->
    read_one c <> None.
Proof.
  intros a c s len r b Hi Hf I L. apply (read_one_never_parks c (FData s len) r Hi).
  intros s0 len0 E. inversion E; subst. rewrite Hf. exact (sb_data_fits a b len0 I L).
Qed.

Example stream_credit_follows_buffer_nonvacuous :
  (* 16393-byte buffer: the peer fills it, half is drained, a release grants 8000; all drained, the rest *)
  sb_run (announced_stream_window 16393) (mksb 16393 0)
         [SData 16384; SData 9; SRelease; SDrain 8000; SRelease; SDrain 8393; SRelease]
  = (mksb 16393 0, [0; 0; 0; 0; 8000; 0; 8393]).
Proof. vm_compute. reflexivity. Qed.

(** 15. The connection-level receive window granted to a peer.  With the window
    enlarged once to the configured [initial_connection_window] and received
    bytes returned as soon as they reach half of it: under any interleaving of
    enlargement points (every SETTINGS frame of a backend is one) and DATA
    frames of a compliant peer, the peer's connection window never exceeds the
    configured value (the bound on what one connection can have in flight
    toward the proxy) and stays above half of it once enlarged: a peer is never
    starved at connection level.
    [connection_window_inflates_before_fix]: without the once-guard three
    SETTINGS frames of a backend add three times the enlargement (black-box
    `c14bb2 resettings`: 3932164 bytes credited for 6 bytes sent). *)
Theorem connection_window_bounded_and_open :
  forall icw evs,
    DEFAULT_INITIAL_WINDOW_SIZE <= icw ->
    cr_legal_run icw crecv_new evs ->
    let s := fold_left (crecv_step true icw) evs crecv_new in
    cr_window s <= icw /\ (cr_enlarged s = true -> icw / 2 < cr_window s).
Proof.
  intros icw evs Hi L s. apply cr_inv_window; [assumption|]. apply crecv_run_inv; try assumption.
  unfold cr_inv, crecv_new, cr_window, DEFAULT_INITIAL_WINDOW_SIZE. cbn [cr_granted cr_consumed cr_acc cr_enlarged].
  assert (Hh : 32767 <= icw / 2) by (apply Z.div_le_lower_bound; unfold DEFAULT_INITIAL_WINDOW_SIZE in Hi; lia).
  split; lia.
Qed.

Example connection_window_inflates_before_fix :
  let icw := 1048576 in
  cr_window (fold_left (crecv_step false icw) [CEnlarge; CData 6; CEnlarge; CEnlarge; CEnlarge] crecv_new) = 3932164 + 65535 - 6 /\
  cr_window (fold_left (crecv_step true icw) [CEnlarge; CData 6; CEnlarge; CEnlarge; CEnlarge] crecv_new) = icw - 6.
Proof. vm_compute. split; reflexivity. Qed.

Example connection_window_bounded_and_open_nonvacuous :
  (* 65535-byte window (no enlargement): 600 padded frames of 266 wire bytes are all within the window, credit comes back every 124 frames *)
  let s := fold_left (crecv_step true 65535) (CEnlarge :: repeat (CData 266) 600) crecv_new in
  cr_consumed s = 159600 /\ cr_granted s = 65535 + 131936 /\ cr_acc s = 27664.
Proof. vm_compute. repeat split; reflexivity. Qed.

(** 16. Every DATA byte counts, whatever became of its stream.  Over any
    sequence of DATA frames for known streams, DATA frames for streams that
    are gone (refused, reset, timed out) and enlargement points: the wire bytes
    received are all either credited back on the connection window or pending
    in the accumulator (which is flushed at half the window): nothing the peer
    spent on a dead stream is lost to it.  [gone_stream_data_starves_before]:
    without the credit on the second path (seeded change r2_m1) 64000 bytes of
    refused streams leave a 65535-byte connection window at 1535 for good. *)
Theorem every_data_byte_is_credited :
  forall icw evs,
    let s := fold_left (drecv_step true icw) evs crecv_new in
    cr_granted s + cr_acc s = DEFAULT_INITIAL_WINDOW_SIZE + enlarged_by icw s + sumz (map drev_wire evs) /\
    cr_consumed s = sumz (map drev_wire evs) /\
    cr_window s = DEFAULT_INITIAL_WINDOW_SIZE + enlarged_by icw s - cr_acc s.
Proof.
  intros icw evs s. destruct (drecv_conservation icw evs crecv_new) as [H1 H2]. fold s in H1, H2.
  unfold crecv_new, enlarged_by, cr_window in *. cbn [cr_granted cr_acc cr_consumed cr_enlarged] in *. repeat split; lia.
Qed.

Example gone_stream_data_starves_before :
  let evs := [DEnlarge; DGone 16000; DGone 16000; DGone 16000; DGone 16000; DKnown 1535] in
  cr_window (fold_left (drecv_step false 65535) evs crecv_new) = 0 /\
  cr_acc (fold_left (drecv_step false 65535) evs crecv_new) = 1535 /\
  cr_window (fold_left (drecv_step true 65535) evs crecv_new) = 65535 - 17535.
Proof. vm_compute. repeat split; reflexivity. Qed.

(** 17. Recycled stream slots.  Whatever happened on the earlier streams of a
    slot (data sent, credit received, in both directions), the next stream
    that takes the slot starts with the peer's current initial window toward
    the client and the default toward a backend, like a fresh slot.
    [recycled_slot_keeps_leftover_before]: without the reset (seeded change
    r2_m3) a stream inherits what its predecessor left: 145535 after a generous
    client (sends 120000 bytes where 65535 are allowed), 0 after a thrifty one. *)
Theorem recycled_slot_starts_fresh :
  forall s init hist,
    slotw_step true (fold_left (slotw_step true) hist s) (SwCreate init) = mkslotw init DEFAULT_INITIAL_WINDOW_SIZE.
Proof. exact slot_create_fresh. Qed.

Example recycled_slot_keeps_leftover_before :
  sw_front (fold_left (slotw_step false) [SwSent 65535; SwUpdate 200000; SwSent 54465; SwCreate 65535] (mkslotw 65535 65535)) = 145535 /\
  sw_front (fold_left (slotw_step false) [SwSent 65535; SwUpdate 54465; SwSent 54465; SwCreate 65535] (mkslotw 65535 65535)) = 0 /\
  sw_front (fold_left (slotw_step true) [SwSent 65535; SwUpdate 200000; SwSent 54465; SwCreate 65535] (mkslotw 65535 65535)) = 65535.
Proof. vm_compute. repeat split; reflexivity. Qed.

(** 18. Legal HPACK table-size signalling (RFC 7541 4.2).  After any non-empty
    sequence of SETTINGS_HEADER_TABLE_SIZE values received since our last
    header block, the next block starts with one or two size updates: the last
    one is the final size, the first one is the smallest size of the interval
    (a member of it, not above any other), and a second update is only sent
    when the smallest is below the final.
    [table_size_minimum_lost_before_fix]: with only the last size remembered,
    0 then 4096 was signalled as [4096] alone (pristine finding, probe of the
    second C14 review round; a decoder enforcing 4.2 answers COMPRESSION_ERROR). *)
Theorem table_size_updates_legal :
  forall v vs,
    let out := tsz_emit (fold_left (tsz_step true) vs (tsz_step true None v)) in
    let low := fold_left Z.min vs v in
    List.last out 0 = List.last vs v /\
    hd 0 out = low /\ In low (v :: vs) /\ Forall (fun x => low <= x) (v :: vs) /\
    (length out = 2%nat <-> low < List.last vs v) /\ (length out = 1%nat \/ length out = 2%nat).
Proof.
  intros v vs out low. unfold out. cbn [tsz_step]. rewrite tsz_fold. fold low. unfold tsz_emit.
  destruct (fold_min_le vs v) as [Hle Hall]. destruct (fold_min_in vs v) as [Hin|Hin]; fold low in Hle, Hall, Hin.
  all: destruct (low <? List.last vs v) eqn:C; [apply Z.ltb_lt in C|apply Z.ltb_ge in C]; cbn [List.last hd length].
  all: assert (Hlast : low <= List.last vs v) by
    (destruct vs as [|x r]; [cbn [List.last]; lia|
     pose proof (@exists_last _ (x :: r) ltac:(discriminate)) as [l' [a E]]; rewrite E in *; rewrite last_last;
     apply Forall_app in Hall; destruct Hall as [_ Ha]; inversion Ha; assumption]).
  all: repeat split; try lia; try (constructor; [lia|assumption]); try (left; lia); try (right; assumption);
       try (intros; lia); try (intros; discriminate); try (left; reflexivity); try (right; reflexivity); try (rewrite Hin; left; reflexivity).
Qed.

Example table_size_minimum_lost_before_fix :
  tsz_emit (fold_left (tsz_step false) [4096] (tsz_step false None 0)) = [4096] /\
  tsz_emit (fold_left (tsz_step true) [4096] (tsz_step true None 0)) = [0; 4096] /\
  tsz_emit (fold_left (tsz_step true) [100; 4096; 300] (tsz_step true None 2000)) = [100; 300] /\
  tsz_emit (fold_left (tsz_step true) [] (tsz_step true None 256)) = [256].
Proof. vm_compute. repeat split; reflexivity. Qed.

