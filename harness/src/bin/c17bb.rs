//! C17 black-box tier: a real worker with an HTTPS listener; certificates are
//! added / removed / replaced through the worker's command channel and every
//! `sni` op is a real TLS handshake (rustls client, any certificate accepted)
//! whose presented leaf certificate is identified by its SHA-256 fingerprint.
//!
//! Oracle: the certificate presented must be the one an in-process
//! `CertificateResolver` fed with the same operations resolves for that name
//! (and that one is held to the property by the c17 driver and the theorems);
//! when the resolver has none, the presented certificate must not be one of
//! the loaded ones (default certificate).
//!
//! Same case format as c17 (ops add / addbad / del / rep / repbad / sni).
#[path = "../h2bb.rs"]
mod h2bb;

use std::{
    net::{SocketAddr, TcpStream},
    sync::Arc,
    time::{Duration, Instant},
};

use rustls::{pki_types::ServerName, ClientConfig};
use sha2::{Digest, Sha256};
use sozu_command_lib::{
    certificate::Fingerprint,
    proto::command::{
        request::RequestType, ActivateListener, AddCertificate, CertificateAndKey, ListenerType, RemoveCertificate,
        ReplaceCertificate, ResponseStatus, SocketAddress,
    },
};
use sozu_lib::tls::CertificateResolver;
use verif_harness::*;

const POOL: usize = 10;

fn pool_dir() -> String {
    std::env::var("VERIF_CERTS").unwrap_or_else(|_| format!("{}/../corpus/certs/c17", env!("CARGO_MANIFEST_DIR")))
}
/// A port for this case's listener.  Sōzu binds its listeners with SO_REUSEPORT, so a port handed out by the kernel
/// (`bind(0)`, then closed) can be bound a second time by another worker of a concurrent black-box run, and the
/// kernel would then spread our connections over both.  Ports are therefore taken below the ephemeral range (no
/// `bind(0)` of anybody lands there), from a per-process sequence, and only when a plain bind succeeds (it fails
/// while any socket, SO_REUSEPORT or not, holds the port).
fn own_port() -> u16 {
    use std::sync::atomic::{AtomicU32, Ordering};
    static NEXT: AtomicU32 = AtomicU32::new(0);
    let pid = std::process::id();
    for _ in 0..2000 {
        let k = NEXT.fetch_add(1, Ordering::SeqCst);
        let port = 10000 + ((pid.wrapping_mul(131) + k.wrapping_mul(7)) % 20000) as u16;
        if let Ok(l) = std::net::TcpListener::bind(("127.0.0.1", port)) {
            drop(l);
            return port;
        }
    }
    h2bb::free_port()
}

fn s(b: &[u8]) -> String {
    String::from_utf8(b.to_vec()).expect("case strings are UTF-8")
}
fn hex(b: &[u8]) -> String {
    b.iter().map(|c| format!("{c:02x}")).collect()
}

fn cert_and_key(pool: &[(String, String)], idx: i128, ovn: bool, names: &[Vec<u8>]) -> CertificateAndKey {
    let (pem, key) = if idx >= 0 {
        pool[idx as usize].clone()
    } else {
        ("-----BEGIN CERTIFICATE-----\nnot base64 at all\n-----END CERTIFICATE-----\n".to_string(), pool[0].1.clone())
    };
    CertificateAndKey { certificate: pem, certificate_chain: vec![], key, versions: vec![], names: if ovn { names.iter().map(|n| s(n)).collect() } else { vec![] } }
}

/// send one request and wait for its final answer; true = Ok
fn roundtrip(w: &mut h2bb::WorkerHandle, r: RequestType) -> Option<bool> {
    w.send(r);
    let t0 = Instant::now();
    while t0.elapsed() < Duration::from_secs(10) {
        match w.channel.read_message() {
            Ok(resp) => {
                if resp.status == ResponseStatus::Processing as i32 {
                    continue;
                }
                return Some(resp.status == ResponseStatus::Ok as i32);
            }
            Err(_) => return None,
        }
    }
    None
}

/// SHA-256 of the leaf certificate the server presents for `name`
fn handshake(addr: SocketAddr, name: &str) -> Result<Vec<u8>, String> {
    let _ = rustls::crypto::ring::default_provider().install_default();
    let config = ClientConfig::builder().dangerous().with_custom_certificate_verifier(Arc::new(h2bb::Verifier)).with_no_client_auth();
    let sn = ServerName::try_from(name.to_owned()).map_err(|e| format!("server name: {e}"))?;
    let mut conn = rustls::ClientConnection::new(Arc::new(config), sn).map_err(|e| e.to_string())?;
    let mut tcp = TcpStream::connect(addr).map_err(|e| e.to_string())?;
    tcp.set_read_timeout(Some(Duration::from_secs(5))).ok();
    tcp.set_write_timeout(Some(Duration::from_secs(5))).ok();
    while conn.is_handshaking() {
        conn.complete_io(&mut tcp).map_err(|e| format!("handshake: {e}"))?;
    }
    let certs = conn.peer_certificates().ok_or("no peer certificate")?;
    Ok(Sha256::digest(certs[0].as_ref()).to_vec())
}

/// The start of a TLS 1.2 handshake whose ClientHello carries the server name exactly as given on the wire (trailing
/// dot, capitals; a rustls client would trim and lower-case it): a rustls client's own ClientHello with the name bytes
/// replaced, sent as is; the server answers ServerHello + Certificate in the clear, which is all that is needed (the
/// handshake cannot complete: the transcripts differ).  -> fingerprint of the leaf certificate served
fn wire_handshake(addr: SocketAddr, wire: &[u8]) -> Result<Vec<u8>, String> {
    use std::io::{Read, Write};
    let placeholder = "x".repeat(wire.len());
    let config = ClientConfig::builder_with_provider(Arc::new(rustls::crypto::ring::default_provider()))
        .with_protocol_versions(&[&rustls::version::TLS12])
        .map_err(|e| e.to_string())?
        .dangerous()
        .with_custom_certificate_verifier(Arc::new(h2bb::Verifier))
        .with_no_client_auth();
    let sn = ServerName::try_from(placeholder.clone()).map_err(|e| format!("server name: {e}"))?;
    let mut conn = rustls::ClientConnection::new(Arc::new(config), sn).map_err(|e| e.to_string())?;
    let mut hello = Vec::new();
    conn.write_tls(&mut hello).map_err(|e| e.to_string())?;
    let pos = hello.windows(wire.len()).position(|w| w == placeholder.as_bytes()).ok_or("server name not found in the ClientHello")?;
    hello[pos..pos + wire.len()].copy_from_slice(wire);
    let mut tcp = TcpStream::connect(addr).map_err(|e| e.to_string())?;
    tcp.set_read_timeout(Some(Duration::from_secs(10))).ok();
    tcp.set_write_timeout(Some(Duration::from_secs(10))).ok();
    tcp.write_all(&hello).map_err(|e| e.to_string())?;
    // handshake records (type 22) concatenated; messages: type(1) length(3) body
    let (mut raw, mut hs): (Vec<u8>, Vec<u8>) = (vec![], vec![]);
    let mut buf = [0u8; 8192];
    loop {
        // whole records out of raw
        while raw.len() >= 5 {
            let len = u16::from_be_bytes([raw[3], raw[4]]) as usize;
            if raw.len() < 5 + len {
                break;
            }
            match raw[0] {
                22 => hs.extend_from_slice(&raw[5..5 + len]),
                21 => return Err(format!("alert {:?}", &raw[5..5 + len])),
                _ => {}
            }
            raw.drain(..5 + len);
        }
        let mut at = 0;
        while hs.len() >= at + 4 {
            let len = u32::from_be_bytes([0, hs[at + 1], hs[at + 2], hs[at + 3]]) as usize;
            if hs.len() < at + 4 + len {
                break;
            }
            if hs[at] == 11 {
                let b = &hs[at + 4..at + 4 + len];
                if b.len() < 6 {
                    return Err("empty certificate list".into());
                }
                let clen = u32::from_be_bytes([0, b[3], b[4], b[5]]) as usize;
                if b.len() < 6 + clen {
                    return Err("truncated certificate".into());
                }
                return Ok(Sha256::digest(&b[6..6 + clen]).to_vec());
            }
            at += 4 + len;
        }
        match tcp.read(&mut buf) {
            Ok(0) => return Err("connection closed before the Certificate message".into()),
            Ok(n) => raw.extend_from_slice(&buf[..n]),
            Err(e) => return Err(format!("read: {e}")),
        }
    }
}

fn run_with(pool: &[(String, String)], case: &Case, out: &mut Out) {
    let mut w = h2bb::start_worker();
    let front: SocketAddr = format!("127.0.0.1:{}", own_port()).parse().unwrap();
    let fa: SocketAddress = front.into();
    if roundtrip(&mut w, RequestType::AddHttpsListener(h2bb::https_listener_config(front))) != Some(true)
        || roundtrip(&mut w, RequestType::ActivateListener(ActivateListener { address: fa.clone(), proxy: ListenerType::Https.into(), from_scm: false })) != Some(true)
    {
        out.note("invalid-case: the worker did not activate the HTTPS listener");
        return;
    }
    let mut shadow = CertificateResolver::default();
    let mut loaded: Vec<Vec<u8>> = vec![];
    for op in &case.ops {
        let a = &op.args;
        match op.name.as_str() {
            "idna" => out.obs(&[]),
            "add" | "addbad" => {
                let (idx, ovn, ove, exp, names): (i128, bool, bool, i128, Vec<Vec<u8>>) =
                    if op.name == "add" { (a[0].n(), a[1].n() == 1, a[2].n() == 1, a[4].n(), a[5..].iter().map(|t| t.b().to_vec()).collect()) } else { (-1, false, false, 0, vec![]) };
                let add = AddCertificate { address: fa.clone(), certificate: cert_and_key(pool, idx, ovn, &names), expired_at: if ove { Some(exp as i64) } else { None } };
                let exp_ok = shadow.add_certificate(&add).map(|f| {
                    if !loaded.contains(&f.0) {
                        loaded.push(f.0.clone())
                    }
                });
                let got = roundtrip(&mut w, RequestType::AddCertificate(add));
                out.obs(&[ts(if got == Some(true) { "ok" } else { "err" })]);
                if got != Some(exp_ok.is_ok()) {
                    out.viol("worker-answer", &format!("AddCertificate: worker answered {got:?}, the resolver {}", exp_ok.is_ok()));
                }
            }
            "del" => {
                let fp = a[0].b().to_vec();
                let _ = shadow.remove_certificate(&Fingerprint(fp.clone()));
                loaded.retain(|x| x != &fp);
                let got = roundtrip(&mut w, RequestType::RemoveCertificate(RemoveCertificate { address: fa.clone(), fingerprint: hex(&fp) }));
                out.obs(&[ts(if got == Some(true) { "ok" } else { "err" })]);
            }
            "rep" | "repbad" => {
                let bad = op.name == "repbad";
                let (idx, ovn, ove, exp, oldk, old, names): (i128, bool, bool, i128, bool, Vec<u8>, Vec<Vec<u8>>) = if bad {
                    (-1, false, false, 0, a[0].n() == 1, a[1].b().to_vec(), vec![])
                } else {
                    (a[0].n(), a[1].n() == 1, a[2].n() == 1, a[4].n(), a[5].n() == 1, a[6].b().to_vec(), a[7..].iter().map(|t| t.b().to_vec()).collect())
                };
                let rep = ReplaceCertificate {
                    address: fa.clone(),
                    new_certificate: cert_and_key(pool, idx, ovn, &names),
                    old_fingerprint: if oldk { hex(&old) } else { "not-a-fingerprint".to_string() },
                    new_expired_at: if ove { Some(exp as i64) } else { None },
                };
                let exp_ok = shadow.replace_certificate(&rep).map(|f| {
                    if !loaded.contains(&f.0) {
                        loaded.push(f.0.clone())
                    }
                });
                if exp_ok.is_ok() && oldk && shadow.get_certificate(&Fingerprint(old.clone())).is_none() {
                    loaded.retain(|x| x != &old);
                }
                let got = roundtrip(&mut w, RequestType::ReplaceCertificate(rep));
                out.obs(&[ts(if got == Some(true) { "ok" } else { "err" })]);
                if got != Some(exp_ok.is_ok()) {
                    out.viol("worker-answer", &format!("ReplaceCertificate: worker answered {got:?}, the resolver {}", exp_ok.is_ok()));
                }
            }
            "hello" => {
                // the server name as a peer may write it (absolute form, capitals); the connection's name is its
                // lower-case relative form, and the certificate served must be the resolver's for THAT name
                let wire = s(a[0].b());
                let mut n = a[0].b().to_ascii_lowercase();
                if n.last() == Some(&b'.') {
                    n.pop();
                }
                if ServerName::try_from(s(&n)).is_err() || n.contains(&b'*') || s(&n).parse::<std::net::IpAddr>().is_ok() {
                    out.obs(&[ts("skipped")]);
                    continue;
                }
                let expected = shadow.domain_lookup(&n, true).map(|(_, f)| f.0.clone());
                match wire_handshake(front, a[0].b()) {
                    Ok(fp) => {
                        out.obs(&[ts("fp"), tb(&fp)]);
                        match expected {
                            Some(e) if e != fp => out.viol(
                                "handshake-differs",
                                &format!("server name {wire} on the wire: the handshake presented {} but the resolver holds {} for {}", &hex(&fp)[..8], &hex(&e)[..8], s(&n)),
                            ),
                            None if loaded.contains(&fp) => out.viol(
                                "handshake-differs",
                                &format!("server name {wire} on the wire: no loaded certificate covers the name, yet the handshake presented the loaded certificate {}", &hex(&fp)[..8]),
                            ),
                            _ => {}
                        }
                    }
                    Err(e) => {
                        out.obs(&[ts("nohandshake")]);
                        if expected.is_some() {
                            out.viol("handshake-failed", &format!("server name {wire} on the wire: {e}"));
                        }
                    }
                }
            }
            "sni" => {
                let n = a[0].b();
                let name = s(n);
                if ServerName::try_from(name.clone()).is_err() || n.contains(&b'*') || name.parse::<std::net::IpAddr>().is_ok() {
                    out.obs(&[ts("skipped")]);
                    continue;
                }
                let expected = shadow.domain_lookup(n, true).map(|(_, f)| f.0.clone());
                match handshake(front, &name) {
                    Ok(fp) => {
                        out.obs(&[ts("fp"), tb(&fp)]);
                        match expected {
                            Some(e) if e != fp => out.viol(
                                "handshake-differs",
                                &format!("sni {name}: the handshake presented {} but the resolver holds {} for that name", &hex(&fp)[..8], &hex(&e)[..8]),
                            ),
                            None if loaded.contains(&fp) => out.viol(
                                "handshake-differs",
                                &format!("sni {name}: no loaded certificate covers the name, yet the handshake presented the loaded certificate {}", &hex(&fp)[..8]),
                            ),
                            _ => {}
                        }
                    }
                    Err(e) => {
                        out.obs(&[ts("nohandshake")]);
                        if expected.is_some() {
                            out.viol("handshake-failed", &format!("sni {name}: {e}"));
                        }
                    }
                }
            }
            other => panic!("unknown op {other}"),
        }
    }
    w.send(RequestType::HardStop(sozu_command_lib::proto::command::HardStop {}));
    let t0 = Instant::now();
    while w.alive() && t0.elapsed() < Duration::from_secs(5) {
        std::thread::sleep(Duration::from_millis(10));
    }
}

fn main() {
    let d = pool_dir();
    let pool: Vec<(String, String)> = (0..POOL)
        .map(|i| (std::fs::read_to_string(format!("{d}/c{i}.pem")).expect("pool cert"), std::fs::read_to_string(format!("{d}/k{i}.pem")).expect("pool key")))
        .collect();
    drive(move |c, o| run_with(&pool, c, o));
}
