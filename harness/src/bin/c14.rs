//! C14 driver.  In-process: the real `H2BlockConverter` DATA path run by
//! `kawa.prepare`, and `next_stream_id` (hook `mux::verif_h2fc`).  The window
//! handlers of `ConnectionH2` need a live connection: the driver carries a
//! replica of their three-line arithmetic (tied to the source by the shape
//! translator and by the black-box tier) and runs the REAL converter inside
//! every write pass.  Oracle: an independent peer-side ledger (credit granted
//! vs bytes received), exactly what the black-box peer keeps.
use std::collections::HashMap;

use sozu_lib::protocol::mux::{parser, verif_h2fc as fc};
use verif_harness::*;

/// DATA frames found in the converter's output: (stream id, payload length)
fn parse_out(bytes: &[u8], out: &mut Out) -> Vec<(u32, usize)> {
    let mut v = vec![];
    let mut i = bytes;
    while !i.is_empty() {
        match parser::frame_header(i, 16_777_215) {
            Ok((rest, h)) => {
                if h.frame_type != parser::FrameType::Data {
                    out.viol("converter-output", &format!("unexpected frame {:?} in a DATA-only run", h.frame_type));
                }
                if rest.len() < h.payload_len as usize {
                    out.viol("converter-output", "DATA frame header announces more bytes than were emitted");
                    break;
                }
                v.push((h.stream_id, h.payload_len as usize));
                i = &rest[h.payload_len as usize..];
            }
            Err(_) => {
                out.viol("converter-output", "converter emitted bytes that are not a frame");
                break;
            }
        }
    }
    v
}

struct St {
    sid: u32,
    win: i32,
    body: Vec<usize>,
}

struct Conn {
    cwin: i32,
    init_win: u32,
    max_frame: u32,
    max_conc: u32,
    last_id: u32,
    client: bool,
    streams: Vec<St>,
    writable: bool,
    // the peer's own books (oracle)
    credit_conn: i64,
    sent_conn: i64,
    credit: HashMap<u32, i64>,
    sent: HashMap<u32, i64>,
    peer_init: i64,
    peer_max_frame: i64,
    dead: bool,
}

fn conn_toks(c: &Conn) -> Vec<Tok> {
    let mut v = vec![ts("cw"), tn(c.cwin), tbool(c.writable)];
    for s in &c.streams {
        v.push(tn(s.sid));
        v.push(tn(s.win));
    }
    v
}

fn run(case: &Case, out: &mut Out) {
    let mut conn: Option<Conn> = None;
    let mut q: Vec<(u32, u32)> = vec![];
    let mut qcap = 1usize;
    for op in &case.ops {
        let a = &op.args;
        match op.name.as_str() {
            "conv" => {
                let w = a[0].n() as i32;
                let mf = a[1].n() as usize;
                let sid = a[2].n() as u32;
                let inc = a[3].n() == 1;
                let peers = a[4].n() as usize;
                let chunks: Vec<usize> = a[5..].iter().map(|t| t.n() as usize).collect();
                let total: usize = chunks.iter().sum();
                let (bytes, left, w2) = fc::convert_chunks(w, mf, sid, &chunks, inc, peers);
                let frames = parse_out(&bytes, out);
                let mut obs = vec![];
                let mut sent = 0usize;
                for (s, n) in &frames {
                    obs.push(ts("data"));
                    obs.push(tn(*n));
                    sent += n;
                    if *s != sid & 0x7fff_ffff {
                        out.viol("wrong-stream", &format!("DATA on stream {s}, expected {sid}"));
                    }
                    if *n > mf {
                        out.viol("over-max-frame", &format!("DATA frame of {n} bytes, peer max frame size {mf}"));
                    }
                }
                if (sent as i64) > (w.max(0) as i64) {
                    out.viol("over-window", &format!("{sent} DATA bytes emitted with a window of {w}"));
                }
                if w as i64 - sent as i64 != w2 as i64 {
                    out.viol("window-accounting", &format!("window {w} - sent {sent} != window after {w2}"));
                }
                let left_total: usize = left.iter().sum();
                if sent + left_total != total {
                    out.viol("bytes-lost", &format!("{total} bytes queued, {sent} sent + {left_total} left"));
                }
                if w > 0 && total > 0 && sent == 0 && chunks.iter().all(|c| *c > 0) {
                    out.viol("no-progress", &format!("window {w} > 0 and {total} bytes queued but nothing was emitted"));
                }
                obs.push(ts("left"));
                for l in &left {
                    obs.push(tn(*l));
                }
                obs.push(ts("win"));
                obs.push(tn(w2));
                obs.push(ts(if !left.is_empty() {
                    "stall"
                } else if frames.len() > chunks.len() {
                    "split"
                } else {
                    "all"
                }));
                out.obs(&obs);
            }
            "nextid" => {
                let last = a[0].n() as u32;
                let client = a[1].n() == 1;
                match fc::next_stream_id(last, client) {
                    Some((id, next)) => {
                        if id > 0x7fff_ffff {
                            out.viol("illegal-stream-id", &format!("issued id {id} does not fit 31 bits"));
                        }
                        if last % 2 == 0 && (id % 2 == 1) != client {
                            out.viol("illegal-stream-id", &format!("issued id {id} has the wrong parity for client={client}"));
                        }
                        if next <= last || id < last.saturating_sub(0) && id + 1 < last {
                            out.viol("illegal-stream-id", &format!("watermark went from {last} to {next} (id {id})"));
                        }
                        out.obs(&[ts("id"), tn(id), tn(next)]);
                    }
                    None => out.obs(&[ts("none")]),
                }
            }
            "cnew" => {
                conn = Some(Conn {
                    cwin: 65535,
                    init_win: 65535,
                    max_frame: 16384,
                    max_conc: 100,
                    last_id: 0,
                    client: a[0].n() == 1,
                    streams: vec![],
                    writable: false,
                    credit_conn: 65535,
                    sent_conn: 0,
                    credit: HashMap::new(),
                    sent: HashMap::new(),
                    peer_init: 65535,
                    peer_max_frame: 16384,
                    dead: false,
                });
                out.obs(&[]);
            }
            "start" | "wu" | "siw" | "smf" | "smc" | "write" => {
                let Some(c) = conn.as_mut() else {
                    out.note("invalid-case: connection op before cnew");
                    out.obs(&[]);
                    continue;
                };
                let mut obs = vec![];
                match op.name.as_str() {
                    "start" => {
                        let chunks: Vec<usize> = a[1..].iter().map(|t| t.n() as usize).collect();
                        if c.streams.len() >= c.max_conc as usize {
                            obs.push(ts("refused"));
                        } else {
                            match fc::next_stream_id(c.last_id, c.client) {
                                None => obs.push(ts("refused")),
                                Some((id, next)) => {
                                    c.last_id = next;
                                    let w = i32::try_from(c.init_win).unwrap_or(i32::MAX);
                                    c.streams.push(St { sid: id, win: w, body: chunks });
                                    c.writable = true;
                                    c.credit.insert(id, c.peer_init);
                                    c.sent.insert(id, 0);
                                    obs.push(ts("id"));
                                    obs.push(tn(id));
                                }
                            }
                        }
                    }
                    "wu" => {
                        let s = a[0].n() as u32;
                        let inc = a[1].n() as u32;
                        if inc == 0 {
                            if s == 0 {
                                obs.extend([ts("goaway"), ts("PROTOCOL_ERROR")]);
                                c.dead = true;
                            } else if c.streams.iter().any(|x| x.sid == s) {
                                c.streams.retain(|x| x.sid != s);
                                obs.extend([ts("rst"), tn(s), ts("PROTOCOL_ERROR")]);
                            } else {
                                obs.push(ts("ok"));
                            }
                        } else {
                            let inc = i32::try_from(inc).unwrap_or(i32::MAX);
                            if s == 0 {
                                match c.cwin.checked_add(inc) {
                                    Some(w) => {
                                        if c.cwin <= 0 && w > 0 {
                                            c.writable = true;
                                        }
                                        c.cwin = w;
                                        c.credit_conn += inc as i64;
                                        obs.push(ts("ok"));
                                    }
                                    None => {
                                        obs.extend([ts("goaway"), ts("FLOW_CONTROL_ERROR")]);
                                        c.dead = true;
                                    }
                                }
                            } else if let Some(x) = c.streams.iter_mut().find(|x| x.sid == s) {
                                match x.win.checked_add(inc) {
                                    Some(w) => {
                                        if x.win <= 0 && w > 0 {
                                            c.writable = true;
                                        }
                                        x.win = w;
                                        *c.credit.entry(s).or_insert(0) += inc as i64;
                                        obs.push(ts("ok"));
                                    }
                                    None => {
                                        c.streams.retain(|x| x.sid != s);
                                        obs.extend([ts("rst"), tn(s), ts("FLOW_CONTROL_ERROR")]);
                                    }
                                }
                            } else {
                                obs.push(ts("ok"));
                            }
                        }
                        obs.extend(conn_toks(c));
                    }
                    "siw" => {
                        let v = a[0].n() as u32;
                        let mut err = v > 0x7fff_ffff;
                        if !err {
                            let delta = v as i64 - c.init_win as i64;
                            match i32::try_from(delta) {
                                Err(_) => err = true,
                                Ok(d) => {
                                    let mut open = false;
                                    for x in c.streams.iter_mut() {
                                        match x.win.checked_add(d) {
                                            Some(w) => {
                                                open |= x.win <= 0 && w > 0;
                                                x.win = w;
                                            }
                                            None => {
                                                err = true;
                                                break;
                                            }
                                        }
                                    }
                                    if !err {
                                        if open {
                                            c.writable = true;
                                        }
                                        c.init_win = v;
                                        // the peer's books: every open stream's credit moves by the same delta
                                        for x in c.streams.iter() {
                                            *c.credit.entry(x.sid).or_insert(0) += delta;
                                        }
                                        c.peer_init = v as i64;
                                    }
                                }
                            }
                        }
                        if err {
                            obs.extend([ts("goaway"), ts("FLOW_CONTROL_ERROR")]);
                            c.dead = true;
                        } else {
                            obs.push(ts("ok"));
                        }
                        obs.extend(conn_toks(c));
                    }
                    "smf" => {
                        let v = a[0].n() as u32;
                        c.max_frame = v;
                        if (16384..16_777_216).contains(&v) {
                            c.peer_max_frame = v as i64;
                            obs.push(ts("ok"));
                        } else {
                            obs.extend([ts("goaway"), ts("PROTOCOL_ERROR")]);
                            c.dead = true;
                        }
                    }
                    "smc" => c.max_conc = a[0].n() as u32,
                    _ => {
                        // write_streams: min(stream, connection), REAL converter, subtract from both
                        if c.max_frame == 0 {
                            obs.push(ts("spin"));
                            out.obs(&obs);
                            continue;
                        }
                        for x in c.streams.iter_mut() {
                            let window = x.win.min(c.cwin);
                            let (bytes, left, w2) = fc::convert_chunks(window, c.max_frame as usize, x.sid, &x.body, false, 0);
                            let frames = parse_out(&bytes, out);
                            for (s, n) in &frames {
                                obs.extend([ts("data"), tn(*s), tn(*n)]);
                                if !c.dead {
                                    *c.sent.entry(*s).or_insert(0) += *n as i64;
                                    c.sent_conn += *n as i64;
                                    if *n as i64 > c.peer_max_frame {
                                        out.viol("over-max-frame", &format!("DATA of {n} bytes, peer max frame size {}", c.peer_max_frame));
                                    }
                                    if c.sent[s] > c.credit[s] {
                                        out.viol("over-stream-window", &format!("stream {s}: {} bytes sent, {} granted", c.sent[s], c.credit[s]));
                                    }
                                    if c.sent_conn > c.credit_conn {
                                        out.viol("over-connection-window", &format!("{} bytes sent, {} granted", c.sent_conn, c.credit_conn));
                                    }
                                }
                            }
                            let had: usize = x.body.iter().sum();
                            let x_all_nonzero = x.body.iter().all(|c| *c > 0);
                            let consumed = window - w2;
                            if !c.dead && window > 0 && had > 0 && consumed <= 0 && x_all_nonzero {
                                out.viol("no-progress", &format!("stream {}: window {window} > 0, {had} bytes queued, nothing sent", x.sid));
                            }
                            x.body = left;
                            x.win = x.win.saturating_sub(consumed);
                            c.cwin = c.cwin.saturating_sub(consumed);
                        }
                        c.writable = false;
                        obs.extend(conn_toks(c));
                    }
                }
                out.obs(&obs);
            }
            "qnew" => {
                q.clear();
                qcap = a[0].n() as usize;
                out.obs(&[]);
            }
            "qwu" => {
                // replica of queue_window_update (tied by the shape translator)
                let s = a[0].n() as u32;
                let inc = a[1].n() as u32;
                let maxi = i32::MAX as u32;
                let tag;
                if let Some(e) = q.iter_mut().find(|e| e.0 == s) {
                    e.1 = e.1.saturating_add(inc).min(maxi);
                    tag = "coalesced";
                } else if q.len() < qcap {
                    q.push((s, inc.min(maxi)));
                    tag = "queued";
                } else {
                    tag = "dropped";
                }
                let mut obs = vec![ts(tag)];
                for e in &q {
                    obs.push(tn(e.0));
                    obs.push(tn(e.1));
                    if e.1 == 0 || e.1 > maxi {
                        out.viol("illegal-increment", &format!("queued WINDOW_UPDATE increment {} for stream {}", e.1, e.0));
                    }
                }
                out.obs(&obs);
            }
            "blackbox" | "blackbox2" => {
                let bin = if op.name == "blackbox2" { "c14bb2" } else { "c14bb" };
                let exe = std::env::current_exe().ok().and_then(|p| p.parent().map(|d| d.join(bin)));
                if let Some(exe) = exe {
                    let args: Vec<String> = a.iter().map(|t| t.to_string()).collect();
                    if let Ok(o) = std::process::Command::new(exe).args(&args).output() {
                        for l in String::from_utf8_lossy(&o.stdout).lines() {
                            if let Some(rest) = l.strip_prefix("viol ") {
                                let mut it = rest.splitn(2, ' ');
                                let class = it.next().unwrap_or("bb");
                                out.viol(class, it.next().unwrap_or(""));
                            }
                        }
                    }
                }
                out.obs(&[]);
            }
            other => {
                out.note(&format!("invalid-case: unknown op {other}"));
                out.obs(&[]);
            }
        }
    }
}

fn main() {
    let _ = sozu_command_lib::logging::setup_logging("file:///dev/null", false, None, None, None, "error", "C14");
    drive(run);
}
