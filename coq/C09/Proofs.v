(** C09 — lemmas (the property theorems are restated in C09/Props.v). *)
From Coq Require Import List Arith NArith Bool Lia.
From SV Require Import C09.Base C09.Gen C09.Model.
Import ListNotations.

(** ** What the generated tables must say (each fails if the source changed) *)
Lemma gen_flag : forall b, on_finish_flag b = b.
Proof. intros b. reflexivity. Qed.
Lemma gen_flags : flag_when_finished = false /\ flag_when_expired = true /\ finished_checked_first = true.
Proof. repeat split; reflexivity. Qed.
Lemma gen_has_finished : forall ok e x, has_finished ok e x = Nat.leb x (ok + e).
Proof. reflexivity. Qed.
Lemma gen_expired : forall d n, expired d n = N.ltb d n.
Proof. reflexivity. Qed.
Lemma gen_arms : on_message_arm SOk = IncOk /\ on_message_arm SFailure = IncErr /\
                 on_message_arm SProcessing = Notice /\ on_message_arm SInvalid = Nothing.
Proof. repeat split; reflexivity. Qed.
Lemma gen_retire : forall st, retire_on_terminal st =
                              match on_message_arm st with IncOk | IncErr => true | _ => false end.
Proof. intros []; reflexivity. Qed.
Lemma gen_purge : purge_on_finish = true. Proof. reflexivity. Qed.
Lemma gen_scatter : scatter_skips_stopped = true. Proof. reflexivity. Qed.
(* the three verdict tables are generated as truth tables over (no error | some error, timed_out, hardness):
   the translator runs the if/else/return skeleton of each on_finish instead of matching its text *)
Lemma gen_worker_fails : forall e b, worker_fails e b = (Nat.ltb 0 e || b).
Proof. intros [|e] []; reflexivity. Qed.
Lemma gen_load_ok : forall e b, load_ok e b = (Nat.eqb e 0 && negb b).
Proof. intros [|e] []; reflexivity. Qed.
Lemma gen_stop_fails : forall t h e, stop_fails t h e = ((t && h) || Nat.ltb 0 e).
Proof. intros [] [] [|e]; reflexivity. Qed.
Lemma gen_stop : stop_ok_after_failure = false. Proof. reflexivity. Qed.
Lemma gen_tmo : tmo_worker = TDefault /\ tmo_query = TDefault /\ tmo_hardstop = TDefault /\
                tmo_softstop = TNone /\ tmo_load = TDefault.
Proof. repeat split; reflexivity. Qed.
Lemma gen_unserved : unserved_answered = true. Proof. reflexivity. Qed.
Lemma gen_wake : wake_is_earliest = true. Proof. reflexivity. Qed.

(** the loop's next wake-up is no later than any pending deadline *)
Lemma earliest_le : forall ts t d, In t ts -> t_deadline t = Some d ->
  exists w, earliest ts = Some w /\ (w <= d)%N.
Proof.
  induction ts as [|a r IH]; intros t d Hin Hd; [destruct Hin|].
  cbn [earliest]. destruct Hin as [->|Hin].
  - rewrite Hd. destruct (earliest r) as [e|]; eexists; split; try reflexivity; lia.
  - destruct (IH _ _ Hin Hd) as [w [Hw Hle]]. rewrite Hw.
    destruct (t_deadline a) as [da|]; eexists; split; try reflexivity; lia.
Qed.


(** ** Vocabulary of the statements *)
Definition tid_of (r : rid) : nat := snd (fst r).

Definition finals_of (rq : nat) (os : list out) : list status :=
  flat_map (fun o => match o with
                     | OFinal _ rq' st => if Nat.eqb rq' rq then [st] else []
                     | _ => []
                     end) os.

Definition count_rq (rq : nat) (ts : list task) : nat :=
  length (filter (fun t => Nat.eqb (t_rq t) rq) ts).

Definition open_count (f : list (rid * nat)) (tid : nat) : nat :=
  length (filter (fun e => Nat.eqb (snd e) tid) f).

Definition acked (es : list event) (r : rid) : Prop :=
  exists w, In (EResp w (Some r) SOk) es.

Lemma finals_of_app : forall rq a b, finals_of rq (a ++ b) = finals_of rq a ++ finals_of rq b.
Proof. intros. unfold finals_of. apply flat_map_app. Qed.

Lemma rid_eqb_eq : forall a b, rid_eqb a b = true <-> a = b.
Proof.
  intros [[w1 t1] i1] [[w2 t2] i2]. unfold rid_eqb.
  rewrite !andb_true_iff, !Nat.eqb_eq. split.
  - intros [[-> ->] ->]. reflexivity.
  - intros H. inversion H. auto.
Qed.

Lemma rid_eqb_refl : forall a, rid_eqb a a = true.
Proof. intros. apply rid_eqb_eq. reflexivity. Qed.

Lemma rid_eqb_neq : forall a b, rid_eqb a b = false <-> a <> b.
Proof.
  intros a b. split.
  - intros H E. apply rid_eqb_eq in E. congruence.
  - intros H. destruct (rid_eqb a b) eqn:E; auto. apply rid_eqb_eq in E. contradiction.
Qed.

Lemma verdict_one : forall k e b, length (verdict k e b) = 1.
Proof.
  intros k e b. destruct k as [| |hard|]; cbn [verdict].
  - destruct (worker_fails e b); reflexivity.
  - reflexivity.
  - destruct (stop_fails b hard e); [rewrite gen_stop|]; reflexivity.
  - destruct (load_ok e b); reflexivity.
Qed.

Lemma run_app : forall es1 es2 h,
    run h (es1 ++ es2) =
    let '(h1, o1) := run h es1 in let '(h2, o2) := run h1 es2 in (h2, o1 ++ o2).
Proof.
  induction es1 as [|e es1 IH]; intros es2 h; cbn [run app].
  - destruct (run h es2). reflexivity.
  - destruct (step h e) as [h1 o1]. rewrite IH.
    destruct (run h1 es1) as [h2 o2]. destruct (run h2 es2) as [h3 o3].
    rewrite app_assoc. reflexivity.
Qed.

Lemma run_snoc : forall es e h,
    run h (es ++ [e]) =
    let '(h1, o1) := run h es in let '(h2, o2) := step h1 e in (h2, o1 ++ o2).
Proof.
  intros. rewrite run_app. destruct (run h es) as [h1 o1]. cbn [run].
  destruct (step h1 e) as [h2 o2]. rewrite app_nil_r. reflexivity.
Qed.

(** ** one_verdict: a potential that never increases *)

Definition fresh_ind (rq : nat) (h : hub) : nat := if Nat.ltb rq (next_rq h) then 0 else 1.

Lemma finals_finish_outs : forall rq t raw,
    length (finals_of rq (finish_outs t raw)) = if Nat.eqb (t_rq t) rq then 1 else 0.
Proof.
  intros rq t raw. unfold finish_outs.
  pose proof (verdict_one (t_kind t) (t_err t) (on_finish_flag raw)) as Hv.
  destruct (verdict (t_kind t) (t_err t) (on_finish_flag raw)) as [|s [|s' l]]; cbn in Hv; try lia.
  rewrite finals_of_app. cbn. destruct (Nat.eqb (t_rq t) rq); reflexivity.
Qed.

Lemma sweep_budget_gen : forall (f : task -> option bool) rq ts,
    length (finals_of rq (flat_map (fun t => match f t with Some raw => finish_outs t raw | None => [] end) ts)) +
    count_rq rq (filter (fun t => match f t with Some _ => false | None => true end) ts) =
    count_rq rq ts.
Proof.
  intros f rq ts. unfold count_rq. induction ts as [|t ts IH]; [reflexivity|].
  cbn [flat_map filter]. rewrite finals_of_app, app_length.
  destruct (f t) as [raw|] eqn:Ef.
  - rewrite finals_finish_outs. destruct (Nat.eqb (t_rq t) rq); cbn [length]; lia.
  - cbn [filter]. destruct (Nat.eqb (t_rq t) rq); cbn [length finals_of flat_map]; lia.
Qed.

Lemma sweep_tasks : forall h,
    tasks (fst (sweep h)) = filter (fun t => match finishes h t with Some _ => false | None => true end) (tasks h).
Proof. reflexivity. Qed.

Lemma sweep_outs : forall h,
    snd (sweep h) = flat_map (fun t => match finishes h t with Some raw => finish_outs t raw | None => [] end) (tasks h).
Proof. reflexivity. Qed.

Lemma sweep_next_rq : forall h, next_rq (fst (sweep h)) = next_rq h.
Proof. reflexivity. Qed.

Lemma sweep_budget : forall h rq,
    length (finals_of rq (snd (sweep h))) + count_rq rq (tasks (fst (sweep h))) = count_rq rq (tasks h).
Proof. intros. rewrite sweep_outs, sweep_tasks. apply sweep_budget_gen. Qed.

Lemma count_rq_map : forall (g : task -> task) rq ts,
    (forall t, t_rq (g t) = t_rq t) -> count_rq rq (map g ts) = count_rq rq ts.
Proof.
  intros g rq ts Hg. unfold count_rq. induction ts as [|t ts IH]; [reflexivity|].
  cbn [map filter]. rewrite Hg. destruct (Nat.eqb (t_rq t) rq); cbn [length]; lia.
Qed.

Lemma count_rq_app : forall rq a b, count_rq rq (a ++ b) = count_rq rq a + count_rq rq b.
Proof. intros. unfold count_rq. rewrite filter_app, app_length. reflexivity. Qed.

Lemma bump_exp_rq : forall n tid t, t_rq (bump_exp n tid t) = t_rq t.
Proof. intros. unfold bump_exp. destruct (Nat.eqb (t_id t) tid); reflexivity. Qed.

Definition no_finals (os : list out) : Prop := forall c rq st, ~ In (OFinal c rq st) os.

Lemma no_finals_finals_of : forall os rq, no_finals os -> finals_of rq os = [].
Proof.
  induction os as [|o os IH]; intros rq H; [reflexivity|].
  cbn [finals_of flat_map]. fold (finals_of rq os).
  rewrite IH by (intros c r s Hin; apply (H c r s); right; exact Hin).
  destruct o as [c r|c r s|w r q|t b]; try reflexivity.
  exfalso. apply (H c r s). left. reflexivity.
Qed.

Lemma no_finals_app : forall a b, no_finals a -> no_finals b -> no_finals (a ++ b).
Proof. intros a b Ha Hb c rq st Hin. apply in_app_or in Hin. destruct Hin; [eapply Ha|eapply Hb]; eauto. Qed.

Lemma no_finals_sends : forall (ws : list nat) f, no_finals (map (fun w => OSend w (f w) 0) ws) -> True.
Proof. trivial. Qed.

Lemma scatter_on_facts : forall h rq tid idx h' os,
    scatter_on h rq tid idx = (h', os) ->
    no_finals os /\ next_rq h' = next_rq h /\ (forall q, count_rq q (tasks h') = count_rq q (tasks h)).
Proof.
  intros h rq tid idx h' os H. unfold scatter_on in H. inversion H; subst; clear H.
  split; [|split].
  - intros c q st Hin. apply in_map_iff in Hin. destruct Hin as [w [Hw _]]. discriminate.
  - reflexivity.
  - intros q. cbn [tasks set_tasks set_in_flight]. apply count_rq_map. intros. apply bump_exp_rq.
Qed.

Lemma scatter_many_facts : forall idxs h rq tid h' os,
    scatter_many h rq tid idxs = (h', os) ->
    no_finals os /\ next_rq h' = next_rq h /\ (forall q, count_rq q (tasks h') = count_rq q (tasks h)).
Proof.
  induction idxs as [|i idxs IH]; intros h rq tid h' os H; cbn [scatter_many] in H.
  - inversion H; subst. split; [intros c q st []|split; auto].
  - destruct (scatter_on h rq tid i) as [h1 o1] eqn:E1.
    destruct (scatter_many h1 rq tid idxs) as [h2 o2] eqn:E2.
    inversion H; subst; clear H.
    apply scatter_on_facts in E1. apply IH in E2.
    destruct E1 as [A1 [B1 C1]]. destruct E2 as [A2 [B2 C2]].
    split; [apply no_finals_app; assumption|split].
    + congruence.
    + intros q. rewrite C2, C1. reflexivity.
Qed.

Lemma new_task_facts : forall h c k t h' tid,
    new_task h c k t = (h', tid) ->
    next_rq h' = next_rq h /\
    (forall q, count_rq q (tasks h') = count_rq q (tasks h) + if Nat.eqb (next_rq h) q then 1 else 0).
Proof.
  intros h c k t h' tid H. unfold new_task in H. inversion H; subst; clear H. split; [reflexivity|].
  intros q. cbn [tasks]. rewrite count_rq_app. unfold count_rq at 2. cbn [filter t_rq].
  destruct (Nat.eqb (next_rq h) q); reflexivity.
Qed.

Lemma scatter_on_keeps : forall h rq tid idx t,
    In t (tasks h) -> exists t', In t' (tasks (fst (scatter_on h rq tid idx))) /\ t_id t' = t_id t /\ t_rq t' = t_rq t.
Proof.
  intros h rq tid idx t Hin. cbn. exists (bump_exp (length (targets h)) tid t).
  split; [apply in_map; exact Hin|]. unfold bump_exp. destruct (Nat.eqb (t_id t) tid); auto.
Qed.

Lemma scatter_many_keeps : forall idxs h rq tid t,
    In t (tasks h) -> exists t', In t' (tasks (fst (scatter_many h rq tid idxs))) /\ t_id t' = t_id t /\ t_rq t' = t_rq t.
Proof.
  induction idxs as [|i idxs IH]; intros h rq tid t Hin; cbn [scatter_many].
  - exists t. auto.
  - destruct (scatter_on_keeps h rq tid i t Hin) as [t1 [H1 [A1 B1]]].
    destruct (scatter_on h rq tid i) as [h1 o1]. cbn [fst] in H1.
    destruct (IH h1 rq tid t1 H1) as [t2 [H2 [A2 B2]]].
    destruct (scatter_many h1 rq tid idxs) as [h2 o2]. cbn [fst] in *. exists t2. repeat split; congruence.
Qed.

Lemma count_rq_remove : forall (p : task -> bool) ts t q,
    In t ts -> p t = false ->
    count_rq q (filter p ts) + (if Nat.eqb (t_rq t) q then 1 else 0) <= count_rq q ts.
Proof.
  intros p ts t q Hin Hp. unfold count_rq. induction ts as [|x ts IH]; [destruct Hin|].
  destruct Hin as [->|Hin].
  - cbn [filter]. rewrite Hp. destruct (Nat.eqb (t_rq t) q); cbn [length].
    + assert (length (filter (fun t0 => Nat.eqb (t_rq t0) q) (filter p ts)) <= length (filter (fun t0 => Nat.eqb (t_rq t0) q) ts)).
      { clear. induction ts as [|y ts IH]; [reflexivity|]. cbn [filter]. destruct (p y); cbn [filter];
          destruct (Nat.eqb (t_rq y) q); cbn [length]; lia. }
      lia.
    + assert (length (filter (fun t0 => Nat.eqb (t_rq t0) q) (filter p ts)) <= length (filter (fun t0 => Nat.eqb (t_rq t0) q) ts)).
      { clear. induction ts as [|y ts IH]; [reflexivity|]. cbn [filter]. destruct (p y); cbn [filter];
          destruct (Nat.eqb (t_rq y) q); cbn [length]; lia. }
      lia.
  - specialize (IH Hin). cbn [filter]. destruct (p x); cbn [filter]; destruct (Nat.eqb (t_rq x) q); cbn [length]; lia.
Qed.

Lemma client_request_budget : forall h c v h' os rq,
    client_request h c v = (h', os) ->
    length (finals_of rq os) + count_rq rq (tasks h') + fresh_ind rq h' <= count_rq rq (tasks h) + fresh_ind rq h.
Proof.
  intros h c v h' os rq H. unfold client_request in H.
  assert (Hind : forall h0, next_rq h0 = next_rq h -> forall n, count_rq rq (tasks h0) <= count_rq rq (tasks h) + n ->
                 forall fin, fin + n = (if Nat.eqb (next_rq h) rq then 1 else 0) ->
                 fin + count_rq rq (tasks (bump_rq h0)) + fresh_ind rq (bump_rq h0) <= count_rq rq (tasks h) + fresh_ind rq h).
  { intros h0 Hn n Hc fin Hf. unfold fresh_ind, bump_rq. cbn [tasks next_rq]. rewrite Hn.
    destruct (Nat.eqb (next_rq h) rq) eqn:E.
    - apply Nat.eqb_eq in E. subst rq.
      destruct (Nat.ltb_spec (next_rq h) (S (next_rq h))); destruct (Nat.ltb_spec (next_rq h) (next_rq h)); lia.
    - apply Nat.eqb_neq in E.
      destruct (Nat.ltb_spec rq (S (next_rq h))); destruct (Nat.ltb_spec rq (next_rq h)); lia. }
  assert (Hsc : forall k t, let '(h1, tid) := new_task h c k t in
                 let '(h2, o) := scatter_on h1 (next_rq h) tid 0 in
                 (bump_rq h2, ONotice c (next_rq h) :: o) = (h', os) ->
                 length (finals_of rq os) + count_rq rq (tasks h') + fresh_ind rq h' <= count_rq rq (tasks h) + fresh_ind rq h).
  { intros k t. destruct (new_task h c k t) as [h1 tid] eqn:E1.
    destruct (scatter_on h1 (next_rq h) tid 0) as [h2 o] eqn:E2. intros Heq. inversion Heq; subst; clear Heq.
    apply new_task_facts in E1. apply scatter_on_facts in E2. destruct E1 as [N1 C1]. destruct E2 as [F2 [N2 C2]].
    cbn [finals_of flat_map]. fold (finals_of rq o). rewrite (no_finals_finals_of _ _ F2). cbn [length app].
    eapply (Hind h2 ltac:(congruence) _ ltac:(rewrite C2, C1; reflexivity) 0). reflexivity. }
  destruct v as [|b| | | | | |n bad].
  - (* VWorker *) specialize (Hsc KWorker tmo_worker).
    destruct (new_task h c KWorker tmo_worker) as [h1 tid]. destruct (scatter_on h1 (next_rq h) tid 0). apply Hsc, H.
  - (* VRejected *) inversion H; subst; clear H. cbn [finals_of flat_map app].
    destruct (Nat.eqb (next_rq h) rq) eqn:E; cbn [length];
      apply (Hind h eq_refl 0 ltac:(lia)); try rewrite E; reflexivity.
  - (* VQuery *) specialize (Hsc KQuery tmo_query).
    destruct (new_task h c KQuery tmo_query) as [h1 tid]. destruct (scatter_on h1 (next_rq h) tid 0). apply Hsc, H.
  - (* VLocal *) inversion H; subst; clear H. cbn [finals_of flat_map app].
    destruct (Nat.eqb (next_rq h) rq) eqn:E; cbn [length];
      apply (Hind h eq_refl 0 ltac:(lia)); try rewrite E; reflexivity.
  - (* VUnserved *) rewrite gen_unserved in H. inversion H; subst; clear H. cbn [finals_of flat_map app].
    destruct (Nat.eqb (next_rq h) rq) eqn:E; cbn [length];
      apply (Hind h eq_refl 0 ltac:(lia)); try rewrite E; reflexivity.
  - (* VHardStop *) specialize (Hsc (KStop true) tmo_hardstop).
    destruct (new_task h c (KStop true) tmo_hardstop) as [h1 tid]. destruct (scatter_on h1 (next_rq h) tid 0). apply Hsc, H.
  - (* VSoftStop *) specialize (Hsc (KStop false) tmo_softstop).
    destruct (new_task h c (KStop false) tmo_softstop) as [h1 tid]. destruct (scatter_on h1 (next_rq h) tid 0). apply Hsc, H.
  - (* VLoad *)
    destruct (new_task h c KLoad tmo_load) as [h1 tid] eqn:E1.
    destruct (scatter_many h1 (next_rq h) tid (seq 1 n)) as [h2 o] eqn:E2.
    pose proof (scatter_many_keeps (seq 1 n) h1 (next_rq h) tid) as Hkeep. rewrite E2 in Hkeep. cbn [fst] in Hkeep.
    assert (Hnew : exists t, In t (tasks h1) /\ t_id t = tid /\ t_rq t = next_rq h).
    { unfold new_task in E1. inversion E1; subst. eexists. split; [apply in_or_app; right; left; reflexivity|auto]. }
    apply new_task_facts in E1. apply scatter_many_facts in E2. destruct E1 as [N1 C1]. destruct E2 as [F2 [N2 C2]].
    destruct bad; inversion H; subst; clear H.
    + (* the state file stops parsing: failure now, the task is cancelled *)
      destruct Hnew as [t0 [Hin0 [Hid0 Hrq0]]]. destruct (Hkeep t0 Hin0) as [t1 [Hin1 [Hid1 Hrq1]]]. subst tid.
      pose proof (count_rq_remove (fun t => negb (Nat.eqb (t_id t) (t_id t0))) (tasks h2) t1 rq Hin1
                                  ltac:(cbv beta; rewrite Hid1, Nat.eqb_refl; reflexivity)) as Hrm.
      rewrite Hrq1, Hrq0 in Hrm.
      assert (Hf : length (finals_of rq (ONotice c (next_rq h) :: o ++ [OFinal c (next_rq h) SFailure])) =
                   if Nat.eqb (next_rq h) rq then 1 else 0).
      { change (ONotice c (next_rq h) :: o ++ [OFinal c (next_rq h) SFailure])
          with ([ONotice c (next_rq h)] ++ o ++ [OFinal c (next_rq h) SFailure]).
        rewrite !finals_of_app, (no_finals_finals_of _ _ F2). cbn. destruct (Nat.eqb (next_rq h) rq); reflexivity. }
      rewrite Hf.
      eapply (Hind (cancel_task h2 (t_id t0)) ltac:(cbn [cancel_task next_rq]; congruence) 0).
      * cbn [cancel_task tasks]. rewrite C2, C1 in Hrm. lia.
      * lia.
    + assert (Hf : finals_of rq (ONotice c (next_rq h) :: o ++ [ONotice c (next_rq h)]) = []).
      { apply no_finals_finals_of. intros c' q st [Hin|Hin]; [discriminate|].
        apply in_app_or in Hin. destruct Hin as [Hin|[Hin|[]]]; [eapply F2; eauto|discriminate]. }
      rewrite Hf. cbn [length].
      eapply (Hind h2 ltac:(congruence) _ ltac:(rewrite C2, C1; reflexivity) 0). reflexivity.
Qed.

Lemma apply_arm_rq : forall a t, t_rq (apply_arm a t) = t_rq t.
Proof. intros [] t; reflexivity. Qed.

Lemma worker_response_facts : forall h w r st h' os,
    worker_response h w r st = (h', os) ->
    no_finals os /\ next_rq h' = next_rq h /\ (forall q, count_rq q (tasks h') = count_rq q (tasks h)).
Proof.
  intros h w r st h' os H. unfold worker_response in H.
  assert (Hid : no_finals ([] : list out) /\ next_rq h = next_rq h /\
                (forall q, count_rq q (tasks h) = count_rq q (tasks h))).
  { split; [intros c q s []|split; auto]. }
  destruct r as [r|]; [|inversion H; subst; exact Hid].
  destruct (lookup_rid r (in_flight h)) as [tid|]; [|inversion H; subst; exact Hid].
  destruct (find_task tid (tasks h)) as [t|]; [|inversion H; subst; exact Hid].
  inversion H; subst; clear H. split; [|split].
  - intros c q s Hin. destruct (on_message_arm st); cbn in Hin; try contradiction.
    destruct Hin as [Hin|[]]. discriminate.
  - reflexivity.
  - intros q. cbn [tasks set_tasks set_in_flight]. apply count_rq_map.
    intros t'. destruct (Nat.eqb (t_id t') tid); [apply apply_arm_rq|reflexivity].
Qed.

Lemma fail_all_facts : forall rs h w h' os,
    fail_all h w rs = (h', os) ->
    no_finals os /\ next_rq h' = next_rq h /\ (forall q, count_rq q (tasks h') = count_rq q (tasks h)).
Proof.
  induction rs as [|r rs IH]; intros h w h' os H; cbn [fail_all] in H.
  - inversion H; subst. split; [intros c q s []|split; auto].
  - destruct (worker_response h w (Some r) SFailure) as [h1 o1] eqn:E1.
    destruct (fail_all h1 w rs) as [h2 o2] eqn:E2. inversion H; subst; clear H.
    apply worker_response_facts in E1. apply IH in E2.
    destruct E1 as [A1 [B1 C1]]. destruct E2 as [A2 [B2 C2]].
    split; [apply no_finals_app; assumption|split; [congruence|]]. intros q. rewrite C2, C1. reflexivity.
Qed.

(** [EWorkerClosed]: the worker is marked stopped, then its requests in flight fail *)
Definition closed_hub (h : hub) (w : nat) : hub :=
  mkHub (map (fun ws => if Nat.eqb (fst ws) w then (fst ws, true) else ws) (workers h))
        (tasks h) (in_flight h) (now h) (next_task h) (next_rq h) (stopping h) (timeout h) (gone h).

Lemma closed_event : forall h w,
    apply_event h (EWorkerClosed w) = fail_all (closed_hub h w) w (orphans (closed_hub h w) w).
Proof. reflexivity. Qed.

Lemma apply_event_budget : forall h e h' os rq,
    apply_event h e = (h', os) ->
    length (finals_of rq os) + count_rq rq (tasks h') + fresh_ind rq h' <= count_rq rq (tasks h) + fresh_ind rq h.
Proof.
  intros h e h' os rq H. destruct e as [c v|w r st|w|c|dt]; cbn [apply_event] in H.
  - eapply client_request_budget; eauto.
  - apply worker_response_facts in H. destruct H as [F [N C]].
    rewrite (no_finals_finals_of _ _ F), C. unfold fresh_ind. rewrite N. cbn [length]. lia.
  - fold (apply_event h (EWorkerClosed w)) in H. rewrite closed_event in H.
    apply fail_all_facts in H. destruct H as [F [N C]].
    rewrite (no_finals_finals_of _ _ F), C. unfold fresh_ind. rewrite N. cbn [length closed_hub tasks next_rq]. lia.
  - inversion H; subst; clear H. unfold fresh_ind. cbn [finals_of flat_map length tasks next_rq]. lia.
  - inversion H; subst; clear H. unfold fresh_ind. cbn [finals_of flat_map length tasks next_rq]. lia.
Qed.

Lemma finals_of_filter_le : forall p rq os, length (finals_of rq (filter p os)) <= length (finals_of rq os).
Proof.
  intros p rq os. induction os as [|o os IH]; [reflexivity|].
  cbn [filter]. destruct (p o).
  - change (o :: filter p os) with ([o] ++ filter p os). change (o :: os) with ([o] ++ os).
    rewrite !finals_of_app, !app_length. lia.
  - change (o :: os) with ([o] ++ os). rewrite finals_of_app, app_length. lia.
Qed.

Lemma step_budget : forall h e h' os rq,
    step h e = (h', os) ->
    length (finals_of rq os) + count_rq rq (tasks h') + fresh_ind rq h' <= count_rq rq (tasks h) + fresh_ind rq h.
Proof.
  intros h e h' os rq H. unfold step in H.
  destruct (stopping h).
  - inversion H; subst. cbn. lia.
  - destruct (apply_event h e) as [h1 o1] eqn:E1.
    pose proof (sweep_budget h1 rq) as Hs. pose proof (sweep_next_rq h1) as Hn.
    destruct (sweep h1) as [h2 o2] eqn:E2. cbn [fst snd] in Hs, Hn.
    inversion H; subst; clear H.
    pose proof (apply_event_budget _ _ _ _ rq E1) as Ha.
    pose proof (finals_of_filter_le (deliverable h') rq (o1 ++ o2)) as Hf.
    rewrite finals_of_app, app_length in Hf.
    unfold fresh_ind in *. rewrite Hn. lia.
Qed.

Lemma run_budget : forall es h h' os rq,
    run h es = (h', os) ->
    length (finals_of rq os) + count_rq rq (tasks h') + fresh_ind rq h' <= count_rq rq (tasks h) + fresh_ind rq h.
Proof.
  induction es as [|e es IH]; intros h h' os rq H; cbn [run] in H.
  - inversion H; subst. cbn. lia.
  - destruct (step h e) as [h1 o1] eqn:E1. destruct (run h1 es) as [h2 o2] eqn:E2.
    inversion H; subst; clear H.
    pose proof (step_budget _ _ _ _ rq E1). pose proof (IH _ _ _ rq E2).
    rewrite finals_of_app, app_length. lia.
Qed.

(** one_verdict, from any reachable state in which request [rq] has at most
    one task and from the initial state in particular *)
Lemma one_verdict_from : forall h es rq,
    count_rq rq (tasks h) + fresh_ind rq h <= 1 ->
    length (finals_of rq (snd (run h es))) <= 1.
Proof.
  intros h es rq Hh. destruct (run h es) as [h' os] eqn:E.
  pose proof (run_budget _ _ _ _ rq E). cbn [snd]. lia.
Qed.

Lemma one_verdict_init : forall nw tm es rq,
    length (finals_of rq (snd (run (init nw tm) es))) <= 1.
Proof.
  intros. apply one_verdict_from. cbn. unfold fresh_ind. cbn. lia.
Qed.

(** ** Well-formedness of reachable hubs *)

(** the task kinds that are created without a deadline *)
Definition nd (k : kind) : bool := match k with KStop false => true | _ => false end.

Record WF (h : hub) : Prop := mkWF {
  wf_tid : forall t, In t (tasks h) -> t_id t < next_task h;
  wf_nodup_id : NoDup (map t_id (tasks h));
  wf_keys : NoDup (map fst (in_flight h));
  wf_live : forall r tid, In (r, tid) (in_flight h) ->
                          tid_of r = tid /\ exists t, In t (tasks h) /\ t_id t = tid;
  wf_workers : NoDup (map fst (workers h));
  wf_load : forall t, In t (tasks h) -> nd (t_kind t) = true -> t_deadline t = None;
  wf_acc : forall t, In t (tasks h) -> t_ok t + t_err t + open_count (in_flight h) (t_id t) = t_exp t;
}.

Lemma open_count_app : forall f g tid, open_count (f ++ g) tid = open_count f tid + open_count g tid.
Proof. intros. unfold open_count. rewrite filter_app, app_length. reflexivity. Qed.

Lemma open_count_sends : forall (ws : list nat) tid idx tid',
    open_count (map (fun w => ((w, tid, idx), tid)) ws) tid' = if Nat.eqb tid tid' then length ws else 0.
Proof.
  intros ws tid idx tid'. unfold open_count. induction ws as [|w ws IH]; cbn [map filter snd].
  - destruct (Nat.eqb tid tid'); reflexivity.
  - destruct (Nat.eqb tid tid') eqn:E; cbn [length]; rewrite IH; reflexivity.
Qed.

Lemma open_count_filter_keep : forall (p : rid * nat -> bool) f tid,
    (forall e, In e f -> snd e = tid -> p e = true) ->
    open_count (filter p f) tid = open_count f tid.
Proof.
  intros p f tid H. unfold open_count. induction f as [|e f IH]; [reflexivity|].
  cbn [filter]. destruct (Nat.eqb (snd e) tid) eqn:E.
  - apply Nat.eqb_eq in E. rewrite (H e (or_introl eq_refl) E). cbn [filter].
    rewrite <- E, Nat.eqb_refl. cbn [length]. f_equal. rewrite E. apply IH.
    intros e' Hin. apply H. right. exact Hin.
  - destruct (p e); cbn [filter]; [rewrite E|]; apply IH; intros e' Hin; apply H; right; exact Hin.
Qed.

Lemma open_count_remove : forall f r tid tid',
    NoDup (map fst f) -> In (r, tid) f ->
    open_count (filter (fun e => negb (rid_eqb (fst e) r)) f) tid' + (if Nat.eqb tid tid' then 1 else 0)
    = open_count f tid'.
Proof.
  intros f r tid tid' Hnd Hin. unfold open_count. induction f as [|e f IH]; [destruct Hin|].
  cbn [map] in Hnd. inversion Hnd as [|x l Hnotin Hnd']; subst.
  destruct Hin as [He|Hin].
  - subst e. cbn [filter fst snd]. rewrite rid_eqb_refl. cbn [negb].
    assert (Hf : filter (fun e => negb (rid_eqb (fst e) r)) f = f).
    { clear IH Hnd Hnd'. induction f as [|e f IHf]; [reflexivity|]. cbn [filter].
      destruct (rid_eqb (fst e) r) eqn:E.
      - apply rid_eqb_eq in E. exfalso. apply Hnotin. cbn [map]. left. exact E.
      - cbn [negb]. f_equal. apply IHf. intros H. apply Hnotin. cbn [map]. right. exact H. }
    rewrite Hf. destruct (Nat.eqb tid tid'); cbn [length]; lia.
  - cbn [filter]. destruct (rid_eqb (fst e) r) eqn:E.
    + apply rid_eqb_eq in E. exfalso. apply Hnotin. rewrite E. apply (in_map fst f (r, tid)). exact Hin.
    + cbn [negb filter]. specialize (IH Hnd' Hin).
      destruct (Nat.eqb (snd e) tid'); cbn [length]; lia.
Qed.

Lemma lookup_rid_in : forall r f tid, lookup_rid r f = Some tid -> In (r, tid) f.
Proof.
  induction f as [|[r' t'] f IH]; intros tid H; cbn [lookup_rid] in H; [discriminate|].
  destruct (rid_eqb r r') eqn:E.
  - apply rid_eqb_eq in E. inversion H; subst. left. reflexivity.
  - right. apply IH. exact H.
Qed.

Lemma lookup_rid_none : forall r f, lookup_rid r f = None -> forall tid, ~ In (r, tid) f.
Proof.
  induction f as [|[r' t'] f IH]; intros H tid Hin; cbn [lookup_rid] in H; [destruct Hin|].
  destruct (rid_eqb r r') eqn:E; [discriminate|].
  destruct Hin as [Heq|Hin]; [|eapply IH; eauto].
  inversion Heq; subst. rewrite rid_eqb_refl in E. discriminate.
Qed.

Lemma find_task_in : forall tid ts t, find_task tid ts = Some t -> In t ts /\ t_id t = tid.
Proof.
  induction ts as [|t' ts IH]; intros t H; cbn [find_task] in H; [discriminate|].
  destruct (Nat.eqb (t_id t') tid) eqn:E.
  - inversion H; subst. apply Nat.eqb_eq in E. split; [left; reflexivity|exact E].
  - destruct (IH _ H). split; [right|]; assumption.
Qed.

Lemma find_task_none : forall tid ts, find_task tid ts = None -> forall t, In t ts -> t_id t <> tid.
Proof.
  induction ts as [|t' ts IH]; intros H t Hin; cbn [find_task] in H; [destruct Hin|].
  destruct (Nat.eqb (t_id t') tid) eqn:E; [discriminate|].
  destruct Hin as [->|Hin]; [apply Nat.eqb_neq; exact E|apply IH; assumption].
Qed.

Definition RqB (h : hub) (n : nat) : Prop := forall t, In t (tasks h) -> t_rq t < n.

Lemma NoDup_snoc : forall (A : Type) (l : list A) x, NoDup l -> ~ In x l -> NoDup (l ++ [x]).
Proof.
  induction l as [|y l IH]; intros x Hnd Hx; cbn [app].
  - constructor; [intros []|constructor].
  - inversion Hnd; subst. constructor.
    + intros Hin. apply in_app_or in Hin. destruct Hin as [Hin|[->|[]]]; [contradiction|].
      apply Hx. left. reflexivity.
    + apply IH; [assumption|]. intros Hin. apply Hx. right. exact Hin.
Qed.

Lemma wf_init : forall nw tm, WF (init nw tm).
Proof.
  intros nw tm. constructor; cbn [init tasks in_flight workers next_task next_rq].
  - intros t [].
  - constructor.
  - constructor.
  - intros r0 tid [].
  - rewrite map_map. cbn [fst]. rewrite map_id. apply seq_NoDup.
  - intros t [].
  - intros t [].
Qed.

(** *** new_task *)
Lemma new_task_wf : forall h c k t h' tid,
    WF h -> new_task h c k t = (h', tid) -> (nd k = true -> t = TNone) ->
    WF h' /\ tid = next_task h /\ next_task h' = S tid /\ in_flight h' = in_flight h /\
    workers h' = workers h /\ next_rq h' = next_rq h /\ now h' = now h /\ gone h' = gone h /\
    stopping h' = stopping h /\ timeout h' = timeout h /\
    tasks h' = tasks h ++ [mkTask tid (next_rq h) c k 0 0 0 (deadline_of h t)].
Proof.
  intros h c k t h' tid W H Hk. unfold new_task in H. inversion H; subst; clear H.
  split; [|repeat split; reflexivity].
  constructor; cbn [tasks in_flight workers next_task next_rq].
  - intros tk Hin. apply in_app_or in Hin. destruct Hin as [Hin|[<-|[]]].
    + pose proof (wf_tid h W tk Hin). lia.
    + cbn. lia.
  - rewrite map_app. cbn [map t_id]. apply NoDup_snoc; [apply (wf_nodup_id h W)|].
    intros Hin. apply in_map_iff in Hin. destruct Hin as [tk [E Hin]].
    pose proof (wf_tid h W tk Hin). lia.
  - apply (wf_keys h W).
  - intros r0 tid0 Hin. destruct (wf_live h W r0 tid0 Hin) as [A [tk [B C]]].
    split; [exact A|]. exists tk. split; [apply in_or_app; left; exact B|exact C].
  - apply (wf_workers h W).
  - intros tk Hin Hk0. apply in_app_or in Hin. destruct Hin as [Hin|[<-|[]]].
    + apply (wf_load h W tk Hin Hk0).
    + cbn in Hk0 |- *. rewrite (Hk Hk0). reflexivity.
  - intros tk Hin. apply in_app_or in Hin. destruct Hin as [Hin|[<-|[]]].
    + apply (wf_acc h W tk Hin).
    + cbn [t_ok t_err t_exp t_id].
      assert (open_count (in_flight h) (next_task h) = 0) as ->; [|reflexivity].
      unfold open_count. destruct (filter _ (in_flight h)) as [|[r x] l] eqn:E; [reflexivity|].
      assert (Hin : In (r, x) (filter (fun e => Nat.eqb (snd e) (next_task h)) (in_flight h))) by (rewrite E; left; reflexivity).
      apply filter_In in Hin. destruct Hin as [Hin Hx]. cbn in Hx. apply Nat.eqb_eq in Hx. subst x.
      destruct (wf_live h W r _ Hin) as [_ [tk [B C]]]. pose proof (wf_tid h W tk B). lia.
Qed.

Lemma NoDup_app_intro : forall (A : Type) (a b : list A),
    NoDup a -> NoDup b -> (forall x, In x a -> ~ In x b) -> NoDup (a ++ b).
Proof.
  induction a as [|x a IH]; intros b Ha Hb Hd; cbn [app]; [exact Hb|].
  inversion Ha; subst. constructor.
  - intros Hin. apply in_app_or in Hin. destruct Hin as [Hin|Hin]; [contradiction|].
    apply (Hd x (or_introl eq_refl) Hin).
  - apply IH; [assumption|assumption|]. intros y Hy. apply Hd. right. exact Hy.
Qed.

Lemma NoDup_map_fst_filter : forall (A B : Type) (p : A * B -> bool) l,
    NoDup (map fst l) -> NoDup (map fst (filter p l)).
Proof.
  induction l as [|e l IH]; intros H; cbn [filter map]; [constructor|].
  cbn [map] in H. inversion H; subst. destruct (p e); [|apply IH; assumption].
  cbn [map]. constructor; [|apply IH; assumption].
  intros Hin. apply in_map_iff in Hin. destruct Hin as [e' [E Hin]].
  apply filter_In in Hin. destruct Hin as [Hin _]. apply H2. rewrite <- E. apply in_map. exact Hin.
Qed.

Lemma targets_nodup : forall h, WF h -> NoDup (targets h).
Proof. intros h W. unfold targets. apply NoDup_map_fst_filter. apply (wf_workers h W). Qed.

Lemma bump_exp_id : forall n tid t, t_id (bump_exp n tid t) = t_id t.
Proof. intros. unfold bump_exp. destruct (Nat.eqb (t_id t) tid); reflexivity. Qed.
Lemma bump_exp_kind : forall n tid t, t_kind (bump_exp n tid t) = t_kind t.
Proof. intros. unfold bump_exp. destruct (Nat.eqb (t_id t) tid); reflexivity. Qed.
Lemma bump_exp_deadline : forall n tid t, t_deadline (bump_exp n tid t) = t_deadline t.
Proof. intros. unfold bump_exp. destruct (Nat.eqb (t_id t) tid); reflexivity. Qed.
Lemma bump_exp_client : forall n tid t, t_client (bump_exp n tid t) = t_client t.
Proof. intros. unfold bump_exp. destruct (Nat.eqb (t_id t) tid); reflexivity. Qed.
Lemma bump_exp_ok : forall n tid t, t_ok (bump_exp n tid t) = t_ok t.
Proof. intros. unfold bump_exp. destruct (Nat.eqb (t_id t) tid); reflexivity. Qed.
Lemma bump_exp_err : forall n tid t, t_err (bump_exp n tid t) = t_err t.
Proof. intros. unfold bump_exp. destruct (Nat.eqb (t_id t) tid); reflexivity. Qed.
Lemma bump_exp_exp : forall n tid t,
    t_exp (bump_exp n tid t) = t_exp t + if Nat.eqb (t_id t) tid then n else 0.
Proof. intros. unfold bump_exp. destruct (Nat.eqb (t_id t) tid); cbn [t_exp]; lia. Qed.

Definition fresh_idx (h : hub) (tid idx : nat) : Prop :=
  forall r x, In (r, x) (in_flight h) -> tid_of r = tid -> snd r < idx.

Lemma scatter_on_wf : forall h rq tid idx h' os,
    WF h -> (exists t, In t (tasks h) /\ t_id t = tid) -> fresh_idx h tid idx ->
    scatter_on h rq tid idx = (h', os) ->
    WF h' /\ fresh_idx h' tid (S idx) /\
    tasks h' = map (bump_exp (length (targets h)) tid) (tasks h) /\
    in_flight h' = in_flight h ++ map (fun w => ((w, tid, idx), tid)) (targets h) /\
    os = map (fun w => OSend w (w, tid, idx) rq) (targets h) /\
    workers h' = workers h /\ next_task h' = next_task h /\ next_rq h' = next_rq h /\
    now h' = now h /\ gone h' = gone h /\ stopping h' = stopping h /\ timeout h' = timeout h.
Proof.
  intros h rq tid idx h' os W [t0 [Ht0 Hid0]] Hfresh H. subst tid. unfold scatter_on in H.
  inversion H; subst h' os; clear H.
  split; [|split; [|repeat split; reflexivity]].
  - constructor; cbn [tasks in_flight workers next_task next_rq set_tasks set_in_flight].
    + intros t Hin. apply in_map_iff in Hin. destruct Hin as [t1 [<- Hin]].
      rewrite bump_exp_id. apply (wf_tid h W t1 Hin).
    + rewrite map_map. erewrite map_ext; [apply (wf_nodup_id h W)|]. intros. apply bump_exp_id.
    + rewrite map_app. apply NoDup_app_intro.
      * apply (wf_keys h W).
      * rewrite map_map. cbn [fst].
        assert (Hinj : forall l, NoDup l -> NoDup (map (fun w : nat => (w, t_id t0, idx)) l)).
        { induction l as [|w l IHl]; intros Hl; cbn [map]; [constructor|]. inversion Hl; subst.
          constructor; [|apply IHl; assumption].
          intros Hin. apply in_map_iff in Hin. destruct Hin as [w' [E Hin]]. inversion E; subst. contradiction. }
        apply Hinj. apply targets_nodup. exact W.
      * intros r Hin Hin2. apply in_map_iff in Hin. destruct Hin as [[r' x] [E Hin]]. cbn [fst] in E. subst r'.
        rewrite map_map in Hin2. cbn [fst] in Hin2. apply in_map_iff in Hin2. destruct Hin2 as [w [E _]].
        subst r. specialize (Hfresh _ _ Hin eq_refl). cbn [snd] in Hfresh. lia.
    + intros r x Hin. apply in_app_or in Hin. destruct Hin as [Hin|Hin].
      * destruct (wf_live h W r x Hin) as [A [t1 [B C]]]. split; [exact A|].
        exists (bump_exp (length (targets h)) (t_id t0) t1). split; [apply in_map; exact B|].
        rewrite bump_exp_id. exact C.
      * apply in_map_iff in Hin. destruct Hin as [w [E _]]. inversion E; subst. split; [reflexivity|].
        exists (bump_exp (length (targets h)) (t_id t0) t0). split; [apply in_map; exact Ht0|].
        apply bump_exp_id.
    + apply (wf_workers h W).
    + intros t Hin Hk. apply in_map_iff in Hin. destruct Hin as [t1 [<- Hin]].
      rewrite bump_exp_kind in Hk. rewrite bump_exp_deadline. apply (wf_load h W t1 Hin Hk).
    + intros t Hin. apply in_map_iff in Hin. destruct Hin as [t1 [<- Hin]].
      rewrite bump_exp_ok, bump_exp_err, bump_exp_exp, bump_exp_id, open_count_app, open_count_sends.
      pose proof (wf_acc h W t1 Hin) as Ha. rewrite (Nat.eqb_sym (t_id t0) (t_id t1)).
      destruct (Nat.eqb (t_id t1) (t_id t0)); lia.
  - intros r x Hin Htid. cbn [in_flight set_tasks set_in_flight] in Hin. apply in_app_or in Hin.
    destruct Hin as [Hin|Hin].
    + specialize (Hfresh _ _ Hin Htid). lia.
    + apply in_map_iff in Hin. destruct Hin as [w [E _]]. inversion E; subst. cbn [snd]. lia.
Qed.

(** a task transformer that only touches the expected-responses budget *)
Definition exp_only (g : task -> task) : Prop :=
  forall t, t_id (g t) = t_id t /\ t_rq (g t) = t_rq t /\ t_kind (g t) = t_kind t /\
            t_deadline (g t) = t_deadline t /\ t_ok (g t) = t_ok t /\ t_err (g t) = t_err t /\
            t_client (g t) = t_client t.

Record Scattered (h : hub) (rq tid : nat) (h' : hub) (os : list out) : Prop := mkSc {
  sc_wf : WF h';
  sc_tasks : exists g, tasks h' = map g (tasks h) /\ exp_only g;
  sc_incl : incl (in_flight h) (in_flight h');
  sc_outs : forall o, In o os -> exists w r, o = OSend w r rq /\ In (r, tid) (in_flight h');
  sc_workers : workers h' = workers h;
  sc_next_task : next_task h' = next_task h;
  sc_next_rq : next_rq h' = next_rq h;
  sc_now : now h' = now h;
  sc_gone : gone h' = gone h;
  sc_stopping : stopping h' = stopping h;
  sc_timeout : timeout h' = timeout h;
}.

Lemma exp_only_bump : forall n tid, exp_only (bump_exp n tid).
Proof.
  intros n tid t. repeat split;
    [apply bump_exp_id|apply bump_exp_rq|apply bump_exp_kind|apply bump_exp_deadline|
     apply bump_exp_ok|apply bump_exp_err|apply bump_exp_client].
Qed.

Lemma scatter_on_scattered : forall h rq tid idx h' os,
    WF h -> (exists t, In t (tasks h) /\ t_id t = tid) -> fresh_idx h tid idx ->
    scatter_on h rq tid idx = (h', os) ->
    Scattered h rq tid h' os /\ fresh_idx h' tid (S idx).
Proof.
  intros h rq tid idx h' os W Ht Hf H.
  destruct (scatter_on_wf _ _ _ _ _ _ W Ht Hf H) as
      [W' [F' [Ets [Eif [Eos [E1 [E2 [E3 [E4 [E5 [E6 E7]]]]]]]]]]].
  split; [|exact F'].
  constructor; try assumption.
  - eexists. split; [exact Ets|apply exp_only_bump].
  - rewrite Eif. intros x Hx. apply in_or_app. left. exact Hx.
  - intros o Hin. rewrite Eos in Hin. apply in_map_iff in Hin. destruct Hin as [w [<- Hw]].
    exists w, (w, tid, idx). split; [reflexivity|]. rewrite Eif. apply in_or_app. right.
    apply (in_map (fun w0 => ((w0, tid, idx), tid))). exact Hw.
Qed.

Lemma scattered_task_exists : forall h rq tid h' os,
    Scattered h rq tid h' os -> (exists t, In t (tasks h) /\ t_id t = tid) ->
    exists t, In t (tasks h') /\ t_id t = tid.
Proof.
  intros h rq tid h' os S [t [Hin Hid]]. destruct (sc_tasks _ _ _ _ _ S) as [g [Eg Hg]].
  exists (g t). split; [rewrite Eg; apply in_map; exact Hin|]. destruct (Hg t) as [A _]. congruence.
Qed.

Lemma scatter_many_scattered : forall idxs h rq tid idx h' os,
    idxs = seq idx (length idxs) ->
    WF h -> (exists t, In t (tasks h) /\ t_id t = tid) -> fresh_idx h tid idx ->
    scatter_many h rq tid idxs = (h', os) ->
    Scattered h rq tid h' os.
Proof.
  induction idxs as [|i idxs IH]; intros h rq tid idx h' os Hseq W Ht Hf H; cbn [scatter_many] in H.
  - inversion H; subst; clear H. constructor; try reflexivity; try assumption.
    + exists (fun t => t). split; [symmetry; apply map_id|]. intros t. repeat split.
    + intros x Hx. exact Hx.
    + intros o [].
  - cbn [length seq] in Hseq. inversion Hseq as [[Hi Hrest]]. subst i.
    destruct (scatter_on h rq tid idx) as [h1 o1] eqn:E1.
    destruct (scatter_many h1 rq tid idxs) as [h2 o2] eqn:E2.
    inversion H; subst h' os; clear H.
    destruct (scatter_on_scattered _ _ _ _ _ _ W Ht Hf E1) as [S1 F1].
    pose proof (scattered_task_exists _ _ _ _ _ S1 Ht) as Ht1.
    assert (Hseq2 : idxs = seq (S idx) (length idxs)) by exact Hrest.
    specialize (IH h1 rq tid (S idx) h2 o2 Hseq2 (sc_wf _ _ _ _ _ S1) Ht1 F1 E2) as S2.
    destruct (sc_tasks _ _ _ _ _ S1) as [g1 [Eg1 Hg1]]. destruct (sc_tasks _ _ _ _ _ S2) as [g2 [Eg2 Hg2]].
    constructor.
    + apply (sc_wf _ _ _ _ _ S2).
    + exists (fun t => g2 (g1 t)). split; [rewrite Eg2, Eg1, map_map; reflexivity|].
      intros t. destruct (Hg1 t) as [A1 [A2 [A3 [A4 [A5 [A6 A7]]]]]].
      destruct (Hg2 (g1 t)) as [B1 [B2 [B3 [B4 [B5 [B6 B7]]]]]]. repeat split; congruence.
    + intros x Hx. apply (sc_incl _ _ _ _ _ S2). apply (sc_incl _ _ _ _ _ S1). exact Hx.
    + intros o Hin. apply in_app_or in Hin. destruct Hin as [Hin|Hin].
      * destruct (sc_outs _ _ _ _ _ S1 o Hin) as [w [r [Eo Hr]]]. exists w, r. split; [exact Eo|].
        apply (sc_incl _ _ _ _ _ S2). exact Hr.
      * apply (sc_outs _ _ _ _ _ S2 o Hin).
    + rewrite (sc_workers _ _ _ _ _ S2). apply (sc_workers _ _ _ _ _ S1).
    + rewrite (sc_next_task _ _ _ _ _ S2). apply (sc_next_task _ _ _ _ _ S1).
    + rewrite (sc_next_rq _ _ _ _ _ S2). apply (sc_next_rq _ _ _ _ _ S1).
    + rewrite (sc_now _ _ _ _ _ S2). apply (sc_now _ _ _ _ _ S1).
    + rewrite (sc_gone _ _ _ _ _ S2). apply (sc_gone _ _ _ _ _ S1).
    + rewrite (sc_stopping _ _ _ _ _ S2). apply (sc_stopping _ _ _ _ _ S1).
    + rewrite (sc_timeout _ _ _ _ _ S2). apply (sc_timeout _ _ _ _ _ S1).
Qed.

(** ** The invariant carried along a history *)
Record Inv (es : list event) (h : hub) (os : list out) : Prop := mkInv {
  inv_wf : WF h;
  inv_rq : RqB h (next_rq h);
  inv_fresh : forall w r rq, In (OSend w r rq) os -> rq < next_rq h;
  inv_sent : forall t, In t (tasks h) -> forall w r, In (OSend w r (t_rq t)) os ->
             In (r, t_id t) (in_flight h) \/ acked es r \/ 1 <= t_err t;
}.

Lemma acked_mono : forall es e r, acked es r -> acked (es ++ [e]) r.
Proof. intros es e r [w H]. exists w. apply in_or_app. left. exact H. Qed.

Lemma inv_init : forall nw tm, Inv [] (init nw tm) [].
Proof.
  intros. constructor.
  - apply wf_init.
  - intros t [].
  - intros w r rq [].
  - intros t [].
Qed.

(** the part of [client_request] that creates a task and scatters *)
Lemma spawn_inv : forall es h os c k tm (sc : hub -> nat -> nat -> hub * list out) v,
    Inv es h os -> (nd k = true -> tm = TNone) ->
    (forall h1 tid h2 o,
        WF h1 -> (exists t, In t (tasks h1) /\ t_id t = tid) -> fresh_idx h1 tid 0 ->
        sc h1 (next_rq h) tid = (h2, o) -> Scattered h1 (next_rq h) tid h2 o) ->
    forall h1 tid h2 o pre post,
      new_task h c k tm = (h1, tid) -> sc h1 (next_rq h) tid = (h2, o) ->
      (forall x, In x (pre ++ post) -> forall w r q, x <> OSend w r q) ->
      Inv (es ++ [EClient c v]) (bump_rq h2) (os ++ pre ++ o ++ post).
Proof.
  intros es h os c k tm sc v I Hk Hsc h1 tid h2 o pre post E1 E2 Hpp.
  destruct (new_task_wf _ _ _ _ _ _ (inv_wf _ _ _ I) E1 Hk) as
      [W1 [Etid [Ent [Eif [Ew [Enr [Enow [Eg [Est [Etm Ets]]]]]]]]]].
  assert (Hex : exists t, In t (tasks h1) /\ t_id t = tid).
  { eexists. split; [rewrite Ets; apply in_or_app; right; left; reflexivity|reflexivity]. }
  assert (Hfr : fresh_idx h1 tid 0).
  { intros r x Hin Hr. rewrite Eif in Hin. destruct (wf_live _ (inv_wf _ _ _ I) r x Hin) as [A [t0 [B C]]].
    pose proof (wf_tid _ (inv_wf _ _ _ I) t0 B). unfold tid_of in *. lia. }
  pose proof (Hsc _ _ _ _ W1 Hex Hfr E2) as S.
  destruct (sc_tasks _ _ _ _ _ S) as [g [Eg2 Hg]].
  assert (Hsend : forall w r q, In (OSend w r q) (os ++ pre ++ o ++ post) ->
                               In (OSend w r q) os \/ (In (OSend w r q) o /\ q = next_rq h /\ In (r, tid) (in_flight h2))).
  { intros w r q Hin. apply in_app_or in Hin. destruct Hin as [Hin|Hin]; [left; exact Hin|].
    apply in_app_or in Hin. destruct Hin as [Hin|Hin].
    - exfalso. apply (Hpp _ (in_or_app _ _ _ (or_introl Hin)) w r q). reflexivity.
    - apply in_app_or in Hin. destruct Hin as [Hin|Hin].
      + right. destruct (sc_outs _ _ _ _ _ S _ Hin) as [w' [r' [Eo Hr]]]. inversion Eo; subst. auto.
      + exfalso. apply (Hpp _ (in_or_app _ _ _ (or_intror Hin)) w r q). reflexivity. }
  constructor.
  - (* WF *) destruct (sc_wf _ _ _ _ _ S). constructor; assumption.
  - (* RqB *) intros t Hin. cbn [bump_rq tasks next_rq] in *. rewrite Eg2 in Hin.
    apply in_map_iff in Hin. destruct Hin as [t1 [<- Hin]]. destruct (Hg t1) as [_ [A _]]. rewrite A.
    rewrite (sc_next_rq _ _ _ _ _ S), Enr. rewrite Ets in Hin. apply in_app_or in Hin.
    destruct Hin as [Hin|[<-|[]]]; [pose proof (inv_rq _ _ _ I t1 Hin); lia|cbn; lia].
  - (* fresh *) intros w r q Hin. cbn [bump_rq next_rq]. rewrite (sc_next_rq _ _ _ _ _ S), Enr.
    destruct (Hsend _ _ _ Hin) as [Hin'|[_ [-> _]]]; [pose proof (inv_fresh _ _ _ I _ _ _ Hin'); lia|lia].
  - (* sent *) intros t Hin w r Hs. cbn [bump_rq tasks in_flight] in *. rewrite Eg2 in Hin.
    apply in_map_iff in Hin. destruct Hin as [t1 [<- Hin]].
    destruct (Hg t1) as [Gid [Grq [_ [_ [_ [Gerr _]]]]]]. rewrite Grq in Hs. rewrite Gid, Gerr.
    rewrite Ets in Hin. apply in_app_or in Hin. destruct Hin as [Hin|[<-|[]]].
    + destruct (Hsend _ _ _ Hs) as [Hs'|[_ [Hq _]]].
      * destruct (inv_sent _ _ _ I t1 Hin w r Hs') as [A|[A|A]].
        -- left. apply (sc_incl _ _ _ _ _ S). rewrite Eif. exact A.
        -- right. left. apply acked_mono. exact A.
        -- right. right. exact A.
      * pose proof (inv_rq _ _ _ I t1 Hin). lia.
    + cbn [t_rq t_id t_err] in *. destruct (Hsend _ _ _ Hs) as [Hs'|[_ [_ Hr]]].
      * pose proof (inv_fresh _ _ _ I _ _ _ Hs'). lia.
      * left. exact Hr.
Qed.

Lemma bump_only_inv : forall es h os e fin,
    Inv es h os -> (forall w r q, ~ In (OSend w r q) fin) ->
    Inv (es ++ [e]) (bump_rq h) (os ++ fin).
Proof.
  intros es h os e fin I Hf. constructor.
  - destruct (inv_wf _ _ _ I). constructor; assumption.
  - intros t Hin. cbn [bump_rq tasks next_rq] in *. pose proof (inv_rq _ _ _ I t Hin). lia.
  - intros w r q Hin. cbn [bump_rq next_rq]. apply in_app_or in Hin.
    destruct Hin as [Hin|Hin]; [pose proof (inv_fresh _ _ _ I _ _ _ Hin); lia|exfalso; eapply Hf; eauto].
  - intros t Hin w r Hs. cbn [bump_rq tasks in_flight] in *. apply in_app_or in Hs.
    destruct Hs as [Hs|Hs]; [|exfalso; eapply Hf; eauto].
    destruct (inv_sent _ _ _ I t Hin w r Hs) as [A|[A|A]]; auto. right. left. apply acked_mono. exact A.
Qed.

Lemma NoDup_map_filter : forall (A B : Type) (g : A -> B) (p : A -> bool) l,
    NoDup (map g l) -> NoDup (map g (filter p l)).
Proof.
  induction l as [|e l IH]; intros H; cbn [filter map]; [constructor|].
  cbn [map] in H. inversion H; subst. destruct (p e); [|apply IH; assumption].
  cbn [map]. constructor; [|apply IH; assumption].
  intros Hin. apply in_map_iff in Hin. destruct Hin as [e' [E Hin]].
  apply filter_In in Hin. destruct Hin as [Hin _]. apply H2. rewrite <- E. apply in_map. exact Hin.
Qed.

Lemma cancel_inv : forall es h os tid, Inv es h os -> Inv es (cancel_task h tid) os.
Proof.
  intros es h os tid I. pose proof (inv_wf _ _ _ I) as W. unfold cancel_task.
  assert (Hcp : cancel_purges = true) by reflexivity. rewrite Hcp.
  assert (Hk : forall t, In t (filter (fun t => negb (Nat.eqb (t_id t) tid)) (tasks h)) -> In t (tasks h) /\ t_id t <> tid).
  { intros t Hin. apply filter_In in Hin. destruct Hin as [A B]. split; [exact A|].
    apply negb_true_iff in B. apply Nat.eqb_neq in B. exact B. }
  constructor.
  - constructor; cbn [tasks in_flight workers next_task next_rq].
    + intros t Hin. apply (wf_tid _ W t (proj1 (Hk t Hin))).
    + apply NoDup_map_filter. apply (wf_nodup_id _ W).
    + apply NoDup_map_fst_filter. apply (wf_keys _ W).
    + intros r x Hin. apply filter_In in Hin. destruct Hin as [Hin Hp]. cbn [snd] in Hp.
      destruct (wf_live _ W r x Hin) as [A [t [B C]]]. split; [exact A|]. exists t. split; [|exact C].
      apply filter_In. split; [exact B|]. rewrite C. exact Hp.
    + apply (wf_workers _ W).
    + intros t Hin Hkd. apply (wf_load _ W t (proj1 (Hk t Hin)) Hkd).
    + intros t Hin. destruct (Hk t Hin) as [Hin0 Hne].
      rewrite open_count_filter_keep; [apply (wf_acc _ W t Hin0)|].
      intros e _ He. rewrite He. apply negb_true_iff. apply Nat.eqb_neq. exact Hne.
  - intros t Hin. cbn [tasks next_rq] in *. apply (inv_rq _ _ _ I t (proj1 (Hk t Hin))).
  - intros w r q Hin. cbn [next_rq]. apply (inv_fresh _ _ _ I _ _ _ Hin).
  - intros t Hin w r Hs. cbn [tasks in_flight] in *. destruct (Hk t Hin) as [Hin0 Hne].
    destruct (inv_sent _ _ _ I t Hin0 w r Hs) as [A|[A|A]]; auto.
    left. apply filter_In. split; [exact A|]. cbn [snd]. apply negb_true_iff. apply Nat.eqb_neq. exact Hne.
Qed.

Lemma burn_ids_inv : forall es h os b, Inv es h os -> Inv es (burn_ids h b) os.
Proof.
  intros es h os b [W R F S]. destruct W. constructor; [constructor|..]; try assumption.
  intros t Hin. cbn [burn_ids tasks next_task] in *. specialize (wf_tid0 t Hin). lia.
Qed.

Lemma client_request_inv : forall es h os c v h' os',
    Inv es h os -> client_request h c v = (h', os') ->
    Inv (es ++ [EClient c v]) h' (os ++ os').
Proof.
  intros es h os c v h' os' I H. unfold client_request in H.
  assert (Hone : forall k tm, (nd k = true -> tm = TNone) ->
            forall h1 tid h2 o, new_task h c k tm = (h1, tid) -> scatter_on h1 (next_rq h) tid 0 = (h2, o) ->
            Inv (es ++ [EClient c v]) (bump_rq h2) (os ++ ONotice c (next_rq h) :: o)).
  { intros k tm Hk h1 tid h2 o E1 E2.
    pose proof (spawn_inv es h os c k tm (fun h1 rq tid => scatter_on h1 rq tid 0) v I Hk) as Hs.
    assert (Hsc : forall h1 tid h2 o, WF h1 -> (exists t, In t (tasks h1) /\ t_id t = tid) -> fresh_idx h1 tid 0 ->
                   scatter_on h1 (next_rq h) tid 0 = (h2, o) -> Scattered h1 (next_rq h) tid h2 o).
    { intros a b c0 d Wa Ha Fa Ea. apply (scatter_on_scattered _ _ _ _ _ _ Wa Ha Fa Ea). }
    specialize (Hs Hsc h1 tid h2 o [ONotice c (next_rq h)] [] E1 E2).
    rewrite !app_nil_r in Hs. cbn [app] in Hs. apply Hs.
    intros x Hin. destruct Hin as [<-|[]]. discriminate. }
  destruct v as [|b| | | | | |n bad].
  - destruct (new_task h c KWorker tmo_worker) as [h1 tid] eqn:E1.
    destruct (scatter_on h1 (next_rq h) tid 0) as [h2 o] eqn:E2. inversion H; subst; clear H.
    apply (Hone KWorker tmo_worker ltac:(first [discriminate | intros _; reflexivity]) _ _ _ _ E1 E2).
  - inversion H; subst; clear H. apply bump_only_inv; [apply burn_ids_inv; exact I|]. intros w r q [Hx|[]]. discriminate.
  - destruct (new_task h c KQuery tmo_query) as [h1 tid] eqn:E1.
    destruct (scatter_on h1 (next_rq h) tid 0) as [h2 o] eqn:E2. inversion H; subst; clear H.
    apply (Hone KQuery tmo_query ltac:(first [discriminate | intros _; reflexivity]) _ _ _ _ E1 E2).
  - inversion H; subst; clear H. apply bump_only_inv; [exact I|]. intros w r q [Hx|[]]. discriminate.
  - inversion H; subst; clear H. apply bump_only_inv; [exact I|].
    intros w r q Hin. try rewrite gen_unserved in Hin. destruct Hin as [Hx|[]]. discriminate.
  - destruct (new_task h c (KStop true) tmo_hardstop) as [h1 tid] eqn:E1.
    destruct (scatter_on h1 (next_rq h) tid 0) as [h2 o] eqn:E2. inversion H; subst; clear H.
    apply (Hone (KStop true) tmo_hardstop ltac:(first [discriminate | intros _; reflexivity]) _ _ _ _ E1 E2).
  - destruct (new_task h c (KStop false) tmo_softstop) as [h1 tid] eqn:E1.
    destruct (scatter_on h1 (next_rq h) tid 0) as [h2 o] eqn:E2. inversion H; subst; clear H.
    apply (Hone (KStop false) tmo_softstop ltac:(first [discriminate | intros _; reflexivity]) _ _ _ _ E1 E2).
  - destruct (new_task h c KLoad tmo_load) as [h1 tid] eqn:E1.
    destruct (scatter_many h1 (next_rq h) tid (seq 1 n)) as [h2 o] eqn:E2.
    pose proof (spawn_inv es h os c KLoad tmo_load (fun h1 rq tid => scatter_many h1 rq tid (seq 1 n)) (VLoad n bad) I
                          ltac:(discriminate)) as Hs.
    assert (Hsc : forall h1 tid h2 o, WF h1 -> (exists t, In t (tasks h1) /\ t_id t = tid) -> fresh_idx h1 tid 0 ->
                   scatter_many h1 (next_rq h) tid (seq 1 n) = (h2, o) -> Scattered h1 (next_rq h) tid h2 o).
    { intros a b c0 d Wa Ha Fa Ea.
      apply (scatter_many_scattered (seq 1 n) a (next_rq h) b 1 c0 d); auto.
      - rewrite seq_length. reflexivity.
      - intros r x Hin Hr. specialize (Fa r x Hin Hr). lia. }
    destruct bad; inversion H; subst; clear H.
    + specialize (Hs Hsc h1 tid h2 o [ONotice c (next_rq h)] [OFinal c (next_rq h) SFailure] E1 E2).
      cbn [app] in Hs |- *.
      change (bump_rq (cancel_task h2 tid)) with (cancel_task (bump_rq h2) tid).
      apply cancel_inv. apply Hs. intros x [<-|[<-|[]]]; discriminate.
    + specialize (Hs Hsc h1 tid h2 o [ONotice c (next_rq h)] [ONotice c (next_rq h)] E1 E2).
      cbn [app] in Hs |- *. apply Hs. intros x [<-|[<-|[]]]; discriminate.
Qed.

Lemma inv_es_mono : forall es h os e, Inv es h os -> Inv (es ++ [e]) h (os ++ []).
Proof.
  intros es h os e I. rewrite app_nil_r. destruct I as [W R F S]. constructor; try assumption.
  intros t Hin w r Hs. destruct (S t Hin w r Hs) as [A|[A|A]]; auto. right. left. apply acked_mono. exact A.
Qed.

Lemma apply_arm_fields : forall a t,
    t_id (apply_arm a t) = t_id t /\ t_rq (apply_arm a t) = t_rq t /\ t_kind (apply_arm a t) = t_kind t /\
    t_deadline (apply_arm a t) = t_deadline t /\ t_exp (apply_arm a t) = t_exp t /\
    t_client (apply_arm a t) = t_client t /\
    t_ok (apply_arm a t) = t_ok t + (match a with IncOk => 1 | _ => 0 end) /\
    t_err (apply_arm a t) = t_err t + (match a with IncErr => 1 | _ => 0 end).
Proof. intros [] t; cbn; repeat split; lia. Qed.

Definition upd (a : arm) (tid : nat) (t : task) : task :=
  if Nat.eqb (t_id t) tid then apply_arm a t else t.

Lemma upd_fields : forall a tid t,
    t_id (upd a tid t) = t_id t /\ t_rq (upd a tid t) = t_rq t /\ t_kind (upd a tid t) = t_kind t /\
    t_deadline (upd a tid t) = t_deadline t /\ t_exp (upd a tid t) = t_exp t /\
    t_client (upd a tid t) = t_client t /\
    t_ok (upd a tid t) = t_ok t + (if Nat.eqb (t_id t) tid then match a with IncOk => 1 | _ => 0 end else 0) /\
    t_err (upd a tid t) = t_err t + (if Nat.eqb (t_id t) tid then match a with IncErr => 1 | _ => 0 end else 0).
Proof.
  intros a tid t. unfold upd. destruct (Nat.eqb (t_id t) tid).
  - apply apply_arm_fields.
  - repeat split; lia.
Qed.

Lemma key_unique : forall (f : list (rid * nat)) r x y,
    NoDup (map fst f) -> In (r, x) f -> In (r, y) f -> x = y.
Proof.
  induction f as [|e f IH]; intros r x y Hnd Hx Hy; [destruct Hx|].
  cbn [map] in Hnd. inversion Hnd; subst.
  destruct Hx as [Hx|Hx]; destruct Hy as [Hy|Hy].
  - congruence.
  - subst e. exfalso. apply H1. apply (in_map fst f (r, y)). exact Hy.
  - subst e. exfalso. apply H1. apply (in_map fst f (r, x)). exact Hx.
  - eapply IH; eauto.
Qed.

(** the state change of a counted response, in one place *)
Lemma response_inv : forall es es' h os (w : nat) r st tid t0 (retire : bool) a,
    Inv es h os -> In (r, tid) (in_flight h) -> In t0 (tasks h) -> t_id t0 = tid ->
    a = on_message_arm st ->
    retire = (match a with IncOk | IncErr => true | _ => false end) ->
    (forall r0, acked es r0 -> acked es' r0) -> (a = IncOk -> acked es' r) ->
    forall os', (forall w' r' q, ~ In (OSend w' r' q) os') ->
    Inv es'
        (set_in_flight (set_tasks h (map (fun t' => if Nat.eqb (t_id t') tid then apply_arm a t' else t') (tasks h)))
                       (if retire then filter (fun e => negb (rid_eqb (fst e) r)) (in_flight h) else in_flight h))
        (os ++ os').
Proof.
  intros es es' h os w r st tid t0 retire a I Hr Ht0 Hid Ha Hret Hmono Hack os' Hos'.
  change (fun t' => if Nat.eqb (t_id t') tid then apply_arm a t' else t') with (upd a tid).
  pose proof (inv_wf _ _ _ I) as W.
  set (f' := if retire then filter (fun e => negb (rid_eqb (fst e) r)) (in_flight h) else in_flight h).
  assert (Hsub : forall e, In e f' -> In e (in_flight h)).
  { intros e He. unfold f' in He. destruct retire; [apply filter_In in He; tauto|exact He]. }
  assert (Hoc : forall x, open_count f' x + (if retire then if Nat.eqb tid x then 1 else 0 else 0)
                          = open_count (in_flight h) x).
  { intros x. unfold f'. destruct retire; [|lia]. apply open_count_remove; [apply (wf_keys _ W)|exact Hr]. }
  constructor.
  - constructor; cbn [tasks in_flight workers next_task next_rq set_tasks set_in_flight].
    + intros t Hin. apply in_map_iff in Hin. destruct Hin as [t1 [<- Hin]].
      destruct (upd_fields a tid t1) as [-> _]. apply (wf_tid _ W t1 Hin).
    + rewrite map_map. erewrite map_ext; [apply (wf_nodup_id _ W)|]. intros t1. apply upd_fields.
    + unfold f'. destruct retire; [apply NoDup_map_fst_filter|]; apply (wf_keys _ W).
    + intros r1 x Hin. destruct (wf_live _ W r1 x (Hsub _ Hin)) as [A [t1 [B C]]]. split; [exact A|].
      exists (upd a tid t1). split; [apply in_map; exact B|]. destruct (upd_fields a tid t1) as [-> _]. exact C.
    + apply (wf_workers _ W).
    + intros t Hin Hk. apply in_map_iff in Hin. destruct Hin as [t1 [<- Hin]].
      destruct (upd_fields a tid t1) as [_ [_ [Ek [Ed _]]]]. rewrite Ek in Hk. rewrite Ed.
      apply (wf_load _ W t1 Hin Hk).
    + intros t Hin. apply in_map_iff in Hin. destruct Hin as [t1 [<- Hin]].
      destruct (upd_fields a tid t1) as [Eid [_ [_ [_ [Eexp [_ [Eok Eerr]]]]]]].
      rewrite Eid, Eexp, Eok, Eerr. pose proof (wf_acc _ W t1 Hin) as Hacc. specialize (Hoc (t_id t1)).
      rewrite (Nat.eqb_sym tid (t_id t1)) in Hoc.
      subst retire. destruct (Nat.eqb (t_id t1) tid); destruct a; lia.
  - intros t Hin. cbn [tasks set_tasks set_in_flight next_rq] in *. apply in_map_iff in Hin.
    destruct Hin as [t1 [<- Hin]]. destruct (upd_fields a tid t1) as [_ [-> _]]. apply (inv_rq _ _ _ I t1 Hin).
  - intros w' r' q Hin. cbn [set_tasks set_in_flight next_rq]. apply in_app_or in Hin.
    destruct Hin as [Hin|Hin]; [apply (inv_fresh _ _ _ I _ _ _ Hin)|exfalso; eapply Hos'; eauto].
  - intros t Hin w' r' Hs. cbn [tasks in_flight set_tasks set_in_flight] in *. apply in_map_iff in Hin.
    destruct Hin as [t1 [<- Hin]].
    destruct (upd_fields a tid t1) as [Eid [Erq [_ [_ [_ [_ [_ Eerr]]]]]]]. rewrite Erq in Hs. rewrite Eid, Eerr.
    apply in_app_or in Hs. destruct Hs as [Hs|Hs]; [|exfalso; eapply Hos'; eauto].
    destruct (inv_sent _ _ _ I t1 Hin w' r' Hs) as [A|[A|A]].
    + destruct (rid_eqb r' r) eqn:Er.
      * apply rid_eqb_eq in Er. subst r'.
        pose proof (key_unique _ _ _ _ (wf_keys _ W) A Hr) as Et. rewrite Et, Nat.eqb_refl.
        destruct a eqn:Ea; subst retire; unfold f'.
        -- right. left. apply Hack. reflexivity.
        -- right. right. lia.
        -- left. rewrite <- Et. exact A.
        -- left. rewrite <- Et. exact A.
      * left. unfold f'. destruct retire; [|exact A]. apply filter_In. split; [exact A|].
        cbn [fst]. rewrite Er. reflexivity.
    + right. left. apply Hmono. exact A.
    + right. right. lia.
Qed.

Lemma worker_response_inv : forall es h os w r st h' os',
    Inv es h os -> worker_response h w r st = (h', os') ->
    Inv (es ++ [EResp w r st]) h' (os ++ os').
Proof.
  intros es h os w r st h' os' I H. unfold worker_response in H.
  destruct r as [r|]; [|inversion H; subst; apply inv_es_mono; exact I].
  destruct (lookup_rid r (in_flight h)) as [tid|] eqn:El; [|inversion H; subst; apply inv_es_mono; exact I].
  destruct (find_task tid (tasks h)) as [t0|] eqn:Ef; [|inversion H; subst; apply inv_es_mono; exact I].
  inversion H; subst h' os'; clear H.
  apply lookup_rid_in in El. destruct (find_task_in _ _ _ Ef) as [Ht0 Hid].
  eapply response_inv; eauto.
  - apply gen_retire.
  - intros r0. apply acked_mono.
  - intros Ha. exists w. apply in_or_app. right. left.
    destruct st; cbn in Ha; try discriminate. reflexivity.
  - intros w' r' q Hin. destruct (on_message_arm st); cbn in Hin; try contradiction.
    destruct Hin as [Hx|[]]. discriminate.
Qed.


Lemma id_unique : forall ts t t', NoDup (map t_id ts) -> In t ts -> In t' ts -> t_id t = t_id t' -> t = t'.
Proof.
  induction ts as [|x ts IH]; intros t t' Hnd Ht Ht' E; [destruct Ht|].
  cbn [map] in Hnd. inversion Hnd; subst.
  destruct Ht as [Ht|Ht]; destruct Ht' as [Ht'|Ht'].
  - congruence.
  - subst x. exfalso. apply H1. rewrite E. apply in_map. exact Ht'.
  - subst x. exfalso. apply H1. rewrite <- E. apply in_map. exact Ht.
  - apply IH; assumption.
Qed.

Definition fin_of (h : hub) : list task :=
  filter (fun t => match finishes h t with Some _ => true | None => false end) (tasks h).
Definition keep_of (h : hub) : list task :=
  filter (fun t => match finishes h t with Some _ => false | None => true end) (tasks h).

Lemma sweep_shape : forall h,
    sweep h =
    (mkHub (workers h) (keep_of h)
           (filter (fun e : rid * nat => negb (existsb (fun t => Nat.eqb (t_id t) (snd e)) (fin_of h))) (in_flight h))
           (now h) (next_task h) (next_rq h)
           (stopping h || existsb (fun t => is_stop (t_kind t)) (fin_of h)) (timeout h) (gone h),
     flat_map (fun t => match finishes h t with Some raw => finish_outs t raw | None => [] end) (tasks h)).
Proof. intros h. unfold sweep. rewrite gen_purge. reflexivity. Qed.

Lemma kept_not_purged : forall h t (e : rid * nat),
    WF h -> In t (keep_of h) -> snd e = t_id t ->
    negb (existsb (fun t' => Nat.eqb (t_id t') (snd e)) (fin_of h)) = true.
Proof.
  intros h t e W Hk He. apply negb_true_iff. apply not_true_is_false. intros Hex.
  apply existsb_exists in Hex. destruct Hex as [t' [Hin Heq]]. apply Nat.eqb_eq in Heq.
  unfold keep_of in Hk. unfold fin_of in Hin. apply filter_In in Hk. apply filter_In in Hin.
  destruct Hk as [Hk1 Hk2]. destruct Hin as [Hi1 Hi2].
  assert (t' = t) by (apply (id_unique (tasks h)); [apply (wf_nodup_id _ W)|assumption|assumption|congruence]).
  subst t'. destruct (finishes h t); discriminate.
Qed.

Lemma finish_outs_no_send : forall t raw w r q, ~ In (OSend w r q) (finish_outs t raw).
Proof.
  intros t raw w r q Hin. unfold finish_outs in Hin. apply in_app_or in Hin.
  destruct Hin as [Hin|[Hin|[]]]; [|discriminate].
  apply in_map_iff in Hin. destruct Hin as [s [E _]]. discriminate.
Qed.

Lemma sweep_no_send : forall h w r q, ~ In (OSend w r q) (snd (sweep h)).
Proof.
  intros h w r q Hin. rewrite sweep_outs in Hin. apply in_flat_map in Hin. destruct Hin as [t [_ Hin]].
  destruct (finishes h t); [eapply finish_outs_no_send; eauto|destruct Hin].
Qed.

Lemma sweep_inv : forall es h os, Inv es h os -> Inv es (fst (sweep h)) (os ++ snd (sweep h)).
Proof.
  intros es h os I. pose proof (inv_wf _ _ _ I) as W.
  pose proof (sweep_no_send h) as Hns. rewrite sweep_shape in *. cbn [fst snd] in *.
  assert (Hk : forall t, In t (keep_of h) -> In t (tasks h)).
  { intros t Hin. unfold keep_of in Hin. apply filter_In in Hin. tauto. }
  constructor.
  - constructor; cbn [tasks in_flight workers next_task next_rq].
    + intros t Hin. apply (wf_tid _ W t (Hk t Hin)).
    + unfold keep_of. apply NoDup_map_filter. apply (wf_nodup_id _ W).
    + apply NoDup_map_fst_filter. apply (wf_keys _ W).
    + intros r x Hin. apply filter_In in Hin. destruct Hin as [Hin Hp]. cbn [snd] in Hp.
      destruct (wf_live _ W r x Hin) as [A [t [B C]]]. split; [exact A|]. exists t. split; [|exact C].
      unfold keep_of. apply filter_In. split; [exact B|].
      destruct (finishes h t) eqn:Ef; [|reflexivity]. exfalso.
      apply negb_true_iff in Hp. apply not_true_iff_false in Hp. apply Hp. apply existsb_exists.
      exists t. split; [unfold fin_of; apply filter_In; split; [exact B|rewrite Ef; reflexivity]|].
      apply Nat.eqb_eq. exact C.
    + apply (wf_workers _ W).
    + intros t Hin Hkd. apply (wf_load _ W t (Hk t Hin) Hkd).
    + intros t Hin. rewrite open_count_filter_keep; [apply (wf_acc _ W t (Hk t Hin))|].
      intros e _ He. eapply kept_not_purged; eauto.
  - intros t Hin. cbn [tasks next_rq] in *. apply (inv_rq _ _ _ I t (Hk t Hin)).
  - intros w r q Hin. cbn [next_rq]. apply in_app_or in Hin.
    destruct Hin as [Hin|Hin]; [apply (inv_fresh _ _ _ I _ _ _ Hin)|exfalso; eapply Hns; eauto].
  - intros t Hin w r Hs. cbn [tasks in_flight] in *. apply in_app_or in Hs.
    destruct Hs as [Hs|Hs]; [|exfalso; eapply Hns; eauto].
    destruct (inv_sent _ _ _ I t (Hk t Hin) w r Hs) as [A|[A|A]]; auto.
    left. apply filter_In. split; [exact A|]. eapply kept_not_purged; eauto.
Qed.

Lemma inv_outs_equiv : forall es h os os2,
    Inv es h os -> (forall w r q, In (OSend w r q) os2 <-> In (OSend w r q) os) -> Inv es h os2.
Proof.
  intros es h os os2 [W R F S] E. constructor; try assumption.
  - intros w r q Hin. apply E in Hin. eapply F; eauto.
  - intros t Hin w r Hs. apply E in Hs. eapply S; eauto.
Qed.

Lemma failure_response_inv : forall es h os w r st h' os',
    on_message_arm st <> IncOk ->
    Inv es h os -> worker_response h w (Some r) st = (h', os') -> Inv es h' (os ++ os').
Proof.
  intros es h os w r st h' os' Hst I H. unfold worker_response in H.
  destruct (lookup_rid r (in_flight h)) as [tid|] eqn:El; [|inversion H; subst; rewrite app_nil_r; exact I].
  destruct (find_task tid (tasks h)) as [t0|] eqn:Ef; [|inversion H; subst; rewrite app_nil_r; exact I].
  inversion H; subst h' os'; clear H.
  apply lookup_rid_in in El. destruct (find_task_in _ _ _ Ef) as [Ht0 Hid].
  eapply (response_inv es es); eauto.
  - apply gen_retire.
  - intros Ha. congruence.
  - intros w' r' q Hin. destruct (on_message_arm st); cbn in Hin; try contradiction.
    destruct Hin as [Hx|[]]. discriminate.
Qed.

Lemma fail_all_inv : forall rs es h os w h' os',
    Inv es h os -> fail_all h w rs = (h', os') -> Inv es h' (os ++ os').
Proof.
  induction rs as [|r rs IH]; intros es h os w h' os' I H; cbn [fail_all] in H.
  - inversion H; subst. rewrite app_nil_r. exact I.
  - destruct (worker_response h w (Some r) SFailure) as [h1 o1] eqn:E1.
    destruct (fail_all h1 w rs) as [h2 o2] eqn:E2. inversion H; subst; clear H.
    rewrite app_assoc. eapply IH; [|exact E2]. eapply failure_response_inv; [|exact I|exact E1].
    destruct gen_arms as [_ [Hf _]]. rewrite Hf. discriminate.
Qed.

Lemma closed_hub_inv : forall es h os w, Inv es h os -> Inv (es ++ [EWorkerClosed w]) (closed_hub h w) os.
Proof.
  intros es h os w I. apply (inv_es_mono _ _ _ (EWorkerClosed w)) in I. rewrite app_nil_r in I.
  destruct I as [W R F S]. destruct W. constructor; [constructor|..]; try assumption.
  cbn [closed_hub workers]. rewrite map_map. erewrite map_ext; [eassumption|].
  intros [a b]. cbn [fst]. destruct (Nat.eqb a w); reflexivity.
Qed.

Lemma apply_event_inv : forall es h os e h' os',
    Inv es h os -> apply_event h e = (h', os') -> Inv (es ++ [e]) h' (os ++ os').
Proof.
  intros es h os e h' os' I H. destruct e as [c v|w r st|w|c|dt]; cbn [apply_event] in H.
  - eapply client_request_inv; eauto.
  - eapply worker_response_inv; eauto.
  - fold (apply_event h (EWorkerClosed w)) in H. rewrite closed_event in H.
    eapply fail_all_inv; [apply closed_hub_inv; exact I|exact H].
  - inversion H; subst; clear H. apply (inv_es_mono _ _ _ (EClientClosed c)) in I.
    destruct I as [W R F S]. destruct W. constructor; [constructor|..]; assumption.
  - inversion H; subst; clear H. apply (inv_es_mono _ _ _ (ETick dt)) in I.
    destruct I as [W R F S]. destruct W. constructor; [constructor|..]; assumption.
Qed.

Lemma in_send_filter : forall h w r q os, In (OSend w r q) (filter (deliverable h) os) <-> In (OSend w r q) os.
Proof.
  intros. rewrite filter_In. split; [tauto|]. intros H. split; [exact H|reflexivity].
Qed.

Lemma step_inv : forall es h os e h' os',
    Inv es h os -> step h e = (h', os') -> Inv (es ++ [e]) h' (os ++ os').
Proof.
  intros es h os e h' os' I H. unfold step in H. destruct (stopping h).
  - inversion H; subst. apply inv_es_mono. exact I.
  - destruct (apply_event h e) as [h1 o1] eqn:E1. pose proof (apply_event_inv _ _ _ _ _ _ I E1) as I1.
    pose proof (sweep_inv _ _ _ I1) as I2. destruct (sweep h1) as [h2 o2] eqn:E2. cbn [fst snd] in I2.
    inversion H; subst h' os'; clear H.
    eapply inv_outs_equiv; [exact I2|].
    intros w r q. rewrite !in_app_iff, in_send_filter, !in_app_iff. tauto.
Qed.

Lemma run_inv : forall es2 es h os h' os',
    Inv es h os -> run h es2 = (h', os') -> Inv (es ++ es2) h' (os ++ os').
Proof.
  induction es2 as [|e es2 IH]; intros es h os h' os' I H; cbn [run] in H.
  - inversion H; subst. rewrite !app_nil_r. exact I.
  - destruct (step h e) as [h1 o1] eqn:E1. destruct (run h1 es2) as [h2 o2] eqn:E2.
    inversion H; subst; clear H.
    pose proof (step_inv _ _ _ _ _ _ I E1) as I1. specialize (IH _ _ _ _ _ I1 E2).
    rewrite <- app_assoc in IH. cbn [app] in IH. rewrite app_assoc. exact IH.
Qed.

Lemma reach_inv : forall nw tm es h os, run (init nw tm) es = (h, os) -> Inv es h os.
Proof. intros. apply (run_inv es [] (init nw tm) [] h os (inv_init nw tm) H). Qed.

(** ** where an ODone comes from *)
Lemma finish_outs_done : forall t raw t' raw', In (ODone t' raw') (finish_outs t raw) -> t' = t /\ raw' = raw.
Proof.
  intros t raw t' raw' Hin. unfold finish_outs in Hin. apply in_app_or in Hin.
  destruct Hin as [Hin|[Hin|[]]].
  - apply in_map_iff in Hin. destruct Hin as [s [E _]]. discriminate.
  - inversion Hin. auto.
Qed.

Lemma sweep_done : forall h t raw, In (ODone t raw) (snd (sweep h)) <-> In t (tasks h) /\ finishes h t = Some raw.
Proof.
  intros h t raw. rewrite sweep_outs. split.
  - intros Hin. apply in_flat_map in Hin. destruct Hin as [t1 [Hin1 Hin]].
    destruct (finishes h t1) as [raw1|] eqn:E; [|destruct Hin].
    apply finish_outs_done in Hin. destruct Hin as [-> ->]. auto.
  - intros [Hin E]. apply in_flat_map. exists t. split; [exact Hin|]. rewrite E.
    unfold finish_outs. apply in_or_app. right. left. reflexivity.
Qed.

Definition no_done (os : list out) : Prop := forall t raw, ~ In (ODone t raw) os.

Lemma scatter_on_no_done : forall h rq tid idx, no_done (snd (scatter_on h rq tid idx)).
Proof. intros h rq tid idx t raw Hin. cbn in Hin. apply in_map_iff in Hin. destruct Hin as [w [E _]]. discriminate. Qed.

Lemma scatter_many_no_done : forall idxs h rq tid, no_done (snd (scatter_many h rq tid idxs)).
Proof.
  induction idxs as [|i idxs IH]; intros h rq tid t raw Hin; cbn [scatter_many] in Hin.
  - destruct Hin.
  - pose proof (scatter_on_no_done h rq tid i) as H1. destruct (scatter_on h rq tid i) as [h1 o1].
    pose proof (IH h1 rq tid) as H2. destruct (scatter_many h1 rq tid idxs) as [h2 o2].
    cbn [snd] in *. apply in_app_or in Hin. destruct Hin; [eapply H1|eapply H2]; eauto.
Qed.

Lemma worker_response_no_done : forall h w r st, no_done (snd (worker_response h w r st)).
Proof.
  intros h w r st t raw Hin. unfold worker_response in Hin. destruct r as [r|]; [|destruct Hin].
  destruct (lookup_rid r (in_flight h)); [|destruct Hin].
  destruct (find_task n (tasks h)); [|destruct Hin]. cbn [snd] in Hin.
  destruct (on_message_arm st); cbn in Hin; try contradiction. destruct Hin as [Hx|[]]. discriminate.
Qed.

Lemma fail_all_no_done : forall rs h w, no_done (snd (fail_all h w rs)).
Proof.
  induction rs as [|r rs IH]; intros h w t raw Hin; cbn [fail_all] in Hin; [destruct Hin|].
  pose proof (worker_response_no_done h w (Some r) SFailure) as H1.
  destruct (worker_response h w (Some r) SFailure) as [h1 o1]. pose proof (IH h1 w) as H2.
  destruct (fail_all h1 w rs) as [h2 o2]. cbn [snd] in *. apply in_app_or in Hin.
  destruct Hin; [eapply H1|eapply H2]; eauto.
Qed.

Lemma apply_event_no_done : forall h e, no_done (snd (apply_event h e)).
Proof.
  intros h e t raw Hin. destruct e as [c v|w r st|w|c|dt];
    [| |rewrite closed_event in Hin; eapply fail_all_no_done; eauto| |];
    cbn [apply_event] in Hin; try (cbn in Hin; contradiction).
  - unfold client_request in Hin. destruct v as [|b| | | | | |n bad].
    all: try (cbn in Hin; destruct Hin as [Hx|[]]; discriminate).
    all: try (match type of Hin with context [new_task ?a ?b ?c ?d] => destruct (new_task a b c d) as [h1 tid] end;
              pose proof (scatter_on_no_done h1 (next_rq h) tid 0) as Hn;
              destruct (scatter_on h1 (next_rq h) tid 0) as [h2 o]; cbn [snd] in *;
              destruct Hin as [Hx|Hin]; [discriminate|eapply Hn; eauto]).
    + destruct (new_task h c KLoad tmo_load) as [h1 tid].
      pose proof (scatter_many_no_done (seq 1 n) h1 (next_rq h) tid) as Hn.
      destruct (scatter_many h1 (next_rq h) tid (seq 1 n)) as [h2 o]. destruct bad; cbn [snd] in *.
      all: destruct Hin as [Hx|Hin]; [discriminate|]; apply in_app_or in Hin;
        destruct Hin as [Hin|[Hx|[]]]; [eapply Hn; eauto|discriminate].
  - unfold worker_response in Hin. destruct r as [r|]; [|destruct Hin].
    destruct (lookup_rid r (in_flight h)); [|destruct Hin].
    destruct (find_task n (tasks h)); [|destruct Hin]. cbn [snd] in Hin.
    destruct (on_message_arm st); cbn in Hin; try contradiction. destruct Hin as [Hx|[]]. discriminate.
Qed.

Lemma step_done : forall h e h' os' t raw,
    step h e = (h', os') -> In (ODone t raw) os' ->
    stopping h = false /\ In t (tasks (fst (apply_event h e))) /\ finishes (fst (apply_event h e)) t = Some raw.
Proof.
  intros h e h' os' t raw H Hin. unfold step in H. destruct (stopping h); [inversion H; subst; destruct Hin|].
  pose proof (apply_event_no_done h e) as Hnd. destruct (apply_event h e) as [h1 o1]. cbn [fst snd] in *.
  pose proof (sweep_done h1 t raw) as Hs. destruct (sweep h1) as [h2 o2]. cbn [snd] in Hs.
  inversion H; subst; clear H. apply filter_In in Hin. destruct Hin as [Hin _]. apply in_app_or in Hin.
  destruct Hin as [Hin|Hin]; [exfalso; eapply Hnd; eauto|]. apply Hs in Hin. tauto.
Qed.

Lemma open_count_zero : forall f x r, open_count f x = 0 -> ~ In (r, x) f.
Proof.
  intros f x r H Hin. unfold open_count in H.
  assert (Hf : In (r, x) (filter (fun e => Nat.eqb (snd e) x) f)).
  { apply filter_In. split; [exact Hin|]. cbn. apply Nat.eqb_refl. }
  destruct (filter _ f); [destruct Hf|discriminate].
Qed.

Lemma step_sends : forall h e h' os' w r q,
    step h e = (h', os') -> In (OSend w r q) os' -> In (OSend w r q) (snd (apply_event h e)).
Proof.
  intros h e h' os' w r q H Hin. unfold step in H. destruct (stopping h); [inversion H; subst; destruct Hin|].
  destruct (apply_event h e) as [h1 o1]. pose proof (sweep_no_send h1) as Hns. destruct (sweep h1) as [h2 o2].
  cbn [snd] in *. inversion H; subst; clear H. apply in_send_filter in Hin. apply in_app_or in Hin.
  destruct Hin as [Hin|Hin]; [exact Hin|exfalso; eapply Hns; eauto].
Qed.

(** ** ok_is_sound, at the task that finished *)
(** the task kinds whose OK claims that the request was applied by every worker
    (worker verbs, load-state, stops); query / status / metrics tasks answer OK
    with whatever was gathered *)
Definition claims_application (k : kind) : bool := match k with KQuery => false | _ => true end.

Lemma ok_sound_done : forall nw tm es h os e h' os' t raw,
    run (init nw tm) es = (h, os) -> step h e = (h', os') ->
    In (ODone t raw) os' ->
    claims_application (t_kind t) = true ->
    In SOk (verdict (t_kind t) (t_err t) (on_finish_flag raw)) ->
    raw = false /\ t_err t = 0 /\ t_exp t <= t_ok t /\
    forall w r, In (OSend w r (t_rq t)) (os ++ os') -> acked (es ++ [e]) r.
Proof.
  intros nw tm es h os e h' os' t raw Hrun Hstep Hdone Hkind Hok.
  pose proof (reach_inv _ _ _ _ _ Hrun) as I.
  destruct (step_done _ _ _ _ _ _ Hstep Hdone) as [Hst [Hin Hfin]].
  destruct (apply_event h e) as [h1 o1] eqn:E1. cbn [fst] in *.
  pose proof (apply_event_inv _ _ _ _ _ _ I E1) as I1. pose proof (inv_wf _ _ _ I1) as W1.
  assert (Hcore : raw = false /\ t_err t = 0 /\ t_exp t <= t_ok t).
  { unfold finishes in Hfin. destruct gen_flags as [F1 [F2 F3]]. rewrite F1, F2, F3, gen_has_finished in Hfin.
    destruct (t_kind t) as [| |hard|] eqn:Hk; try discriminate Hkind; cbn [verdict] in Hok.
    - rewrite gen_worker_fails, gen_flag in Hok.
      destruct (Nat.ltb 0 (t_err t)) eqn:El; [cbn in Hok; destruct Hok as [Hx|[]]; discriminate|].
      destruct raw; [cbn in Hok; destruct Hok as [Hx|[]]; discriminate|].
      apply Nat.ltb_ge in El. destruct (Nat.leb (t_exp t) (t_ok t + t_err t)) eqn:Ele.
      + apply Nat.leb_le in Ele. repeat split; lia.
      + destruct (t_deadline t); [destruct (expired n (now h1)); discriminate|discriminate].
    - (* stop tasks: a hard stop has a deadline, a soft stop has none *)
      rewrite gen_stop, gen_flag, gen_stop_fails in Hok.
      destruct (Nat.ltb 0 (t_err t)) eqn:El; [rewrite orb_true_r in Hok; destruct Hok as [Hx|[]]; discriminate|].
      apply Nat.ltb_ge in El. rewrite orb_false_r in Hok.
      destruct (Nat.leb (t_exp t) (t_ok t + t_err t)) eqn:Ele.
      + apply Nat.leb_le in Ele. inversion Hfin. repeat split; lia.
      + destruct hard.
        * destruct raw; [cbn in Hok; destruct Hok as [Hx|[]]; discriminate|].
          destruct (t_deadline t); [destruct (expired n (now h1)); discriminate|discriminate].
        * assert (Hnd : nd (t_kind t) = true) by (rewrite Hk; reflexivity).
          rewrite (wf_load _ W1 t Hin Hnd) in Hfin. discriminate.
    - rewrite gen_load_ok, gen_flag in Hok.
      destruct (Nat.eqb (t_err t) 0) eqn:Ee; [|cbn in Hok; destruct Hok as [Hx|[]]; discriminate].
      destruct raw; [cbn in Hok; destruct Hok as [Hx|[]]; discriminate|].
      apply Nat.eqb_eq in Ee. destruct (Nat.leb (t_exp t) (t_ok t + t_err t)) eqn:Ele.
      + apply Nat.leb_le in Ele. repeat split; lia.
      + destruct (t_deadline t); [destruct (expired n (now h1)); discriminate|discriminate]. }
  destruct Hcore as [Hraw [Herr Hexp]]. repeat split; try assumption.
  intros w r Hs.
  assert (Hs1 : In (OSend w r (t_rq t)) (os ++ o1)).
  { apply in_app_or in Hs. apply in_or_app. destruct Hs as [Hs|Hs]; [left; exact Hs|right].
    pose proof (step_sends _ _ _ _ _ _ _ Hstep Hs) as Hx. rewrite E1 in Hx. exact Hx. }
  pose proof (wf_acc _ W1 t Hin) as Hacc.
  destruct (inv_sent _ _ _ I1 t Hin w r Hs1) as [A|[A|A]].
  - exfalso. apply (open_count_zero (in_flight h1) (t_id t) r); [lia|exact A].
  - exact A.
  - lia.
Qed.

(** ** where a final answer comes from *)
Lemma sweep_final : forall h c rq st,
    In (OFinal c rq st) (snd (sweep h)) ->
    exists t raw, In (ODone t raw) (snd (sweep h)) /\ t_rq t = rq /\ t_client t = c /\
                  In st (verdict (t_kind t) (t_err t) (on_finish_flag raw)).
Proof.
  intros h c rq st Hin. rewrite sweep_outs in Hin. apply in_flat_map in Hin. destruct Hin as [t [Ht Hin]].
  destruct (finishes h t) as [raw|] eqn:E; [|destruct Hin].
  exists t, raw. split; [apply sweep_done; auto|].
  unfold finish_outs in Hin. apply in_app_or in Hin. destruct Hin as [Hin|[Hx|[]]]; [|discriminate].
  apply in_map_iff in Hin. destruct Hin as [s [Es Hs]]. inversion Es; subst. auto.
Qed.

Lemma client_request_final : forall h c v c' rq st,
    In (OFinal c' rq st) (snd (client_request h c v)) ->
    rq = next_rq h /\ c' = c /\ (st = SOk -> forall w r q, ~ In (OSend w r q) (snd (client_request h c v))).
Proof.
  intros h c v c' rq st Hin. unfold client_request in *. destruct v as [|b| | | | | |n bad].
  all: try (cbn in Hin |- *; destruct Hin as [Hx|[]]; inversion Hx; subst;
            repeat split; intros _ w r q [Hy|[]]; discriminate).
  all: try (match type of Hin with context [new_task ?a ?b ?c ?d] => destruct (new_task a b c d) as [h1 tid] end;
            pose proof (scatter_on_facts h1 (next_rq h) tid 0) as Hf;
            destruct (scatter_on h1 (next_rq h) tid 0) as [h2 o]; cbn [snd] in *;
            destruct (Hf _ _ eq_refl) as [Hnf _];
            destruct Hin as [Hx|Hin]; [discriminate|exfalso; eapply Hnf; eauto]).
  - destruct (new_task h c KLoad tmo_load) as [h1 tid].
    pose proof (scatter_many_facts (seq 1 n) h1 (next_rq h) tid) as Hf.
    destruct (scatter_many h1 (next_rq h) tid (seq 1 n)) as [h2 o].
    destruct (Hf _ _ eq_refl) as [Hnf _]. destruct bad; cbn [snd] in *.
    + destruct Hin as [Hx|Hin]; [discriminate|]. apply in_app_or in Hin.
      destruct Hin as [Hin|[Hx|[]]]; [exfalso; eapply Hnf; eauto|].
      inversion Hx; subst. repeat split. intros Hok. discriminate.
    + destruct Hin as [Hx|Hin]; [discriminate|]. apply in_app_or in Hin.
      destruct Hin as [Hin|[Hx|[]]]; [exfalso; eapply Hnf; eauto|discriminate].
Qed.

Lemma final_origin : forall h e h' os' c rq st,
    step h e = (h', os') -> In (OFinal c rq st) os' ->
    (exists t raw, In (ODone t raw) os' /\ t_rq t = rq /\ t_client t = c /\
                   In st (verdict (t_kind t) (t_err t) (on_finish_flag raw)))
    \/ (rq = next_rq h /\ (st = SOk -> forall w r q, ~ In (OSend w r q) os')).
Proof.
  intros h e h' os' c rq st H Hin. pose proof H as Hstep. unfold step in H.
  destruct (stopping h); [inversion H; subst; destruct Hin|].
  destruct (apply_event h e) as [h1 o1] eqn:E1. pose proof (sweep_final h1 c rq st) as Hsf.
  pose proof (sweep_no_send h1) as Hns.
  destruct (sweep h1) as [h2 o2] eqn:E2. cbn [snd] in *. inversion H; subst h' os'; clear H.
  apply filter_In in Hin. destruct Hin as [Hin Hdel]. apply in_app_or in Hin. destruct Hin as [Hin|Hin].
  - right. destruct e as [c0 v|w r st0|w|c0|dt]; cbn [apply_event] in E1.
    + pose proof (client_request_final h c0 v c rq st) as Hc. rewrite E1 in Hc. cbn [snd] in Hc.
      destruct (Hc Hin) as [A [B C]]. split; [exact A|]. intros Hok w r q Hs. specialize (C Hok).
      apply in_send_filter in Hs. apply in_app_or in Hs. destruct Hs as [Hs|Hs]; [eapply C|eapply Hns]; eauto.
    + apply worker_response_facts in E1. destruct E1 as [F _]. exfalso. eapply F; eauto.
    + fold (apply_event h (EWorkerClosed w)) in E1. rewrite closed_event in E1.
      apply fail_all_facts in E1. destruct E1 as [F _]. exfalso. eapply F; eauto.
    + inversion E1; subst. destruct Hin.
    + inversion E1; subst. destruct Hin.
  - left. destruct (Hsf Hin) as [t [raw [Hd [A [B C]]]]]. exists t, raw. repeat split; try assumption.
    apply filter_In. split; [apply in_or_app; right; exact Hd|reflexivity].
Qed.

Lemma ok_is_sound_lemma : forall nw tm es h os e h' os' c rq,
    run (init nw tm) es = (h, os) -> step h e = (h', os') ->
    In (OFinal c rq SOk) os' ->
    (forall t raw, In (ODone t raw) os' -> t_rq t = rq -> claims_application (t_kind t) = true) ->
    forall w r, In (OSend w r rq) (os ++ os') -> acked (es ++ [e]) r.
Proof.
  intros nw tm es h os e h' os' c rq Hrun Hstep Hfin Hkinds w r Hs.
  destruct (final_origin _ _ _ _ _ _ _ Hstep Hfin) as [[t [raw [Hd [Erq [Ec Hv]]]]]|[Erq Hno]].
  - subst rq. destruct (ok_sound_done _ _ _ _ _ _ _ _ _ _ Hrun Hstep Hd (Hkinds _ _ Hd eq_refl) Hv) as [_ [_ [_ Hall]]].
    eapply Hall; eauto.
  - exfalso. apply in_app_or in Hs. destruct Hs as [Hs|Hs]; [|eapply Hno; eauto].
    pose proof (inv_fresh _ _ _ (reach_inv _ _ _ _ _ Hrun) _ _ _ Hs). lia.
Qed.

(** ** what happens to one task in one step *)
Definition same_task (t t' : task) : Prop :=
  t_id t' = t_id t /\ t_rq t' = t_rq t /\ t_kind t' = t_kind t /\ t_deadline t' = t_deadline t /\
  t_client t' = t_client t /\ t_err t <= t_err t' /\ t_ok t <= t_ok t'.

Lemma same_task_refl : forall t, same_task t t.
Proof. intros t. repeat split; lia. Qed.

Lemma same_task_trans : forall a b c, same_task a b -> same_task b c -> same_task a c.
Proof.
  intros a b c [A1 [A2 [A3 [A4 [A5 [A6 A7]]]]]] [B1 [B2 [B3 [B4 [B5 [B6 B7]]]]]].
  repeat split; try congruence; lia.
Qed.

Lemma exp_only_same : forall g t, exp_only g -> same_task t (g t).
Proof. intros g t H. destruct (H t) as [A1 [A2 [A3 [A4 [A5 [A6 A7]]]]]]. repeat split; try congruence; lia. Qed.

Lemma spawn_tasks : forall h c k tm (sc : hub -> nat -> nat -> hub * list out),
    WF h -> (nd k = true -> tm = TNone) ->
    (forall h1 tid h2 o,
        WF h1 -> (exists t, In t (tasks h1) /\ t_id t = tid) -> fresh_idx h1 tid 0 ->
        sc h1 (next_rq h) tid = (h2, o) -> Scattered h1 (next_rq h) tid h2 o) ->
    forall h1 tid h2 o, new_task h c k tm = (h1, tid) -> sc h1 (next_rq h) tid = (h2, o) ->
    now h2 = now h /\ forall t, In t (tasks h) -> exists t1, In t1 (tasks h2) /\ same_task t t1.
Proof.
  intros h c k tm sc W Hk Hsc h1 tid h2 o E1 E2.
  destruct (new_task_wf _ _ _ _ _ _ W E1 Hk) as [W1 [Etid [Ent [Eif [Ew [Enr [Enow [Eg [Est [Etm Ets]]]]]]]]]].
  assert (Hex : exists t, In t (tasks h1) /\ t_id t = tid).
  { eexists. split; [rewrite Ets; apply in_or_app; right; left; reflexivity|reflexivity]. }
  assert (Hfr : fresh_idx h1 tid 0).
  { intros r x Hin Hr. rewrite Eif in Hin. destruct (wf_live _ W r x Hin) as [A [t0 [B C]]].
    pose proof (wf_tid _ W t0 B). unfold tid_of in *. lia. }
  pose proof (Hsc _ _ _ _ W1 Hex Hfr E2) as S. destruct (sc_tasks _ _ _ _ _ S) as [g [Eg2 Hg]].
  split; [rewrite (sc_now _ _ _ _ _ S); exact Enow|].
  intros t Hin. exists (g t). split; [|apply exp_only_same; exact Hg].
  rewrite Eg2. apply in_map. rewrite Ets. apply in_or_app. left. exact Hin.
Qed.

Lemma worker_response_tasks : forall h w r st h1 o1,
    worker_response h w r st = (h1, o1) ->
    now h1 = now h /\ forall t, In t (tasks h) -> exists t1, In t1 (tasks h1) /\ same_task t t1.
Proof.
  intros h w r st h1 o1 H. unfold worker_response in H.
  assert (Hid : now h = now h /\ forall t, In t (tasks h) -> exists t1, In t1 (tasks h) /\ same_task t t1).
  { split; [reflexivity|]. intros t Hin. exists t. split; [exact Hin|apply same_task_refl]. }
  destruct r as [r|]; [|inversion H; subst; exact Hid].
  destruct (lookup_rid r (in_flight h)) as [tid|]; [|inversion H; subst; exact Hid].
  destruct (find_task tid (tasks h)) as [t0|]; [|inversion H; subst; exact Hid].
  inversion H; subst; clear H. split; [reflexivity|]. intros t Hin.
  exists (upd (on_message_arm st) tid t). split; [apply (in_map (upd (on_message_arm st) tid)); exact Hin|].
  destruct (upd_fields (on_message_arm st) tid t) as [A1 [A2 [A3 [A4 [A5 [A6 [A7 A8]]]]]]].
  repeat split; try assumption; lia.
Qed.

Lemma fail_all_tasks : forall rs h w h1 o1,
    fail_all h w rs = (h1, o1) ->
    now h1 = now h /\ forall t, In t (tasks h) -> exists t1, In t1 (tasks h1) /\ same_task t t1.
Proof.
  induction rs as [|r rs IH]; intros h w h1 o1 H; cbn [fail_all] in H.
  - inversion H; subst. split; [reflexivity|]. intros t Hin. exists t. split; [exact Hin|apply same_task_refl].
  - destruct (worker_response h w (Some r) SFailure) as [ha oa] eqn:E1.
    destruct (fail_all ha w rs) as [hb ob] eqn:E2. inversion H; subst; clear H.
    destruct (worker_response_tasks _ _ _ _ _ _ E1) as [N1 T1]. destruct (IH _ _ _ _ E2) as [N2 T2].
    split; [congruence|]. intros t Hin. destruct (T1 t Hin) as [t1 [Hin1 S1]]. destruct (T2 t1 Hin1) as [t2 [Hin2 S2]].
    exists t2. split; [exact Hin2|eapply same_task_trans; eauto].
Qed.

Lemma apply_event_tasks : forall h e h1 o1,
    WF h -> apply_event h e = (h1, o1) ->
    now h1 = (now h + match e with ETick dt => dt | _ => 0 end)%N /\
    forall t, In t (tasks h) -> exists t1, In t1 (tasks h1) /\ same_task t t1.
Proof.
  intros h e h1 o1 W H. destruct e as [c v|w r st|w|c|dt]; cbn [apply_event] in H.
  - rewrite N.add_0_r. unfold client_request in H.
    assert (Hid : now h = now h /\ forall t, In t (tasks h) -> exists t1, In t1 (tasks h) /\ same_task t t1).
    { split; [reflexivity|]. intros t Hin. exists t. split; [exact Hin|apply same_task_refl]. }
    assert (Hsc : forall h1 tid h2 o, WF h1 -> (exists t, In t (tasks h1) /\ t_id t = tid) -> fresh_idx h1 tid 0 ->
                   scatter_on h1 (next_rq h) tid 0 = (h2, o) -> Scattered h1 (next_rq h) tid h2 o).
    { intros a b c0 d Wa Ha Fa Ea. apply (scatter_on_scattered _ _ _ _ _ _ Wa Ha Fa Ea). }
    destruct v as [|b| | | | | |n bad].
    all: try (inversion H; subst; exact Hid).
    all: try (match type of H with context [new_task ?a ?b ?k ?d] =>
                destruct (new_task a b k d) as [h1' tid] eqn:E1;
                destruct (scatter_on h1' (next_rq h) tid 0) as [h2 o] eqn:E2; inversion H; subst; clear H;
                apply (spawn_tasks h c k d (fun h1 rq tid => scatter_on h1 rq tid 0) W ltac:(first [discriminate | intros _; reflexivity]) Hsc _ _ _ _ E1 E2)
              end).
    destruct (new_task h c KLoad tmo_load) as [h1' tid] eqn:E1.
    destruct (scatter_many h1' (next_rq h) tid (seq 1 n)) as [h2 o] eqn:E2.
    assert (Hsc2 : forall h1 tid h2 o, WF h1 -> (exists t, In t (tasks h1) /\ t_id t = tid) -> fresh_idx h1 tid 0 ->
                   scatter_many h1 (next_rq h) tid (seq 1 n) = (h2, o) -> Scattered h1 (next_rq h) tid h2 o).
    { intros a b c0 d Wa Ha Fa Ea. apply (scatter_many_scattered (seq 1 n) a (next_rq h) b 1 c0 d); auto.
      - rewrite seq_length. reflexivity.
      - intros r x Hin Hr. specialize (Fa r x Hin Hr). lia. }
    pose proof (spawn_tasks h c KLoad tmo_load (fun h1 rq tid => scatter_many h1 rq tid (seq 1 n)) W
                       ltac:(discriminate) Hsc2 _ _ _ _ E1 E2) as [Hnow Hts].
    destruct bad; inversion H; subst; clear H; [|split; [exact Hnow|exact Hts]].
    split; [exact Hnow|]. intros t Hin. destruct (Hts t Hin) as [t1 [Hin1 Hs1]]. exists t1. split; [|exact Hs1].
    cbn [bump_rq cancel_task tasks]. apply filter_In. split; [exact Hin1|].
    assert (Htid : tid = next_task h) by (unfold new_task in E1; inversion E1; reflexivity).
    destruct Hs1 as [Hid1 _]. pose proof (wf_tid _ W t Hin) as Hlt.
    apply negb_true_iff. apply Nat.eqb_neq. lia.
  - rewrite N.add_0_r. apply (worker_response_tasks _ _ _ _ _ _ H).
  - rewrite N.add_0_r. fold (apply_event h (EWorkerClosed w)) in H. rewrite closed_event in H.
    destruct (fail_all_tasks _ _ _ _ _ H) as [N T]. split; [exact N|exact T].
  - inversion H; subst; clear H. rewrite N.add_0_r. split; [reflexivity|].
    intros t Hin. exists t. split; [exact Hin|apply same_task_refl].
  - inversion H; subst; clear H. split; [reflexivity|].
    intros t Hin. exists t. split; [exact Hin|apply same_task_refl].
Qed.

Lemma step_fate : forall h e h' os' t,
    WF h -> step h e = (h', os') -> In t (tasks h) -> stopping h = false ->
    now h' = (now h + match e with ETick dt => dt | _ => 0 end)%N /\
    ((exists t', In t' (tasks h') /\ same_task t t' /\ finishes h' t' = None)
     \/ (exists t' raw, In (ODone t' raw) os' /\ same_task t t')).
Proof.
  intros h e h' os' t W H Hin Hst. unfold step in H. rewrite Hst in H.
  destruct (apply_event h e) as [h1 o1] eqn:E1.
  destruct (apply_event_tasks _ _ _ _ W E1) as [Hnow Hts]. destruct (Hts t Hin) as [t1 [Hin1 Hsame]].
  pose proof (sweep_done h1) as Hsd. pose proof (sweep_tasks h1) as Hst1.
  assert (Hfin_eq : forall x, finishes (fst (sweep h1)) x = finishes h1 x) by reflexivity.
  assert (Hnow2 : now (fst (sweep h1)) = now h1) by reflexivity.
  destruct (sweep h1) as [h2 o2] eqn:E2. cbn [fst snd] in *. inversion H; subst h' os'; clear H.
  split; [rewrite Hnow2; exact Hnow|].
  destruct (finishes h1 t1) as [raw|] eqn:Ef.
  - right. exists t1, raw. split; [|exact Hsame]. apply filter_In. split; [|reflexivity].
    apply in_or_app. right. apply Hsd. auto.
  - left. exists t1. split; [|split; [exact Hsame|rewrite Hfin_eq; exact Ef]].
    rewrite Hst1. apply filter_In. split; [exact Hin1|]. rewrite Ef. reflexivity.
Qed.

Lemma fate_run : forall es es0 h0 os0 t h os,
    Inv es0 h0 os0 -> In t (tasks h0) -> run h0 es = (h, os) ->
    stopping h = true \/ (exists t1, In t1 (tasks h) /\ same_task t t1)
    \/ (exists t1 raw, In (ODone t1 raw) os /\ same_task t t1).
Proof.
  induction es as [|e es IH]; intros es0 h0 os0 t h os I Hin H; cbn [run] in H.
  - inversion H; subst. right. left. exists t. split; [exact Hin|apply same_task_refl].
  - destruct (step h0 e) as [h1 o1] eqn:E1. destruct (run h1 es) as [h2 o2] eqn:E2.
    inversion H; subst h os; clear H. pose proof (step_inv _ _ _ _ _ _ I E1) as I1.
    destruct (stopping h0) eqn:Hst.
    + unfold step in E1. rewrite Hst in E1. inversion E1; subst h1 o1.
      destruct (IH _ _ _ t _ _ I1 Hin E2) as [A|[A|A]]; auto.
    + destruct (step_fate _ _ _ _ t (inv_wf _ _ _ I) E1 Hin Hst) as [_ [[t1 [Hin1 [Hs1 _]]]|[t1 [raw [Hd Hs1]]]]].
      * destruct (IH _ _ _ t1 _ _ I1 Hin1 E2) as [A|[[t2 [B C]]|[t2 [raw [B C]]]]].
        -- left. exact A.
        -- right. left. exists t2. split; [exact B|eapply same_task_trans; eauto].
        -- right. right. exists t2, raw. split; [apply in_or_app; right; exact B|eapply same_task_trans; eauto].
      * right. right. exists t1, raw. split; [apply in_or_app; left; exact Hd|exact Hs1].
Qed.

(** no_hang *)
Lemma no_hang_lemma : forall nw tm es0 h0 os0 t d es h os dt h' os',
    run (init nw tm) es0 = (h0, os0) -> In t (tasks h0) -> t_deadline t = Some d ->
    run h0 es = (h, os) -> step h (ETick dt) = (h', os') -> (d < now h + dt)%N ->
    stopping h' = true \/ exists t1 raw, In (ODone t1 raw) (os ++ os') /\ same_task t t1.
Proof.
  intros nw tm es0 h0 os0 t d es h os dt h' os' Hr0 Hin Hd Hr Hstep Hlt.
  pose proof (reach_inv _ _ _ _ _ Hr0) as I0. pose proof (run_inv _ _ _ _ _ _ I0 Hr) as I.
  destruct (fate_run _ _ _ _ t _ _ I0 Hin Hr) as [A|[[t1 [B C]]|[t1 [raw [B C]]]]].
  - left. unfold step in Hstep. rewrite A in Hstep. inversion Hstep; subst. exact A.
  - destruct (stopping h) eqn:Hst.
    + left. unfold step in Hstep. rewrite Hst in Hstep. inversion Hstep; subst. exact Hst.
    + destruct (step_fate _ _ _ _ t1 (inv_wf _ _ _ I) Hstep B Hst) as [Hnow [[t2 [Hin2 [Hs2 Hf2]]]|[t2 [raw [Hd2 Hs2]]]]].
      * exfalso. destruct C as [_ [_ [_ [Cd _]]]]. destruct Hs2 as [_ [_ [_ [Sd _]]]].
        unfold finishes in Hf2. destruct gen_flags as [F1 [F2 F3]]. rewrite F3, Sd, Cd, Hd, gen_expired, Hnow in Hf2.
        assert (Hx : N.ltb d (now h + dt) = true) by (apply N.ltb_lt; exact Hlt). rewrite Hx in Hf2.
        destruct (has_finished (t_ok t2) (t_err t2) (t_exp t2)); discriminate.
      * right. exists t2, raw. split; [apply in_or_app; right; exact Hd2|eapply same_task_trans; eauto].
  - right. exists t1, raw. split; [apply in_or_app; left; exact B|exact C].
Qed.

(** a finished task's verdict reaches its client, once per status of the verdict *)
Lemma done_emits_final : forall h e h' os' t raw st,
    step h e = (h', os') -> In (ODone t raw) os' ->
    In st (verdict (t_kind t) (t_err t) (on_finish_flag raw)) ->
    In (t_client t) (gone h') \/ In (OFinal (t_client t) (t_rq t) st) os'.
Proof.
  intros h e h' os' t raw st H Hd Hv. destruct (step_done _ _ _ _ _ _ H Hd) as [Hst [Hin Hfin]].
  unfold step in H. rewrite Hst in H. destruct (apply_event h e) as [h1 o1]. cbn [fst] in *.
  pose proof (sweep_outs h1) as Ho. destruct (sweep h1) as [h2 o2]. cbn [snd] in Ho. inversion H; subst h' os'; clear H.
  destruct (existsb (Nat.eqb (t_client t)) (gone h2)) eqn:Eg.
  - left. apply existsb_exists in Eg. destruct Eg as [x [Hx Ex]]. apply Nat.eqb_eq in Ex. subst x. exact Hx.
  - right. apply filter_In. split.
    + apply in_or_app. right. rewrite Ho. apply in_flat_map. exists t. split; [exact Hin|]. rewrite Hfin.
      unfold finish_outs. apply in_or_app. left. apply in_map. exact Hv.
    + unfold deliverable. cbn [out_client]. rewrite Eg. reflexivity.
Qed.

(** late_response_ignored / no_cross_talk *)
Lemma late_response_lemma : forall h w r st,
    WF h -> (forall t, In t (tasks h) -> t_id t <> tid_of r) ->
    worker_response h w (Some r) st = (h, []).
Proof.
  intros h w r st W Hdead. unfold worker_response.
  destruct (lookup_rid r (in_flight h)) as [tid|] eqn:El; [|reflexivity].
  apply lookup_rid_in in El. destruct (wf_live _ W r tid El) as [A [t [B C]]].
  exfalso. apply (Hdead t B). congruence.
Qed.

Lemma purged_after_finish : forall nw tm es h os r tid,
    run (init nw tm) es = (h, os) -> In (r, tid) (in_flight h) ->
    tid_of r = tid /\ exists t, In t (tasks h) /\ t_id t = tid.
Proof. intros. apply (wf_live _ (inv_wf _ _ _ (reach_inv _ _ _ _ _ H)) r tid H0). Qed.

Lemma no_cross_talk_lemma : forall h w r st h' os',
    WF h -> worker_response h w (Some r) st = (h', os') ->
    (forall t, In t (tasks h) -> t_id t <> tid_of r -> In t (tasks h')) /\
    (forall t', In t' (tasks h') -> t_id t' <> tid_of r -> In t' (tasks h)) /\
    (forall o c, In o os' -> out_client o = Some c ->
                 exists t0, In t0 (tasks h) /\ t_id t0 = tid_of r /\ t_client t0 = c).
Proof.
  intros h w r st h' os' W H. unfold worker_response in H.
  assert (Hid : (forall t, In t (tasks h) -> t_id t <> tid_of r -> In t (tasks h)) /\
                (forall t', In t' (tasks h) -> t_id t' <> tid_of r -> In t' (tasks h)) /\
                (forall o c, In o ([] : list out) -> out_client o = Some c ->
                             exists t0, In t0 (tasks h) /\ t_id t0 = tid_of r /\ t_client t0 = c)).
  { repeat split; auto. intros o c []. }
  destruct (lookup_rid r (in_flight h)) as [tid|] eqn:El; [|inversion H; subst; exact Hid].
  destruct (find_task tid (tasks h)) as [t0|] eqn:Ef; [|inversion H; subst; exact Hid].
  inversion H; subst h' os'; clear H.
  apply lookup_rid_in in El. destruct (wf_live _ W r tid El) as [A _]. destruct (find_task_in _ _ _ Ef) as [Ht0 Hid0].
  cbn [tasks set_tasks set_in_flight]. repeat split.
  - intros t Hin Hne. apply in_map_iff. exists t. split; [|exact Hin].
    destruct (Nat.eqb (t_id t) tid) eqn:E; [apply Nat.eqb_eq in E; congruence|reflexivity].
  - intros t' Hin Hne. apply in_map_iff in Hin. destruct Hin as [t [Et Hin]].
    destruct (Nat.eqb (t_id t) tid) eqn:E.
    + apply Nat.eqb_eq in E. subst t'. destruct (apply_arm_fields (on_message_arm st) t) as [Ei _]. congruence.
    + subst t'. exact Hin.
  - intros o c Hin Hc. exists t0. repeat split; [exact Ht0|congruence|].
    destruct (on_message_arm st); cbn in Hin; try contradiction.
    destruct Hin as [<-|[]]. cbn in Hc. congruence.
Qed.


(** ** a closed worker leaves nothing in flight *)
Lemma failure_response_in_flight : forall es h os w r0 h1 o1,
    Inv es h os -> worker_response h w (Some r0) SFailure = (h1, o1) ->
    forall r tid, In (r, tid) (in_flight h1) -> In (r, tid) (in_flight h) /\ r <> r0.
Proof.
  intros es h os w r0 h1 o1 I H r tid Hin. unfold worker_response in H.
  destruct (lookup_rid r0 (in_flight h)) as [tid0|] eqn:El.
  - pose proof (lookup_rid_in _ _ _ El) as Hl.
    destruct (wf_live _ (inv_wf _ _ _ I) r0 tid0 Hl) as [_ [t0 [Ht0 Hid0]]].
    destruct (find_task tid0 (tasks h)) as [t1|] eqn:Ef.
    + inversion H; subst h1 o1; clear H. cbn [in_flight set_in_flight set_tasks] in Hin.
      apply filter_In in Hin. destruct Hin as [Hin Hne]. split; [exact Hin|].
      cbn [fst] in Hne. apply negb_true_iff in Hne. apply rid_eqb_neq in Hne. exact Hne.
    + exfalso. apply (find_task_none _ _ Ef t0 Ht0 Hid0).
  - inversion H; subst h1 o1. split; [exact Hin|]. intros ->. apply (lookup_rid_none _ _ El tid Hin).
Qed.

Lemma fail_all_removes : forall rs es h os w h' o,
    Inv es h os -> fail_all h w rs = (h', o) ->
    forall r tid, In (r, tid) (in_flight h') -> In (r, tid) (in_flight h) /\ ~ In r rs.
Proof.
  induction rs as [|r0 rs IH]; intros es h os w h' o I H r tid Hin; cbn [fail_all] in H.
  - inversion H; subst. split; [exact Hin|intros []].
  - destruct (worker_response h w (Some r0) SFailure) as [h1 o1] eqn:E1.
    destruct (fail_all h1 w rs) as [h2 o2] eqn:E2. inversion H; subst; clear H.
    assert (I1 : Inv es h1 (os ++ o1)).
    { eapply failure_response_inv; [|exact I|exact E1]. destruct gen_arms as [_ [Hf _]]. rewrite Hf. discriminate. }
    destruct (IH _ _ _ _ _ _ I1 E2 r tid Hin) as [Hin1 Hnot].
    destruct (failure_response_in_flight _ _ _ _ _ _ _ I E1 r tid Hin1) as [Hin0 Hne].
    split; [exact Hin0|]. intros [Hx|Hx]; [congruence|contradiction].
Qed.

Lemma no_orphans_after_close_lemma : forall nw tm es h os w h1 o1,
    run (init nw tm) es = (h, os) -> apply_event h (EWorkerClosed w) = (h1, o1) ->
    forall r tid, In (r, tid) (in_flight h1) -> fst (fst r) <> w.
Proof.
  intros nw tm es h os w h1 o1 Hr H r tid Hin Hw. rewrite closed_event in H.
  pose proof (closed_hub_inv _ _ _ w (reach_inv _ _ _ _ _ Hr)) as I.
  destruct (fail_all_removes _ _ _ _ _ _ _ I H r tid Hin) as [Hin0 Hnot].
  apply Hnot. unfold orphans. apply in_map_iff. exists (r, tid). split; [reflexivity|].
  apply filter_In. split; [exact Hin0|]. cbn [fst]. apply Nat.eqb_eq. exact Hw.
Qed.

(** ** a cancelled task leaves nothing behind *)
Lemma cancel_leaves_no_trace_lemma : forall nw tm es h os c n h' os',
    run (init nw tm) es = (h, os) -> client_request h c (VLoad n true) = (h', os') ->
    (forall t, In t (tasks h') -> t_rq t <> next_rq h) /\
    (forall r tid, In (r, tid) (in_flight h') -> tid <> next_task h).
Proof.
  intros nw tm es h os c n h' os' Hr H. pose proof (reach_inv _ _ _ _ _ Hr) as I.
  unfold client_request in H.
  destruct (new_task h c KLoad tmo_load) as [h1 tid] eqn:E1.
  destruct (scatter_many h1 (next_rq h) tid (seq 1 n)) as [h2 o] eqn:E2. inversion H; subst h' os'; clear H.
  destruct (new_task_wf _ _ _ _ _ _ (inv_wf _ _ _ I) E1 ltac:(discriminate)) as
      [W1 [Etid [Ent [Eif [Ew [Enr [Enow [Eg [Est [Etm Ets]]]]]]]]]].
  assert (Hex : exists t, In t (tasks h1) /\ t_id t = tid).
  { eexists. split; [rewrite Ets; apply in_or_app; right; left; reflexivity|reflexivity]. }
  assert (Hfr : fresh_idx h1 tid 1).
  { intros r x Hin Hx. rewrite Eif in Hin. destruct (wf_live _ (inv_wf _ _ _ I) r x Hin) as [A [t0 [B C]]].
    pose proof (wf_tid _ (inv_wf _ _ _ I) t0 B). unfold tid_of in *. lia. }
  pose proof (scatter_many_scattered (seq 1 n) h1 (next_rq h) tid 1 h2 o ltac:(rewrite seq_length; reflexivity) W1 Hex Hfr E2) as S.
  destruct (sc_tasks _ _ _ _ _ S) as [g [Eg2 Hg]].
  split.
  - intros t Hin Hrq. cbn [bump_rq cancel_task tasks] in Hin. apply filter_In in Hin. destruct Hin as [Hin Hne].
    rewrite Eg2 in Hin. apply in_map_iff in Hin. destruct Hin as [t0 [<- Hin0]].
    destruct (Hg t0) as [Gid [Grq _]]. rewrite Grq in Hrq. rewrite Gid in Hne.
    rewrite Ets in Hin0. apply in_app_or in Hin0. destruct Hin0 as [Hin0|[<-|[]]].
    + pose proof (inv_rq _ _ _ I t0 Hin0). lia.
    + cbn [t_id] in Hne. rewrite Nat.eqb_refl in Hne. discriminate.
  - intros r x Hin. cbn [bump_rq cancel_task in_flight] in Hin.
    assert (Hcp : cancel_purges = true) by reflexivity. rewrite Hcp in Hin.
    apply filter_In in Hin. destruct Hin as [_ Hne]. cbn [snd] in Hne.
    apply negb_true_iff in Hne. apply Nat.eqb_neq in Hne. congruence.
Qed.

(** ** the hand-over of a hot upgrade *)
Lemma handover_inv : forall es h os, Inv es h os -> Inv [] (handover h) [].
Proof.
  intros es h os I. pose proof (inv_wf _ _ _ I) as W. constructor.
  - constructor; cbn [handover tasks in_flight workers next_task next_rq].
    + intros t [].
    + constructor.
    + constructor.
    + intros r tid [].
    + apply NoDup_map_fst_filter. apply (wf_workers _ W).
    + intros t [].
    + intros t [].
  - intros t [].
  - intros w r rq [].
  - intros t [].
Qed.

Lemma handover_drops_pending_lemma : forall nw tm es0 h os0 t es,
    run (init nw tm) es0 = (h, os0) -> In t (tasks h) ->
    finals_of (t_rq t) (snd (run (handover h) es)) = [].
Proof.
  intros nw tm es0 h os0 t es Hr Hin. pose proof (reach_inv _ _ _ _ _ Hr) as I.
  destruct (run (handover h) es) as [h' os] eqn:E. cbn [snd].
  pose proof (run_budget _ _ _ _ (t_rq t) E) as Hb. cbn [handover tasks] in Hb.
  pose proof (inv_rq _ _ _ I t Hin) as Hlt.
  unfold fresh_ind in Hb. cbn [handover next_rq] in Hb.
  destruct (Nat.ltb_spec (t_rq t) (next_rq h)); [|lia].
  unfold count_rq in Hb at 2. cbn [filter length] in Hb.
  destruct (finals_of (t_rq t) os); [reflexivity|cbn [length] in Hb; lia].
Qed.

(** ** Request ids and the task counter *)
Lemma scatter_on_inv : forall h rq tid idx h' os,
    scatter_on h rq tid idx = (h', os) ->
    next_task h' = next_task h /\ forall w r rq', In (OSend w r rq') os -> tid_of r = tid.
Proof.
  intros h rq tid idx h' os H. unfold scatter_on in H. inversion H; subst; clear H. split; [reflexivity|].
  intros w r rq' Hin. apply in_map_iff in Hin. destruct Hin as [w0 [E _]]. inversion E; subst. reflexivity.
Qed.

Lemma scatter_many_inv : forall idxs h rq tid h' os,
    scatter_many h rq tid idxs = (h', os) ->
    next_task h' = next_task h /\ forall w r rq', In (OSend w r rq') os -> tid_of r = tid.
Proof.
  induction idxs as [|i idxs IH]; intros h rq tid h' os H; cbn [scatter_many] in H.
  - inversion H; subst. split; [reflexivity|intros w r rq' []].
  - destruct (scatter_on h rq tid i) as [h1 o1] eqn:E1. destruct (scatter_many h1 rq tid idxs) as [h2 o2] eqn:E2.
    inversion H; subst; clear H. destruct (scatter_on_inv _ _ _ _ _ _ E1) as [N1 S1]. destruct (IH _ _ _ _ _ E2) as [N2 S2].
    split; [congruence|]. intros w r rq' Hin. apply in_app_or in Hin. destruct Hin as [Hin|Hin]; eauto.
Qed.

(** every id a client request scatters carries the current value of the task counter, and the
    counter has moved past it afterwards *)
Lemma client_request_sends : forall h c v h' os w r rq,
    client_request h c v = (h', os) -> In (OSend w r rq) os ->
    tid_of r = next_task h /\ next_task h < next_task h'.
Proof.
  intros h c v h' os w r rq H Hin. unfold client_request in H.
  destruct v as [|b| | | | | |n bad];
    try (cbn [new_task] in H;
         match type of H with context [scatter_on ?a ?b ?c ?d] => destruct (scatter_on a b c d) as [h2 o] eqn:E end;
         inversion H; subst; clear H; destruct Hin as [Hx|Hin]; [discriminate|];
         destruct (scatter_on_inv _ _ _ _ _ _ E) as [N S]; cbn in N;
         split; [eapply S; eauto|cbn; rewrite N; lia]).
  - cbn in H. inversion H; subst. cbn in Hin. destruct Hin as [Hx|Hx]; [discriminate|destruct Hx].
  - cbn in H. inversion H; subst. cbn in Hin. destruct Hin as [Hx|Hx]; [discriminate|destruct Hx].
  - assert (G : unserved_answered = true) by reflexivity. rewrite G in H. cbn in H. inversion H; subst. cbn in Hin.
    destruct Hin as [Hx|Hx]; [discriminate|destruct Hx].
  - cbn [new_task] in H.
    match type of H with context [scatter_many ?a ?b ?c ?d] => destruct (scatter_many a b c d) as [h2 o] eqn:E end.
    destruct (scatter_many_inv _ _ _ _ _ _ E) as [N S]. cbn in N.
    destruct bad; inversion H; subst; clear H;
      (destruct Hin as [Hx|Hin]; [discriminate|]; apply in_app_or in Hin; destruct Hin as [Hin|[Hx|[]]]; [|discriminate];
       split; [eapply S; eauto|cbn; rewrite N; lia]).
Qed.
