(** C03 — lemmas. *)
From Coq Require Import List NArith Bool Lia String.
From SV Require Import C13.Model C03.Model.
From SV Require C13.Proofs.
Import ListNotations.
Open Scope N_scope.

Ltac case_if := match goal with |- context [if ?c then _ else _] => destruct c eqn:? end.

(** a byte that can be part of a line: neither CR nor LF *)
Definition line_byte (b : N) : bool := negb (b =? 13) && negb (b =? 10).

(** No byte of a CR/LF-free string can terminate the line it is written on. *)
Lemma take_line_app v rest :
  forallb line_byte v = true -> take_line (v ++ crlf ++ rest) = Some (v, rest).
Proof.
  induction v as [|b v IH]; intros H.
  - reflexivity.
  - cbn [forallb] in H. apply andb_prop in H. destruct H as [Hb Hv].
    unfold line_byte in Hb. apply andb_prop in Hb. destruct Hb as [H13 H10].
    cbn [app take_line]. destruct (b =? 13); [discriminate|]. destruct (b =? 10); [discriminate|].
    rewrite (IH Hv). reflexivity.
Qed.

Lemma tchar_line_byte b : is_tchar b = true -> line_byte b = true.
Proof.
  unfold line_byte. intros H.
  destruct (b =? 13) eqn:E1; [apply N.eqb_eq in E1; subst; discriminate H|].
  destruct (b =? 10) eqn:E2; [apply N.eqb_eq in E2; subst; discriminate H|]. reflexivity.
Qed.

Lemma vbyte_line_byte b : is_vbyte b = true -> line_byte b = true.
Proof.
  unfold line_byte. intros H.
  destruct (b =? 13) eqn:E1; [apply N.eqb_eq in E1; subst; discriminate H|].
  destruct (b =? 10) eqn:E2; [apply N.eqb_eq in E2; subst; discriminate H|]. reflexivity.
Qed.

Lemma forallb_impl {A} (p q : A -> bool) l :
  (forall x, p x = true -> q x = true) -> forallb p l = true -> forallb q l = true.
Proof.
  intros Hpq. induction l as [|a l IH]; cbn; [reflexivity|]. intros H.
  apply andb_prop in H. destruct H as [H1 H2]. rewrite (Hpq _ H1), (IH H2). reflexivity.
Qed.

(** a well-formed field: non-empty token name, value of field-value bytes *)
Definition field_ok (h : header) : bool :=
  negb (match fst h with [] => true | _ => false end) && forallb is_tchar (fst h) && forallb is_vbyte (snd h).

Lemma span_tchar_name n r :
  forallb is_tchar n = true -> span is_tchar (n ++ 58 :: r) = (n, 58 :: r).
Proof.
  induction n as [|b n IH]; intros H.
  - reflexivity.
  - cbn [forallb] in H. apply andb_prop in H. destruct H as [Hb Hn].
    cbn [app span]. rewrite Hb, (IH Hn). reflexivity.
Qed.

Lemma ltrim_sp v : ltrim (32 :: v) = ltrim v.
Proof. reflexivity. Qed.

Lemma parse_field_line h :
  field_ok h = true ->
  parse_field (fst h ++ B ": "%string ++ snd h) = Some (fst h, trim_ows (snd h)).
Proof.
  destruct h as [n v]. unfold field_ok. cbn [fst snd]. intros H.
  apply andb_prop in H. destruct H as [H Hv]. apply andb_prop in H. destruct H as [Hne Hn].
  unfold parse_field. change (B ": "%string ++ v) with (58 :: 32 :: v).
  rewrite (span_tchar_name n (32 :: v) Hn).
  destruct n as [|b n]; [discriminate Hne|].
  cbn [forallb]. change (is_vbyte 32) with true. cbn [andb]. rewrite Hv.
  unfold trim_ows. rewrite ltrim_sp. reflexivity.
Qed.

Lemma line_of_take h rest :
  field_ok h = true ->
  take_line (line_of h ++ rest) = Some (fst h ++ B ": "%string ++ snd h, rest).
Proof.
  intros H. unfold line_of. rewrite !app_assoc_reverse.
  replace (fst h ++ B ": "%string ++ snd h ++ crlf ++ rest)
    with ((fst h ++ B ": "%string ++ snd h) ++ crlf ++ rest) by (rewrite !app_assoc_reverse; reflexivity).
  apply take_line_app.
  unfold field_ok in H. apply andb_prop in H. destruct H as [H Hv]. apply andb_prop in H. destruct H as [_ Hn].
  rewrite !forallb_app. rewrite (forallb_impl _ _ _ tchar_line_byte Hn), (forallb_impl _ _ _ vbyte_line_byte Hv).
  reflexivity.
Qed.

(** The whole header block sozu writes is read back field by field. *)
Lemma header_block_roundtrip_fuel hs rest fuel :
  (List.length hs < fuel)%nat ->
  forallb field_ok hs = true ->
  read_headers fuel (flat_map line_of hs ++ crlf ++ rest) =
  Some (map (fun h => (fst h, trim_ows (snd h))) hs, rest).
Proof.
  revert fuel. induction hs as [|h t IH]; intros fuel Hf H.
  - destruct fuel as [|f]; [inversion Hf|]. reflexivity.
  - destruct fuel as [|f]; [inversion Hf|]. cbn [List.length] in Hf.
    cbn [forallb] in H. apply andb_prop in H. destruct H as [Hh Ht].
    cbn [flat_map]. rewrite app_assoc_reverse.
    cbn [read_headers]. rewrite (line_of_take h _ Hh).
    destruct (fst h ++ B ": "%string ++ snd h) eqn:E.
    + exfalso. unfold field_ok in Hh. destruct (fst h); [discriminate Hh|discriminate E].
    + rewrite <- E. rewrite (parse_field_line h Hh). rewrite (IH f) by (try lia; assumption). reflexivity.
Qed.

Lemma header_block_roundtrip hs rest :
  forallb field_ok hs = true ->
  read_headers (S (List.length hs)) (flat_map line_of hs ++ crlf ++ rest) =
  Some (map (fun h => (fst h, trim_ows (snd h))) hs, rest).
Proof. apply header_block_roundtrip_fuel. lia. Qed.

(* ------------------------------------------------------------------ *)
(** * what [handle_header] lets through *)

Lemma not_bad_value_vbyte b : bad_value_byte b = false -> is_vbyte b = true.
Proof.
  unfold bad_value_byte, is_vbyte. intros H.
  apply orb_false_elim in H. destruct H as [H H127]. apply orb_false_elim in H. destruct H as [H8 H1031].
  apply N.leb_gt in H8. apply N.eqb_neq in H127.
  destruct (b =? 9) eqn:E9; [reflexivity|]. apply N.eqb_neq in E9. cbn [orb].
  apply andb_false_iff in H1031.
  assert (32 <= b) by (destruct H1031 as [H|H]; [apply N.leb_gt in H|apply N.leb_gt in H]; lia).
  destruct (128 <=? b) eqn:E128; [apply orb_true_r|]. apply N.leb_gt in E128.
  rewrite orb_false_r. apply andb_true_intro. split; apply N.leb_le; lia.
Qed.

Lemma bad_value_false_vbytes v : bad_value v = false -> forallb is_vbyte v = true.
Proof.
  unfold bad_value. induction v as [|b v IH]; cbn; [reflexivity|]. intros H.
  apply orb_false_elim in H. destruct H as [H1 H2]. rewrite (not_bad_value_vbyte _ H1), (IH H2). reflexivity.
Qed.

Lemma name_bytes_tchar n : has_invalid_name_byte n = false -> forallb is_tchar n = true.
Proof.
  unfold has_invalid_name_byte. induction n as [|b n IH]; cbn; [reflexivity|]. intros H.
  apply orb_false_elim in H. destruct H as [H1 H2]. apply orb_false_elim in H1. destruct H1 as [_ H1].
  apply negb_false_iff in H1. rewrite H1, (IH H2). reflexivity.
Qed.

(** a regular field that passes [classify_invalid_h2_header] is a well-formed H1 field *)
Lemma valid_regular_field_ok k v :
  invalid_h2_header k v = false -> (match k with 58 :: _ => true | _ => false end) = false ->
  field_ok (k, v) = true.
Proof.
  unfold invalid_h2_header, field_ok. cbn [fst snd]. destruct k as [|b0 k]; [discriminate|]. intros H Hc.
  apply orb_false_elim in H. destruct H as [H Hv]. apply orb_false_elim in H. destruct H as [H _].
  apply orb_false_elim in H. destruct H as [H _].
  assert (b0 =? 58 = false) as E by (destruct (b0 =? 58) eqn:E; [apply N.eqb_eq in E; subst; discriminate Hc|reflexivity]).
  rewrite E in H. cbn [negb andb] in H.
  rewrite (name_bytes_tchar _ H), (bad_value_false_vbytes _ Hv). reflexivity.
Qed.

Definition items_ok (l : list item) : bool := forallb field_ok (headers_of l).

Lemma headers_of_app' l1 l2 : headers_of (l1 ++ l2) = headers_of l1 ++ headers_of l2.
Proof. induction l1 as [|[h|] t IH]; cbn; rewrite ?IH; reflexivity. Qed.

Lemma items_ok_snoc l h : items_ok l = true -> field_ok h = true -> items_ok (l ++ [IH h]) = true.
Proof.
  unfold items_ok. intros H1 H2. rewrite headers_of_app', forallb_app, H1. cbn. rewrite H2. reflexivity.
Qed.

Lemma items_ok_cookies l : items_ok l = true -> items_ok (l ++ [ICookies]) = true.
Proof. unfold items_ok. intros H. rewrite headers_of_app', forallb_app, H. reflexivity. Qed.

(** invariant of the decode loop: every header block pushed so far is well-formed *)
Lemma step_items_ok s kv : items_ok (h_items s) = true -> items_ok (h_items (step s kv)) = true.
Proof.
  intros H. unfold step. destruct (h_invalid s); [exact H|]. destruct kv as [k v].
  destruct (invalid_h2_header k v) eqn:Ev; [exact H|].
  repeat (case_if; cbn [h_items set_invalid]; try exact H);
    try (destruct (store_pseudo _ _ _); cbn [h_items set_invalid]; exact H);
    try (destruct (h_host s); cbn [h_items]; exact H);
    try (apply items_ok_cookies; exact H);
    try (destruct (h_len s); try case_if; cbn [h_items set_invalid]; try exact H);
    apply items_ok_snoc; try exact H; apply valid_regular_field_ok; assumption.
Qed.

Lemma fold_items_ok hs s : items_ok (h_items s) = true -> items_ok (h_items (fold_left step hs s)) = true.
Proof.
  revert s. induction hs as [|kv t IH]; intros s H; [exact H|]. cbn [fold_left]. apply IH. apply step_items_ok. exact H.
Qed.

Lemma accepted_items_ok hs es a : accept_h2 hs es = Accept a -> items_ok (a_items a) = true.
Proof.
  unfold accept_h2. pose proof (fold_items_ok hs h_init eq_refl) as Hinv.
  destruct (h_path (fold_left step hs h_init)); [|discriminate].
  destruct (h_method (fold_left step hs h_init)); [|discriminate].
  destruct (h_authority (fold_left step hs h_init)); [|discriminate].
  destruct (h_scheme (fold_left step hs h_init)); [|discriminate].
  repeat (case_if; try discriminate); intros Ha; injection Ha as <-; cbn [a_items];
    unfold items_ok in *; rewrite headers_of_app', forallb_app, Hinv; reflexivity.
Qed.

(* ------------------------------------------------------------------ *)
(** * Content-Length vs DATA *)

Lemma data_agree_complete declared r evs t n :
  data_agree declared r evs = Complete t -> declared = Some n -> t = n.
Proof.
  intros H Hd. subst declared. revert r H. induction evs as [|e evs IH]; intros r H; [discriminate|].
  destruct e as [len es|]; cbn [data_agree] in H.
  - destruct (n <? r + len); [discriminate|]. destruct es.
    + destruct (r + len =? n) eqn:E; cbn [negb] in H; [|discriminate]. injection H as <-. apply N.eqb_eq. exact E.
    + apply (IH _ H).
  - destruct (r =? n) eqn:E; cbn [negb] in H; [|discriminate]. injection H as <-. apply N.eqb_eq. exact E.
Qed.

Lemma data_agree_never_exceeds declared r evs n :
  declared = Some n -> r <= n ->
  match data_agree declared r evs with Open t | Complete t => t <= n | Reset => True end.
Proof.
  intros Hd. subst declared. revert r. induction evs as [|e evs IH]; intros r Hr; cbn [data_agree]; [exact Hr|].
  destruct e as [len es|].
  - destruct (n <? r + len) eqn:E; [exact I|]. apply N.ltb_ge in E. destruct es.
    + destruct (r + len =? n); cbn [negb]; [exact E|exact I].
    + apply IH. exact E.
  - destruct (r =? n); cbn [negb]; [exact Hr|exact I].
Qed.

(* ------------------------------------------------------------------ *)
(** * request line: the pseudo-header values that reach it *)

Definition pseudo_ok (v : list N) : bool :=
  negb (match v with [] => true | _ => false end) && negb (bad_pseudo_value v).

Definition opt_ok (p : list N -> bool) (o : option (list N)) : bool :=
  match o with Some v => p v | None => true end.

Definition line_state_ok (s : hstate) : bool :=
  opt_ok (fun v => pseudo_ok v && forallb is_tchar v) (h_method s) &&
  opt_ok pseudo_ok (h_path s) && opt_ok pseudo_ok (h_authority s).

Lemma store_pseudo_ok d r v x : store_pseudo d r v = Some x -> x = v /\ pseudo_ok v = true.
Proof.
  unfold store_pseudo, pseudo_ok. destruct d; [discriminate|]. destruct r; [discriminate|].
  destruct v as [|b v]; [discriminate|]. destruct (bad_pseudo_value (b :: v)); [discriminate|].
  intros H. injection H as <-. split; reflexivity.
Qed.

Lemma step_line_ok s kv : line_state_ok s = true -> line_state_ok (step s kv) = true.
Proof.
  intros H. unfold step. destruct (h_invalid s); [exact H|]. destruct kv as [k v].
  destruct (invalid_h2_header k v); [exact H|].
  unfold line_state_ok in *. apply andb_prop in H. destruct H as [H Ha]. apply andb_prop in H. destruct H as [Hm Hp].
  repeat (case_if; cbn [h_method h_path h_authority set_invalid]; try (rewrite Hm, Hp, Ha; reflexivity));
    try (destruct (store_pseudo _ _ v) eqn:Es; cbn [h_method h_path h_authority set_invalid];
         [apply store_pseudo_ok in Es; destruct Es as [-> Es]; cbn [opt_ok]|]);
    try (destruct (h_host s)); try (destruct (h_len s); try case_if);
    cbn [h_method h_path h_authority set_invalid opt_ok];
    rewrite ?Hm, ?Hp, ?Ha, ?Es; cbn [andb]; try reflexivity.
  all: try match goal with H : negb (forallb is_tchar ?x) = false |- _ => apply negb_false_iff in H; rewrite H; reflexivity end.
Qed.

Lemma fold_line_ok hs s : line_state_ok s = true -> line_state_ok (fold_left step hs s) = true.
Proof.
  revert s. induction hs as [|kv t IH]; intros s H; [exact H|]. cbn [fold_left]. apply IH. apply step_line_ok. exact H.
Qed.

Lemma accepted_line_ok hs es a :
  accept_h2 hs es = Accept a ->
  pseudo_ok (a_method a) = true /\ forallb is_tchar (a_method a) = true /\
  pseudo_ok (a_path a) = true /\ pseudo_ok (a_authority a) = true.
Proof.
  unfold accept_h2. pose proof (fold_line_ok hs h_init eq_refl) as Hinv. unfold line_state_ok in Hinv.
  destruct (h_path (fold_left step hs h_init)); [|discriminate].
  destruct (h_method (fold_left step hs h_init)); [|discriminate].
  destruct (h_authority (fold_left step hs h_init)); [|discriminate].
  destruct (h_scheme (fold_left step hs h_init)); [|discriminate].
  cbn [opt_ok] in Hinv. apply andb_prop in Hinv. destruct Hinv as [Hinv Ha]. apply andb_prop in Hinv.
  destruct Hinv as [Hm Hp]. apply andb_prop in Hm. destruct Hm as [Hm1 Hm2].
  repeat (case_if; try discriminate); intros H; injection H as <-; cbn [a_method a_path a_authority];
    repeat split; assumption.
Qed.

(** a pseudo value that passed has no SP, no CTL: it cannot split the request line *)
Lemma pseudo_ok_no_sp v : pseudo_ok v = true -> forallb (fun b => (33 <=? b) && negb (b =? 127)) v = true.
Proof.
  unfold pseudo_ok, bad_pseudo_value. intros H. apply andb_prop in H. destruct H as [_ H].
  apply negb_true_iff in H. induction v as [|b v IH]; [reflexivity|]. cbn [existsb] in H. cbn [forallb].
  apply orb_false_elim in H. destruct H as [H1 H2]. apply orb_false_elim in H1. destruct H1 as [H32 H127].
  rewrite (IH H2), H127. apply N.leb_gt in H32. assert (33 <=? b = true) as -> by (apply N.leb_le; lia). reflexivity.
Qed.

Lemma ser_h1_no_cookies l : ser_h1 l false [] = headers_of l.
Proof. induction l as [|[h|] t IH]; cbn; rewrite ?IH; reflexivity. Qed.

(* ------------------------------------------------------------------ *)
(** * sozu's own HTTP/1 acceptance ([h1_guard]) *)

Definition name_ok (h : header) : bool := negb (is_nil (fst h)) && forallb is_tchar (fst h).

Lemma guard_fields_names s hs : guard_fields s hs = true -> forallb name_ok hs = true.
Proof.
  revert s. induction hs as [|[k v] t IH]; intros s H; [reflexivity|].
  cbn [guard_fields] in H. cbn [forallb]. unfold name_ok at 1. cbn [fst].
  destruct (is_nil k || negb (forallb is_tchar k)) eqn:E; [discriminate|].
  apply orb_false_elim in E. destruct E as [E1 E2]. apply negb_false_iff in E2. rewrite E1, E2. cbn [negb andb].
  repeat match type of H with context [if ?c then _ else _] => destruct c; try discriminate end; eapply IH; eassumption.
Qed.

Lemma guard_fields_te s hs :
  guard_fields s hs = true ->
  forallb (fun v => eq_nc v (B "chunked"%string)) (values_of (B "transfer-encoding"%string) hs) = true /\
  (List.length (values_of (B "transfer-encoding"%string) hs) <= (if s then 0 else 1))%nat.
Proof.
  revert s. induction hs as [|[k v] t IH]; intros s H.
  - split; [reflexivity|destruct s; cbn; lia].
  - cbn [guard_fields] in H. unfold values_of. cbn [filter fst].
    destruct (is_nil k || negb (forallb is_tchar k)); [discriminate|].
    destruct (eq_nc k (B "transfer-encoding"%string)) eqn:Ete.
    + destruct s; cbn [orb] in H; [discriminate|].
      destruct (eq_nc v (B "chunked"%string)) eqn:Ev; cbn [negb] in H; [|discriminate].
      destruct (IH true H) as [H1 H2]. cbn [map snd forallb List.length]. fold (values_of (B "transfer-encoding"%string) t).
      rewrite Ev, H1. split; [reflexivity|]. lia.
    + fold (values_of (B "transfer-encoding"%string) t).
      destruct (eq_nc k (B "content-length"%string)); [destruct (is_nil v || negb (forallb is_digit v)); [discriminate|]|];
        apply (IH s H).
Qed.

Lemma guard_fields_cl s hs :
  guard_fields s hs = true ->
  forallb (fun v => negb (is_nil v) && forallb is_digit v) (values_of (B "content-length"%string) hs) = true.
Proof.
  revert s. induction hs as [|[k v] t IH]; intros s H; [reflexivity|].
  cbn [guard_fields] in H. unfold values_of. cbn [filter fst].
  destruct (is_nil k || negb (forallb is_tchar k)); [discriminate|].
  destruct (eq_nc k (B "transfer-encoding"%string)) eqn:Ete.
  - assert (eq_nc k (B "content-length"%string) = false) as ->.
    { destruct (eq_nc k (B "content-length"%string)) eqn:E; [|reflexivity].
      rewrite (C13.Proofs.eq_nc_congr k (B "content-length"%string) _ E) in Ete. discriminate Ete. }
    fold (values_of (B "content-length"%string) t).
    destruct (s || negb (eq_nc v (B "chunked"%string))); [discriminate|]. apply (IH true H).
  - destruct (eq_nc k (B "content-length"%string)) eqn:Ecl.
    + destruct (is_nil v || negb (forallb is_digit v)) eqn:E; [discriminate|].
      apply orb_false_elim in E. destruct E as [E1 E2]. apply negb_false_iff in E2.
      cbn [map snd forallb]. fold (values_of (B "content-length"%string) t). rewrite E1, E2, (IH s H). reflexivity.
    + fold (values_of (B "content-length"%string) t). apply (IH s H).
Qed.

Lemma name_value_field_ok hs :
  forallb name_ok hs = true -> forallb (fun h => forallb is_vbyte (snd h)) hs = true ->
  forallb field_ok hs = true.
Proof.
  induction hs as [|h t IH]; [reflexivity|]. cbn [forallb]. intros H1 H2.
  apply andb_prop in H1. destruct H1 as [Hn H1]. apply andb_prop in H2. destruct H2 as [Hv H2].
  rewrite (IH H1 H2), andb_true_r. unfold field_ok. unfold name_ok, is_nil in Hn.
  apply andb_prop in Hn. destruct Hn as [Hn1 Hn2]. rewrite Hn2, Hv.
  destruct (fst h); [discriminate Hn1|reflexivity].
Qed.
