"""C18 — TCP relays are byte-exact and PROXY protocol headers are exact and unique."""
import os, re, socket
import vlib
from vlib import Case

ID = "C18"
COQ_DIRS = ["C18"]   # Common/Buf.v and Common/Tok.v are covered by Print Assumptions of every theorem
COQ_TARGETS = ["C18/Props.vo", "C18/Run.vo"]
PROPS_MODULES = ["C18.Props"]
RUN_MODULE = "C18.Run"
RUN_FN = "run_case"
HARNESS_BIN = "c18"
HARNESS_BINS = ["c18", "c18bb"]
SHRINK_KEEP = ("new", "connected", "drain", "bsndbuf")
RULE = ("cases: codec (c*: HeaderV2 of every family/command built directly and through HeaderV2::new, parse of valid "
        "headers with TLV tails at EVERY truncation point, one-byte mutations, bad family/command/length); expect "
        "(x*: header ++ payload cut into read chunks at seeded points and at the 16/28/52/232 window edges, malformed "
        "and oversized headers); send (s*: header under a blocked/unblocked backend, then relay); relay (r*); pipe "
        "(p*: seeded schedules of arrivals, readiness events, write windows, half-closes, errors, single handlers and "
        "ready loops, ending with a fair drain). Non-trivial and distinct: a PROXY header split across >=2 reads, or "
        "a pipe schedule with back-pressure on >=1 side and a half-close; distinct by op text.")
ASSUMPTIONS = [
    "the frontend socket is a scripted SocketHandler with tcp_socket_read/tcp_socket_write semantics (reads until the slice is full, EOF, or WouldBlock; writes until the window is exhausted); the backend is the real mio TcpStream type over an AF_UNIX stream pair: its writes are exercised only as all-or-nothing (unblocked / kernel buffer stuffed full)",
    "the readiness loop is TcpSession::ready_inner replicated in the driver (TcpSession::new is private); its call order is tied by the translator; backend connection establishment/retry is outside the model; the assembled TcpSession is exercised by the black-box tier (real worker, 4 modes, read-ack scripted peers)",
    "the splice(2) fast path is behind the cargo feature `splice`, which is in no default feature set (lib, bin, e2e): it is not modelled; the thorough tier exercises it black-box (worker built with the feature); the rustls-frontend pipe (WSS) is exercised only black-box (mode wss)",
    "Buffer memory outside position..end is not modelled (ptr::copy in shift modelled as data-preserving)",
]
TRUSTED = ["translator props/c18.py:translate (staging windows 28/52/232 -> coq/C18/Gen.v; signature bytes, family bytes, ready_inner handler order compared with the source)"]


def _src(rel):
    return open(os.path.join(vlib.REPO, rel)).read()


TRANSLATE_FALLBACK = (
    "every fact the translator reads is also observed on the implementation on each run: the staging windows and "
    "the stage transitions decide what ExpectProxyProtocol does on the generated header splits (chunks cut at the "
    "16/28/52/232 edges, oversized and malformed headers) that driver and model both run; signature, family bytes and "
    "block lengths decide the `enc` / `parse` observations on every header kind and every truncation point, checked "
    "against a reference reading of the wire format in the driver; the fall-through of ready_inner after front_hup "
    "and its expect-mode connect guard decide the black-box scenarios that run in every tier (real worker, four modes, "
    "client FIN with bytes pending, expect-mode connection); unreadable windows are generated from "
    "props/c18_facts.json.  NOT soft (nothing observes them, the driver replicates the loop): the order of the six "
    "handlers in ready_inner, their readiness guards and the two ERROR arms -- any difference there fails the check.  "
    "Every soft pin has a probe harmless/C18_*_unreadable_changed (the fact changed in a spelling the translator "
    "cannot read) that the check must answer with exit 1")

FACTS = os.path.join(os.path.dirname(os.path.abspath(__file__)), "c18_facts.json")
SIGV = [0x0D, 0x0A, 0x0D, 0x0A, 0x00, 0x0D, 0x0A, 0x51, 0x55, 0x49, 0x54, 0x0A]


def _arrays(src, table):
    """every `[a, b, ...]` literal of integers in `src`, as lists of ints"""
    import rsread
    out = []
    for m in re.finditer(r"\[([^\[\]]*)\]", src):
        items = [x.strip() for x in m.group(1).split(",") if x.strip()]
        if len(items) >= 2:
            vals = [rsread.evalc(x, table) for x in items]
            if None not in vals:
                out.append(vals)
    return out


def _bytestr(text):
    """the bytes of a Rust byte-string literal's contents, or None"""
    out, i = [], 0
    esc = {"n": 10, "r": 13, "t": 9, "0": 0, "\\": 92, '"': 34, "'": 39}
    while i < len(text):
        c = text[i]
        if c != "\\":
            out.append(ord(c)); i += 1
        elif text[i + 1:i + 2] == "x":
            try:
                out.append(int(text[i + 2:i + 4], 16))
            except ValueError:
                return None
            i += 4
        elif text[i + 1:i + 2] in esc:
            out.append(esc[text[i + 1]]); i += 2
        else:
            return None
    return out


def read_facts(fails):
    import rsread
    f = dict(w4=None, w6=None, wu=None)
    ex = rsread.clean(_src("lib/src/protocol/proxy_protocol/expect.rs"))
    table = rsread.consts(ex)
    rb = rsread.body(ex, "readable") or ex
    for key, st in (("w4", "V4"), ("w6", "V6"), ("wu", "Unix")):
        m = re.search(r"HeaderLen::%s\s*=>\s*([^,}]+)" % st, rb)
        f[key] = rsread.evalc(m.group(1), table) if m else None
    if None in f.values():
        fails.append("unreadable: expect.rs: the staging windows of ExpectProxyProtocol::readable (HeaderLen::V4 / V6 / Unix => n)")
    mb = re.search(r"frontend_buffer\s*:\s*\[\s*u8\s*;\s*([^\]]+)\]", ex)
    wb = rsread.evalc(mb.group(1), table) if mb else None
    if wb is None:
        fails.append("unreadable: expect.rs: the size of frontend_buffer (model: the last staging window)")
    elif f["wu"] is not None and wb != f["wu"]:
        fails.append("expect.rs: frontend_buffer is %d bytes but the last staging window is %d" % (wb, f["wu"]))
    # each stage advances / closes exactly when the window is full: `self.index == <window>` in that stage's arm
    for key, st in (("w4", "V4"), ("w6", "V6"), ("wu", "Unix")):
        if f[key] is None:
            continue
        arms = [m.end() for m in re.finditer(r"HeaderLen::%s\s*=>\s*\{" % st, rb)]
        ok = unread = False
        for a in arms:
            import rustmini
            try:
                blk = rb[a:rustmini.match_brace(rb, a - 1)]
            except rustmini.Unrecognised:
                continue
            mm = re.search(r"self\s*\.\s*index\s*(==|>=|>)\s*([\w:]+)|([\w:]+)\s*(==|<=|<)\s*self\s*\.\s*index", blk)
            if mm:
                op = mm.group(1) or {"==": "==", "<=": ">=", "<": ">"}[mm.group(4)]
                rhs = mm.group(2) or mm.group(3)
                if re.search(r"let\s+%s\s*(?::\s*\w+\s*)?=\s*match\s+self\s*\.\s*header_len\s*\{" % re.escape(rhs), rb):
                    val = f[key]            # the window of the current stage, bound from the table read above
                else:
                    val = rsread.evalc(rhs, table)
                if val is None:
                    unread = True
                elif val == f[key] and op in ("==", ">="):
                    ok = True
                else:
                    fails.append("expect.rs: the %s stage advances/closes at index %s %s, its window is %d" % (st, op, val, f[key]))
                    ok = True
        if not ok:
            fails.append("unreadable: expect.rs: where the %s stage advances/closes (model: exactly at index == %d)%s" % (st, f[key], " [unresolved name]" if unread else ""))
    pa = rsread.clean(_src("lib/src/protocol/proxy_protocol/parser.rs"))
    he = rsread.clean(_src("lib/src/protocol/proxy_protocol/header.rs"))
    for name, src, raw in (("parser.rs", pa, _src("lib/src/protocol/proxy_protocol/parser.rs")), ("header.rs", he, _src("lib/src/protocol/proxy_protocol/header.rs"))):
        # the constant that holds the signature, as an array or as a byte string; else any 12-byte array that is the signature
        got = None
        cm = re.search(r"\b(?:const|static)\s+\w*SIG\w*\s*:\s*(?:&\s*(?:'static\s+)?)?\[\s*u8\s*(?:;\s*\w+\s*)?\]\s*=\s*([^;]+);", raw)
        if cm:
            init = cm.group(1).strip()
            bm = re.fullmatch(r'[&*]?\s*b"((?:[^"\\]|\\.)*)"', init)
            if bm:
                got = _bytestr(bm.group(1))
            else:
                am = _arrays(rsread.clean(init), rsread.consts(src))
                got = am[0] if am else None
        if got is None:
            arrs = [a for a in _arrays(src.split("#[cfg(test)]")[0], rsread.consts(src)) if len(a) == 12]
            if SIGV in arrs:
                got = SIGV
            elif arrs:
                got = arrs[0]
        if got is None:
            fails.append("unreadable: %s: the 12-byte v2 signature" % name)
        elif got != SIGV:
            fails.append("%s: the 12-byte v2 signature is %s" % (name, got))
    # family byte and block length per address kind (values of the match arms, whatever their spelling)
    ht = rsread.consts(he)
    for fn, want, what in (("get_family", {"Ipv4Addr": 0x11, "Ipv6Addr": 0x21, "UnixAddr": 0x31, "AfUnspec": 0}, "family byte"),
                           ("len", {"Ipv4Addr": 12, "Ipv6Addr": 36, "UnixAddr": 216, "AfUnspec": 0}, "block length")):
        bodies = []
        for m in re.finditer(r"\bfn\s+%s\b" % fn, he):
            bd = rsread.body(he, fn, m.start())
            if bd and "ProxyAddr::" in bd:
                bodies.append(bd)
        if not bodies:
            fails.append("unreadable: header.rs: fn %s over ProxyAddr (model: %s %s)" % (fn, what, want))
            continue
        bd = bodies[0]
        for kind, val in want.items():
            m = re.search(r"ProxyAddr::%s\s*(?:\{[^}]*\})?\s*=>\s*([^,\n]+)" % kind, bd)
            got = rsread.evalc(m.group(1), ht) if m else None
            if got is None:
                fails.append("unreadable: header.rs: the %s of %s (model: %d)" % (what, kind, val))
            elif got != val:
                fails.append("header.rs: the %s of %s is %d, the model has %d" % (what, kind, got, val))
    tcp = rsread.clean(_src("lib/src/tcp.rs"))
    body = rsread.body(tcp, "ready_inner")
    if body is None:
        fails.append("tcp.rs: fn ready_inner not found (the driver replicates its loop: the order of the handlers is only tied here)")
    else:
        calls = [(1, r"self\s*\.\s*front_hup\s*\(\)"), (2, r"self\s*\.\s*readable\s*\(\)"), (3, r"self\s*\.\s*back_writable\s*\(\)"),
                 (4, r"self\s*\.\s*back_readable\s*\(\)"), (5, r"self\s*\.\s*writable\s*\(\)"), (6, r"self\s*\.\s*back_hup\s*\(\)")]
        # a private helper of the session that makes some of these calls is read in place of its call
        handlers = ("front_hup", "readable", "back_writable", "back_readable", "writable", "back_hup")
        for hm in list(re.finditer(r"self\s*\.\s*(\w+)\s*\([^()]*\)", body))[::-1]:
            if hm.group(1) in handlers or hm.group(1) == "ready_inner":
                continue
            hb = rsread.body(tcp, hm.group(1))
            if hb is not None and any(re.search(c[1], hb) for c in calls):
                body = body[:hm.start()] + "{" + hb + "}" + body[hm.end():]
        seq = rsread.all_positions(body, calls)
        # first occurrence of each handler, in order; back_hup may occur again (the error arm)
        first = []
        for c in seq:
            if c not in first:
                first.append(c)
        names = {1: "front_hup", 2: "readable", 3: "back_writable", 4: "back_readable", 5: "writable", 6: "back_hup"}
        # the driver replicates this loop (TcpSession::new is private), so nothing observes the order: every difference is hard
        if first != [1, 2, 3, 4, 5, 6]:
            fails.append("tcp.rs: ready_inner calls the handlers in the order %s (model and driver: front_hup, readable, back_writable, back_readable, writable, back_hup)" % [names[c] for c in first])
        else:
            # each handler is guarded by the readiness bit of its side
            for code, bit in ((2, "is_readable"), (3, "is_writable"), (4, "is_readable"), (5, "is_writable"), (6, "is_hup")):
                k = re.search(calls[code - 1][1], body).start()
                if bit not in body[max(0, k - 400):k]:
                    fails.append("tcp.rs: ready_inner: handler %s is no longer guarded by %s() of its side" % (names[code], bit))
            # the error arms: frontend error closes; backend error closes when back_hup says so
            if len(re.findall(r"\.\s*is_error\s*\(\)", body)) < 2:
                fails.append("tcp.rs: ready_inner: the two ERROR arms (frontend error closes, backend error asks back_hup) are not both there")
        # after front_hup: only a non-Continue result returns, Continue falls through to the handlers
        k = re.search(calls[0][1], body)
        seg = body[max(0, k.start() - 60):k.start() + 600] if k else ""
        if not (re.search(r"(\w+)\s*!=\s*SessionResult::Continue\s*\{\s*return\s+\1\s*;", seg)
                or re.search(r"(\w+)\s*==\s*SessionResult::Continue\s*\{[^}]*\}\s*else\s*\{\s*return\s+\1\s*;", seg)
                or re.search(r"let\s+SessionResult::Continue\s*=\s*([^;{]+?)\s*else\s*\{\s*return\b", seg)
                or re.search(r"match\s+[^{;]+\{\s*SessionResult::Continue\s*=>\s*(?:\{\s*\}|\(\s*\))\s*,?\s*(\w+)\s*=>\s*\{?\s*return\s+\1\b", seg)
                or re.search(r"match\s+[^{;]+\{\s*(\w+)\s+if\s+\1\s*!=\s*SessionResult::Continue\s*=>\s*\{?\s*return\s+\1\b", seg)):
            fails.append("unreadable: tcp.rs: ready_inner: what happens after front_hup (model: a result other than Continue returns, Continue falls through to the handlers)")
        # the expect state does not connect to the backend: the NotConnected arm tests the state, inline or through one helper
        head = body[:body.find("front_hup")] if "front_hup" in body else body
        guarded = "ExpectProxyProtocol" in head
        if not guarded:
            for cm in re.finditer(r"NotConnected\b([^{]*)\{", head):
                for hm in re.finditer(r"(?:self\s*\.|Self::)\s*(\w+)\s*\(", cm.group(1)):
                    hb = rsread.body(tcp, hm.group(1))
                    if hb is not None and "ExpectProxyProtocol" in hb:
                        guarded = True
        if not guarded:
            fails.append("unreadable: tcp.rs: ready_inner: the guard that keeps the expect state from connecting to the backend")
    return f


def translate(snapshot=False):
    import json
    fails = []
    facts = read_facts(fails)
    if snapshot:
        json.dump(facts, open(FACTS, "w"), indent=1, sort_keys=True)
        return fails
    try:
        snap = json.load(open(FACTS))
    except Exception:
        snap = {}
    g = {k: (facts[k] if facts[k] is not None else snap.get(k)) for k in facts}
    if any(v is None for v in g.values()):
        fails.append("the staging windows can neither be read from the source nor from props/c18_facts.json")
        return fails
    vlib.write_if_changed(os.path.join(vlib.COQ, "C18", "Gen.v"),
                          "(* GENERATED by props/c18.py:translate from lib/src/protocol/proxy_protocol/expect.rs *)\n"
                          "Definition window_v4 : nat := %d.\nDefinition window_v6 : nat := %d.\nDefinition window_unix : nat := %d.\n" % (g["w4"], g["w6"], g["wu"]))
    return fails


# ---------------------------------------------------------------------------
SIG = bytes([0x0D, 0x0A, 0x0D, 0x0A, 0x00, 0x0D, 0x0A, 0x51, 0x55, 0x49, 0x54, 0x0A])
IP4 = [bytes([1, 2, 3, 4]), bytes([10, 0, 0, 1]), bytes([127, 0, 0, 1]), bytes([255] * 4), bytes(4), bytes([13, 10, 13, 10])]
IP6 = [bytes(15) + b"\x01", bytes([255] * 16), bytes.fromhex("20010db8000000000000000000000001"), bytes(16),
       bytes.fromhex("0d0a0d0a000d0a515549540a21110001")]
PORTS = [0, 1, 80, 443, 255, 256, 65535, 0x0D0A, 8080]
_HAS6 = None


def has_v6():
    global _HAS6
    if _HAS6 is None:
        try:
            s = socket.socket(socket.AF_INET6, socket.SOCK_STREAM)
            s.bind(("::1", 0))
            s.close()
            _HAS6 = True
        except OSError:
            _HAS6 = False
    return _HAS6


def be16(n):
    return bytes([(n >> 8) & 255, n & 255])


def mk_header(rng, kind=None, tlv=None, cmd=None):
    """-> (bytes, description dict) of a well-formed v2 header"""
    kind = kind or rng.choice(["v4", "v4", "v6", "v6", "unspec", "local"])
    cmd = cmd if cmd is not None else rng.choice([0x21, 0x21, 0x20])
    if tlv is None:
        tlv = b"" if rng.random() < 0.6 else bytes(rng.choice([3, 0x20, 0xEE, 4]) for _ in range(rng.choice([1, 3, 7, 12, 24, 40, 100])))
    if kind == "v4":
        fam = rng.choice([0x11, 0x11, 0x12, 0x10])
        addr = rng.choice(IP4) + rng.choice(IP4) + be16(rng.choice(PORTS)) + be16(rng.choice(PORTS))
    elif kind == "v6":
        fam = rng.choice([0x21, 0x21, 0x22])
        addr = rng.choice(IP6) + rng.choice(IP6) + be16(rng.choice(PORTS)) + be16(rng.choice(PORTS))
    elif kind == "local":
        fam, addr, cmd = 0x00, b"", 0x20
    else:
        fam, addr = rng.choice([0x00, 0x01, 0x02]), b""
    blk = addr + tlv
    if 16 + len(blk) > 232:
        blk = blk[:216]
    return SIG + bytes([cmd, fam]) + be16(len(blk)) + blk


def bad_header(rng):
    h = bytearray(mk_header(rng, tlv=b""))
    k = rng.random()
    if k < 0.25:
        i = rng.randrange(12)
        h[i] ^= rng.choice([1, 0x80, 0xFF])
    elif k < 0.45:
        h[12] = rng.choice([0x22, 0x10, 0x31, 0x00, 0x2F, 0x11])
    elif k < 0.65:
        h[13] = rng.choice([0x31, 0x41, 0xF1, 0x30, 0x80])
        if h[13] == 0x31 and rng.random() < 0.5:     # a genuine AF_UNIX header
            h = bytearray(SIG + bytes([0x21, 0x31]) + be16(216) + bytes(rng.choice([0, 0x41]) for _ in range(216)))
    elif k < 0.85:
        # declared length too short for the family (parser wants more inside the block) or absurdly long
        fam = h[13] >> 4
        short = rng.choice([0, 4, 11]) if fam == 1 else rng.choice([0, 12, 35]) if fam == 2 else 300
        blk = bytes(h[16:16 + short]) if short <= len(h) - 16 else bytes(h[16:]) + bytes(short - (len(h) - 16))
        h = bytearray(bytes(h[:14]) + be16(short) + blk)
    else:
        h[14:16] = be16(rng.choice([217, 300, 1000, 65535]))
    return bytes(h)


def split(rng, data, edges=()):
    if len(data) < 2:
        return [data] if data else []
    style = rng.choice(["whole", "rand", "rand", "rand", "edges", "bytes" if len(data) <= 80 else "rand"])
    if style == "whole":
        return [data]
    if style == "bytes":
        return [data[i:i + 1] for i in range(len(data))]
    cuts = set()
    if style == "edges":
        for e in edges:
            for d in (-1, 0, 1):
                if 0 < e + d < len(data) and rng.random() < 0.6:
                    cuts.add(e + d)
    for _ in range(rng.randint(1, 6)):
        cuts.add(rng.randint(1, len(data) - 1))
    out, prev = [], 0
    for c in sorted(cuts) + [len(data)]:
        out.append(data[prev:c])
        prev = c
    return out


def payload(rng, n):
    return bytes(rng.choice(b"abcdefghijklmnopqrstuvwxyz0123456789\r\n\x00\xff") for _ in range(n))


def codec_case(rng, cid):
    ops = []
    for _ in range(rng.randint(2, 5)):
        r = rng.random()
        cmd = rng.choice([0, 1])
        if r < 0.3:
            ops.append(["enc", 1, cmd, 0, 4, rng.choice(IP4), rng.choice(IP4), rng.choice(PORTS), rng.choice(PORTS)])
        elif r < 0.55:
            ops.append(["enc", 1, cmd, 0, 6, rng.choice(IP6), rng.choice(IP6), rng.choice(PORTS), rng.choice(PORTS)])
        elif r < 0.65:
            a, b = (rng.choice(IP4), rng.choice(IP6)) if rng.random() < 0.5 else (rng.choice(IP6), rng.choice(IP4))
            ops.append(["enc", 1, cmd, 0, 46, a, b, rng.choice(PORTS), rng.choice(PORTS)])
        elif r < 0.8:
            ops.append(["enc", 0, cmd, rng.choice([0x11, 0x12, 0x21, 0x00, 0x31]), 4, rng.choice(IP4), rng.choice(IP4), rng.choice(PORTS), rng.choice(PORTS)])
        elif r < 0.9:
            ops.append(["enc", 0, cmd, 0x21, 6, rng.choice(IP6), rng.choice(IP6), rng.choice(PORTS), rng.choice(PORTS)])
        elif r < 0.95:
            ops.append(["enc", 0, cmd, 0x31, 1, bytes([rng.choice([0, 65])] * 108), bytes([rng.choice([0, 66])] * 108), 0, 0])
        else:
            ops.append(["enc", 0, cmd, rng.choice([0, 0x11]), 0, b"", b"", 0, 0])
    good = mk_header(rng)
    tail = payload(rng, rng.choice([0, 0, 1, 5, 40]))
    if rng.random() < 0.5:
        for k in range(len(good) + 1):          # every truncation point
            ops.append(["parse", good[:k]])
        ops.append(["parse", good + tail])
    else:
        ops.append(["parse", good + tail])
        for _ in range(rng.randint(2, 6)):
            b = bad_header(rng)
            ops.append(["parse", b + (tail if rng.random() < 0.5 else b"")])
            k = rng.randint(0, len(b))
            ops.append(["parse", b[:k]])
        # one random byte flipped in a good header
        g = bytearray(good)
        i = rng.randrange(len(g))
        g[i] ^= 1 << rng.randrange(8)
        ops.append(["parse", bytes(g) + tail])
    return Case(cid, ops, dict(kind="codec"))


def tail_ops(rng, ops, sent_front=True):
    """pipe-phase traffic after an upgrade, then a fair drain"""
    for _ in range(rng.randint(0, 4)):
        r = rng.random()
        if r < 0.4:
            ops += [["fin", payload(rng, rng.randint(1, 90))], ["ev", 1, 0], ["ready"]]
        elif r < 0.7:
            ops += [["bin", payload(rng, rng.randint(1, 90))], ["ev", 0, 1], ["ready"]]
        else:
            ops += [["ev", rng.choice([0, 2, 3]), rng.choice([0, 2, 3])], ["ready"]]
    ops.append(["drain"])


def expect_case(rng, cid):
    size = rng.choice([256, 304, 1024])
    kind = rng.random()
    if kind < 0.7:
        hdr = mk_header(rng)
        good = True
    elif kind < 0.9:
        hdr = bad_header(rng)
        good = False
    else:
        hdr = mk_header(rng)[:rng.randint(1, 15)]     # a stream that stops inside the header
        good = False
    pl = payload(rng, rng.choice([0, 1, 5, 11, 12, 13, 24, 36, 37, 100, 216, 217, 300]))
    data = hdr + pl
    chunks = split(rng, data, edges=(16, 28, 52, 232, len(hdr)))
    ops = [["new", "expect", size, 4]]
    ops.append(["fwin", -1])
    for ch in chunks:
        ops += [["fin", ch], ["ev", 1, 0], ["ready"]]
    if good:
        ops += [["ev", 0, 2], ["ready"]]
        tail_ops(rng, ops)
    elif rng.random() < 0.5:
        ops += [["feof"], ["ev", rng.choice([1, 9]), 0], ["ready"]]
    return Case(cid, ops, dict(kind="expect", chunks=len(chunks), hdr=len(hdr), good=good))


def relay_case(rng, cid):
    size = rng.choice([256, 304, 1024])
    good = rng.random() < 0.8
    hdr = mk_header(rng) if good else bad_header(rng)
    pl = payload(rng, rng.choice([0, 1, 12, 13, 40, 100]))
    chunks = split(rng, hdr + pl, edges=(16, 28, 52, len(hdr)))
    ops = [["new", "relay", size, 4], ["fwin", -1]]
    conn_at = rng.randint(0, len(chunks))
    for i, ch in enumerate(chunks):
        if i == conn_at:
            ops += [["connected"], ["ev", 0, 2]]
        ops += [["fin", ch], ["ev", 1, 0], ["ready"]]
    if conn_at == len(chunks):
        ops += [["connected"], ["ev", 0, 2], ["ready"]]
    # the drain sets READABLE: only once the header phase is over (relay.readable does not clear
    # the event on an empty read)
    import struct
    complete = good
    if complete:
        tail_ops(rng, ops)
    return Case(cid, ops, dict(kind="relay", chunks=len(chunks), hdr=len(hdr), good=good))


def send_case(rng, cid):
    size = rng.choice([32, 64, 256])
    fam = 6 if (has_v6() and rng.random() < 0.5) else 4
    ops = [["new", "send", size, fam], ["fwin", -1]]
    if rng.random() < 0.3:
        ops += [["fin", payload(rng, rng.randint(1, 40))], ["ev", 1, 0], ["ready"]]   # client talks before the backend is up
    ops.append(["connected"])
    blocked = rng.random() < 0.4
    if blocked:
        ops.append(["bblock"])
    ops += [["ev", rng.choice([0, 1]), 2], ["ready"]]
    if blocked:
        if rng.random() < 0.5:
            ops += [["ev", 0, 2], ["ready"]]
        ops += [["bunblock"], ["ev", 0, 2], ["ready"]]
    tail_ops(rng, ops)
    return Case(cid, ops, dict(kind="send"))


def pipe_case(rng, cid):
    size = rng.choice([16, 32, 64, 96])
    ops = [["new", "pipe", size, 4]]
    ops.append(["fwin", -1] if rng.random() < 0.6 else ["fwin", rng.choice([0, 1, size // 2, size])])
    feof = beof = bclosed = False
    for _ in range(rng.randint(4, 30)):
        r = rng.random()
        if r < 0.2 and not feof:
            ops += [["fin", payload(rng, rng.choice([1, 3, size // 2, size - 1, size, size + 1, 2 * size + 3]))], ["ev", 1, 0]]
        elif r < 0.38 and not beof:
            ops += [["bin", payload(rng, rng.choice([1, 3, size // 2, size - 1, size, size + 1, 2 * size + 3]))], ["ev", 0, 1]]
        elif r < 0.58:
            ops.append(["ready"])
        elif r < 0.66:
            ops.append(["ev", rng.choice([0, 1, 2, 3]), rng.choice([0, 1, 2, 3])])
        elif r < 0.74:
            ops.append(["h", rng.choice(["readable", "writable", "back_readable", "back_writable"])])
        elif r < 0.80:
            ops.append(rng.choice([["fwin", rng.choice([1, 2, size // 2, size])], ["fwzero"], ["fwin", -1]]))
        elif r < 0.86:
            ops.append(rng.choice([["bblock"], ["bunblock"]]))
        elif r < 0.90 and not feof:
            feof = True
            ops += [["feof"], ["ev", rng.choice([1, 9, 9]), 0], ["ready"]]      # the poll reports FIN as READABLE|HUP and the session runs at once: a HUP bit never outlives its READABLE
        elif r < 0.94 and not beof:
            beof = True
            ops += [["beof"], ["ev", 0, rng.choice([1, 9, 9])]]
        elif r < 0.96 and not beof:
            beof = bclosed = True
            ops += [["bclose"], ["ev", 0, rng.choice([9, 9, 13])]]
        elif r < 0.975:
            ops += [["ferr"], ["ev", rng.choice([1, 5]), 0]]
        elif r < 0.99:
            ops.append(["fwclose"])
        else:
            ops.append(["ev", 0, 0])
    ops += [["bunblock"], ["fwin", -1], ["drain"]]
    return Case(cid, ops, dict(kind="pipe"))


def pressure_case(rng, cid):
    """the backend socket with a minimal kernel send buffer: back_writable is accepted in part; the accepted byte
    count is read off the implementation's observation and handed to the model (model_ops)"""
    size = rng.choice([8192, 16384])
    ops = [["new", "pipe", size, 4], ["fwin", -1], ["bsndbuf"]]
    for _ in range(rng.randint(2, 6)):
        r = rng.random()
        if r < 0.5:
            ops += [["fin", payload(rng, rng.choice([100, 3000, size // 2, size - 1, size, size + 5]))], ["ev", 1, 0], ["h", "readable"]]
            ops += [["ev", 0, 2], ["bwp"]]
        elif r < 0.8:
            ops += [["ev", 0, 2], ["bwp"]]
        else:
            ops += [["bin", payload(rng, rng.choice([10, 2000]))], ["ev", 0, 1], ["h", "back_readable"], ["ev", 2, 0], ["h", "writable"]]
    for _ in range(8):
        ops += [["ev", 1, 2], ["h", "readable"], ["bwp"]]
    return Case(cid, ops, dict(kind="pressure"))


def model_ops(case, out):
    """ops handed to the model: a `bwp` gets the number of bytes the kernel accepted on the implementation (the
    length of the bytes the backend peer received during that call)"""
    ops = []
    for op, ob in zip(case.ops, out["obs"] + [[]] * len(case.ops)):
        if op[0] == "bwp":
            n = len(ob[-2]) if len(ob) >= 3 and isinstance(ob[-2], (bytes, bytearray)) else 0
            ops.append(["bwp", n])
        else:
            ops.append(op)
    return ops


def gen_cases(rng, tier):
    n = {"quick": 2400, "thorough": 40000, "search": 12000}.get(tier, 2400)
    out = []
    for i in range(n):
        r = i % 12
        if r < 2:
            out.append(codec_case(rng, "c%d" % i))
        elif r < 5:
            out.append(expect_case(rng, "x%d" % i))
        elif r < 6:
            out.append(relay_case(rng, "r%d" % i))
        elif r < 7:
            out.append(send_case(rng, "s%d" % i) if i % 36 != 6 else pressure_case(rng, "q%d" % i))
        else:
            out.append(pipe_case(rng, "p%d" % i))
    return out


def corpus_cases():
    d = os.path.join(vlib.ROOT, "corpus", ID)
    out = []
    if os.path.isdir(d):
        for f in sorted(os.listdir(d)):
            if f.endswith(".case"):
                for c in vlib.parse_cases(open(os.path.join(d, f)).read()):
                    c.id = "k" + c.id
                    out.append(c)
    return out


BB_MODES = ["plain", "send", "expect", "relay", "ws", "wss"]
BB_SCEN = ["exact", "bp_c2b", "bp_b2c", "c_fin", "b_fin", "c_fin_bp", "b_fin_bp", "c_fin_cross", "c_fin_wait"]


def extra_stage(tier, rng, work):
    """black-box tier: a real worker thread with a TCP listener in each mode (plain / send / expect / relay), scripted
    client and backend on loopback sockets sequenced by read-acks (harness/src/bin/c18bb.rs).  A violation counts only
    if it reproduces on three runs of the same case; anything else is recorded as inconclusive."""
    if tier == "thorough":
        cfgs = [(m, sc, rng.randrange(1, 10 ** 6), bs) for m in BB_MODES for sc in BB_SCEN for bs in (16384, 4096)]
        cfgs += [(m, sc, rng.randrange(1, 10 ** 6), 16384) for m in BB_MODES for sc in ("exact", "c_fin", "b_fin", "c_fin_cross", "c_fin_wait")]
    else:
        cfgs = [(m, sc, rng.randrange(1, 10 ** 6), 16384) for m in BB_MODES for sc in BB_SCEN if not sc.startswith("bp_")]
        cfgs += [("plain", "bp_c2b", rng.randrange(1, 10 ** 6), 16384), ("send", "bp_b2c", rng.randrange(1, 10 ** 6), 16384),
                 ("expect", "exact", rng.randrange(1, 10 ** 6), 4096), ("relay", "c_fin", rng.randrange(1, 10 ** 6), 4096),
                 ("wss", "c_fin_bp", rng.randrange(1, 10 ** 6), 4096), ("ws", "c_fin_bp", rng.randrange(1, 10 ** 6), 4096)]
    # the incoming PROXY header cut deterministically: every chunk is written only once the worker has consumed the
    # previous one (FIONREAD on the worker's own socket = 0). kinds: 0 LOCAL/UNSPEC 16 B, 1 IPv6 52 B, 2 IPv4 28 B,
    # 3 IPv4 + TLV 36 B. quick: byte by byte + a few single cuts; thorough: every single cut position.
    hlen = {0: 16, 1: 52, 2: 28, 3: 36}
    for m in ("expect", "relay"):
        for k, n in hlen.items():
            cuts = ["all", 12, 13, 15, n - 1] + ([16] if n > 16 else []) if tier != "thorough" else ["all"] + list(range(1, n))
            for c in cuts:
                cfgs.append((m, "exact" if c == "all" else "c_fin", rng.randrange(1, 10 ** 6), 16384, c, k))
    cases = [Case("bb%d_%s_%s" % (i, c[0], c[1]), [["bb"] + list(c)], {}) for i, c in enumerate(cfgs)]
    splice_note = "not run in the quick tier"
    if tier == "thorough":
        # the splice(2) fast path is in no default build: build the black-box driver with the harness feature `splice`
        # (-> sozu-lib/splice) into its own target directory and run the TCP scenarios against that worker
        with vlib.Lock("cargo"):
            rc, o, e, dt = vlib.sh(["cargo", "build", "--offline", "--release", "--features", "splice", "--bin", "c18bb"], cwd=vlib.HARNESS, timeout=3000,
                                   env={"RUSTFLAGS": "--cfg " + vlib.GUARD, "CARGO_NET_OFFLINE": "true",
                                        "CARGO_TARGET_DIR": os.path.join(vlib.BUILD, "cargo-target-splice")})
        if rc == 0:
            scfgs = [(m, sc, rng.randrange(1, 10 ** 6), bs) for m in ("plain", "send", "expect", "relay") for sc in BB_SCEN for bs in (16384, 4096)]
            cases += [Case("bbs%d_%s_%s" % (i, c[0], c[1]), [["bbs"] + list(c)], {}) for i, c in enumerate(scfgs)]
            splice_note = "%d runs against a worker built with --features splice" % len(scfgs)
        else:
            splice_note = "the splice build failed: " + (o + e)[-300:]

    def run(cs, tag):
        return vlib.run_harness(HARNESS_BIN, cs, os.path.join(work, tag), "release", timeout=900, shards=min(8, len(cs)))

    outs, problems = run(cases, "bb")
    fails, viols, inconclusive, done = list(problems), [], [], 0
    reproduced = 0
    known = vlib.load_known()
    for c in cases:
        o = outs.get(c.id)
        if o is None:
            fails.append("black-box case %s produced no output" % c.id)
            continue
        vs = list(o["viol"]) + ([("panic", o["panic"])] if o["panic"] is not None else [])
        if any("setup-failed" in n or n.startswith("invalid-case") for n in o["notes"]):
            inconclusive.append(c.id + ": setup failed")
            continue
        done += 1
        fresh = [v for v in vs if not vlib.match_known(ID, v[0], v[1], known)]
        if fresh and reproduced >= 2:
            # two scenarios already reproduced their findings: the run fails whatever the others do, no more re-runs
            for v in fresh:
                viols.append((c, v[0], v[1]))
        elif fresh:
            # reproduce twice more
            again = []
            for k in (1, 2):
                o2, _ = run([c], "bb_retry%d" % k)
                oo = o2.get(c.id) or dict(viol=[], panic=None)
                again.append(set(x[0] for x in oo["viol"]) | ({"panic"} if oo.get("panic") else set()))
            if any(all(v[0] in a for a in again) for v in fresh):
                reproduced += 1
            for v in fresh:
                if all(v[0] in a for a in again):
                    viols.append((c, v[0], v[1]))
                else:
                    inconclusive.append("%s: [%s] did not reproduce" % (c.id, v[0]))
        for v in vs:
            if v not in fresh:
                viols.append((c, v[0], v[1]))      # known findings: reported as KNOWN-FINDING by the check
    return dict(failures=fails, viols=viols,
                coverage=dict(blackbox_runs=len(cases), blackbox_completed=done, blackbox_inconclusive=inconclusive, blackbox_splice=splice_note,
                              blackbox_configs=["/".join(str(x) for x in c) for c in cfgs][:60]))


def nontrivial(case, o):
    names = [op[0] for op in case.ops]
    mode = next((op[1] for op in case.ops if op[0] == "new"), None)
    if mode in ("expect", "relay"):
        # the header was split: >= 2 arrivals before the state left expect/relay
        n = 0
        for op, ob in zip(case.ops, o["obs"]):
            if op[0] == "fin":
                n += 1
            if op[0] == "ready" and len(ob) > 1 and ob[1] in ("pipe", "closed"):
                break
        return n >= 2
    if mode in ("pipe", "send"):
        bp = any(x in names for x in ("bblock", "fwzero")) or any(op[0] == "fwin" and op[1] >= 0 for op in case.ops)
        return bp and ("feof" in names or "beof" in names)
    return False


LEVEL_TEXT = ("Machine-checked proof (Coq 8.16) over an executable model of the PROXY-v2 codec, the expect/send/relay "
              "states, Pipe and the TcpSession readiness loop: codec round trip and exact consumption for every byte "
              "list, verdict stability under further input (any fragmentation), expect reassembly for every split with "
              "no payload loss, header-exactly-once for send, no-spin for relay, stream-prefix invariant of the pipe "
              "for every event schedule; tied to lib/src on every run by a constant/order translator and a differential "
              "run of the real structs (scripted SocketHandler frontend, real TcpStream-typed backend) against the "
              "extracted model, with the property's own oracles evaluated on the implementation.")
LEVEL_NOTE = ("Partial where the runtime decides: backend connection establishment, epoll delivery and TcpSession::new "
              "are outside (the ready loop is replicated in the driver, order tied by the translator); backend writes "
              "are exercised all-or-nothing on the real socket type; the splice fast path and rustls frontends are not "
              "modelled. The upgraded-WebSocket pipe is exercised black-box through an HTTP listener (mode ws); and through an HTTPS listener (mode wss: rustls frontend "
              "pipe, hand-pumped rustls client; the earlier anomaly with >= 16 KiB client messages was the `openssl s_client` tool, "
              "not Sōzu). The splice(2) fast path is in no default build: the thorough tier builds the black-box driver with "
              "`--features splice` and runs the TCP scenarios against that worker (exactness, back-pressure, half-closes); it is not modelled. Remaining open finding "
              "(halfclose-cuts-reverse, backend side): a backend's half-close reported as HUP ends the whole connection.")
TECHNIQUE = "Rocq/Coq proof over an executable Gallina model + differential correspondence (extracted OCaml vs real crate)"
CLAIMED = True
