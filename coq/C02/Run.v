(** C02 — token interface of the model (correspondence + black-box predictions). *)
From Coq Require Import List Arith ZArith NArith String Bool.
From SV Require Import Common.Tok C02.Model C02.Gen.
Import ListNotations.
Open Scope string_scope.
Open Scope list_scope.

Definition T := gen_tables.

Definition state_num (s : sstate) : Z :=
  match s with SIdle => 0 | SLink => 1 | SLinked => 2 | SUnlinked => 3 | SRecycle => 4 end%Z.
Definition state_of (z : Z) : sstate :=
  if (z =? 0)%Z then SIdle else if (z =? 1)%Z then SLink else if (z =? 2)%Z then SLinked
  else if (z =? 3)%Z then SUnlinked else SRecycle.
Definition phase_num (p : phase) : Z :=
  match p with PStatusLine => 0 | PHeaders => 1 | PCookies => 2 | PBody => 3 | PChunks => 4
             | PTrailers => 5 | PTerminated => 6 | PError => 7 end%Z.
Definition phase_of (z : Z) : phase :=
  if (z =? 0)%Z then PStatusLine else if (z =? 1)%Z then PHeaders else if (z =? 2)%Z then PCookies
  else if (z =? 3)%Z then PBody else if (z =? 4)%Z then PChunks else if (z =? 5)%Z then PTrailers
  else if (z =? 6)%Z then PTerminated else PError.
Definition zb (z : Z) : bool := negb (z =? 0)%Z.

Definition st_toks (s : stream) (c : conn) : list tok :=
  [ TN (state_num (s_state s)); TN (phase_num (s_phase s)); tn_bool (s_bcons s); tn_bool (s_pending s);
    tn_bool (s_fcons s); tn_bool (s_ka s); tn_bool (c_int_w c); tn_bool (c_ev_w c) ].

Definition action_toks (a : option action) : list tok :=
  match a with
  | Some AForwardTerminated => [TN 0; TN 0]
  | Some ACloseDelimited => [TN 1; TN 0]
  | Some AForwardUnterminated => [TN 2; TN 0]
  | Some (ASendDefault n) => [TN 3; TN (Z.of_N n)]
  | Some AReconnect => [TN 4; TN 0]
  | None => [TS "none"]
  end.

Definition ev_toks (e : ev) : list tok :=
  match e with
  | EvDefault n => [TS "default"; TN (Z.of_N n)]
  | EvAbort b => [TS "abort"; tn_bool b]
  | EvRelayStart => [TS "relay_start"]
  | EvRelayEnd => [TS "relay_end"]
  | EvDefaultSent => [TS "default_sent"]
  | EvRetry => [TS "retry"]
  | EvWait => [TS "wait"]
  | EvClose => [TS "close"]
  | EvClientGone => [TS "client_gone"]
  | EvRecycle => [TS "recycle"]
  | EvInterim => [TS "interim"]
  | EvUpgrade => [TS "upgrade"]
  | EvCancelled => [TS "cancelled"]
  | EvCrossTalk => [TS "crosstalk"]
  end.

Definition cause_of (n : string) : option cause :=
  if n =? "KMaxRetries" then Some KMaxRetries else if n =? "KMaxSessionsMemory" then Some KMaxSessionsMemory
  else if n =? "KMaxBuffers" then Some KMaxBuffers else if n =? "KNoBackendForCluster" then Some KNoBackendForCluster
  else if n =? "KBackendMio" then Some KBackendMio else if n =? "KBackendStatus" then Some KBackendStatus
  else if n =? "KBackendFailures" then Some KBackendFailures else if n =? "KHostParse" then Some KHostParse
  else if n =? "KInvalidCharsAfterHost" then Some KInvalidCharsAfterHost else if n =? "KNoClusterFound" then Some KNoClusterFound
  else if n =? "KUnauthorized" then Some KUnauthorized else if n =? "KSniMismatch" then Some KSniMismatch
  else if n =? "KHttpsRedirect" then Some KHttpsRedirect else if n =? "KNoMethod" then Some KNoMethod
  else if n =? "KNoHost" then Some KNoHost else if n =? "KNoPath" then Some KNoPath
  else if n =? "KNotFound" then Some KNotFound else if n =? "KTooManyPerIp" then Some KTooManyPerIp else None.

(** one input token; unknown names are ignored *)
Definition input_of (t : tok) : list input :=
  match t with
  | TS n =>
    if n =? "req_head" then [IReqHead]
    else if n =? "req_head_body" then [IReqHeadBody]
    else if n =? "req_body_end" then [IReqBodyEnd]
    else if n =? "connect_ok" then [IConnect None]
    else if n =? "req_sent" then [IReqSent]
    else if n =? "back_100" then [IBack1xx false]
    else if n =? "back_103" then [IBack1xx true]
    else if n =? "back_burst_100" then [IBackBurst false]
    else if n =? "back_burst_103" then [IBackBurst true]
    else if n =? "back_101" then [IBack101]
    else if n =? "back_partial" then [IBackPartial]
    else if n =? "back_head" then [IBackHead]
    else if n =? "back_end" then [IBackEnd]
    else if n =? "back_no_keepalive" then [IBackNoKeepAlive]
    else if n =? "back_close" then [IBackClose]
    else if n =? "back_garbage" then [IBackGarbage]
    else if n =? "front_write" then [IFrontWrite true]
    else if n =? "front_write_partial" then [IFrontWrite false]
    else if n =? "front_timeout" then [IFrontTimeout]
    else if n =? "back_timeout" then [IBackTimeout]
    else if n =? "client_cancel" then [IClientCancel]
    else if n =? "client_close" then [IClientClose]
    else match cause_of n with Some k => [IConnect (Some k)] | None => [] end
  | _ => []
  end.

Record rstate := mkr { rs : stream; rc : conn }.

Definition step_op (st : rstate) (op : list tok) : rstate * list tok :=
  let s := rs st in let c := rc st in
  let bad := (st, [TS "badop"]) in
  match op with
  | TS name :: args =>
    if name =? "new" then
      match args with
      | [TN h2] => (mkr fresh (init_conn (zb h2)), [])
      | _ => bad end
    else if name =? "set" then
      match args with
      | [TN sst; TN ph; TN ka; TN fc; TN bc; TN pend; TN iw; TN ew] =>
        let s' := mkS (state_of sst) (s_attempts s) (zb fc) (phase_of ph) (zb bc) (zb pend) (zb ka)
                      (s_origin s) (s_done s) (s_clean s) (s_ropen s) (s_interim s) in
        let c' := mkC (c_h2 c) (zb iw) (zb ew) (c_ftimer c) (c_btimer c) (c_closed c) (c_bparked c) (c_bdirty c) in
        (mkr s' c', st_toks s' c')
      | _ => bad end
    else if name =? "setline" then
      (* the status line of the response buffer: 100 / 103 / 101 are the interim ones the model tells apart *)
      match args with
      | [TN code] =>
        let i := if (code =? 100)%Z then I100 else if (code =? 103)%Z then I103 else if (code =? 101)%Z then I101 else NoInterim in
        (mkr (set_interim s i) c, [TN code])
      | _ => bad end
    else if name =? "esd" then (st, action_toks (esd T c s))
    else if name =? "answer" then
      match args with
      | [TN code] =>
        let '(s', c', evs) := default_answer T (Z.to_N code) s c in
        (mkr s' c', st_toks s' c' ++ flat_map ev_toks evs)
      | _ => bad end
    else if name =? "force" then
      let '(s', c', evs) := force_answer T s c in
      (mkr s' c', st_toks s' c' ++ [TS "abort"])
    else if name =? "blackbox" then (st, [])
    else if name =? "blackboxh2" then (st, [])
    else if name =? "auto" then
      (* auto <h2> <redirect status or 0> <input>... : events of the life cycle *)
      match args with
      | TN h2 :: TN rd :: ins =>
        let redir := if (rd =? 0)%Z then None else Some (Z.to_N rd) in
        (st, flat_map ev_toks (run T redir (fresh, init_conn (zb h2)) (flat_map input_of ins)))
      | _ => bad end
    else bad
  | _ => bad
  end.

Fixpoint run_from (st : rstate) (ops : list (list tok)) : list (list tok) :=
  match ops with
  | [] => []
  | op :: ops' => let '(st', o) := step_op st op in o :: run_from st' ops'
  end.

Definition run_case (ops : list (list tok)) : list (list tok) :=
  run_from (mkr fresh (init_conn false)) ops.
