//! C16 driver: the real `SessionManager` (lib/src/server.rs), driven in-process
//! through its public methods, with the call-site disciplines of
//! `Server::create_sessions` (check_limits, then slab insert + incr),
//! `Server::shut_down_sessions_by_frontend_tokens` / `ProxySession::close`
//! (slab remove, untrack_all_cluster_ip, decr), `mux::Router::connect` /
//! `TcpSession` (cluster_ip_at_limit, then track_cluster_ip) and the
//! `SetMaxConnectionsPerIp` handler replicated here.
//!
//! The per-(cluster, ip) maps are private: counts are read back through
//! `cluster_ip_at_limit` with a token that holds nothing and an explicit limit,
//! their size through the `cfg(sozu_verif)` footprint accessor.
use std::cell::RefCell;
use std::collections::{BTreeMap, BTreeSet};
use std::net::IpAddr;
use std::rc::Rc;
use std::time::Instant;

use mio::Token;
use slab::Slab;
use sozu_command_lib::ready::Ready;
use sozu_lib::server::SessionManager;
use sozu_lib::{Protocol, ProxySession};
use verif_harness::*;

struct Dummy {
    token: Token,
    proto: Protocol,
}
impl ProxySession for Dummy {
    fn protocol(&self) -> Protocol {
        self.proto
    }
    fn ready(&mut self, _session: Rc<RefCell<dyn ProxySession>>) -> bool {
        false
    }
    fn update_readiness(&mut self, _token: Token, _events: Ready) {}
    fn close(&mut self) {}
    fn timeout(&mut self, _t: Token) -> bool {
        false
    }
    fn last_event(&self) -> Instant {
        Instant::now()
    }
    fn print_session(&self) {}
    fn frontend_token(&self) -> Token {
        self.token
    }
    fn shutting_down(&mut self) -> bool {
        true
    }
}

const NTOK: i128 = 4;
const NCL: i128 = 2;
const NIP: i128 = 3;
const PROBE: Token = Token(9999);

fn tok(t: i128) -> Token {
    Token(100 + t as usize)
}
fn ip(i: i128) -> IpAddr {
    match i {
        0 => "10.0.0.1".parse().unwrap(),
        1 => "10.0.0.2".parse().unwrap(),
        _ => "2001:db8::1".parse().unwrap(),
    }
}
fn cl(c: i128) -> String {
    format!("cluster_{c}")
}

struct St {
    sm: Rc<RefCell<SessionManager>>,
    live: BTreeMap<i128, usize>, // token -> slab key
    filler: Vec<usize>,
    /// session-side extra entries (the backend tokens of live sessions)
    backs: Vec<usize>,
    /// oracle bookkeeping (independent of the model): which live token holds which (cluster, ip)
    held: BTreeSet<(i128, i128, i128)>,
}

impl St {
    fn count(&self, c: i128, i: i128) -> i128 {
        let sm = self.sm.borrow();
        (1..=8u64).filter(|k| sm.cluster_ip_at_limit(PROBE, &cl(c), &ip(i), Some(*k))).count() as i128
    }
    fn tracked(&self, t: i128, c: i128, i: i128) -> bool {
        self.count(c, i) >= 1 && !self.sm.borrow().cluster_ip_at_limit(tok(t), &cl(c), &ip(i), Some(1))
    }
    /// accepting resumes when load drops: a worker that serves nobody and holds no session entry
    /// admits a connection, however many listeners it has
    fn idle_must_admit(&self, out: &mut Out, admitted: bool) {
        let max = self.sm.borrow().max_connections;
        if !admitted && max >= 1 && self.live.is_empty() && self.backs.is_empty() {
            out.viol("accept-gate-closed-idle", &format!("max_connections={max}, no connection is served, the slab holds {} entries none of which is a session, and check_limits refuses", self.sm.borrow().slab.len()));
        }
    }
    /// the property's own predicates on the implementation
    fn oracle(&self, out: &mut Out, what: &str) {
        let sm = self.sm.borrow();
        if sm.nb_connections > sm.max_connections {
            out.viol("over-max", &format!("{what}: nb_connections={} > max_connections={}", sm.nb_connections, sm.max_connections));
        }
        if sm.nb_connections != self.live.len() {
            out.viol("connection-count-drift", &format!("{what}: nb_connections={} but {} connections are being served", sm.nb_connections, self.live.len()));
        }
        drop(sm);
        for c in 0..NCL {
            for i in 0..NIP {
                let n = self.count(c, i);
                let want = self.held.iter().filter(|(_, cc, ii)| *cc == c && *ii == i).count() as i128;
                if n != want {
                    out.viol("slot-count", &format!("{what}: (cluster {c}, ip {i}) counts {n} slots but {want} live connections hold it"));
                }
            }
        }
        if self.live.is_empty() {
            let f = self.sm.borrow().verif_cluster_ip_footprint();
            if f != (0, 0, 0, 0, 0, 0) {
                out.viol("baseline", &format!("{what}: no connection is live but the per-(cluster, ip) accounting holds {f:?}"));
            }
        }
        let f = self.sm.borrow().verif_cluster_ip_footprint();
        if f.2 != 0 || f.3 != 0 {
            out.viol("dead-entries", &format!("{what}: zero-count or empty entries retained: {f:?}"));
        }
    }
}

fn run(case: &Case, out: &mut Out) {
    let mut st: Option<St> = None;
    let mut pool: Option<sozu_lib::pool::Pool> = None;
    let mut held: BTreeMap<i128, sozu_lib::pool::Checkout> = BTreeMap::new();
    let mut drain: Option<(sozu_lib::metrics::Aggregator, usize)> = None;
    for op in &case.ops {
        let a = &op.args;
        if op.name == "new" {
            // max limit
            let slab: Slab<Rc<RefCell<dyn ProxySession>>> = Slab::with_capacity(64);
            let lim = a[1].n() as u64;
            st = Some(St {
                sm: SessionManager::new(slab, a[0].n() as usize, lim, 0),
                live: BTreeMap::new(),
                filler: vec![],
                backs: vec![],
                held: BTreeSet::new(),
            });
            out.obs(&[]);
            continue;
        }
        if op.name == "pool_new" || op.name == "checkout" || op.name == "checkin" {
            // buffer pool accounting: lib/src/pool.rs
            match op.name.as_str() {
                "pool_new" => {
                    held.clear();
                    let (mn, mx) = (a[0].n() as usize, a[1].n() as usize);
                    pool = Some(sozu_lib::pool::Pool::with_capacity(mn.min(mx), mx, 64));
                    let p = pool.as_ref().unwrap();
                    out.obs(&[tn(p.inner.used()), tn(p.inner.capacity()), tn(p.inner.maximum_capacity())]);
                }
                "checkout" => {
                    let Some(p) = pool.as_mut() else {
                        out.note("invalid-case: checkout before pool_new");
                        out.obs(&[]);
                        continue;
                    };
                    let id = a[0].n();
                    let ok = if held.contains_key(&id) {
                        false
                    } else {
                        match p.checkout() {
                            Some(c) => {
                                held.insert(id, c);
                                true
                            }
                            None => false,
                        }
                    };
                    if !ok && !held.contains_key(&id) && p.inner.used() < p.inner.maximum_capacity() {
                        out.viol("pool-refused-below-maximum", &format!("checkout refused with {} of at most {} buffers in use", p.inner.used(), p.inner.maximum_capacity()));
                    }
                    out.obs(&[tbool(ok), tn(p.inner.used()), tn(p.inner.capacity()), tn(p.inner.maximum_capacity())]);
                }
                _ => {
                    let Some(p) = pool.as_ref() else {
                        out.note("invalid-case: checkin before pool_new");
                        out.obs(&[]);
                        continue;
                    };
                    let had = held.remove(&a[0].n()).is_some();
                    out.obs(&[tbool(had), tn(p.inner.used()), tn(p.inner.capacity()), tn(p.inner.maximum_capacity())]);
                }
            }
            if let Some(p) = pool.as_ref() {
                // the property: buffers in use = buffers held, within capacity, within the maximum
                if p.inner.used() != held.len() {
                    out.viol("pool-drift", &format!("pool reports {} buffers in use, {} are held", p.inner.used(), held.len()));
                }
                if p.inner.used() > p.inner.capacity() || p.inner.capacity() > p.inner.maximum_capacity() {
                    out.viol("pool-over-capacity", &format!("used {} capacity {} maximum {}", p.inner.used(), p.inner.capacity(), p.inner.maximum_capacity()));
                }
            }
            continue;
        }
        if op.name.starts_with("m_") {
            // the gauges of the local metrics drain (lib/src/metrics/local_drain.rs) through the real Aggregator:
            // label filter, AggregatedMetric::{new, update}, clear / remove_cluster / add_cluster / remove_backend
            use sozu_lib::metrics::{Aggregator, MetricValue, Subscriber, VERIF_GAUGE_UNDERFLOWS};
            const KEYS: [&str; 2] = ["verif.g0", "verif.g1"];
            const CL: [&str; 2] = ["c0", "c1"];
            const BK: [&str; 2] = ["b0", "b1"];
            let (agg, under) = drain.get_or_insert_with(|| (Aggregator::new(String::from("sozu")), 0usize));
            let before = VERIF_GAUGE_UNDERFLOWS.load(std::sync::atomic::Ordering::SeqCst);
            let ix = |t: &Tok| (t.n() as usize).min(1);
            match op.name.as_str() {
                "m_recv" => {
                    let (sc, k) = (a[0].n(), KEYS[ix(&a[3])]);
                    let (c, b) = (CL[ix(&a[1])], BK[ix(&a[2])]);
                    let v = a[5].n();
                    let m = if a[4].n() == 0 { MetricValue::Gauge(v.max(0) as usize) } else { MetricValue::GaugeAdd(v as i64) };
                    match sc {
                        0 => agg.receive_metric(k, None, None, m),
                        1 => agg.receive_metric(k, Some(c), None, m),
                        _ => agg.receive_metric(k, Some(c), Some(b), m),
                    }
                }
                "m_clear" => agg.clear_local(),
                "m_rmcluster" => agg.remove_cluster(CL[ix(&a[0])]),
                "m_addcluster" => agg.add_cluster(CL[ix(&a[0])]),
                "m_rmbackend" => agg.remove_backend(CL[ix(&a[0])], BK[ix(&a[1])]),
                "m_detail" => {
                    use sozu_command_lib::config::MetricDetailLevel as L;
                    agg.set_up_detail(match a[0].n() {
                        0 => L::Process,
                        1 => L::Frontend,
                        2 => L::Cluster,
                        _ => L::Backend,
                    })
                }
                "m_enable" => {
                    use sozu_command_lib::proto::command::MetricsConfiguration as C;
                    agg.configure(if a[0].n() == 1 { &C::Enabled } else { &C::Disabled })
                }
                _ => out.note("invalid-case: unknown drain op"),
            }
            *under += VERIF_GAUGE_UNDERFLOWS.load(std::sync::atomic::Ordering::SeqCst) - before;
            // observation: every gauge of the universe (-1 = no entry), then the clamped underflows
            let mut o = vec![];
            let gauge = |m: Option<&sozu_command_lib::proto::command::FilteredMetrics>| -> i128 {
                use sozu_command_lib::proto::command::filtered_metrics::Inner;
                match m.and_then(|f| f.inner.as_ref()) {
                    Some(Inner::Gauge(v)) => *v as i128,
                    Some(_) => -2,
                    None => -1,
                }
            };
            match agg.query(&Default::default()) {
                Ok(resp) => {
                    use sozu_command_lib::proto::command::response_content::ContentType;
                    if let Some(ContentType::WorkerMetrics(wm)) = resp.content_type {
                        for k in KEYS {
                            let v = gauge(wm.proxy.get(k));
                            if v > (1i128 << 62) {
                                out.viol("gauge-wrapped", &format!("proxy gauge {k} reads {v}: an underflow wrapped instead of clamping to 0"));
                            }
                            o.push(tn(v));
                        }
                        for c in CL {
                            for k in KEYS {
                                let v = gauge(wm.clusters.get(c).and_then(|cm| cm.cluster.get(k)));
                                if v > (1i128 << 62) {
                                    out.viol("gauge-wrapped", &format!("gauge {k} of cluster {c} reads {v}: an underflow wrapped instead of clamping to 0"));
                                }
                                o.push(tn(v));
                            }
                        }
                        for c in CL {
                            for b in BK {
                                let bm = wm.clusters.get(c).and_then(|cm| cm.backends.iter().find(|x| x.backend_id == b));
                                if wm.clusters.get(c).map(|cm| cm.backends.iter().filter(|x| x.backend_id == b).count()).unwrap_or(0) > 1 {
                                    out.viol("backend-row-duplicated", &format!("cluster {c} has two metric rows for backend {b}"));
                                }
                                for k in KEYS {
                                    let v = gauge(bm.and_then(|x| x.metrics.get(k)));
                                    if v > (1i128 << 62) {
                                        out.viol("gauge-wrapped", &format!("gauge {k} of backend {b} in {c} reads {v}: an underflow wrapped instead of clamping to 0"));
                                    }
                                    o.push(tn(v));
                                }
                            }
                        }
                    } else {
                        out.note("invalid-case: the metrics query did not answer WorkerMetrics");
                    }
                }
                Err(e) => out.note(&format!("invalid-case: metrics query failed: {e}")),
            }
            o.push(tn(*under));
            out.obs(&o);
            continue;
        }
        if op.name == "bb" {
            // black-box tier: seed max_connections per-ip-limit rounds -> the c16bb binary (a real worker)
            let exe = std::env::current_exe().unwrap().parent().unwrap().join("c16bb");
            let res = std::process::Command::new(exe).args(a.iter().map(|t| t.to_string())).output();
            match res {
                Ok(o) => {
                    let text = String::from_utf8_lossy(&o.stdout).to_string();
                    for line in text.lines() {
                        if let Some(v) = line.strip_prefix("viol ") {
                            let (c, t) = v.split_once(' ').unwrap_or((v, ""));
                            // the c12-* verdicts (retry state of a backend) belong to C12's check, which runs the same binary
                            if !c.starts_with("c12-") {
                                out.viol(c, t);
                            }
                        } else if line.starts_with("note ") {
                            out.note(&format!("bb: {}", &line[5..]));
                        }
                    }
                    if !text.contains("obs done") {
                        out.viol("bb-crashed", "the black-box run did not finish (worker thread panicked?)");
                    }
                }
                Err(e) => out.note(&format!("invalid-case: cannot run c16bb: {e}")),
            }
            out.obs(&[]);
            continue;
        }
        let Some(s) = st.as_mut() else {
            out.note("invalid-case: op before new");
            out.obs(&[]);
            continue;
        };
        match op.name.as_str() {
            "accept" => {
                // Server::create_sessions: check_limits, create the session (slab insert), incr
                let t = a[0].n();
                if s.live.contains_key(&t) {
                    out.obs(&[ts("live")]);
                    continue;
                }
                // Server::ready / handle_remaining_readiness only accept() while can_accept;
                // create_sessions then asks check_limits for every queued socket
                let gate = s.sm.borrow().can_accept;
                let ok = gate && s.sm.borrow_mut().check_limits();
                if gate {
                    s.idle_must_admit(out, ok);
                }
                if ok {
                    let d: Rc<RefCell<dyn ProxySession>> = Rc::new(RefCell::new(Dummy { token: tok(t), proto: Protocol::HTTP }));
                    let key = s.sm.borrow_mut().slab.insert(d);
                    s.sm.borrow_mut().incr();
                    s.live.insert(t, key);
                }
                let (nb, ca) = {
                    let sm = s.sm.borrow();
                    (sm.nb_connections, sm.can_accept)
                };
                out.obs(&[tbool(gate), tbool(ok), tn(nb), tbool(ca)]);
                s.oracle(out, "accept");
            }
            "close" => {
                // teardown: slab remove, session.close() (untrack_all_cluster_ip), decr
                let t = a[0].n();
                let was = s.live.remove(&t);
                if let Some(key) = was {
                    let sess = s.sm.borrow_mut().slab.remove(key);
                    sess.borrow_mut().close();
                    s.sm.borrow_mut().untrack_all_cluster_ip(tok(t));
                    s.sm.borrow_mut().decr();
                    s.held.retain(|(tt, _, _)| *tt != t);
                }
                let (nb, ca, max) = {
                    let sm = s.sm.borrow();
                    (sm.nb_connections, sm.can_accept, sm.max_connections)
                };
                out.obs(&[tbool(was.is_some()), tn(nb), tbool(ca)]);
                if was.is_some() && nb == 0 && max >= 1 && !ca {
                    out.viol("accept-wedged", &format!("max_connections={max}: the last connection closed (nb_connections=0) and can_accept is still false: the worker never accepts again"));
                }
                s.oracle(out, "close");
            }
            "track" => {
                // token cluster ip override_present override : the gate of Router::connect
                let (t, c, i) = (a[0].n(), a[1].n(), a[2].n());
                if !s.live.contains_key(&t) {
                    // only a live session resolves a cluster
                    out.obs(&[ts("dead")]);
                    continue;
                }
                let ov = if a[3].n() == 1 { Some(a[4].n() as u64) } else { None };
                let before = s.count(c, i);
                let held_before = s.tracked(t, c, i);
                let lim = ov.unwrap_or(s.sm.borrow().max_connections_per_ip);
                let at = s.sm.borrow().cluster_ip_at_limit(tok(t), &cl(c), &ip(i), ov);
                let should_refuse = lim > 0 && !held_before && before as u64 >= lim;
                if at && !should_refuse {
                    out.viol("refused-under-limit", &format!("(cluster {c}, ip {i}) holds {before} slots, limit {lim}, token already holds one: {held_before}; refused"));
                }
                if !at && should_refuse {
                    out.viol("over-ip-limit", &format!("(cluster {c}, ip {i}) already holds {before} slots, limit {lim}: one more granted"));
                }
                if !at {
                    s.sm.borrow_mut().track_cluster_ip(tok(t), cl(c), ip(i));
                    s.held.insert((t, c, i));
                    let after = s.count(c, i);
                    if after != before + (!held_before) as i128 {
                        out.viol("slot-per-connection", &format!("token {t} (held before: {held_before}) moved the count of (cluster {c}, ip {i}) from {before} to {after}"));
                    }
                }
                out.obs(&[tbool(at)]);
                s.oracle(out, "track");
            }
            "setlimit" => {
                // the SetMaxConnectionsPerIp handler
                let n = a[0].n() as u64;
                {
                    let mut sm = s.sm.borrow_mut();
                    sm.max_connections_per_ip = n;
                    if n == 0 {
                        sm.clear_cluster_ip_tracking();
                    }
                }
                if n == 0 {
                    s.held.clear();
                }
                out.obs(&[]);
                s.oracle(out, "setlimit");
            }
            "fill" => {
                for _ in 0..a[0].n() {
                    let d: Rc<RefCell<dyn ProxySession>> = Rc::new(RefCell::new(Dummy { token: Token(5000), proto: Protocol::Channel }));
                    let key = s.sm.borrow_mut().slab.insert(d);
                    s.filler.push(key);
                }
                out.obs(&[tn(s.sm.borrow().slab.len())]);
            }
            "unfill" => {
                for _ in 0..a[0].n() {
                    if let Some(k) = s.filler.pop() {
                        s.sm.borrow_mut().slab.remove(k);
                    }
                }
                out.obs(&[tn(s.sm.borrow().slab.len())]);
            }
            "backfill" => {
                for _ in 0..a[0].n() {
                    let d: Rc<RefCell<dyn ProxySession>> = Rc::new(RefCell::new(Dummy { token: Token(6000), proto: Protocol::HTTP }));
                    let key = s.sm.borrow_mut().slab.insert(d);
                    s.backs.push(key);
                }
                out.obs(&[tn(s.sm.borrow().slab.len())]);
            }
            "unbackfill" => {
                for _ in 0..a[0].n() {
                    if let Some(k) = s.backs.pop() {
                        s.sm.borrow_mut().slab.remove(k);
                    }
                }
                out.obs(&[tn(s.sm.borrow().slab.len())]);
            }
            "check" => {
                let r = s.sm.borrow_mut().check_limits();
                s.idle_must_admit(out, r);
                out.obs(&[tbool(r), tbool(s.sm.borrow().can_accept)]);
            }
            "dump" => {
                let mut o = vec![];
                {
                    let sm = s.sm.borrow();
                    o.push(tn(sm.max_connections));
                    o.push(tn(sm.nb_connections));
                    o.push(tbool(sm.can_accept));
                    o.push(tn(sm.max_connections_per_ip));
                    o.push(tn(sm.slab.len()));
                    o.push(tbool(sm.at_capacity()));
                }
                for c in 0..NCL {
                    for i in 0..NIP {
                        o.push(tn(s.count(c, i)));
                    }
                }
                for t in 0..NTOK {
                    for c in 0..NCL {
                        for i in 0..NIP {
                            o.push(tbool(s.tracked(t, c, i)));
                        }
                    }
                }
                let f = s.sm.borrow().verif_cluster_ip_footprint();
                for x in [f.0, f.1, f.2, f.3, f.4, f.5] {
                    o.push(tn(x));
                }
                out.obs(&o);
                s.oracle(out, "dump");
            }
            other => {
                out.note(&format!("invalid-case: unknown op {other}"));
                out.obs(&[]);
            }
        }
    }
}

fn main() {
    let _ = sozu_command_lib::logging::setup_logging("file:///dev/null", false, None, None, None, "error", "C16");
    drive(run);
}
