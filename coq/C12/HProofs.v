(** C12 — lemmas about the health checker model. *)
From Coq Require Import List Arith ZArith NArith Bool Lia.
From SV Require Import C12.Model C12.Counters C12.HModel.
Import ListNotations.
Open Scope N_scope.

(* ------------------------------------------------------------------ *)
(** * What recording a verdict leaves alone *)

Definition bkey (s : state) (hd : nat) : N * N := (b_id (hget (s_heap s) hd), b_addr (hget (s_heap s) hd)).

Definition same_frame (s s' : state) : Prop :=
  s_cl s' = s_cl s /\ s_now s' = s_now s /\ forall hd, bkey s' hd = bkey s hd.

Lemma same_frame_refl s : same_frame s s.
Proof. repeat split. Qed.

Lemma same_frame_trans a b c : same_frame a b -> same_frame b c -> same_frame a c.
Proof.
  intros (A1 & A2 & A3) (B1 & B2 & B3). split; [congruence|]. split; [congruence|].
  intros hd. rewrite B3. apply A3.
Qed.

Lemma on_handle_frame s h f :
  (forall b, b_id (f b) = b_id b /\ b_addr (f b) = b_addr b) -> same_frame s (on_handle s h f).
Proof.
  intros Hf. split; [|split].
  - unfold on_handle. destruct (_ <? _)%nat; reflexivity.
  - unfold on_handle. destruct (_ <? _)%nat; reflexivity.
  - intros hd. unfold bkey.
    destruct (Nat.lt_ge_cases hd (length (s_heap s))) as [L|L].
    + rewrite on_handle_get by exact L.
      destruct (_ && _); [|reflexivity]. destruct (Hf (hget (s_heap s) hd)) as [-> ->]. reflexivity.
    + rewrite (hget_out (s_heap (on_handle s h f))) by (rewrite on_handle_length; exact L).
      rewrite (hget_out (s_heap s)) by exact L. reflexivity.
Qed.

Lemma record_result_frame s c a v cf : same_frame s (record_result s c a v cf).
Proof.
  unfold record_result. destruct (find_backend s c a) as [h|]; [|apply same_frame_refl].
  apply on_handle_frame. intros b. destruct v.
  - unfold record_success. destruct (_ && _); cbn; auto.
  - unfold record_failure. destruct (_ && _); cbn; auto.
Qed.

Lemma fold_record_frame (f : probe -> bool) l : forall s,
  same_frame s (fold_left (fun s0 p => record_result s0 (p_c p) (p_addr p) (f p) (p_cfg p)) l s).
Proof.
  induction l as [|p t IH]; intros s; cbn [fold_left]; [apply same_frame_refl|].
  eapply same_frame_trans; [apply record_result_frame|apply IH].
Qed.

Lemma progress_frame h s : same_frame s (snd (progress_timeouts h s)).
Proof. unfold progress_timeouts. cbn [snd]. apply (fold_record_frame (fun _ => false)). Qed.

Lemma poll_frame h s : same_frame s (snd (hc_poll h s)).
Proof.
  unfold hc_poll.
  destruct (hc_inflight h); [|apply progress_frame].
  destruct (hc_cfg h) as [|[c0|] [|[c1|] [|x y]]]; try apply progress_frame. apply same_frame_refl.
Qed.

Lemma resolve_frame h s : same_frame s (snd (resolve h s)).
Proof.
  unfold resolve. cbn [snd].
  apply (fold_record_frame (fun p => match verdict p with Some v => v | None => false end)).
Qed.

(* ------------------------------------------------------------------ *)
(** * Every started probe ends *)

Lemma initiate_keeps h s c p : In p (hc_inflight h) -> In p (hc_inflight (initiate_cluster h s c)).
Proof.
  intros H. unfold initiate_cluster. destruct (nth c (hc_cfg h) None) as [cf|]; [|exact H].
  destruct (negb _); [exact H|].
  destruct (filter _ (c_list (cget s c))); [exact H|].
  cbn [hc_inflight]. apply in_or_app. left. exact H.
Qed.

Lemma progress_no_overdue h s q :
  In q (hc_inflight (fst (progress_timeouts h s))) -> timed_out (s_now s) q = false.
Proof.
  unfold progress_timeouts. cbn [fst hc_inflight]. intros H. apply filter_In in H.
  destruct H as [_ H]. apply negb_true_iff in H. exact H.
Qed.

Lemma poll_no_overdue h s q :
  In q (hc_inflight (fst (hc_poll h s))) -> timed_out (s_now s) q = false.
Proof.
  unfold hc_poll.
  destruct (hc_inflight h) as [|p0 t] eqn:E; [|apply progress_no_overdue].
  destruct (hc_cfg h) as [|[c0|] [|[c1|] [|x y]]]; try apply progress_no_overdue.
  cbn [fst]. rewrite E. intros [].
Qed.

(** a probe past its deadline is taken out by the next poll, with a failure
    recorded for it — no readiness event is needed *)
Lemma poll_overdue_gets_failure h s p :
  In p (hc_inflight h) -> timed_out (s_now s) p = true ->
  ~ In p (hc_inflight (fst (hc_poll h s))) /\
  In p (filter (timed_out (s_now s)) (hc_inflight (initiate_cluster (initiate_cluster h s 0) s 1))).
Proof.
  intros Hin Ht. split.
  - intros H. apply poll_no_overdue in H. congruence.
  - apply filter_In. split; [|exact Ht]. apply initiate_keeps, initiate_keeps. exact Hin.
Qed.

Lemma resolve_keeps_silent h s q :
  In q (hc_inflight (fst (resolve h s))) -> In q (hc_inflight h) /\ verdict q = None.
Proof.
  unfold resolve. cbn [fst hc_inflight]. intros H. apply filter_In in H. destruct H as [H1 H2].
  split; [exact H1|]. destruct (verdict q); [discriminate|reflexivity].
Qed.

(** after the event loop has run at an instant, whatever is still in flight is
    neither past its deadline nor answered *)
Lemma pump_leaves_only_pending h s q :
  In q (hc_inflight (fst (pump h s))) -> timed_out (s_now s) q = false /\ verdict q = None.
Proof.
  unfold pump.
  destruct (hc_poll h s) as [h1 s1] eqn:E1. destruct (resolve h1 s1) as [h2 s2] eqn:E2.
  destruct (hc_poll h2 s2) as [h3 s3] eqn:E3. destruct (resolve h3 s3) as [h4 s4] eqn:E4.
  destruct (hc_poll h4 s4) as [h5 s5] eqn:E5.
  intros H. apply resolve_keeps_silent in H. destruct H as [H5 V]. split; [|exact V].
  pose proof (poll_frame h s) as F1. rewrite E1 in F1. cbn [snd] in F1.
  pose proof (resolve_frame h1 s1) as F2. rewrite E2 in F2. cbn [snd] in F2.
  pose proof (poll_frame h2 s2) as F3. rewrite E3 in F3. cbn [snd] in F3.
  pose proof (resolve_frame h3 s3) as F4. rewrite E4 in F4. cbn [snd] in F4.
  assert (N : s_now s4 = s_now s).
  { destruct F1 as (_ & A & _), F2 as (_ & B & _), F3 as (_ & C & _), F4 as (_ & D & _). congruence. }
  rewrite <- N. apply (poll_no_overdue h4 s4). rewrite E5. exact H5.
Qed.

(* ------------------------------------------------------------------ *)
(** * Thresholds *)

Fixpoint failures (n : nat) (b : backend) (thr : N) : backend :=
  match n with O => b | S k => fst (record_failure (failures k b thr) thr) end.
Fixpoint successes (n : nat) (b : backend) (thr : N) : backend :=
  match n with O => b | S k => fst (record_success (successes k b thr) thr) end.

Lemma failures_below b thr n :
  b_healthy b = true -> b_fails b = 0 -> N.of_nat n < thr ->
  b_healthy (failures n b thr) = true /\ b_fails (failures n b thr) = N.of_nat n.
Proof.
  intros Hh Hf. induction n as [|k IH]; intros L; [cbn; auto|].
  destruct IH as [I1 I2]; [lia|]. cbn [failures]. unfold record_failure. rewrite I1, I2. cbn [andb].
  destruct (thr <=? N.of_nat k + 1) eqn:E; [apply N.leb_le in E; lia|].
  cbn. split; [reflexivity|lia].
Qed.

Lemma failures_at b thr :
  b_healthy b = true -> b_fails b = 0 -> 1 <= thr ->
  b_healthy (failures (N.to_nat thr) b thr) = false.
Proof.
  intros Hh Hf L. destruct (N.to_nat thr) as [|k] eqn:E; [lia|].
  destruct (failures_below b thr k Hh Hf) as [I1 I2]; [lia|].
  cbn [failures]. unfold record_failure. rewrite I1, I2. cbn [andb].
  destruct (thr <=? N.of_nat k + 1) eqn:E2; [reflexivity|apply N.leb_gt in E2; lia].
Qed.

Lemma successes_below b thr n :
  b_healthy b = false -> b_succ b = 0 -> N.of_nat n < thr ->
  b_healthy (successes n b thr) = false /\ b_succ (successes n b thr) = N.of_nat n.
Proof.
  intros Hh Hf. induction n as [|k IH]; intros L; [cbn; auto|].
  destruct IH as [I1 I2]; [lia|]. cbn [successes]. unfold record_success. rewrite I1, I2. cbn [negb andb].
  destruct (thr <=? N.of_nat k + 1) eqn:E; [apply N.leb_le in E; lia|].
  cbn. split; [reflexivity|lia].
Qed.

Lemma successes_at b thr :
  b_healthy b = false -> b_succ b = 0 -> 1 <= thr ->
  b_healthy (successes (N.to_nat thr) b thr) = true.
Proof.
  intros Hh Hf L. destruct (N.to_nat thr) as [|k] eqn:E; [lia|].
  destruct (successes_below b thr k Hh Hf) as [I1 I2]; [lia|].
  cbn [successes]. unfold record_success. rewrite I1, I2. cbn [negb andb].
  destruct (thr <=? N.of_nat k + 1) eqn:E2; [reflexivity|apply N.leb_gt in E2; lia].
Qed.

Lemma success_resets_failures b thr : b_fails (fst (record_success b thr)) = 0.
Proof. unfold record_success. destruct (_ && _); reflexivity. Qed.
Lemma failure_resets_successes b thr : b_succ (fst (record_failure b thr)) = 0.
Proof. unfold record_failure. destruct (_ && _); reflexivity. Qed.

(* ------------------------------------------------------------------ *)
(** * One probe per backend *)

Definition probe_key (p : probe) : nat * N * N := (p_c p, p_id p, p_addr p).
Definition list_wf (s : state) (c : nat) : Prop := NoDup (map (bkey s) (c_list (cget s c))).

Lemma nodup_app {A} (l1 l2 : list A) :
  NoDup l1 -> NoDup l2 -> (forall x, In x l1 -> ~ In x l2) -> NoDup (l1 ++ l2).
Proof.
  induction l1 as [|a t IH]; intros N1 N2 D; [exact N2|].
  inversion N1; subst. cbn. constructor.
  - intros H. apply in_app_or in H. destruct H as [H|H]; [tauto|]. apply (D a); [left; reflexivity|exact H].
  - apply IH; auto. intros x Hx. apply D. right. exact Hx.
Qed.

Lemma nodup_map_filter {A B} (f : A -> B) g (l : list A) : NoDup (map f l) -> NoDup (map f (filter g l)).
Proof.
  induction l as [|a t IH]; intros N; [constructor|]. cbn in N. inversion N; subst. cbn.
  destruct (g a); [|auto]. cbn. constructor; [|auto].
  intros H. apply H1. apply in_map_iff in H. destruct H as (x & E & Hx). apply filter_In in Hx.
  apply in_map_iff. exists x. tauto.
Qed.

Lemma nodup_map_inj {A B C} (f : A -> B) (g : B -> C) l :
  (forall x y, g x = g y -> x = y) -> NoDup (map f l) -> NoDup (map (fun a => g (f a)) l).
Proof.
  intros Inj. induction l as [|a t IH]; intros N; [constructor|]. cbn in N. inversion N; subst. cbn.
  constructor; [|auto]. intros H. apply H1. apply in_map_iff in H. destruct H as (x & E & Hx).
  apply Inj in E. apply in_map_iff. exists x. split; [exact E|exact Hx].
Qed.

Lemma initiate_nodup h s c :
  list_wf s c -> NoDup (map probe_key (hc_inflight h)) -> NoDup (map probe_key (hc_inflight (initiate_cluster h s c))).
Proof.
  intros W N. unfold initiate_cluster. destruct (nth c (hc_cfg h) None) as [cf|]; [|exact N].
  destruct (negb _); [exact N|].
  set (todo := filter _ (c_list (cget s c))).
  assert (T : forall hd, In hd todo -> in_flight_for h c (b_id (hget (s_heap s) hd)) = false).
  { intros hd H. apply filter_In in H. destruct H as [_ H]. apply andb_prop in H. destruct H as [_ H].
    apply negb_true_iff in H. exact H. }
  assert (NT : NoDup (map (bkey s) todo)) by (apply nodup_map_filter; exact W).
  clearbody todo. destruct todo as [|x t] eqn:ET; [exact N|]. rewrite <- ET in *. clear ET.
  cbn [hc_inflight]. rewrite map_app, map_map. apply nodup_app; [exact N| |].
  - apply (nodup_map_inj (bkey s) (fun k => (c, fst k, snd k))); [|exact NT].
    intros [a1 a2] [b1 b2] E. cbn in E. congruence.
  - intros k H1 H2. apply in_map_iff in H1. destruct H1 as (p & E1 & Hp).
    apply in_map_iff in H2. destruct H2 as (hd & E2 & Hh). cbn [probe_key p_c p_id p_addr] in E2.
    specialize (T hd Hh). unfold in_flight_for in T.
    assert (X : existsb (fun p0 => (p_c p0 =? c)%nat && (p_id p0 =? b_id (hget (s_heap s) hd))) (hc_inflight h) = true).
    { apply existsb_exists. exists p. split; [exact Hp|]. unfold probe_key in E1. rewrite <- E2 in E1.
      inversion E1. rewrite Nat.eqb_refl, N.eqb_refl. reflexivity. }
    congruence.
Qed.

Lemma progress_nodup h s :
  NoDup (map probe_key (hc_inflight h)) -> NoDup (map probe_key (hc_inflight (fst (progress_timeouts h s)))).
Proof. intros N. unfold progress_timeouts. cbn [fst hc_inflight]. apply nodup_map_filter. exact N. Qed.

Lemma resolve_nodup h s :
  NoDup (map probe_key (hc_inflight h)) -> NoDup (map probe_key (hc_inflight (fst (resolve h s)))).
Proof. intros N. unfold resolve. cbn [fst hc_inflight]. apply nodup_map_filter. exact N. Qed.

Lemma poll_nodup h s :
  list_wf s 0%nat -> list_wf s 1%nat ->
  NoDup (map probe_key (hc_inflight h)) -> NoDup (map probe_key (hc_inflight (fst (hc_poll h s)))).
Proof.
  intros W0 W1 N. unfold hc_poll.
  assert (G : NoDup (map probe_key (hc_inflight (fst (progress_timeouts (initiate_cluster (initiate_cluster h s 0) s 1) s))))).
  { apply progress_nodup, initiate_nodup; [exact W1|]. apply initiate_nodup; assumption. }
  destruct (hc_inflight h) eqn:E; [|exact G].
  destruct (hc_cfg h) as [|[c0|] [|[c1|] [|x y]]]; try exact G. cbn [fst]. rewrite E. constructor.
Qed.

Lemma list_wf_frame s s' c : same_frame s s' -> list_wf s c -> list_wf s' c.
Proof.
  intros (A & _ & B) W. unfold list_wf, cget in *. rewrite A.
  rewrite (map_ext (bkey s') (bkey s)); [exact W|exact B].
Qed.

Lemma pump_nodup h s :
  list_wf s 0%nat -> list_wf s 1%nat ->
  NoDup (map probe_key (hc_inflight h)) -> NoDup (map probe_key (hc_inflight (fst (pump h s)))).
Proof.
  intros W0 W1 N. unfold pump.
  destruct (hc_poll h s) as [h1 s1] eqn:E1. destruct (resolve h1 s1) as [h2 s2] eqn:E2.
  destruct (hc_poll h2 s2) as [h3 s3] eqn:E3. destruct (resolve h3 s3) as [h4 s4] eqn:E4.
  destruct (hc_poll h4 s4) as [h5 s5] eqn:E5.
  pose proof (poll_frame h s) as F1. rewrite E1 in F1. cbn [snd] in F1.
  pose proof (resolve_frame h1 s1) as F2. rewrite E2 in F2. cbn [snd] in F2.
  pose proof (poll_frame h2 s2) as F3. rewrite E3 in F3. cbn [snd] in F3.
  pose proof (resolve_frame h3 s3) as F4. rewrite E4 in F4. cbn [snd] in F4.
  pose proof (same_frame_trans _ _ _ F1 F2) as G2.
  pose proof (same_frame_trans _ _ _ (same_frame_trans _ _ _ G2 F3) F4) as G4.
  pose proof (poll_nodup h s W0 W1 N) as N1. rewrite E1 in N1. cbn [fst] in N1.
  pose proof (resolve_nodup h1 s1 N1) as N2. rewrite E2 in N2. cbn [fst] in N2.
  pose proof (poll_nodup h2 s2 (list_wf_frame _ _ _ G2 W0) (list_wf_frame _ _ _ G2 W1) N2) as N3.
  rewrite E3 in N3. cbn [fst] in N3.
  pose proof (resolve_nodup h3 s3 N3) as N4. rewrite E4 in N4. cbn [fst] in N4.
  pose proof (poll_nodup h4 s4 (list_wf_frame _ _ _ G4 W0) (list_wf_frame _ _ _ G4 W1) N4) as N5.
  rewrite E5 in N5. cbn [fst] in N5.
  apply resolve_nodup. exact N5.
Qed.

Lemma remove_nodup h s c :
  NoDup (map probe_key (hc_inflight h)) -> NoDup (map probe_key (hc_inflight (fst (hc_remove h s c)))).
Proof. intros N. unfold hc_remove. cbn [fst hc_inflight]. apply nodup_map_filter. exact N. Qed.

(* ------------------------------------------------------------------ *)
(** * A backend that is gone is never marked *)

Lemma record_result_gone s c a v cf : find_backend s c a = None -> record_result s c a v cf = s.
Proof. intros H. unfold record_result. rewrite H. reflexivity. Qed.

(** … and a verdict touches no backend object other than the one found in the
    cluster's list under the probe's address *)
Lemma record_result_only_found s c a v cf hd :
  (hd < length (s_heap s))%nat -> find_backend s c a <> Some hd ->
  hget (s_heap (record_result s c a v cf)) hd = hget (s_heap s) hd.
Proof.
  intros L H. unfold record_result. destruct (find_backend s c a) as [h|]; [|reflexivity].
  rewrite on_handle_get by exact L.
  destruct (h =? hd)%nat eqn:E; [apply Nat.eqb_eq in E; congruence|].
  rewrite andb_false_r. reflexivity.
Qed.

Lemma remove_drops_probes h s c p : In p (hc_inflight (fst (hc_remove h s c))) -> p_c p <> c.
Proof.
  unfold hc_remove. cbn [fst hc_inflight]. intros H. apply filter_In in H. destruct H as [_ H].
  apply negb_true_iff, Nat.eqb_neq in H. exact H.
Qed.

(* ------------------------------------------------------------------ *)
(** * Over histories *)

Lemma pump_frame h s : same_frame s (snd (pump h s)).
Proof.
  unfold pump.
  destruct (hc_poll h s) as [h1 s1] eqn:E1. destruct (resolve h1 s1) as [h2 s2] eqn:E2.
  destruct (hc_poll h2 s2) as [h3 s3] eqn:E3. destruct (resolve h3 s3) as [h4 s4] eqn:E4.
  destruct (hc_poll h4 s4) as [h5 s5] eqn:E5.
  pose proof (poll_frame h s) as F1. rewrite E1 in F1. cbn [snd] in F1.
  pose proof (resolve_frame h1 s1) as F2. rewrite E2 in F2. cbn [snd] in F2.
  pose proof (poll_frame h2 s2) as F3. rewrite E3 in F3. cbn [snd] in F3.
  pose proof (resolve_frame h3 s3) as F4. rewrite E4 in F4. cbn [snd] in F4.
  pose proof (poll_frame h4 s4) as F5. rewrite E5 in F5. cbn [snd] in F5.
  pose proof (resolve_frame h5 s5) as F6.
  eapply same_frame_trans; [|exact F6]. eapply same_frame_trans; [|exact F5].
  eapply same_frame_trans; [|exact F4]. eapply same_frame_trans; [|exact F3].
  eapply same_frame_trans; [exact F1|exact F2].
Qed.

(** no checker, no probes *)
Definition unmade_empty (sh : state * hc) : Prop := hc_made (snd sh) = false -> hc_inflight (snd sh) = [].

Lemma hstep_unmade sh o : unmade_empty sh -> unmade_empty (hstep sh o).
Proof.
  destruct sh as [s h]. unfold unmade_empty. cbn [snd]. intros I.
  destruct o; cbn [hstep snd hc_set_kind hc_set_config hc_made hc_inflight]; try exact I.
  - discriminate.
  - unfold hc_remove. cbn [snd hc_made hc_inflight]. intros M. rewrite (I M). reflexivity.
  - destruct (hc_made h) eqn:M; [|cbn [snd]; intros _; apply I; reflexivity].
    destruct (pump h s) as [h' s'] eqn:E. cbn [snd]. intros M'.
    assert (X : hc_made h' = hc_made h).
    { pose proof (f_equal fst E) as Q. cbn [fst] in Q. rewrite <- Q. unfold pump.
      assert (P : forall h0 s0, hc_made (fst (hc_poll h0 s0)) = hc_made h0).
      { intros h0 s0. unfold hc_poll.
        assert (IN : forall h1 c, hc_made (initiate_cluster h1 s0 c) = hc_made h1).
        { intros h1 c. unfold initiate_cluster. destruct (nth c (hc_cfg h1) None); [|reflexivity].
          destruct (negb _); [reflexivity|]. destruct (filter _ _); reflexivity. }
        assert (G : hc_made (fst (progress_timeouts (initiate_cluster (initiate_cluster h0 s0 0) s0 1) s0)) = hc_made h0).
        { unfold progress_timeouts. cbn [fst hc_made]. rewrite IN, IN. reflexivity. }
        destruct (hc_inflight h0); [|exact G].
        destruct (hc_cfg h0) as [|[c0|] [|[c1|] [|x y]]]; try exact G. reflexivity. }
      assert (R : forall h0 s0, hc_made (fst (resolve h0 s0)) = hc_made h0) by reflexivity.
      destruct (hc_poll h s) as [h1 s1] eqn:E1. destruct (resolve h1 s1) as [h2 s2] eqn:E2.
      destruct (hc_poll h2 s2) as [h3 s3] eqn:E3. destruct (resolve h3 s3) as [h4 s4] eqn:E4.
      destruct (hc_poll h4 s4) as [h5 s5] eqn:E5.
      rewrite R. change h5 with (fst (h5, s5)). rewrite <- E5, P.
      change h4 with (fst (h4, s4)). rewrite <- E4, R.
      change h3 with (fst (h3, s3)). rewrite <- E3, P.
      change h2 with (fst (h2, s2)). rewrite <- E2, R.
      change h1 with (fst (h1, s1)). rewrite <- E1, P. reflexivity. }
    congruence.
Qed.

Lemma hrun_unmade_from ops : forall sh, unmade_empty sh -> unmade_empty (fold_left hstep ops sh).
Proof. induction ops as [|o t IH]; intros sh I; cbn [fold_left]; [exact I|]. apply IH, hstep_unmade, I. Qed.

Lemma hrun_unmade ops : unmade_empty (hrun ops).
Proof. apply hrun_unmade_from. intros _. reflexivity. Qed.

Lemma after_pump_only_pending ops q :
  let sh := hrun (ops ++ [HPump]) in
  In q (hc_inflight (snd sh)) -> timed_out (s_now (fst sh)) q = false /\ verdict q = None.
Proof.
  unfold hrun. rewrite fold_left_app. cbn [fold_left].
  pose proof (hrun_unmade ops) as U. unfold hrun in U.
  destruct (fold_left hstep ops (init, hc_init)) as [s h]. unfold unmade_empty in U. cbn [snd] in U.
  cbn [hstep]. destruct (hc_made h) eqn:M.
  - pose proof (pump_leaves_only_pending h s q) as P. pose proof (pump_frame h s) as F.
    destruct (pump h s) as [h' s']. cbn [fst snd] in *. destruct F as (_ & N & _). rewrite N. exact P.
  - cbn [snd]. rewrite (U eq_refl). intros [].
Qed.

(** a verdict moves the counters of the backend found under the probe's address
    by the threshold rule, with the thresholds of the probe's configuration *)
Lemma record_result_applies s c a v cf hd :
  find_backend s c a = Some hd -> (hd < length (s_heap s))%nat ->
  hget (s_heap (record_result s c a v cf)) hd =
  fst (if v then record_success (hget (s_heap s) hd) (h_hthr cf) else record_failure (hget (s_heap s) hd) (h_uthr cf)).
Proof.
  intros F L. unfold record_result. rewrite F. rewrite on_handle_get by exact L.
  apply Nat.ltb_lt in L. rewrite L, Nat.eqb_refl. reflexivity.
Qed.
