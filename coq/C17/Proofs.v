(** C17 — lemmas. *)
From Coq Require Import List Arith NArith ZArith Bool Lia.
From SV Require Import Common.Trie Common.TrieProofs C17.Model.
Import ListNotations.

(** ** sorted candidate lists *)
Fixpoint sorted (l : list entry) : Prop :=
  match l with
  | [] => True
  | x :: r => (forall y, In y r -> (snd x <= snd y)%Z) /\ sorted r
  end.

Lemma ins_sorted_In x l y : In y (ins_sorted x l) <-> y = x \/ In y l.
Proof.
  induction l as [|z r IH]; cbn [ins_sorted In]; [intuition|].
  destruct (snd x <? snd z)%Z; cbn [In]; rewrite ?IH; intuition.
Qed.

Lemma ins_sorted_sorted x l : sorted l -> sorted (ins_sorted x l).
Proof.
  induction l as [|z r IH]; cbn [ins_sorted sorted]; intros H; [split; [intros y []|exact I]|].
  destruct H as [Hz Hr]. destruct (snd x <? snd z)%Z eqn:E.
  - apply Z.ltb_lt in E. cbn [sorted]. split; [|split; assumption].
    intros y [<-|Hy]; [lia|]. specialize (Hz y Hy). lia.
  - apply Z.ltb_ge in E. cbn [sorted]. split; [|apply IH; exact Hr].
    intros y Hy. apply ins_sorted_In in Hy. destruct Hy as [->|Hy]; [exact E|apply Hz; exact Hy].
Qed.

Lemma fold_ins_In l : forall acc y,
    In y (fold_left (fun a x => ins_sorted x a) l acc) <-> In y acc \/ In y l.
Proof.
  induction l as [|x l IH]; intros acc y; cbn [fold_left In]; [intuition|].
  rewrite IH, ins_sorted_In. intuition.
Qed.
Lemma fold_ins_sorted l : forall acc, sorted acc -> sorted (fold_left (fun a x => ins_sorted x a) l acc).
Proof. induction l as [|x l IH]; intros acc H; cbn [fold_left]; [exact H|]. apply IH, ins_sorted_sorted, H. Qed.

Lemma stable_sort_In l y : In y (stable_sort l) <-> In y l.
Proof. unfold stable_sort. rewrite fold_ins_In. cbn [In]. intuition. Qed.
Lemma stable_sort_sorted l : sorted (stable_sort l).
Proof. apply fold_ins_sorted. exact I. Qed.

Lemma filter_sorted f l : sorted l -> sorted (filter f l).
Proof.
  induction l as [|x r IH]; cbn [filter sorted]; [auto|]. intros [Hx Hr].
  destruct (f x); cbn [sorted]; [split|]; auto. intros y Hy. apply filter_In in Hy. apply Hx, Hy.
Qed.

Lemma last_opt_nil {A} (l : list A) : last_opt l = None <-> l = [].
Proof.
  unfold last_opt. destruct l as [|a l]; [cbn; tauto|].
  destruct (rev (a :: l)) eqn:E; [|split; discriminate].
  apply (f_equal (@length A)) in E. rewrite rev_length in E. discriminate.
Qed.
Lemma last_opt_In {A} (l : list A) x : last_opt l = Some x -> In x l.
Proof.
  unfold last_opt. destruct (rev l) eqn:E; [discriminate|]. intros H; inversion H; subst.
  apply in_rev. rewrite E. left; reflexivity.
Qed.
Lemma last_opt_app {A} (l : list A) x : last_opt (l ++ [x]) = Some x.
Proof. unfold last_opt. rewrite rev_app_distr. reflexivity. Qed.

Lemma sorted_last_max l x : sorted l -> last_opt l = Some x -> forall y, In y l -> (snd y <= snd x)%Z.
Proof.
  induction l as [|z r IH]; intros S L y Hy; [destruct Hy|].
  destruct S as [Hz Hr]. destruct r as [|z' r'].
  - cbn in L. inversion L; subst. destruct Hy as [<-|[]]. lia.
  - assert (L' : last_opt (z' :: r') = Some x).
    { unfold last_opt in *. cbn [rev] in *. destruct (rev r' ++ [z']) eqn:E.
      - apply (f_equal (@length entry)) in E. rewrite app_length in E. cbn in E. lia.
      - cbn [app] in L. exact L. }
    destruct Hy as [<-|Hy].
    + apply Hz. apply last_opt_In. exact L'.
    + apply IH; assumption.
Qed.

(** ** association-list helpers *)
Lemma aget_aput_same {A} k (a : A) l : aget k (aput k a l) = Some a.
Proof.
  unfold aput. destruct (aget k l) eqn:E.
  - apply aget_aset_same. congruence.
  - rewrite aget_app, E. cbn [aget]. rewrite beq_refl. reflexivity.
Qed.
Lemma aget_aput_other {A} k k' (a : A) l : k' <> k -> aget k' (aput k a l) = aget k' l.
Proof.
  intros NE. unfold aput. destruct (aget k l) eqn:E.
  - apply aget_aset_other; exact NE.
  - rewrite aget_app. destruct (aget k' l); [reflexivity|]. cbn [aget].
    destruct (beq k' k) eqn:E'; [apply beq_eq in E'; congruence|reflexivity].
Qed.

(** ** the three structures *)
Section Inv.
  Variable re_ok : bytes -> bool.
  Variable re_match : bytes -> bytes -> bool.
  Notation resolver := resolver.

  Definition idxl (i : list (bytes * list entry)) (n : bytes) : list entry :=
    match aget n i with Some l => l | None => [] end.
  Definition idxf (r : resolver) (n : bytes) : list entry := idxl (idx r) n.
  Definition top (l : list entry) : option bytes := option_map fst (last_opt l).

  (** [three_structures_agree]: the trie maps every name to the last (longest
      lived, latest added among equals) entry of the index; the index of a
      name lists exactly the stored certificates that carry the name, sorted by
      expiration. *)
  Record agree (d : trie bytes) (st : list (bytes * cert)) (i : list (bytes * list entry)) : Prop := {
    ag_wf : wf bytes d;
    ag_trie : forall n, good_key n -> option_map snd (getk bytes re_match d n) = top (idxl i n);
    ag_idx : forall n fp e, In (fp, e) (idxl i n) <->
                            exists c, aget fp st = Some c /\ In n (c_names c) /\ c_exp c = e;
    ag_sorted : forall n, sorted (idxl i n);
    ag_names : forall fp c, aget fp st = Some c -> Forall good_key (c_names c) }.

  Definition three_structures_agree (r : resolver) : Prop := agree (domains r) (store r) (idx r).

  Lemma agree_empty : three_structures_agree empty_resolver.
  Proof.
    constructor; cbn [empty_resolver domains store idx].
    - apply wf_root.
    - intros n G. rewrite getk_cget by (try assumption; apply wf_root).
      rewrite cget_root by (apply canon_good; exact G). reflexivity.
    - intros n fp e. cbn. split; [intros []|intros (c & H & _); discriminate].
    - intros n; exact I.
    - intros fp c H; discriminate.
  Qed.

  (** re-pointing a name *)
  Lemma repoint_same d n f :
    good_key n -> wf bytes d ->
    option_map snd (getk bytes re_match (repoint re_ok d n f) n) = Some f /\ wf bytes (repoint re_ok d n f).
  Proof.
    intros G W. unfold repoint.
    pose proof (wf_remove_k bytes d n G W) as W1.
    pose proof (getk_remove_same bytes re_match d n G W) as N1.
    pose proof (insert_ok_absent bytes re_ok re_match _ n f G W1 N1) as OK.
    pose proof (wf_insert_k bytes re_ok (fst (remove d n)) n f G W1) as W2.
    destruct (insert re_ok (fst (remove d n)) n f) as [t' res] eqn:EI. cbn [snd fst] in *. subst res.
    rewrite (getk_insert_same bytes re_ok re_match _ n f t' G W1 EI). split; [reflexivity|exact W2].
  Qed.
  Lemma repoint_other d n f n' :
    good_key n -> good_key n' -> n <> n' -> wf bytes d ->
    getk bytes re_match (repoint re_ok d n f) n' = getk bytes re_match d n'.
  Proof.
    intros G G' NE W. unfold repoint.
    rewrite getk_insert_other by (auto using wf_remove_k). apply getk_remove_other; assumption.
  Qed.

  Lemma idxl_aput_same n l i : idxl (aput n l i) n = l.
  Proof. unfold idxl. rewrite aget_aput_same. reflexivity. Qed.
  Lemma idxl_aput_other n n' l i : n' <> n -> idxl (aput n l i) n' = idxl i n'.
  Proof. intros NE. unfold idxl. rewrite aget_aput_other by exact NE. reflexivity. Qed.

  (** one iteration of [add_certificate]'s loop, against a store in which the
      new certificate already sits with the names processed so far *)
  Lemma add_name_agree d st i fp e done n :
    aget fp st = None -> good_key n ->
    agree d (st ++ [(fp, mkcert fp done e)]) i ->
    let r1 := add_name re_ok fp e (mkres d [] i) n in
    agree (domains r1) (st ++ [(fp, mkcert fp (done ++ [n]) e)]) (idx r1).
  Proof.
    intros NS G A. destruct A as [W T X S N]. unfold add_name. cbn [idx domains store].
    fold (idxl i n).
    set (l' := stable_sort (idxl i n ++ [(fp, e)])).
    assert (Hin : In (fp, e) l') by (apply stable_sort_In, in_or_app; right; left; reflexivity).
    destruct (last_opt l') as [[f ef]|] eqn:EL; [|apply last_opt_nil in EL; rewrite EL in Hin; destruct Hin].
    cbn [domains idx]. destruct (repoint_same d n f G W) as [RS RW].
    assert (STORE : forall fp' c', aget fp' (st ++ [(fp, mkcert fp (done ++ [n]) e)]) = Some c' <->
                                   (aget fp' st = Some c') \/ (aget fp' st = None /\ fp' = fp /\ c' = mkcert fp (done ++ [n]) e)).
    { intros fp' c'. rewrite aget_app. destruct (aget fp' st) eqn:E1.
      - split; [auto|intros [H|(H & _)]; congruence].
      - cbn [aget]. destruct (beq fp' fp) eqn:E2.
        + apply beq_eq in E2. subst fp'. split; [intros H; inversion H; auto|intros [H|(_ & _ & ->)]; congruence].
        + apply beq_neq in E2. split; [discriminate|intros [H|(_ & H & _)]; congruence]. }
    assert (STORE0 : forall fp' c', aget fp' (st ++ [(fp, mkcert fp done e)]) = Some c' <->
                                    (aget fp' st = Some c') \/ (aget fp' st = None /\ fp' = fp /\ c' = mkcert fp done e)).
    { intros fp' c'. rewrite aget_app. destruct (aget fp' st) eqn:E1.
      - split; [auto|intros [H|(H & _)]; congruence].
      - cbn [aget]. destruct (beq fp' fp) eqn:E2.
        + apply beq_eq in E2. subst fp'. split; [intros H; inversion H; auto|intros [H|(_ & _ & ->)]; congruence].
        + apply beq_neq in E2. split; [discriminate|intros [H|(_ & H & _)]; congruence]. }
    constructor.
    - exact RW.
    - intros n' G'. destruct (beq n' n) eqn:En.
      + apply beq_eq in En; subst n'. rewrite RS, idxl_aput_same. unfold top. rewrite EL. reflexivity.
      + apply beq_neq in En. rewrite repoint_other by (auto; congruence).
        rewrite idxl_aput_other by exact En. apply T; exact G'.
    - intros n' fp' e'. destruct (beq n' n) eqn:En.
      + apply beq_eq in En; subst n'. rewrite idxl_aput_same. unfold l'. rewrite stable_sort_In, in_app_iff.
        cbn [In]. rewrite X. split.
        * intros [(c & Hc & Hn & He)|[Heq|[]]].
          -- apply STORE0 in Hc. destruct Hc as [Hc|(Hc & -> & ->)].
             ++ exists c. split; [apply STORE; auto|auto].
             ++ exists (mkcert fp (done ++ [n]) e). split; [apply STORE; auto|].
                cbn [c_names c_exp] in *. split; [apply in_or_app; auto|exact He].
          -- injection Heq as <- <-. exists (mkcert fp (done ++ [n]) e). split; [apply STORE; auto|].
             cbn [c_names c_exp]. split; [apply in_or_app; right; left; reflexivity|reflexivity].
        * intros (c & Hc & Hn & He). apply STORE in Hc. destruct Hc as [Hc|(Hc & -> & ->)].
          -- left. exists c. split; [apply STORE0; auto|auto].
          -- cbn [c_names c_exp] in *. subst e'. right; left; reflexivity.
      + apply beq_neq in En. rewrite idxl_aput_other by exact En. rewrite X. split.
        * intros (c & Hc & Hn & He). apply STORE0 in Hc. destruct Hc as [Hc|(Hc & -> & ->)].
          -- exists c. split; [apply STORE; auto|auto].
          -- exists (mkcert fp (done ++ [n]) e). split; [apply STORE; auto|].
             cbn [c_names c_exp] in *. split; [apply in_or_app; auto|exact He].
        * intros (c & Hc & Hn & He). apply STORE in Hc. destruct Hc as [Hc|(Hc & -> & ->)].
          -- exists c. split; [apply STORE0; auto|auto].
          -- exists (mkcert fp done e). split; [apply STORE0; auto|].
             cbn [c_names c_exp] in *. apply in_app_or in Hn. destruct Hn as [Hn|[Hn|[]]]; [auto|congruence].
    - intros n'. destruct (beq n' n) eqn:En.
      + apply beq_eq in En; subst n'. rewrite idxl_aput_same. apply stable_sort_sorted.
      + apply beq_neq in En. rewrite idxl_aput_other by exact En. apply S.
    - intros fp' c' Hc. apply STORE in Hc. destruct Hc as [Hc|(Hc & -> & ->)].
      + apply (N fp' c'). apply STORE0; auto.
      + cbn [c_names]. apply Forall_app. split; [|constructor; [exact G|constructor]].
        apply (N fp (mkcert fp done e)). apply STORE0; auto.
  Qed.

  Lemma add_name_store fp e d st i n :
    add_name re_ok fp e (mkres d st i) n =
    mkres (domains (add_name re_ok fp e (mkres d [] i) n)) st (idx (add_name re_ok fp e (mkres d [] i) n)).
  Proof.
    unfold add_name. cbn [idx domains store].
    destruct (last_opt (stable_sort (match aget n i with Some l => l | None => [] end ++ [(fp, e)]))) as [[f ef]|];
      reflexivity.
  Qed.

  Lemma add_names_agree fp e st names : forall done d i,
      aget fp st = None -> Forall good_key names ->
      agree d (st ++ [(fp, mkcert fp done e)]) i ->
      let r' := fold_left (add_name re_ok fp e) names (mkres d st i) in
      agree (domains r') (st ++ [(fp, mkcert fp (done ++ names) e)]) (idx r') /\ store r' = st.
  Proof.
    induction names as [|n names IH]; intros done d i NS G A; cbn [fold_left].
    - rewrite app_nil_r. split; [exact A|reflexivity].
    - inversion G as [|? ? Gn Gr]; subst. rewrite add_name_store.
      pose proof (add_name_agree d st i fp e done n NS Gn A) as A1. cbv zeta in A1.
      specialize (IH (done ++ [n]) _ _ NS Gr A1). cbv zeta in IH. rewrite <- app_assoc in IH. exact IH.
  Qed.

  Lemma agree_pending d st i fp e :
    agree d st i -> aget fp st = None -> agree d (st ++ [(fp, mkcert fp [] e)]) i.
  Proof.
    intros [W T X S N] NS. constructor; auto.
    - intros n fp' e'. rewrite X. split; intros (c & Hc & Hn & He).
      + exists c. rewrite aget_app, Hc. auto.
      + rewrite aget_app in Hc. destruct (aget fp' st) eqn:E1; [exists c0; inversion Hc; subst; auto|].
        cbn [aget] in Hc. destruct (beq fp' fp); [|discriminate]. inversion Hc; subst. destruct Hn.
    - intros fp' c Hc. rewrite aget_app in Hc. destruct (aget fp' st) eqn:E1; [inversion Hc; subst; eauto|].
      cbn [aget] in Hc. destruct (beq fp' fp); [|discriminate]. inversion Hc; subst. constructor.
  Qed.

  Lemma add_cert_agree r c :
    three_structures_agree r -> Forall good_key (c_names c) -> three_structures_agree (add_cert re_ok r c).
  Proof.
    intros A G. unfold add_cert. destruct (aget (c_fp c) (store r)) eqn:E; cbn [is_some]; [exact A|].
    destruct r as [d st i]. destruct c as [fp names e]. cbn [c_fp c_names c_exp store domains idx] in *.
    unfold three_structures_agree in *. cbn [store domains idx] in *.
    pose proof (add_names_agree fp e st names [] d i E G (agree_pending d st i fp e A E)) as H. cbv zeta in H.
    destruct H as [H1 H2]. rewrite H2. cbn [app] in H1. exact H1.
  Qed.

  (** removal *)
  Lemma remove_name_store fp d st i n :
    remove_name re_ok fp (mkres d st i) n =
    mkres (domains (remove_name re_ok fp (mkres d [] i) n)) st (idx (remove_name re_ok fp (mkres d [] i) n)).
  Proof. unfold remove_name. cbn [idx domains store]. destruct (aget n i); reflexivity. Qed.

  Definition drop_name (n : bytes) (names : list bytes) : list bytes := filter (fun x => negb (beq x n)) names.

  Lemma In_drop_name n names x : In x (drop_name n names) <-> In x names /\ x <> n.
  Proof. unfold drop_name. rewrite filter_In, negb_true_iff, beq_neq. tauto. Qed.

  Lemma remove_name_agree d st i fp names_v e n :
    agree d st i -> aget fp st = Some (mkcert fp names_v e) -> good_key n ->
    let r1 := remove_name re_ok fp (mkres d [] i) n in
    agree (domains r1) (aset fp (mkcert fp (drop_name n names_v) e) st) (idx r1).
  Proof.
    intros [W T X S N] HS G. cbv zeta.
    set (l' := filter (fun en : entry => negb (beq (fst en) fp)) (idxl i n)).
    set (d1 := fst (remove d n)).
    set (d2 := match last_opt l' with Some (f, _) => fst (insert re_ok d1 n f) | None => d1 end).
    set (i2 := match aget n i with Some _ => if is_nil l' then adel n i else aset n l' i | None => i end).
    assert (ER : remove_name re_ok fp (mkres d [] i) n = mkres d2 [] i2).
    { unfold remove_name, d2, i2, d1, l', idxl. cbn [idx domains store]. destruct (aget n i); [reflexivity|].
      cbn [filter last_opt rev]. reflexivity. }
    rewrite ER. cbn [domains idx].
    assert (W1 : wf bytes d1) by (apply wf_remove_k; assumption).
    assert (I2n : idxl i2 n = l').
    { unfold i2, idxl. destruct (aget n i) as [l|] eqn:E.
      - destruct (is_nil l') eqn:EN.
        + rewrite aget_adel_same. destruct l'; [reflexivity|discriminate].
        + rewrite aget_aset_same by congruence. reflexivity.
      - rewrite E. unfold l', idxl. rewrite E. reflexivity. }
    assert (I2o : forall n', n' <> n -> idxl i2 n' = idxl i n').
    { intros n' NE. unfold i2, idxl. destruct (aget n i) as [l|]; [|reflexivity].
      destruct (is_nil l'); [rewrite aget_adel_other by exact NE|rewrite aget_aset_other by exact NE]; reflexivity. }
    assert (D2 : wf bytes d2 /\ option_map snd (getk bytes re_match d2 n) = top l' /\
                 forall n', good_key n' -> n' <> n -> getk bytes re_match d2 n' = getk bytes re_match d n').
    { unfold d2, top. destruct (last_opt l') as [[f ef]|] eqn:EL; cbn [option_map fst].
      - pose proof (getk_remove_same bytes re_match d n G W) as N1. fold d1 in N1.
        pose proof (insert_ok_absent bytes re_ok re_match d1 n f G W1 N1) as OK.
        pose proof (wf_insert_k bytes re_ok d1 n f G W1) as W2.
        destruct (insert re_ok d1 n f) as [t' res] eqn:EI. cbn [snd fst] in *. subst res.
        split; [exact W2|]. split.
        + rewrite (getk_insert_same bytes re_ok re_match d1 n f t' G W1 EI). reflexivity.
        + intros n' G' NE. pose proof (getk_insert_other bytes re_ok re_match d1 n n' f G G' ltac:(congruence) W1) as O.
          rewrite EI in O. cbn [fst] in O. rewrite O. unfold d1. apply getk_remove_other; auto.
      - split; [exact W1|]. split.
        + unfold d1. rewrite getk_remove_same by assumption. reflexivity.
        + intros n' G' NE. unfold d1. apply getk_remove_other; auto. }
    destruct D2 as (W2 & T2 & O2).
    assert (ST : forall fp' c', aget fp' (aset fp (mkcert fp (drop_name n names_v) e) st) = Some c' <->
                 (fp' = fp /\ c' = mkcert fp (drop_name n names_v) e) \/ (fp' <> fp /\ aget fp' st = Some c')).
    { intros fp' c'. destruct (beq fp' fp) eqn:E.
      - apply beq_eq in E; subst fp'. rewrite aget_aset_same by congruence.
        split; [intros H; inversion H; auto|intros [[_ ->]|[H _]]; congruence].
      - apply beq_neq in E. rewrite aget_aset_other by exact E.
        split; [auto|intros [[H _]|[_ H]]; congruence]. }
    constructor.
    - exact W2.
    - intros n' G'. destruct (beq n' n) eqn:En.
      + apply beq_eq in En; subst n'. rewrite I2n. exact T2.
      + apply beq_neq in En. rewrite O2, I2o by assumption. apply T; exact G'.
    - intros n' fp' e'. destruct (beq n' n) eqn:En.
      + apply beq_eq in En; subst n'. rewrite I2n. unfold l'. rewrite filter_In. cbn [fst].
        rewrite negb_true_iff, beq_neq, X. split.
        * intros [(c & Hc & Hn & He) NE]. exists c. split; [apply ST; auto|auto].
        * intros (c & Hc & Hn & He). apply ST in Hc. destruct Hc as [[-> ->]|[NE Hc]].
          -- cbn [c_names] in Hn. apply In_drop_name in Hn. destruct Hn as [_ Hn]. congruence.
          -- split; [exists c; auto|exact NE].
      + apply beq_neq in En. rewrite I2o by exact En. rewrite X. split.
        * intros (c & Hc & Hn & He). destruct (beq fp' fp) eqn:Ef.
          -- apply beq_eq in Ef; subst fp'. rewrite HS in Hc. inversion Hc; subst c. cbn [c_names c_exp] in *.
             exists (mkcert fp (drop_name n names_v) e). split; [apply ST; auto|].
             cbn [c_names c_exp]. split; [apply In_drop_name; auto|exact He].
          -- apply beq_neq in Ef. exists c. split; [apply ST; auto|auto].
        * intros (c & Hc & Hn & He). apply ST in Hc. destruct Hc as [[-> ->]|[NE Hc]].
          -- cbn [c_names c_exp] in *. apply In_drop_name in Hn. exists (mkcert fp names_v e).
             split; [exact HS|]. cbn [c_names c_exp]. tauto.
          -- exists c; auto.
    - intros n'. destruct (beq n' n) eqn:En.
      + apply beq_eq in En; subst n'. rewrite I2n. apply filter_sorted, S.
      + apply beq_neq in En. rewrite I2o by exact En. apply S.
    - intros fp' c' Hc. apply ST in Hc. destruct Hc as [[-> ->]|[NE Hc]]; [|eauto].
      cbn [c_names]. pose proof (N fp _ HS) as F. cbn [c_names] in F.
      rewrite Forall_forall in *. intros x Hx. apply In_drop_name in Hx. apply F, Hx.
  Qed.

  Lemma remove_names_agree fp e todo : forall names_v d st i,
      agree d st i -> aget fp st = Some (mkcert fp names_v e) ->
      Forall good_key todo -> (forall x, In x names_v -> In x todo) ->
      let r' := fold_left (remove_name re_ok fp) todo (mkres d st i) in
      exists st', agree (domains r') st' (idx r') /\ store r' = st /\
                  aget fp st' = Some (mkcert fp [] e) /\
                  (forall fp', fp' <> fp -> aget fp' st' = aget fp' st).
  Proof.
    induction todo as [|n todo IH]; intros names_v d st i A HS G SUB; cbn [fold_left].
    - exists st. split; [exact A|]. split; [reflexivity|]. split; [|auto].
      destruct names_v as [|x xs]; [exact HS|]. destruct (SUB x (or_introl eq_refl)).
    - inversion G as [|? ? Gn Gr]; subst. rewrite remove_name_store.
      pose proof (remove_name_agree d st i fp names_v e n A HS Gn) as A1. cbv zeta in A1.
      set (r1 := remove_name re_ok fp (mkres d [] i) n) in *.
      set (st1 := aset fp (mkcert fp (drop_name n names_v) e) st) in *.
      assert (HS1 : aget fp st1 = Some (mkcert fp (drop_name n names_v) e))
        by (unfold st1; apply aget_aset_same; congruence).
      assert (SUB1 : forall x, In x (drop_name n names_v) -> In x todo).
      { intros x Hx. apply In_drop_name in Hx. destruct Hx as [Hx NE]. destruct (SUB x Hx) as [H|H]; [congruence|exact H]. }
      (* the fold does not read the store: run it on [st1] instead of [st] *)
      assert (FS : forall l d0 i0 sa sb,
                 let ra := fold_left (remove_name re_ok fp) l (mkres d0 sa i0) in
                 let rb := fold_left (remove_name re_ok fp) l (mkres d0 sb i0) in
                 domains ra = domains rb /\ idx ra = idx rb /\ store ra = sa /\ store rb = sb).
      { induction l as [|x l IHl]; intros d0 i0 sa sb; cbn [fold_left]; [auto|].
        rewrite (remove_name_store fp d0 sa i0 x), (remove_name_store fp d0 sb i0 x). apply IHl. }
      destruct (FS todo (domains r1) (idx r1) st st1) as (F1 & F2 & F3 & F4). cbv zeta in *.
      destruct (IH (drop_name n names_v) (domains r1) st1 (idx r1) A1 HS1 Gr SUB1) as (st' & A' & E1 & E2 & E3).
      cbv zeta in *. exists st'. rewrite F1, F2. split; [exact A'|]. split; [exact F3|]. split; [exact E2|].
      intros fp' NE. rewrite E3 by exact NE. unfold st1. apply aget_aset_other; exact NE.
  Qed.

  Lemma remove_cert_agree r fp :
    three_structures_agree r -> (forall c, aget fp (store r) = Some c -> c_fp c = fp) ->
    three_structures_agree (remove_cert re_ok r fp).
  Proof.
    intros A KF. unfold remove_cert. destruct (aget fp (store r)) as [c|] eqn:E; [|exact A].
    destruct r as [d st i]. unfold three_structures_agree in *. cbn [store domains idx] in *.
    specialize (KF c eq_refl). destruct c as [fp0 names e]. cbn [c_fp c_names] in *. subst fp0.
    pose proof (ag_names _ _ _ A fp _ E) as G. cbn [c_names] in G.
    destruct (remove_names_agree fp e names names d st i A E G (fun x H => H)) as (st' & A' & E1 & E2 & E3).
    cbv zeta in *. rewrite E1. destruct A' as [W T X S N]. constructor; auto.
    - intros n fp' e'. rewrite X. split; intros (c & Hc & Hn & He).
      + destruct (beq fp' fp) eqn:Ef.
        * apply beq_eq in Ef; subst fp'. rewrite E2 in Hc. inversion Hc; subst c. destruct Hn.
        * apply beq_neq in Ef. exists c. rewrite aget_adel_other by exact Ef. rewrite <- E3 by exact Ef. auto.
      + destruct (beq fp' fp) eqn:Ef.
        * apply beq_eq in Ef; subst fp'. rewrite aget_adel_same in Hc. discriminate.
        * apply beq_neq in Ef. rewrite aget_adel_other in Hc by exact Ef. exists c. rewrite E3 by exact Ef. auto.
    - intros fp' c Hc. destruct (beq fp' fp) eqn:Ef.
      + apply beq_eq in Ef; subst fp'. rewrite aget_adel_same in Hc. discriminate.
      + apply beq_neq in Ef. rewrite aget_adel_other in Hc by exact Ef. apply (N fp' c). rewrite E3 by exact Ef. exact Hc.
  Qed.
End Inv.

(** ** histories *)
Section Hist.
  Variable re_ok : bytes -> bool.
  Variable re_match : bytes -> bytes -> bool.

  Definition store_keys (r : resolver) : Prop := forall fp c, aget fp (store r) = Some c -> c_fp c = fp.
  Definition good_state (r : resolver) : Prop := three_structures_agree re_match r /\ store_keys r.

  Inductive cop :=
  | CAdd (c : option cert)                       (* [None]: the certificate does not parse *)
  | CDel (fp : bytes)
  | CRep (c : option cert) (old : option bytes). (* [old = None]: unparsable old fingerprint *)

  Definition cstep (r : resolver) (o : cop) : resolver :=
    match o with
    | CAdd None => r
    | CAdd (Some c) => add_cert re_ok r c
    | CDel fp => remove_cert re_ok r fp
    | CRep c old => fst (replace_cert re_ok r c old)
    end.
  Definition crun (h : list cop) : resolver := fold_left cstep h empty_resolver.

  Definition plain_cert (c : option cert) : Prop :=
    match c with Some c => Forall good_key (c_names c) | None => True end.
  Definition plain_cop (o : cop) : Prop :=
    match o with CAdd c => plain_cert c | CDel _ => True | CRep c _ => plain_cert c end.

  Lemma store_keys_add r c : store_keys r -> store_keys (add_cert re_ok r c).
  Proof.
    intros K. unfold add_cert. destruct (aget (c_fp c) (store r)) eqn:E; cbn [is_some]; [exact K|].
    destruct r as [d st i]. destruct c as [fp names e]. cbn [c_fp c_names c_exp store] in *.
    assert (ST : forall names0 d0 i0, store (fold_left (add_name re_ok fp e) names0 (mkres d0 st i0)) = st).
    { induction names0 as [|n names0 IH]; intros d0 i0; cbn [fold_left]; [reflexivity|].
      rewrite add_name_store. apply IH. }
    intros fp' c'. cbn [store]. rewrite ST, aget_app. destruct (aget fp' st) eqn:E1.
    - intros H; inversion H; subst. apply (K fp' c' E1).
    - cbn [aget]. destruct (beq fp' fp) eqn:E2; [|discriminate]. apply beq_eq in E2.
      intros H; inversion H; subst. reflexivity.
  Qed.

  Lemma store_keys_remove r fp : store_keys r -> store_keys (remove_cert re_ok r fp).
  Proof.
    intros K. unfold remove_cert. destruct (aget fp (store r)) as [c|] eqn:E; [|exact K].
    destruct r as [d st i]. cbn [store] in *.
    assert (ST : forall names0 d0 i0, store (fold_left (remove_name re_ok fp) names0 (mkres d0 st i0)) = st).
    { induction names0 as [|n names0 IH]; intros d0 i0; cbn [fold_left]; [reflexivity|].
      rewrite remove_name_store. apply IH. }
    intros fp' c'. cbn [store]. rewrite ST. destruct (beq fp' fp) eqn:E2.
    - apply beq_eq in E2; subst. rewrite aget_adel_same. discriminate.
    - apply beq_neq in E2. rewrite aget_adel_other by exact E2. apply K.
  Qed.

  Lemma good_add r c : good_state r -> Forall good_key (c_names c) -> good_state (add_cert re_ok r c).
  Proof. intros [A K] G. split; [apply add_cert_agree; assumption|apply store_keys_add; exact K]. Qed.
  Lemma good_remove r fp : good_state r -> good_state (remove_cert re_ok r fp).
  Proof.
    intros [A K]. split; [apply remove_cert_agree; [exact A|intros c; apply K]|apply store_keys_remove; exact K].
  Qed.

  Lemma good_step r o : good_state r -> plain_cop o -> good_state (cstep r o).
  Proof.
    intros GS P. destruct o as [[c|]|fp|[c|] old]; cbn [cstep plain_cop plain_cert replace_cert fst] in *; auto.
    - apply good_add; assumption.
    - apply good_remove; assumption.
    - destruct old as [o|]; cbn [fst].
      + destruct (beq o (c_fp c)); cbn [fst]; [exact GS|]. apply good_remove. apply good_add; assumption.
      + apply good_add; assumption.
  Qed.

  Lemma good_run_gen h : forall r, good_state r -> Forall plain_cop h -> good_state (fold_left cstep h r).
  Proof.
    induction h as [|o h IH]; intros r GS P; cbn [fold_left]; [exact GS|].
    inversion P; subst. apply IH; [apply good_step|]; assumption.
  Qed.

  Lemma good_run h : Forall plain_cop h -> good_state (crun h).
  Proof.
    apply good_run_gen. split; [apply agree_empty|]. intros fp c H; discriminate.
  Qed.

  (** *** what is served *)
  Definition carries (st : list (bytes * cert)) (n fp : bytes) (c : cert) : Prop :=
    aget fp st = Some c /\ In n (c_names c).

  (** exact name over wild-card, longest-lived among the certificates carrying
      that name; [None] only when no loaded certificate carries either *)
  Definition is_best_cert (st : list (bytes * cert)) (sni : bytes) (o : option bytes) : Prop :=
    match o with
    | Some fp =>
      exists c n, carries st n fp c /\
                  (n = sni \/ (n = wild_of sni /\ forall fp' c', ~ carries st sni fp' c')) /\
                  forall fp' c', carries st n fp' c' -> (c_exp c' <= c_exp c)%Z
    | None => forall fp c, ~ carries st sni fp c /\ ~ carries st (wild_of sni) fp c
    end.

  Lemma top_best r n :
    three_structures_agree re_match r ->
    match top (idxf r n) with
    | Some fp => exists c, carries (store r) n fp c /\ forall fp' c', carries (store r) n fp' c' -> (c_exp c' <= c_exp c)%Z
    | None => forall fp c, ~ carries (store r) n fp c
    end.
  Proof.
    intros A. unfold top, idxf. destruct (last_opt (idxl (idx r) n)) as [[fp e]|] eqn:EL; cbn [option_map fst].
    - pose proof (last_opt_In _ _ EL) as Hin. apply (ag_idx _ _ _ _ A) in Hin. destruct Hin as (c & Hc & Hn & He).
      exists c. split; [split; assumption|]. intros fp' c' [Hc' Hn'].
      assert (Hin' : In (fp', c_exp c') (idxl (idx r) n)) by (apply (ag_idx _ _ _ _ A); exists c'; auto).
      pose proof (sorted_last_max _ _ (ag_sorted _ _ _ _ A n) EL _ Hin') as M. cbn [snd] in M. lia.
    - apply last_opt_nil in EL. intros fp c [Hc Hn].
      assert (Hin : In (fp, c_exp c) (idxl (idx r) n)) by (apply (ag_idx _ _ _ _ A); exists c; auto).
      rewrite EL in Hin. destruct Hin.
  Qed.

  Lemma resolve_best r sni :
    three_structures_agree re_match r -> good_key sni -> label_of sni <> [STAR] ->
    is_best_cert (store r) sni (option_map snd (resolve re_match r sni)).
  Proof.
    intros A G NS. unfold resolve. rewrite (lookup_getk bytes re_match (domains r) sni G NS (ag_wf _ _ _ _ A)).
    assert (GW : good_key (wild_of sni)) by (apply good_key_wild; apply (good_key_parts sni G)).
    pose proof (ag_trie _ _ _ _ A sni G) as T1. pose proof (ag_trie _ _ _ _ A _ GW) as T2.
    pose proof (top_best r sni A) as B1. pose proof (top_best r (wild_of sni) A) as B2.
    unfold idxf in *.
    destruct (getk bytes re_match (domains r) sni) as [[k fp]|]; cbn [option_map snd] in *.
    - rewrite <- T1 in B1. destruct B1 as (c & C & M). exists c, sni. auto.
    - rewrite <- T1 in B1.
      destruct (getk bytes re_match (domains r) (wild_of sni)) as [[k fp]|]; cbn [option_map snd] in *.
      + rewrite <- T2 in B2. destruct B2 as (c & C & M). exists c, (wild_of sni). auto.
      + rewrite <- T2 in B2. intros fp c. split; [apply B1|apply B2].
  Qed.

  Theorem resolve_refines_best_lemma h sni :
    Forall plain_cop h -> good_key sni -> label_of sni <> [STAR] ->
    is_best_cert (store (crun h)) sni (option_map snd (resolve re_match (crun h) sni)).
  Proof. intros P G NS. apply resolve_best; auto. apply good_run; exact P. Qed.

  (** *** replace *)
  Lemma store_add_mono r c fp c0 :
    aget fp (store r) = Some c0 -> aget fp (store (add_cert re_ok r c)) = Some c0.
  Proof.
    intros H. unfold add_cert. destruct (aget (c_fp c) (store r)) eqn:E; cbn [is_some]; [exact H|].
    destruct r as [d st i]. destruct c as [fp1 names e]. cbn [c_fp c_names c_exp store] in *.
    assert (ST : forall names0 d0 i0, store (fold_left (add_name re_ok fp1 e) names0 (mkres d0 st i0)) = st).
    { induction names0 as [|n names0 IH]; intros d0 i0; cbn [fold_left]; [reflexivity|].
      rewrite add_name_store. apply IH. }
    rewrite ST, aget_app, H. reflexivity.
  Qed.

  Lemma covered_iff r sni :
    three_structures_agree re_match r -> good_key sni -> label_of sni <> [STAR] ->
    (resolve re_match r sni <> None <->
     exists fp c, carries (store r) sni fp c \/ carries (store r) (wild_of sni) fp c).
  Proof.
    intros A G NS. pose proof (resolve_best r sni A G NS) as B.
    destruct (resolve re_match r sni) as [[k fp]|]; cbn [option_map snd is_best_cert] in B.
    - split; [intros _|discriminate]. destruct B as (c & n & C & [->|[-> _]] & _); exists fp, c; auto.
    - split; [congruence|]. intros (fp & c & [C|C]); destruct (B fp c) as [B1 B2]; contradiction.
  Qed.

  (** between the add and the remove of [replace_certificate] every name that
      was covered is still covered, and the three structures agree *)
  Lemma replace_no_gap_lemma r c sni :
    good_state r -> Forall good_key (c_names c) -> good_key sni -> label_of sni <> [STAR] ->
    good_state (replace_mid re_ok r c) /\
    (resolve re_match r sni <> None -> resolve re_match (replace_mid re_ok r c) sni <> None).
  Proof.
    intros GS G Gs NS. pose proof (good_add r c GS G) as GM. split; [exact GM|].
    unfold replace_mid. rewrite (covered_iff r sni (proj1 GS) Gs NS).
    rewrite (covered_iff _ sni (proj1 GM) Gs NS).
    intros (fp & c0 & [[H1 H2]|[H1 H2]]); exists fp, c0; [left|right]; split; auto using store_add_mono.
  Qed.

  Lemma replace_failing_unchanged r old : replace_cert re_ok r None old = (r, false).
  Proof. reflexivity. Qed.

  Lemma replace_idempotent_unchanged r c : replace_cert re_ok r (Some c) (Some (c_fp c)) = (r, true).
  Proof. cbn [replace_cert]. rewrite beq_refl. reflexivity. Qed.
End Hist.

(** ** strict SNI *)
Lemma split_once_spec c l a b : split_once c l = Some (a, b) <-> l = a ++ c :: b /\ mem c a = false.
Proof.
  revert a b; induction l as [|x r IH]; intros a b; cbn [split_once].
  - split; [discriminate|]. intros [H _]. destruct a; discriminate.
  - destruct (N.eqb x c) eqn:E.
    + apply N.eqb_eq in E; subst x. split.
      * intros H; inversion H; subst. split; reflexivity.
      * intros [H M]. destruct a as [|y a]; cbn [app mem] in *; [inversion H; reflexivity|].
        inversion H; subst. rewrite N.eqb_refl in M. discriminate.
    + destruct (split_once c r) as [[a' b']|] eqn:ES.
      * split.
        -- intros H; inversion H; subst. destruct (proj1 (IH a' b) eq_refl) as [-> M]. cbn [app mem]. rewrite E. auto.
        -- intros [H M]. destruct a as [|y a]; cbn [app mem] in *; inversion H; subst.
           ++ rewrite N.eqb_refl in E. discriminate.
           ++ apply orb_false_iff in M. destruct M as [_ M].
              pose proof (proj2 (IH a b) (conj eq_refl M)) as F. inversion F; subst. reflexivity.
      * split; [discriminate|]. intros [H M]. destruct a as [|y a]; cbn [app mem] in *; inversion H; subst.
        -- rewrite N.eqb_refl in E. discriminate.
        -- apply orb_false_iff in M. destruct M as [_ M].
           pose proof (proj2 (IH a b) (conj eq_refl M)) as F. discriminate.
Qed.

Lemma eq_ic_spec a b : eq_ic a b = true <-> map lower a = map lower b.
Proof.
  revert b; induction a as [|x a IH]; destruct b as [|y b]; cbn [eq_ic map]; try (split; congruence).
  rewrite andb_true_iff, N.eqb_eq, IH. split; [intros [-> ->]; reflexivity|intros H; inversion H; auto].
Qed.

(** what [entry_covers] accepts, declaratively (RFC 6125 6.4.3): an entry
    without '*' equal to the host up to ASCII case, or ["*." ++ suffix] with no
    further '*' where the host is one non-empty dot-free label, a dot, and the
    suffix up to case *)
Definition covers_spec (host entry : bytes) : Prop :=
  (exists suffix, entry = STAR :: DOT :: suffix /\ mem_byte STAR suffix = false /\
                  exists l rest, host = l ++ DOT :: rest /\ l <> [] /\ mem DOT l = false /\
                                 map lower rest = map lower suffix) \/
  ((forall suffix, entry <> STAR :: DOT :: suffix) /\ mem_byte STAR entry = false /\
   map lower host = map lower entry).

Lemma entry_covers_spec host entry : entry_covers host entry = true <-> covers_spec host entry.
Proof.
  unfold covers_spec.
  assert (W : forall suffix, wild_covers host suffix = true <->
                             mem_byte STAR suffix = false /\
                             exists l rest, host = l ++ DOT :: rest /\ l <> [] /\ mem DOT l = false /\
                                            map lower rest = map lower suffix).
  { intros suffix. unfold wild_covers.
    destruct (mem_byte STAR suffix); [split; [discriminate|intros [H _]; discriminate]|].
    destruct (split_once DOT host) as [[l rest]|] eqn:ES.
    - apply split_once_spec in ES. destruct ES as [-> M]. rewrite andb_true_iff, negb_true_iff, eq_ic_spec. split.
      + intros [NL EQ]. split; [reflexivity|]. exists l, rest. repeat split; auto. intros ->; discriminate.
      + intros [_ (l' & rest' & E & NL & M' & EQ)].
        assert (ES' : split_once DOT (l ++ DOT :: rest) = Some (l', rest')) by (apply split_once_spec; auto).
        assert (ES0 : split_once DOT (l ++ DOT :: rest) = Some (l, rest)) by (apply split_once_spec; auto).
        rewrite ES0 in ES'. inversion ES'; subst. split; [destruct l'; [congruence|reflexivity]|exact EQ].
    - split; [discriminate|]. intros [_ (l' & rest' & E & NL & M' & EQ)].
      assert (ES' : split_once DOT host = Some (l', rest')) by (apply split_once_spec; auto). congruence. }
  assert (X : forall e, exact_covers host e = true <-> mem_byte STAR e = false /\ map lower host = map lower e).
  { intros e. unfold exact_covers. destruct (mem_byte STAR e); [split; [discriminate|intros [H _]; discriminate]|].
    rewrite eq_ic_spec. tauto. }
  unfold entry_covers.
  destruct entry as [|c1 [|c2 suffix]].
  - rewrite X. split; [intros H; right; split; [intros s; discriminate|exact H]|].
    intros [(s & E & _)|[_ H]]; [discriminate|exact H].
  - rewrite X. split; [intros H; right; split; [intros s; discriminate|exact H]|].
    intros [(s & E & _)|[_ H]]; [discriminate|exact H].
  - destruct (N.eqb c1 STAR && N.eqb c2 DOT) eqn:EB.
    + apply andb_true_iff in EB. destruct EB as [E1 E2]. apply N.eqb_eq in E1, E2. subst c1 c2.
      rewrite W. split; [intros H; left; exists suffix; split; [reflexivity|exact H]|].
      intros [(s & E & H)|[H _]]; [inversion E; subst; exact H|exfalso; apply (H suffix); reflexivity].
    + rewrite X. split.
      * intros H; right; split; [|exact H]. intros s Hs. inversion Hs; subst.
        rewrite !N.eqb_refl in EB. discriminate.
      * intros [(s & Es & _)|[_ H]]; [|exact H]. inversion Es; subst. rewrite !N.eqb_refl in EB. discriminate.
Qed.

Lemma authority_matched_spec authority names :
  match authority_matched authority names with
  | Some e => In e names /\ covers_spec (host_of_authority authority) e
  | None => host_of_authority authority = [] \/
            forall e, In e names -> ~ covers_spec (host_of_authority authority) e
  end.
Proof.
  unfold authority_matched. destruct (host_of_authority authority) as [|c h] eqn:EH; cbn [is_nil]; [left; reflexivity|].
  destruct (find (entry_covers (c :: h)) names) as [e|] eqn:EF.
  - apply find_some in EF. destruct EF as [I C]. split; [exact I|apply entry_covers_spec; exact C].
  - right. intros e I C. apply entry_covers_spec in C. rewrite (find_none _ _ EF e I) in C. discriminate.
Qed.

(** ** [authority_matches_sni] and the strict decision *)
Lemma eq_lower_left_spec a s : length a = length s -> (eq_lower_left a s = true <-> map lower a = s).
Proof.
  revert s; induction a as [|x a IH]; destruct s as [|y s]; cbn [eq_lower_left map length]; intros L; try discriminate.
  - split; reflexivity.
  - injection L as L. rewrite andb_true_iff, N.eqb_eq, (IH s L).
    split; [intros [-> ->]; reflexivity|intros H; inversion H; auto].
Qed.

Lemma authority_matches_sni_spec a s :
  authority_matches_sni a s = true <-> map lower (strip_port a) = s.
Proof.
  unfold authority_matches_sni. destruct (Nat.eqb (length (strip_port a)) (length s)) eqn:E.
  - apply Nat.eqb_eq in E. apply eq_lower_left_spec; exact E.
  - apply Nat.eqb_neq in E. split; [discriminate|]. intros H. exfalso. apply E. rewrite <- H, map_length. reflexivity.
Qed.

Lemma strict_decision_spec strict sni names a :
  strict_decision strict sni names a = true ->
  strict = false \/ sni = None \/
  (exists ns e, names = Some ns /\ In e ns /\ covers_spec (host_of_authority a) e) \/
  (exists s, names = None /\ sni = Some s /\ map lower (strip_port a) = s).
Proof.
  unfold strict_decision. destruct strict; [|auto]. destruct sni as [s|]; [|auto]. destruct names as [ns|].
  - intros H. right; right; left. pose proof (authority_matched_spec a ns) as M.
    destruct (authority_matched a ns) as [e|]; [|discriminate]. exists ns, e. destruct M; auto.
  - intros H. right; right; right. exists s. split; [reflexivity|]. split; [reflexivity|].
    apply authority_matches_sni_spec; exact H.
Qed.

Lemma strict_decision_rejects strict sni names a :
  strict_decision strict sni names a = false ->
  strict = true /\ exists s, sni = Some s /\
    match names with
    | Some ns => host_of_authority a = [] \/ forall e, In e ns -> ~ covers_spec (host_of_authority a) e
    | None => map lower (strip_port a) <> s
    end.
Proof.
  unfold strict_decision. destruct strict; [|discriminate]. destruct sni as [s|]; [|discriminate].
  intros H. split; [reflexivity|]. exists s. split; [reflexivity|]. destruct names as [ns|].
  - pose proof (authority_matched_spec a ns) as M. destruct (authority_matched a ns); [discriminate|exact M].
  - intros E. apply authority_matches_sni_spec in E. congruence.
Qed.

(** ** handshake and strict-SNI snapshot use the same name *)
Lemma strip_dot_app_dot n : last n 0%N <> DOT -> strip_dot (n ++ [DOT]) = n.
Proof.
  intros _. unfold strip_dot. rewrite last_last, N.eqb_refl. apply removelast_last.
Qed.

Lemma conn_name_absolute n : last (map lower n) 0%N <> DOT -> conn_name (n ++ [DOT]) = conn_name n.
Proof.
  intros H. unfold conn_name. rewrite map_app. cbn [map]. change (lower DOT) with DOT.
  rewrite strip_dot_app_dot by exact H. unfold strip_dot.
  destruct (N.eqb (last (map lower n) 0%N) DOT) eqn:E; [apply N.eqb_eq in E; contradiction|reflexivity].
Qed.

Lemma hello_snapshot_is_served re_match r wire :
  hello_snapshot re_match r wire =
  match hello_served re_match r wire with
  | Some fp => option_map c_names (aget fp (store r))
  | None => None
  end.
Proof.
  unfold hello_snapshot, hello_served, names_for_sni.
  destruct (resolve re_match r (conn_name wire)) as [[k fp]|]; cbn [option_map snd]; [|reflexivity].
  destruct (aget fp (store r)); reflexivity.
Qed.

