(** CfgState — a generic lemma for replaying per-key chunks of requests, and
    the listener sections of [diff] (C06). *)
From stdpp Require Import gmap strings.
From Coq Require Import NArith Lia.
From SV Require Import CfgState.Model CfgState.Spec CfgState.Proofs CfgState.ReplayProofs CfgState.DiffProofs.
Open Scope N_scope.

Section chunks.
  Variable fingerprint : N -> option N.
  Variable inames : N -> option (list N).
  Variable hc_valid : N -> bool.
  Variable steps : lkind -> list step.
  Notation replay := (replay fingerprint inames hc_valid steps).

  Context `{Countable K} {V X : Type}.
  Variable set : state -> gmap K V -> state.
  Variable f : K -> X -> list request.              (* the requests emitted for one key *)
  Variable g : K -> X -> option V -> option V.      (* what they do to that key *)
  Variable P : K -> X -> option V -> Prop.          (* what they need of that key *)
  Hypothesis chunk_ok : forall a x s m,
      P a x (m !! a) -> replay (f a x) (set s m) = (set s (partial_alter (g a x) a m), 0%nat).

  Definition apply_chunks (m : gmap K V) (L : list (K * X)) : gmap K V :=
    foldl (fun m ax => partial_alter (g (fst ax) (snd ax)) (fst ax) m) m L.

  Lemma apply_chunks_notin L : forall m a, a ∉ L.*1 -> apply_chunks m L !! a = m !! a.
  Proof.
    induction L as [|[b x] L IH]; intros m a Hn; [reflexivity|].
    cbn [apply_chunks foldl fst snd]. rewrite fmap_cons in Hn. apply not_elem_of_cons in Hn as [Hne Hn].
    fold (apply_chunks (partial_alter (g b x) b m) L). rewrite IH by exact Hn.
    apply lookup_partial_alter_ne. intros E. apply Hne. symmetry. exact E.
  Qed.

  Lemma apply_chunks_in L : forall m a x, NoDup (L.*1) -> In (a, x) L -> apply_chunks m L !! a = g a x (m !! a).
  Proof.
    induction L as [|[b y] L IH]; intros m a x Hnd Hin; [destruct Hin|].
    rewrite fmap_cons in Hnd. apply NoDup_cons in Hnd as [Hni Hnd]. cbn [fst] in Hni.
    cbn [apply_chunks foldl fst snd]. fold (apply_chunks (partial_alter (g b y) b m) L).
    destruct Hin as [E|Hin].
    - inversion E; subst. rewrite apply_chunks_notin by exact Hni. apply lookup_partial_alter.
    - rewrite (IH _ a x Hnd Hin). f_equal. apply lookup_partial_alter_ne.
      intros ->. apply Hni. apply elem_of_list_fmap. exists (a, x). split; [reflexivity|apply elem_of_list_In; exact Hin].
  Qed.

  Lemma replay_chunks L : forall m s,
    NoDup (L.*1) -> (forall a x, In (a, x) L -> P a x (m !! a)) ->
    replay (flat_map (fun ax => f (fst ax) (snd ax)) L) (set s m) = (set s (apply_chunks m L), 0%nat).
  Proof.
    induction L as [|[a x] L IH]; intros m s Hnd HP; [reflexivity|].
    rewrite fmap_cons in Hnd. apply NoDup_cons in Hnd as [Hni Hnd]. cbn [fst] in Hni.
    cbn [flat_map fst snd]. rewrite replay_app. rewrite chunk_ok by (apply HP; left; reflexivity).
    rewrite IH; [reflexivity|exact Hnd|].
    intros b y Hin. rewrite lookup_partial_alter_ne; [apply HP; right; exact Hin|].
    intros ->. apply Hni. apply elem_of_list_fmap. exists (b, y). split; [reflexivity|apply elem_of_list_In; exact Hin].
  Qed.
End chunks.

Lemma partial_alter_id `{Countable K} {V} (m : gmap K V) a : partial_alter (fun o => o) a m = m.
Proof.
  apply map_eq. intros b. destruct (decide (a = b)) as [->|Hne].
  - rewrite lookup_partial_alter. reflexivity.
  - apply lookup_partial_alter_ne. exact Hne.
Qed.

Lemma In_keys_not_in {V W} (m : gmap N V) (o : gmap N W) a v :
  In (a, v) (keys_not_in m o) <-> m !! a = Some v /\ o !! a = None.
Proof.
  unfold keys_not_in. rewrite filter_In. cbn [fst]. rewrite <- elem_of_list_In, elem_of_map_to_list.
  destruct (o !! a); intuition congruence.
Qed.
Lemma NoDup_keys_not_in {V W} (m : gmap N V) (o : gmap N W) : NoDup ((keys_not_in m o).*1).
Proof.
  unfold keys_not_in. generalize (NoDup_fst_map_to_list m). generalize (map_to_list m). intros l.
  induction l as [|[a v] l IH]; cbn; [constructor|]. intros Hnd. apply NoDup_cons in Hnd as [Hn Hnd].
  destruct (o !! a); [apply IH; exact Hnd|].
  cbn. apply NoDup_cons. split; [|apply IH; exact Hnd].
  intros Hin. apply Hn. apply elem_of_list_fmap in Hin as [[b w] [-> Hin]].
  apply elem_of_list_In, filter_In in Hin as [Hin _]. apply elem_of_list_fmap. exists (b, w).
  split; [reflexivity|apply elem_of_list_In; exact Hin].
Qed.

Lemma apply_chunks_id `{Countable K} {V X} (L : list (K * X)) : forall m : gmap K V,
  apply_chunks (fun _ _ o => o) m L = m.
Proof.
  induction L as [|[a x] L IH]; intros m; [reflexivity|].
  cbn [apply_chunks foldl fst snd]. rewrite partial_alter_id. apply IH.
Qed.

(** * Listener sections *)
Section listeners.
  Variable fingerprint : N -> option N.
  Variable inames : N -> option (list N).
  Variable hc_valid : N -> bool.
  Variable steps : lkind -> list step.
  Notation replay := (replay fingerprint inames hc_valid steps).
  Variable k : lkind.

  Let Hkind : kind_of (proxy_of k) = Some k. Proof. destruct k; reflexivity. Qed.
  Let Hget : forall s m, get_l k (set_l k s m) = m. Proof. intros; destruct k; reflexivity. Qed.
  Let Hset : forall s m m', set_l k (set_l k s m) m' = set_l k s m'. Proof. intros; destruct k; reflexivity. Qed.
  Let Hself : forall s, set_l k s (get_l k s) = s. Proof. intros; destruct k, s; reflexivity. Qed.

  Definition after_removed (my other : gmap N listener) : gmap N listener :=
    filter (fun kv => is_Some (other !! fst kv)) my.
  Definition after_added (my other : gmap N listener) : gmap N listener :=
    filter (fun kv => my !! fst kv = None) other ∪ after_removed my other.

  Lemma piece_removed my other s :
    get_l k s = my ->
    replay (diff_listeners_removed k my other) s = (set_l k s (after_removed my other), 0%nat).
  Proof.
    intros Hmy. unfold diff_listeners_removed.
    rewrite <- (Hself s) at 1. rewrite Hmy.
    rewrite (replay_chunks fingerprint inames hc_valid steps (set_l k)
               (fun a (l : listener) => (if l_active l then [RDeactivate (proxy_of k) a] else []) ++ [RRemoveListener (proxy_of k) a])
               (fun _ _ _ => None) (fun _ l o => o = Some l)).
    - f_equal. f_equal. apply map_eq. intros a. unfold after_removed.
      destruct (my !! a) as [l|] eqn:Em.
      + destruct (other !! a) as [t|] eqn:Eo.
        * rewrite apply_chunks_notin.
          -- rewrite Em. symmetry. apply map_filter_lookup_Some. split; [exact Em|cbn; rewrite Eo; eauto].
          -- intros Hin. apply elem_of_list_fmap in Hin as [[b v] [-> Hin]].
             apply elem_of_list_In, In_keys_not_in in Hin as [_ Hn]. cbn in *. congruence.
        * rewrite (apply_chunks_in _ _ _ a l); [|apply NoDup_keys_not_in|apply In_keys_not_in; split; assumption].
          symmetry. apply map_filter_lookup_None. right. intros x _ [t Ht]. cbn in Ht. congruence.
      + rewrite apply_chunks_notin.
        * rewrite Em. symmetry. apply map_filter_lookup_None. left. exact Em.
        * intros Hin. apply elem_of_list_fmap in Hin as [[b v] [-> Hin]].
          apply elem_of_list_In, In_keys_not_in in Hin as [Hm _]. cbn in *. congruence.
    - intros a l s0 m Hm. destruct (l_active l) eqn:Ha; cbn [app Model.replay Model.dispatch].
      + unfold set_active. rewrite Hkind, Hget, Hm, Hset. unfold remove_listener. rewrite Hkind, Hget, lookup_insert, Hset.
        rewrite delete_insert_delete. reflexivity.
      + unfold remove_listener. rewrite Hkind, Hget, Hm, Hset. reflexivity.
    - apply NoDup_keys_not_in.
    - intros a l Hin. apply In_keys_not_in in Hin as [Hm _]. exact Hm.
  Qed.

  Lemma piece_added my other s :
    get_l k s = after_removed my other ->
    replay (diff_listeners_added k my other) s = (set_l k s (after_added my other), 0%nat).
  Proof.
    intros Hin. unfold diff_listeners_added.
    rewrite <- (Hself s) at 1. rewrite Hin.
    rewrite (replay_listeners fingerprint inames hc_valid steps k (keys_not_in other my) (after_removed my other) s).
    - f_equal. f_equal. unfold after_added. f_equal.
      apply map_eq. intros a. apply option_eq. intros l.
      rewrite <- elem_of_list_to_map by apply NoDup_keys_not_in.
      rewrite elem_of_list_In, In_keys_not_in, map_filter_lookup_Some. reflexivity.
    - apply NoDup_keys_not_in.
    - intros a Ha. apply elem_of_list_fmap in Ha as [[b v] [-> Ha]]. apply elem_of_list_In, In_keys_not_in in Ha as [_ Hn].
      cbn [fst]. unfold after_removed. apply map_filter_lookup_None. left. exact Hn.
  Qed.

  Lemma piece_common my other s :
    get_l k s = after_added my other ->
    replay (diff_listeners_common k my other) s = (set_l k s other, 0%nat).
  Proof.
    intros Hin. unfold diff_listeners_common.
    rewrite <- (Hself s) at 1. rewrite Hin.
    rewrite (replay_chunks fingerprint inames hc_valid steps (set_l k) (common_chunk k other)
               (fun a _ o => match other !! a with None => o | Some their => Some their end)
               (fun a l o => match other !! a with None => True | Some _ => o = Some l end)).
    - f_equal. f_equal. apply map_eq. intros a. unfold after_added, after_removed.
      destruct (my !! a) as [l|] eqn:Em.
      + rewrite (apply_chunks_in _ _ _ a l); [|apply NoDup_fst_map_to_list|apply elem_of_list_In, elem_of_map_to_list; exact Em].
        destruct (other !! a) as [t|] eqn:Eo; [reflexivity|].
        rewrite lookup_union. rewrite (proj2 (map_filter_lookup_None _ _ _)) by (left; exact Eo).
        rewrite (proj2 (map_filter_lookup_None _ _ _)); [reflexivity|].
        right. intros x _ [t Ht]. cbn in Ht. congruence.
      + rewrite apply_chunks_notin.
        * rewrite lookup_union. rewrite (proj2 (map_filter_lookup_None (fun kv : N * listener => is_Some (other !! fst kv)) my a)) by (left; exact Em).
          destruct (other !! a) as [t|] eqn:Eo.
          -- rewrite (proj2 (map_filter_lookup_Some (fun kv : N * listener => my !! fst kv = None) other a t)) by (split; [exact Eo|exact Em]).
             reflexivity.
          -- rewrite (proj2 (map_filter_lookup_None (fun kv : N * listener => my !! fst kv = None) other a)) by (left; exact Eo).
             reflexivity.
        * intros Hi. apply elem_of_list_fmap in Hi as [[b v] [-> Hi]]. apply elem_of_map_to_list in Hi. cbn in *. congruence.
    - intros a l s0 m Hm. cbn beta in Hm. unfold common_chunk. destruct (other !! a) as [their|] eqn:Eo.
      2:{ cbn. rewrite partial_alter_id. reflexivity. }
      assert (Epa : partial_alter (fun _ => Some their) a m = <[a := their]> m) by reflexivity. rewrite Epa.
      destruct (bool_decide (l = their)) eqn:Eq.
      + apply bool_decide_eq_true in Eq. subst their. rewrite andb_negb_r. cbn. rewrite insert_id by exact Hm. reflexivity.
      + assert (Hfirst : replay [RRemoveListener (proxy_of k) a; RAddListener k a (Listener false (l_fields their) (l_rest their)) true] (set_l k s0 m)
                         = (set_l k s0 (<[a := Listener false (l_fields their) (l_rest their)]> m), 0%nat)).
        { cbn [Model.replay Model.dispatch]. unfold remove_listener. rewrite Hkind, Hget, Hm, Hset.
          unfold add_listener. rewrite andb_false_r, Hget, lookup_delete, Hset. rewrite insert_delete_insert. reflexivity. }
        rewrite <- !app_assoc. rewrite replay_app, Hfirst.
        destruct (l_active their) eqn:Eat.
        * rewrite andb_false_r. cbn [app Model.replay Model.dispatch]. unfold set_active.
          rewrite Hkind, Hget, lookup_insert, Hset, insert_insert. cbn [l_fields l_rest].
          assert (Et : Listener true (l_fields their) (l_rest their) = their) by (destruct their; cbn in *; subst; reflexivity).
          rewrite Et. reflexivity.
        * assert (Et : Listener false (l_fields their) (l_rest their) = their) by (destruct their; cbn in *; subst; reflexivity).
          rewrite Et. rewrite andb_true_r. destruct (l_active l); cbn [app Model.replay Model.dispatch].
          -- unfold set_active. rewrite Hkind, Hget, lookup_insert, Hset, insert_insert.
             assert (Et' : Listener false (l_fields their) (l_rest their) = their) by exact Et. rewrite Et'. reflexivity.
          -- reflexivity.
    - apply NoDup_fst_map_to_list.
    - intros a l Hi. apply elem_of_list_In, elem_of_map_to_list in Hi.
      cbn beta. destruct (other !! a) as [t|] eqn:Eo; [|exact I].
      unfold after_added, after_removed. rewrite lookup_union_r.
      + apply map_filter_lookup_Some. split; [exact Hi|cbn; rewrite Eo; eauto].
      + apply map_filter_lookup_None. right. intros x _ Hn. cbn in *. congruence.
  Qed.

  Lemma piece_late my other s :
    get_l k s = other ->
    replay (diff_late_activate k my other) s = (s, 0%nat).
  Proof.
    intros Hin. unfold diff_late_activate.
    rewrite <- (Hself s) at 1. rewrite Hin.
    rewrite (replay_chunks fingerprint inames hc_valid steps (set_l k)
               (fun a (l : listener) => if l_active l then [RActivate (proxy_of k) a] else [])
               (fun _ _ o => o) (fun _ l o => o = Some l)).
    - rewrite apply_chunks_id, <- Hin, Hself. reflexivity.
    - intros a l s0 m Hm. rewrite partial_alter_id. destruct (l_active l) eqn:Ea; [|reflexivity].
      cbn [Model.replay Model.dispatch]. unfold set_active. rewrite Hkind, Hget, Hm, Hset.
      assert (El : Listener true (l_fields l) (l_rest l) = l) by (destruct l; cbn in *; subst; reflexivity).
      rewrite El, insert_id by exact Hm. reflexivity.
    - apply NoDup_keys_not_in.
    - intros a l Hi. apply In_keys_not_in in Hi as [Ho _]. exact Ho.
  Qed.
End listeners.
