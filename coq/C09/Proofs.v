(** C09 — lemmas. *)
From Coq Require Import List Arith NArith Bool Lia.
From SV Require Import C09.Base C09.Gen C09.Model.
Import ListNotations.

Lemma flag_forwarded : forall b, on_finish_flag b = b.
Proof. intros b. reflexivity. Qed.
