(** C12 — property theorems (statements only; proofs are in C12/Proofs.v). *)
From Coq Require Import List Arith ZArith NArith Bool Lia.
From SV Require Import C12.Model C12.Proofs.
Import ListNotations.
Open Scope N_scope.
