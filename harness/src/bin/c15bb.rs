//! C15 black-box connection tier: a real worker (HTTPS listener, ALPN h2, small
//! flood thresholds), one scripted raw H2 client per scenario, run in
//! parallel, each followed by a well-behaved probe connection.
//!
//! Oracle per scenario: the prescribed answer (GOAWAY / RST_STREAM with a code
//! from the allowed set, or RFC-conformant handling: the frame is ignored and a
//! PING still gets its ACK), a connection error is followed by the release of
//! the connection, the worker thread is alive and the probe is served.
//!
//! usage: c15bb [quick|thorough]    output: `obs <scenario> ...` / `viol <class> <text>`
#[path = "../h2bb.rs"]
mod h2bb;
use std::{net::TcpListener, time::Duration};

use h2bb::*;

const NO_ERROR: u32 = 0;
const PROTOCOL: u32 = 1;
const FLOW: u32 = 3;
const STREAM_CLOSED: u32 = 5;
const FRAME_SIZE: u32 = 6;
const REFUSED: u32 = 7;
const CALM: u32 = 0xb;
const COMPRESSION: u32 = 9;

#[derive(Clone, Copy, PartialEq, Debug)]
enum St {
    /// nothing sent yet: the scenario sends its own preface
    Fresh,
    /// SETTINGS exchanged, no stream
    Ready,
    /// stream 1 open: HEADERS without END_STREAM sent (a POST waiting for its body)
    Open,
    /// stream 1 half-closed (remote): complete request sent, response not awaited
    HalfClosed,
    /// stream 1 closed: complete request sent and the response read
    Closed,
    /// the client announced GOAWAY(NO_ERROR) first
    AfterGoaway,
}

#[derive(Clone)]
enum Want {
    /// connection error: GOAWAY with one of these codes (or, when `close_ok`, a bare close), then release
    Conn(Vec<u32>, bool),
    /// stream error on this stream with one of these codes; a connection error with the same code is
    /// tolerated (RFC 9113 5.4.2 lets an endpoint escalate); the connection otherwise stays usable
    Stream(u32, Vec<u32>),
    /// handled / ignored: no error, a PING is still acknowledged afterwards
    Alive,
    /// any of: GOAWAY or RST_STREAM with one of the codes (limits whose reaction is a policy choice)
    Either(Vec<u32>),
}

struct Scn {
    name: &'static str,
    st: St,
    bytes: Vec<u8>,
    want: Want,
    /// "" = the HTTP/1 backend; "/h2" = the cluster with the h2c backend
    prefix: &'static str,
}

fn wu(sid: u32, inc: u32) -> Vec<u8> {
    frame(T_WU, 0, sid, &inc.to_be_bytes())
}

fn ping(ack: bool) -> Vec<u8> {
    frame(T_PING, ack as u8, 0, b"verifbb!")
}

fn many(n: usize, f: Vec<u8>) -> Vec<u8> {
    let mut v = Vec::with_capacity(n * f.len());
    for _ in 0..n {
        v.extend_from_slice(&f);
    }
    v
}

fn scenarios(thorough: bool) -> Vec<Scn> {
    let mut v = vec![];
    let mut add = |name, st, bytes, want| v.push(Scn { name, st, bytes, want, prefix: "" });
    // --- before the SETTINGS exchange
    {
        let mut b = PREFACE.to_vec();
        b.extend(raw_frame(7, T_SETTINGS, 0, 0, &[0, 3, 0, 0, 0, 100, 0]));
        add("preface_settings_len7", St::Fresh, b, Want::Conn(vec![FRAME_SIZE], true));
        let mut b = PREFACE.to_vec();
        b.extend(frame(T_PING, 0, 0, b"12345678"));
        add("preface_then_ping", St::Fresh, b, Want::Conn(vec![PROTOCOL], true));
        add("bad_preface", St::Fresh, b"PRI * HTTP/2.0\r\n\r\nXX\r\n\r\n".to_vec(), Want::Conn(vec![PROTOCOL], true));
        let mut b = PREFACE.to_vec();
        b.extend(settings(&[(5, 100)]));
        add("preface_settings_max_frame_100", St::Fresh, b, Want::Conn(vec![PROTOCOL], true));
    }
    // --- after the SETTINGS exchange, no stream
    add("settings_initial_window_2p31", St::Ready, settings(&[(4, 0x8000_0000)]), Want::Conn(vec![FLOW], false));
    add("settings_enable_push_2", St::Ready, settings(&[(2, 2)]), Want::Conn(vec![PROTOCOL], false));
    add("settings_max_frame_16383", St::Ready, settings(&[(5, 16383)]), Want::Conn(vec![PROTOCOL], false));
    add("settings_len5", St::Ready, raw_frame(5, T_SETTINGS, 0, 0, &[0, 3, 0, 0, 0]), Want::Conn(vec![FRAME_SIZE], false));
    add("settings_ack_with_payload", St::Ready, frame(T_SETTINGS, 1, 0, &[0, 3, 0, 0, 0, 1]), Want::Conn(vec![FRAME_SIZE], false));
    add("settings_on_stream_1", St::Ready, frame(T_SETTINGS, 0, 1, &[]), Want::Conn(vec![PROTOCOL], false));
    add("settings_unknown_id", St::Ready, settings(&[(0xff, 7)]), Want::Alive);
    add("wu_conn_zero", St::Ready, wu(0, 0), Want::Conn(vec![PROTOCOL], false));
    add("wu_conn_overflow", St::Ready, wu(0, 0x7fff_ffff), Want::Conn(vec![FLOW], false));
    add("wu_len5", St::Ready, frame(T_WU, 0, 0, &[0, 0, 0, 1, 0]), Want::Conn(vec![FRAME_SIZE], false));
    add("wu_idle_stream", St::Ready, wu(5, 10), Want::Conn(vec![PROTOCOL], false));
    add("ping_len7", St::Ready, frame(T_PING, 0, 0, b"1234567"), Want::Conn(vec![FRAME_SIZE], false));
    add("ping_on_stream_1", St::Ready, frame(T_PING, 0, 1, b"12345678"), Want::Conn(vec![PROTOCOL], false));
    add("data_on_stream_0", St::Ready, frame(T_DATA, 0, 0, b"x"), Want::Conn(vec![PROTOCOL], false));
    add("data_on_idle_stream", St::Ready, frame(T_DATA, 0, 1, b"x"), Want::Conn(vec![PROTOCOL], false));
    add("oversized_frame", St::Ready, raw_frame(16385, T_DATA, 0, 1, &[]), Want::Conn(vec![FRAME_SIZE], false));
    add("push_promise", St::Ready, frame(T_PUSH, 4, 1, &[0, 0, 0, 2, 0x82]), Want::Conn(vec![PROTOCOL], false));
    add("continuation_alone", St::Ready, frame(T_CONT, 4, 1, &[0x82]), Want::Conn(vec![PROTOCOL], false));
    add("headers_even_stream", St::Ready, frame(T_HEADERS, 5, 2, &request_block(false, "/")), Want::Conn(vec![PROTOCOL], false));
    add("headers_on_stream_0", St::Ready, frame(T_HEADERS, 5, 0, &request_block(false, "/")), Want::Conn(vec![PROTOCOL], false));
    add("headers_bad_hpack", St::Ready, frame(T_HEADERS, 5, 1, &[0xff, 0xff, 0xff, 0xff, 0xff, 0xff]), Want::Conn(vec![COMPRESSION, PROTOCOL], false));
    add("headers_pad_too_long", St::Ready, frame(T_HEADERS, 0xd, 1, &[200, 0x82, 0x84, 0x87]), Want::Conn(vec![PROTOCOL], false));
    add("rst_len3", St::Open, frame(T_RST, 0, 1, &[0, 0, 8]), Want::Conn(vec![FRAME_SIZE], false));
    add("rst_idle_stream", St::Ready, frame(T_RST, 0, 1, &[0, 0, 0, 8]), Want::Conn(vec![PROTOCOL], false));
    add("goaway_len7", St::Ready, frame(T_GOAWAY, 0, 0, &[0; 7]), Want::Conn(vec![FRAME_SIZE], false));
    add("priority_len4_idle", St::Ready, frame(T_PRIORITY, 0, 1, &[0, 0, 0, 0]), Want::Either(vec![FRAME_SIZE]));
    add("unknown_type", St::Ready, frame(0x42, 0xff, 7, b"whatever"), Want::Alive);
    add("priority_idle_ok", St::Ready, frame(T_PRIORITY, 0, 9, &[0, 0, 0, 0, 16]), Want::Alive);
    add("priority_update_stream0_id", St::Ready, frame(0x10, 0, 0, &[0, 0, 0, 0, b'u', b'=', b'1']), Want::Conn(vec![PROTOCOL], false));
    // floods relative to the configured thresholds (listener: 8 per window, continuation 3, glitch 10)
    add("ping_flood", St::Ready, many(9, ping(false)), Want::Conn(vec![CALM], false));
    add("ping_under_threshold", St::Ready, many(7, ping(false)), Want::Alive);
    add("settings_flood", St::Ready, many(9, settings(&[])), Want::Conn(vec![CALM], false));
    add("wu_conn_flood", St::Ready, many(9, wu(0, 1)), Want::Conn(vec![CALM], false));
    // the glitches of one SETTINGS frame are counted in its loop and checked by the next counted frame
    add("glitch_flood_unknown_settings", St::Ready, [settings(&[(0xf0, 1); 12]), ping(false)].concat(), Want::Conn(vec![CALM], false));
    {
        // HEADERS without END_HEADERS followed by CONTINUATIONs
        let mut b = frame(T_HEADERS, 1, 1, &[0x82]);
        b.extend(many(4, frame(T_CONT, 0, 1, &[0x84])));
        add("continuation_flood", St::Ready, b, Want::Conn(vec![CALM], false));
        let mut b = frame(T_HEADERS, 1, 1, &[0x82]);
        b.extend(ping(false));
        add("ping_inside_header_block", St::Ready, b, Want::Conn(vec![PROTOCOL], false));
        let mut b = frame(T_HEADERS, 1, 1, &[0x82]);
        b.extend(frame(T_CONT, 4, 3, &[0x84]));
        add("continuation_other_stream", St::Ready, b, Want::Conn(vec![PROTOCOL], false));
        // rapid reset: open + cancel, more than the per-window threshold
        let mut b = vec![];
        for i in 0..10u32 {
            b.extend(frame(T_HEADERS, 5, 1 + 2 * i, &request_block(false, "/rr")));
            b.extend(frame(T_RST, 0, 1 + 2 * i, &8u32.to_be_bytes()));
        }
        add("rapid_reset", St::Ready, b, Want::Conn(vec![CALM], false));
        // header list far above the 4 KiB this listener allows
        let mut big = request_block(false, "/big");
        for _ in 0..60 {
            big.extend_from_slice(&[0x00, 0x05]);
            big.extend_from_slice(b"x-big");
            big.push(100);
            big.extend_from_slice(&[b'v'; 100]);
        }
        add("oversized_header_list", St::Ready, frame(T_HEADERS, 5, 1, &big), Want::Either(vec![CALM, REFUSED, PROTOCOL, 2]));
    }
    // --- the same floods with zero-length frames, and every windowed counter at exactly its threshold and one above:
    // what counts is the frame (type, flags, stream), never the size of its payload
    {
        let open_block = |flags: u8, payload: &[u8]| frame(T_HEADERS, flags, 1, payload);
        add("continuation_flood_empty", St::Ready, [open_block(1, &[0x82]), many(4, frame(T_CONT, 0, 1, &[]))].concat(), Want::Conn(vec![CALM], false));
        add("continuation_flood_empty_after_empty_headers", St::Ready, [open_block(1, &[]), many(4, frame(T_CONT, 0, 1, &[]))].concat(), Want::Conn(vec![CALM], false));
        add(
            "continuation_flood_mixed",
            St::Ready,
            [open_block(1, &[0x82]), frame(T_CONT, 0, 1, &[0x84]), frame(T_CONT, 0, 1, &[]), frame(T_CONT, 0, 1, &[0x87]), frame(T_CONT, 0, 1, &[])].concat(),
            Want::Conn(vec![CALM], false),
        );
        // exactly the threshold (3), all empty, the last one closing the block: a complete request
        add(
            "continuation_empty_at_threshold",
            St::Ready,
            [open_block(1, &request_block(false, "/cont")), many(2, frame(T_CONT, 0, 1, &[])), frame(T_CONT, 4, 1, &[])].concat(),
            Want::Alive,
        );
        add("ping_at_threshold", St::Ready, many(8, ping(false)), Want::Alive);
        // the client's own first SETTINGS counts: 7 more reach the threshold of 8, 8 more exceed it
        add("settings_at_threshold", St::Ready, many(7, settings(&[])), Want::Alive);
        add("settings_flood_by_one", St::Ready, many(8, settings(&[])), Want::Conn(vec![CALM], false));
        add("wu_conn_at_threshold", St::Ready, many(8, wu(0, 1)), Want::Alive);
        add("open_empty_data_at_threshold", St::Open, many(8, frame(T_DATA, 0, 1, &[])), Want::Alive);
        // a DATA frame made of padding only carries no content either
        add("open_padding_only_data_flood", St::Open, many(9, frame(T_DATA, 8, 1, &[0])), Want::Conn(vec![CALM], false));
        let rr = |n: u32| {
            let mut b = vec![];
            for i in 0..n {
                b.extend(frame(T_HEADERS, 5, 1 + 2 * i, &request_block(false, "/rr")));
                b.extend(frame(T_RST, 0, 1 + 2 * i, &8u32.to_be_bytes()));
            }
            b
        };
        add("rapid_reset_at_threshold", St::Ready, rr(8), Want::Alive);
        add("rapid_reset_by_one", St::Ready, rr(9), Want::Conn(vec![CALM], false));
    }
    // SETTINGS value validation (RFC 9113 6.5.2): a max frame size of 0 must be refused before anything is framed with it
    add("settings_max_frame_0_then_request", St::Ready, [settings(&[(5, 0)]), frame(T_HEADERS, 5, 1, &request_block(false, "/mf0"))].concat(), Want::Conn(vec![PROTOCOL], false));
    add("settings_max_frame_2p24", St::Ready, settings(&[(5, 1 << 24)]), Want::Conn(vec![PROTOCOL], false));
    add("settings_max_frame_max_ok", St::Ready, settings(&[(5, (1 << 24) - 1)]), Want::Alive);
    add("settings_initial_window_max_ok", St::Ready, settings(&[(4, 0x7fff_ffff)]), Want::Alive);
    {
        // the connection is exactly at its stream limit (4): one more HEADERS is refused, and the DATA that
        // follows it on the wire belongs to a refused (closed) stream, not to an idle one
        let mut b = vec![];
        for sid in [1u32, 3, 5, 7] {
            b.extend(frame(T_HEADERS, 4, sid, &request_block(true, "/limit")));
        }
        b.extend(frame(T_HEADERS, 4, 9, &request_block(true, "/over")));
        b.extend(frame(T_DATA, 0, 9, b"body-of-the-refused-stream"));
        add("refused_stream_then_data", St::Ready, b, Want::Stream(9, vec![REFUSED]));
    }
    // --- stream 1 open
    // a legal WINDOW_UPDATE takes the stream window to exactly 2^31-1, then SETTINGS raises the initial window by one
    add("open_settings_overflows_stream_window", St::Open, [wu(1, 0x7fff_ffff - 65535), settings(&[(4, 65536)])].concat(), Want::Conn(vec![FLOW], false));
    add("open_wu_stream_zero", St::Open, wu(1, 0), Want::Stream(1, vec![PROTOCOL]));
    add("open_wu_stream_overflow", St::Open, wu(1, 0x7fff_ffff), Want::Stream(1, vec![FLOW]));
    add("open_data_pad_too_long", St::Open, frame(T_DATA, 8, 1, &[9, b'a', b'b']), Want::Conn(vec![PROTOCOL], false));
    add("open_empty_data_flood", St::Open, many(9, frame(T_DATA, 0, 1, &[])), Want::Conn(vec![CALM], false));
    add("open_headers_again_no_end_stream", St::Open, frame(T_HEADERS, 4, 1, &request_block(false, "/")), Want::Either(vec![PROTOCOL]));
    add("open_priority_len6", St::Open, frame(T_PRIORITY, 0, 1, &[0, 0, 0, 0, 1, 2]), Want::Either(vec![FRAME_SIZE]));
    add("open_priority_self_dependency", St::Open, frame(T_PRIORITY, 0, 1, &[0, 0, 0, 1, 16]), Want::Either(vec![PROTOCOL]));
    add("open_rst_then_data", St::Open, [frame(T_RST, 0, 1, &8u32.to_be_bytes()), frame(T_DATA, 1, 1, b"late")].concat(), Want::Either(vec![STREAM_CLOSED]));
    add("open_data_ok", St::Open, frame(T_DATA, 1, 1, b"body"), Want::Alive);
    add("open_settings_shrink_window_0", St::Open, settings(&[(4, 0)]), Want::Alive);
    // --- half-closed (remote) and closed
    add("halfclosed_data", St::HalfClosed, frame(T_DATA, 1, 1, b"more"), Want::Either(vec![STREAM_CLOSED]));
    add("halfclosed_headers", St::HalfClosed, frame(T_HEADERS, 5, 1, &request_block(false, "/")), Want::Either(vec![STREAM_CLOSED, PROTOCOL]));
    add("halfclosed_wu_ok", St::HalfClosed, wu(1, 100), Want::Alive);
    add("closed_data", St::Closed, frame(T_DATA, 1, 1, b"more"), Want::Either(vec![STREAM_CLOSED]));
    add("closed_wu_ok", St::Closed, wu(1, 100), Want::Alive);
    add("closed_rst_ok", St::Closed, frame(T_RST, 0, 1, &8u32.to_be_bytes()), Want::Alive);
    add("closed_headers_reuse_id", St::Closed, frame(T_HEADERS, 5, 1, &request_block(false, "/")), Want::Conn(vec![STREAM_CLOSED, PROTOCOL], false));
    // --- after the client's GOAWAY
    add("after_goaway_ping", St::AfterGoaway, ping(false), Want::Alive);
    // sozu may already have answered the client's GOAWAY with its own GOAWAY(NO_ERROR) and left
    add("after_goaway_bad_frame", St::AfterGoaway, frame(T_PING, 0, 0, b"123"), Want::Conn(vec![FRAME_SIZE, NO_ERROR], true));
    // --- the same stream states with the h2c backend behind the stream (requests under /h2)
    drop(add);
    let mut addh = |name, st, bytes, want| v.push(Scn { name, st, bytes, want, prefix: "/h2" });
    addh("h2b_closed_wu_ok", St::Closed, wu(1, 100), Want::Alive);
    addh("h2b_closed_data", St::Closed, frame(T_DATA, 1, 1, b"more"), Want::Either(vec![STREAM_CLOSED]));
    addh("h2b_open_data_ok", St::Open, frame(T_DATA, 1, 1, b"body"), Want::Alive);
    addh("h2b_open_wu_stream_zero", St::Open, wu(1, 0), Want::Stream(1, vec![PROTOCOL]));
    addh("h2b_open_wu_stream_overflow", St::Open, wu(1, 0x7fff_ffff), Want::Stream(1, vec![FLOW]));
    addh("h2b_open_rst_then_ping", St::Open, frame(T_RST, 0, 1, &8u32.to_be_bytes()), Want::Alive);
    addh("h2b_open_data_pad_too_long", St::Open, frame(T_DATA, 8, 1, &[9, b'a', b'b']), Want::Conn(vec![PROTOCOL], false));
    addh("h2b_halfclosed_data", St::HalfClosed, frame(T_DATA, 1, 1, b"more"), Want::Either(vec![STREAM_CLOSED]));
    addh("h2b_open_settings_overflows_stream_window", St::Open, [wu(1, 0x7fff_ffff - 65535), settings(&[(4, 65536)])].concat(), Want::Conn(vec![FLOW], false));
    drop(addh);
    let mut add = |name, st, bytes, want| v.push(Scn { name, st, bytes, want, prefix: "" });
    if thorough {
        add("ping_lifetime_under", St::Ready, many(7, ping(false)), Want::Alive);
        add("wu_many_streams_idle", St::Ready, [wu(3, 1), wu(5, 1)].concat(), Want::Conn(vec![PROTOCOL], false));
        add("settings_header_table_huge", St::Ready, settings(&[(1, 0xffff_ffff)]), Want::Alive);
        add("settings_max_concurrent_0", St::Ready, settings(&[(3, 0)]), Want::Alive);
        add("open_data_after_end_stream", St::Open, [frame(T_DATA, 1, 1, b"a"), frame(T_DATA, 1, 1, b"b")].concat(), Want::Either(vec![STREAM_CLOSED]));
    }
    v
}

/// The windowed counters are halved when the detector's one-second window rolls over.  A flood of only a few
/// frames above the threshold that straddles a roll-over (the connection is about one second old when a loaded
/// machine gets to it) legitimately stays under the threshold; a real flood goes on and trips in the next
/// window.  So a flood scenario that saw no error is run again on a fresh connection, up to three times: a
/// detector that does not count the frames fails all of them.
fn window_retry(s: &Scn, f: impl Fn() -> Res) -> Res {
    let mut r = f();
    for _ in 0..2 {
        let flood = matches!(&s.want, Want::Conn(c, _) if c.contains(&CALM));
        if !(flood && r.viols.iter().any(|(c, _)| c == "bb-no-error")) {
            break;
        }
        r = f();
        r.summary.push_str(" (again: the first attempt may have straddled a window roll-over)");
    }
    r
}

struct Res {
    name: &'static str,
    summary: String,
    viols: Vec<(String, String)>,
}

fn run(front: std::net::SocketAddr, s: &Scn) -> Res {
    let mut viols: Vec<(String, String)> = vec![];
    let mut note = String::new();
    let Some(mut p) = Peer::connect(front) else {
        return Res { name: s.name, summary: "connect-failed".into(), viols: vec![("bb-infra".into(), format!("{}: could not connect", s.name))] };
    };
    let mut pre: Vec<Fr> = vec![];
    if s.st != St::Fresh {
        if !p.handshake(&[]) {
            return Res { name: s.name, summary: "handshake-failed".into(), viols: vec![("bb-infra".into(), format!("{}: H2 handshake failed", s.name))] };
        }
        match s.st {
            St::Open => {
                p.send(&frame(T_HEADERS, 4, 1, &request_block(true, &format!("{}/open", s.prefix))));
            }
            St::HalfClosed => {
                p.send(&frame(T_HEADERS, 5, 1, &request_block(false, &format!("{}/slow", s.prefix))));
            }
            St::Closed => {
                p.send(&frame(T_HEADERS, 5, 1, &request_block(false, &format!("{}/done", s.prefix))));
                pre = p.read_until(Duration::from_secs(3), |f| f.iter().any(|x| x.sid == 1 && (x.t == T_HEADERS || x.t == T_DATA) && x.flags & 1 == 1));
                if !pre.iter().any(|x| x.sid == 1 && x.flags & 1 == 1) {
                    note.push_str(" no-response-before-scenario");
                }
            }
            St::AfterGoaway => {
                p.send(&frame(T_GOAWAY, 0, 0, &[0, 0, 0, 0, 0, 0, 0, 0]));
            }
            _ => {}
        }
    }
    p.send(&s.bytes);
    // what comes back
    let is_err = |x: &Fr| x.t == T_GOAWAY || (x.t == T_RST && x.code() != Some(NO_ERROR));
    let mut got = p.read_until(Duration::from_millis(1500), |f| f.iter().any(is_err));
    let goaway = got.iter().find(|x| x.t == T_GOAWAY).and_then(|x| x.code());
    let rsts: Vec<(u32, u32)> = got.iter().filter(|x| x.t == T_RST).map(|x| (x.sid, x.code().unwrap_or(999))).collect();
    let mut alive_ping = None;
    let expect_conn_error = matches!(s.want, Want::Conn(..));
    if goaway.is_none() && !p.closed && !expect_conn_error {
        p.send(&frame(T_PING, 0, 0, b"alive???"));
        let more = p.read_until(Duration::from_millis(1500), |f| f.iter().any(|x| x.t == T_GOAWAY || (x.t == T_PING && x.flags & 1 == 1 && x.payload == b"alive???")));
        alive_ping = Some(more.iter().any(|x| x.t == T_PING && x.flags & 1 == 1 && x.payload == b"alive???"));
        got.extend(more);
    }
    let goaway = goaway.or_else(|| got.iter().find(|x| x.t == T_GOAWAY).and_then(|x| x.code()));
    let released = if goaway.is_some() || expect_conn_error { p.wait_closed(Duration::from_millis(2500)) } else { p.closed };
    let summary = format!(
        "goaway={} rst={:?} alive_ping={:?} released={}{}",
        goaway.map(|c| c.to_string()).unwrap_or("-".into()),
        rsts,
        alive_ping,
        released,
        note
    );
    let mut bad = |class: &str, text: String| viols.push((class.to_string(), format!("{}: {} [{}]", s.name, text, summary)));
    match &s.want {
        Want::Conn(codes, close_ok) => {
            match goaway {
                Some(c) if codes.contains(&c) => {}
                Some(c) => bad("bb-wrong-error", format!("GOAWAY code {c}, RFC 9113 prescribes one of {codes:?}")),
                None if *close_ok && released => {}
                None => bad("bb-no-error", format!("a connection error {codes:?} was due, none was signalled")),
            }
            if !released {
                bad("bb-not-released", "the connection was not released after the connection error".into());
            }
        }
        Want::Stream(sid, codes) => {
            let ok_rst = rsts.iter().any(|(s1, c)| s1 == sid && codes.contains(c));
            let ok_goaway = goaway.is_some_and(|c| codes.contains(&c));
            if !ok_rst && !ok_goaway {
                bad("bb-wrong-error", format!("RST_STREAM({sid}) with one of {codes:?} was due"));
            }
            if let Some(c) = goaway {
                if c != NO_ERROR && !codes.contains(&c) {
                    bad("bb-spurious-error", format!("a stream error was due, the whole connection was torn down with GOAWAY code {c}"));
                }
            }
            if ok_rst && alive_ping == Some(false) {
                bad("bb-wedged", "the connection stopped answering after a stream error".into());
            }
        }
        Want::Alive => {
            if let Some(c) = goaway {
                if c != NO_ERROR {
                    bad("bb-spurious-error", format!("GOAWAY code {c} for input that RFC 9113 lets through"));
                }
            } else if alive_ping != Some(true) {
                bad("bb-wedged", "no PING acknowledgement after input that RFC 9113 lets through".into());
            }
            if let Some((sid, c)) = rsts.iter().find(|(_, c)| *c != NO_ERROR && *c != 8) {
                bad("bb-spurious-error", format!("RST_STREAM({sid}) code {c} for input that RFC 9113 lets through"));
            }
        }
        Want::Either(codes) => {
            let ok = goaway.is_some_and(|c| codes.contains(&c)) || rsts.iter().any(|(_, c)| codes.contains(c));
            if !ok {
                bad("bb-wrong-error", format!("GOAWAY or RST_STREAM with one of {codes:?} was due"));
            }
            if goaway.is_some() && !released {
                bad("bb-not-released", "the connection was not released after GOAWAY".into());
            }
        }
    }
    Res { name: s.name, summary, viols }
}

/// Interleavings: three requests in flight on ONE connection (streams 1, 3 and 5, POSTs to the h2c
/// backend waiting for their bodies), then the scenario's bytes.  A stream error must hit only its
/// stream: the siblings complete with 200 and the connection keeps answering; a connection error
/// names a last stream id that covers every stream sozu took (RFC 9113 6.8) and releases the connection.
fn sibling_scenarios() -> Vec<Scn> {
    let mut v = vec![];
    let mut add = |name, bytes, want| v.push(Scn { name, st: St::Open, bytes, want, prefix: "/h2" });
    add("sib_wu_stream_zero", wu(5, 0), Want::Stream(5, vec![PROTOCOL]));
    add("sib_wu_stream_overflow", wu(5, 0x7fff_ffff), Want::Stream(5, vec![FLOW]));
    add("sib_rst_then_data", [frame(T_RST, 0, 5, &8u32.to_be_bytes()), frame(T_DATA, 1, 5, b"late")].concat(), Want::Either(vec![STREAM_CLOSED]));
    add("sib_data_after_end_stream", [frame(T_DATA, 1, 5, b"x"), frame(T_DATA, 0, 5, b"y")].concat(), Want::Either(vec![STREAM_CLOSED]));
    add("sib_headers_again", frame(T_HEADERS, 4, 5, &request_block(false, "/")), Want::Either(vec![PROTOCOL]));
    {
        let mut b = frame(T_HEADERS, 4, 7, &request_block(true, "/h2/fourth"));
        b.extend(frame(T_HEADERS, 4, 9, &request_block(true, "/h2/over")));
        b.extend(frame(T_DATA, 0, 9, b"body-of-the-refused-stream"));
        add("sib_refused_over_limit", b, Want::Stream(9, vec![REFUSED]));
    }
    add(
        "sib_legal_mix",
        [frame(T_DATA, 0, 1, b"part"), wu(3, 10), frame(T_PRIORITY, 0, 5, &[0, 0, 0, 0, 16]), frame(0x42, 0xff, 5, b"whatever"), frame(T_DATA, 0, 3, b"part")].concat(),
        Want::Alive,
    );
    add("sib_data_pad_too_long", frame(T_DATA, 8, 5, &[9, b'a', b'b']), Want::Conn(vec![PROTOCOL], false));
    add("sib_frame_inside_header_block", [frame(T_HEADERS, 1, 7, &[0x82]), frame(T_DATA, 0, 1, b"x")].concat(), Want::Conn(vec![PROTOCOL], false));
    add("sib_oversized_frame", raw_frame(16385, T_DATA, 0, 5, &[]), Want::Conn(vec![FRAME_SIZE], false));
    add("sib_empty_data_flood", many(9, frame(T_DATA, 0, 5, &[])), Want::Conn(vec![CALM], false));
    add("sib_wu_conn_overflow", wu(0, 0x7fff_ffff), Want::Conn(vec![FLOW], false));
    v
}

fn run_siblings(front: std::net::SocketAddr, s: &Scn) -> Res {
    let mut viols: Vec<(String, String)> = vec![];
    let Some(mut p) = Peer::connect(front) else {
        return Res { name: s.name, summary: "connect-failed".into(), viols: vec![("bb-infra".into(), format!("{}: could not connect", s.name))] };
    };
    if !p.handshake(&[]) {
        return Res { name: s.name, summary: "handshake-failed".into(), viols: vec![("bb-infra".into(), format!("{}: H2 handshake failed", s.name))] };
    }
    let mut b = vec![];
    for (sid, path) in [(1u32, "/h2/sib-a"), (3, "/h2/sib-b"), (5, "/h2/victim")] {
        b.extend(frame(T_HEADERS, 4, sid, &request_block(true, path)));
    }
    p.send(&b);
    // the three requests reach the backend connection before the scenario's bytes
    let mut got = p.read_until(Duration::from_millis(200), |_| false);
    p.send(&s.bytes);
    let is_err = |x: &Fr| x.t == T_GOAWAY || (x.t == T_RST && x.code() != Some(NO_ERROR));
    let expect_err = !matches!(s.want, Want::Alive);
    got.extend(p.read_until(Duration::from_millis(if expect_err { 1500 } else { 300 }), |f| f.iter().any(is_err)));
    let mut goaway = got.iter().find(|x| x.t == T_GOAWAY).map(|x| (x.code().unwrap_or(999), x.payload.get(..4).map_or(0, |b| u32::from_be_bytes([b[0], b[1], b[2], b[3]]) & 0x7fff_ffff)));
    let mut completed: Vec<u32> = vec![];
    let mut ping_ok = None;
    if goaway.is_none() && !p.closed {
        // the siblings complete
        p.send(&[frame(T_DATA, 1, 1, b"end-a"), frame(T_DATA, 1, 3, b"end-b"), frame(T_PING, 0, 0, b"siblings")].concat());
        let done = |f: &[Fr]| {
            f.iter().any(|x| x.t == T_GOAWAY)
                || ([1u32, 3].iter().all(|sid| f.iter().any(|x| x.sid == *sid && x.t == T_HEADERS)) && f.iter().any(|x| x.t == T_PING && x.flags & 1 == 1))
        };
        let more = p.read_until(Duration::from_secs(4), done);
        ping_ok = Some(more.iter().any(|x| x.t == T_PING && x.flags & 1 == 1 && x.payload == b"siblings"));
        got.extend(more);
        goaway = got.iter().find(|x| x.t == T_GOAWAY).map(|x| (x.code().unwrap_or(999), x.payload.get(..4).map_or(0, |b| u32::from_be_bytes([b[0], b[1], b[2], b[3]]) & 0x7fff_ffff)));
        for sid in [1u32, 3] {
            if got.iter().any(|x| x.sid == sid && x.t == T_HEADERS && x.payload.first() == Some(&0x88)) {
                completed.push(sid);
            }
        }
    }
    let rsts: Vec<(u32, u32)> = got.iter().filter(|x| x.t == T_RST).map(|x| (x.sid, x.code().unwrap_or(999))).collect();
    let released = if goaway.is_some() { p.wait_closed(Duration::from_millis(2500)) } else { p.closed };
    let summary = format!("goaway={goaway:?} rst={rsts:?} siblings_completed={completed:?} ping={ping_ok:?} released={released}");
    let mut bad = |class: &str, text: String| viols.push((class.to_string(), format!("{}: {} [{}]", s.name, text, summary)));
    let allowed: Vec<u32> = match &s.want {
        Want::Conn(c, _) | Want::Either(c) => c.clone(),
        Want::Stream(_, c) => c.clone(),
        Want::Alive => vec![],
    };
    match goaway {
        Some((code, last)) => {
            if !allowed.contains(&code) {
                bad("bb-spurious-error", format!("GOAWAY code {code} with three requests in flight, allowed here: {allowed:?}"));
            }
            if code != NO_ERROR && last < 5 {
                bad("bb-goaway-last-stream", format!("GOAWAY names last stream {last}, but streams 1, 3 and 5 had been taken (a client would send them again)"));
            }
            if !released {
                bad("bb-not-released", "the connection was not released after GOAWAY".into());
            }
        }
        None => {
            if matches!(s.want, Want::Conn(..)) {
                bad("bb-no-error", format!("a connection error {allowed:?} was due, none was signalled"));
            }
            if let Want::Stream(sid, codes) = &s.want {
                if !rsts.iter().any(|(s1, c)| s1 == sid && codes.contains(c)) {
                    bad("bb-wrong-error", format!("RST_STREAM({sid}) with one of {codes:?} was due"));
                }
            }
            if let Want::Either(codes) = &s.want {
                if !rsts.iter().any(|(_, c)| codes.contains(c)) {
                    bad("bb-wrong-error", format!("RST_STREAM with one of {codes:?} was due"));
                }
            }
            // whatever happened to the victim, the siblings are untouched
            if let Some((sid, c)) = rsts.iter().find(|(sid, _)| *sid == 1 || *sid == 3) {
                bad("bb-sibling-hit", format!("a sibling stream was reset: RST_STREAM({sid}) code {c}"));
            }
            if completed != vec![1, 3] {
                bad("bb-sibling-lost", "a sibling request in flight on the same connection was not answered 200 after the error on another stream".into());
            }
            if ping_ok != Some(true) {
                bad("bb-wedged", "no PING acknowledgement after the error on one stream".into());
            }
        }
    }
    Res { name: s.name, summary, viols }
}

/// Faults of an h2c backend (h2bb::h2c_fault_backend behind `/hf`), with a sibling upload in flight on the
/// same frontend connection (and the same backend connection).  Whatever the backend does, the client gets
/// an explicit outcome on the faulty stream (a final status, or RST_STREAM), a response cut short is never
/// presented as complete, the frontend connection keeps answering, the sibling is answered (200 unless its
/// backend connection went away, then any explicit outcome).
const FAULTS: [&str; 9] = ["rst_first", "refused", "goaway_first", "close_first", "rst_mid", "close_mid", "goaway_mid", "bad_trailers_mid", "overrun_mid"];

fn run_fault(front: std::net::SocketAddr, name: &'static str) -> Res {
    let mut viols: Vec<(String, String)> = vec![];
    let Some(mut p) = Peer::connect(front) else {
        return Res { name, summary: "connect-failed".into(), viols: vec![("bb-infra".into(), format!("fault {name}: could not connect"))] };
    };
    if !p.handshake(&[]) {
        return Res { name, summary: "handshake-failed".into(), viols: vec![("bb-infra".into(), format!("fault {name}: H2 handshake failed"))] };
    }
    let mut dec = loona_hpack::Decoder::new();
    p.send(&frame(T_HEADERS, 4, 1, &request_block(true, "/hf/sibling")));
    let mut all = p.read_until(Duration::from_millis(200), |_| false);
    p.send(&frame(T_HEADERS, 5, 3, &request_block(false, &format!("/hf/fault/{name}"))));
    // outcome of the faulty stream: END_STREAM or RST_STREAM on 3 (or the connection going away)
    // (a GOAWAY(NO_ERROR) from sozu does not end a stream in flight; a closed connection ends the read by itself)
    let ended = |f: &[Fr], sid: u32| f.iter().any(|x| (x.t == T_GOAWAY && x.code() != Some(NO_ERROR)) || (x.sid == sid && (x.t == T_RST || ((x.t == T_HEADERS || x.t == T_DATA) && x.flags & 1 == 1))));
    all.extend(p.read_until(Duration::from_secs(6), |f| ended(f, 3)));
    let victim_closed_conn = p.closed;
    if !p.closed {
        p.send(&[frame(T_DATA, 1, 1, b"sibling-body"), frame(T_PING, 0, 0, b"faulty??")].concat());
        all.extend(p.read_until(Duration::from_secs(6), |f| ended(f, 1) && f.iter().any(|x| x.t == T_PING && x.flags & 1 == 1)));
    }
    // digest per stream (header blocks decoded in arrival order: one HPACK context)
    let mut status = [0u32; 2];
    let mut body = [0usize; 2];
    let mut end = ["open"; 2];
    let mut rst = [None; 2];
    for f in &all {
        let i = match f.sid {
            1 => 0,
            3 => 1,
            _ => continue,
        };
        match f.t {
            T_HEADERS => {
                let mut st = 0u32;
                let _ = dec.decode_with_cb(&f.payload, |k, v| {
                    if &k[..] == b":status" {
                        st = String::from_utf8_lossy(&v).parse().unwrap_or(0);
                    }
                });
                if st >= 200 || status[i] == 0 {
                    status[i] = st;
                }
                if f.flags & 1 == 1 {
                    end[i] = "clean";
                }
            }
            T_DATA => {
                body[i] += f.payload.len();
                if f.flags & 1 == 1 {
                    end[i] = "clean";
                }
            }
            T_RST => {
                rst[i] = f.code();
                if end[i] == "open" {
                    end[i] = "reset";
                }
            }
            _ => {}
        }
    }
    let goaway = all.iter().find(|x| x.t == T_GOAWAY).and_then(|x| x.code());
    let ping = all.iter().any(|x| x.t == T_PING && x.flags & 1 == 1 && x.payload == b"faulty??");
    let summary = format!(
        "victim status={} end={} rst={:?} body={} | sibling status={} end={} rst={:?} | goaway={goaway:?} ping={ping} closed={}",
        status[1], end[1], rst[1], body[1], status[0], end[0], rst[0], p.closed
    );
    let mut bad = |class: &str, text: String| viols.push((class.to_string(), format!("fault {name}: {text} [{summary}]")));
    if goaway.is_some_and(|c| c != NO_ERROR) || victim_closed_conn || (p.closed && goaway.is_none()) {
        bad("bb-fault-kills-connection", "a fault of the backend on one stream took the client's whole connection down".into());
    } else if !ping {
        bad("bb-wedged", "no PING acknowledgement after the backend fault".into());
    }
    match name {
        "rst_first" | "refused" | "goaway_first" | "close_first" => {
            if end[1] == "open" {
                bad("bb-fault-unanswered", "the request whose backend failed before answering got neither a final response nor RST_STREAM within 6 s".into());
            } else if end[1] == "clean" && !matches!(status[1], 200 | 502 | 503 | 504) {
                bad("bb-fault-status", format!("unexpected final status {}", status[1]));
            }
        }
        "rst_mid" | "close_mid" | "bad_trailers_mid" | "overrun_mid" => {
            if end[1] == "clean" {
                bad("bb-fault-truncated-clean", format!("the backend gave up after {FAULT_SENT} of {FAULT_BODY} announced bytes and the client saw the stream end cleanly with {} bytes", body[1]));
            } else if end[1] == "open" {
                bad("bb-fault-unanswered", "the response cut short by the backend was neither reset nor ended within 6 s".into());
            }
            if body[1] > FAULT_SENT {
                bad("bb-fault-body", format!("{} body bytes relayed, the backend sent {FAULT_SENT}", body[1]));
            }
        }
        _ => {
            // goaway_mid: a graceful GOAWAY covering the stream does not cut it
            if !(status[1] == 200 && end[1] == "clean" && body[1] == FAULT_BODY) {
                bad("bb-fault-goaway-cut", format!("GOAWAY(NO_ERROR) covering the stream, then the rest of the body: the client must get all {FAULT_BODY} bytes"));
            }
        }
    }
    // the sibling: same frontend connection, same backend connection
    let backend_conn_lost = matches!(name, "close_first" | "close_mid");
    if end[0] == "open" {
        bad("bb-sibling-lost", "the sibling upload got neither a response nor RST_STREAM within 6 s".into());
    } else if !backend_conn_lost && !(status[0] == 200 && end[0] == "clean") {
        bad("bb-sibling-hit", "the sibling request was not answered 200 although its backend connection stayed up".into());
    }
    Res { name, summary, viols }
}

/// Proxy-initiated GOAWAY: SoftStop with one idle connection and one connection holding an open stream.
/// RFC 9113 6.8: GOAWAY(NO_ERROR) announces the shutdown; streams already open complete; new streams are
/// refused (REFUSED_STREAM) without tearing the connection down; the connection is then released and the
/// worker ends.
fn graceful_shutdown(front: std::net::SocketAddr, w: &mut WorkerHandle) {
    use sozu_command_lib::proto::command::{request::RequestType, SoftStop};
    let (Some(mut idle), Some(mut open)) = (Peer::connect(front), Peer::connect(front)) else {
        println!("viol bb-infra graceful_shutdown: could not connect");
        return;
    };
    if !idle.handshake(&[]) || !open.handshake(&[]) {
        println!("viol bb-infra graceful_shutdown: handshake failed");
        return;
    }
    // the h2c backend answers only once the request is complete, so stream 1 stays open across the shutdown
    open.send(&frame(T_HEADERS, 4, 1, &request_block(true, "/h2/shutdown")));
    let early = open.read_until(Duration::from_millis(400), |_| false);
    if early.iter().any(|x| x.sid == 1 && (x.t == T_HEADERS || x.t == T_RST)) {
        println!("viol bb-infra graceful_shutdown: stream 1 was answered before its request was complete");
        return;
    }
    w.send(RequestType::SoftStop(SoftStop {}));
    let mut bad = |class: &str, text: String| println!("viol {class} graceful_shutdown: {text}");
    // idle connection: GOAWAY(NO_ERROR), then released
    let fr = idle.read_until(Duration::from_secs(4), |f| f.iter().any(|x| x.t == T_GOAWAY));
    let g_idle = fr.iter().find(|x| x.t == T_GOAWAY).and_then(|x| x.code());
    if g_idle != Some(NO_ERROR) {
        bad("bb-shutdown-goaway", format!("idle connection: GOAWAY(NO_ERROR) was due, got {g_idle:?}"));
    }
    let idle_released = idle.wait_closed(Duration::from_secs(6));
    if !idle_released {
        bad("bb-not-released", "the idle connection was not released after the shutdown GOAWAY".into());
    }
    // connection with an open stream: GOAWAY(NO_ERROR) but still usable for that stream
    let fr = open.read_until(Duration::from_secs(4), |f| f.iter().any(|x| x.t == T_GOAWAY));
    let g_open = fr.iter().find(|x| x.t == T_GOAWAY).and_then(|x| x.code());
    if g_open != Some(NO_ERROR) {
        bad("bb-shutdown-goaway", format!("connection with an open stream: GOAWAY(NO_ERROR) was due, got {g_open:?}"));
    }
    // a new stream after the GOAWAY is refused, the connection survives it
    let mut b = frame(T_HEADERS, 5, 3, &request_block(false, "/late"));
    b.extend(frame(T_PING, 0, 0, b"draining"));
    open.send(&b);
    let fr = open.read_until(Duration::from_secs(3), |f| {
        f.iter().any(|x| x.t == T_PING && x.flags & 1 == 1) && f.iter().any(|x| x.sid == 3)
    });
    let refused = fr.iter().any(|x| x.t == T_RST && x.sid == 3 && x.code() == Some(REFUSED));
    let answered = fr.iter().any(|x| x.t == T_HEADERS && x.sid == 3);
    if !refused {
        bad("bb-shutdown-new-stream", format!("a stream opened after the shutdown GOAWAY must be refused (RST_STREAM REFUSED_STREAM); refused={refused} answered={answered} closed={}", open.closed));
    }
    if !fr.iter().any(|x| x.t == T_PING && x.flags & 1 == 1) && !open.closed {
        bad("bb-wedged", "no PING acknowledgement while draining".into());
    }
    if std::env::var_os("C15BB_DEBUG").is_some() {
        for x in &fr {
            println!("obs dbg after-late-stream t={} sid={} flags={} code={:?} closed={}", x.t, x.sid, x.flags, x.code(), open.closed);
        }
    }
    // the stream that was open before the GOAWAY completes
    open.send(&frame(T_DATA, 1, 1, b"last-body"));
    let fr = open.read_until(Duration::from_secs(4), |f| f.iter().any(|x| x.sid == 1 && x.t == T_HEADERS));
    if std::env::var_os("C15BB_DEBUG").is_some() {
        for x in &fr {
            println!("obs dbg after-last-data t={} sid={} flags={} code={:?} closed={}", x.t, x.sid, x.flags, x.code(), open.closed);
        }
    }
    let status = fr.iter().find(|x| x.sid == 1 && x.t == T_HEADERS).and_then(|x| x.payload.first().copied());
    if status != Some(0x88) {
        bad("bb-shutdown-cut-request", format!("the request in flight at shutdown was not answered 200 (first HPACK byte {status:?}, closed={})", open.closed));
    }
    let open_released = open.wait_closed(Duration::from_secs(8));
    if !open_released {
        bad("bb-not-released", "the draining connection was not released after its last stream completed".into());
    }
    // and the worker ends
    let t0 = std::time::Instant::now();
    while w.alive() && t0.elapsed() < Duration::from_secs(10) {
        std::thread::sleep(Duration::from_millis(100));
    }
    if w.alive() {
        bad("bb-shutdown-hangs", "the worker did not stop within 10 s of SoftStop although every connection was done".into());
    }
    println!(
        "obs graceful_shutdown idle_goaway={g_idle:?} idle_released={idle_released} open_goaway={g_open:?} late_stream_refused={refused} in_flight_status={status:?} open_released={open_released} worker_stopped={}",
        !w.alive()
    );
}

fn main() {
    let thorough = std::env::args().nth(1).as_deref() == Some("thorough");
    let only = std::env::args().nth(2);
    let _ = sozu_command_lib::logging::setup_logging("file:///dev/null", false, None, None, None, "error", "C15BB");
    let front: std::net::SocketAddr = format!("127.0.0.1:{}", free_port()).parse().unwrap();
    let back_listener = TcpListener::bind("127.0.0.1:0").unwrap();
    let back = back_listener.local_addr().unwrap();
    std::thread::spawn(move || h1_backend(back_listener));
    let mut w = start_worker();
    let mut l = https_listener_config(front);
    l.h2_max_ping_per_window = Some(8);
    l.h2_max_settings_per_window = Some(8);
    l.h2_max_rst_stream_per_window = Some(8);
    l.h2_max_empty_data_per_window = Some(8);
    l.h2_max_window_update_stream0_per_window = Some(8);
    l.h2_max_continuation_frames = Some(3);
    l.h2_max_glitch_count = Some(10);
    l.h2_max_header_list_size = Some(4096);
    l.h2_max_concurrent_streams = Some(4);
    l.h2_graceful_shutdown_deadline_seconds = Some(4);
    configure_https(&mut w, l, front, back, false);
    let h2_listener = TcpListener::bind("127.0.0.1:0").unwrap();
    let h2_back = h2_listener.local_addr().unwrap();
    std::thread::spawn(move || h2c_backend(h2_listener));
    add_h2_cluster(&mut w, front, h2_back, "/h2");
    let hf_listener = TcpListener::bind("127.0.0.1:0").unwrap();
    let hf_back = hf_listener.local_addr().unwrap();
    let (hf_tx, hf_rx) = std::sync::mpsc::channel::<String>();
    std::thread::spawn(move || h2c_fault_backend(hf_listener, hf_tx));
    add_h2_cluster_named(&mut w, front, hf_back, "/hf", "c2");

    if !probe(front) {
        println!("viol bb-infra the worker does not serve a well-formed request before any scenario");
        std::process::exit(0);
    }
    let scns: Vec<Scn> = scenarios(thorough).into_iter().filter(|s| only.as_deref().map_or(true, |o| o == s.name)).collect();
    let sibs: Vec<Scn> = sibling_scenarios().into_iter().filter(|s| only.as_deref().map_or(true, |o| o == s.name)).collect();
    let results: Vec<Res> = std::thread::scope(|sc| {
        let mut hs: Vec<_> = scns.iter().map(|s| sc.spawn(move || window_retry(s, || run(front, s)))).collect();
        hs.extend(sibs.iter().map(|s| sc.spawn(move || window_retry(s, || run_siblings(front, s)))));
        hs.extend(FAULTS.iter().filter(|n| only.as_deref().map_or(true, |o| o == **n)).map(|n| sc.spawn(move || run_fault(front, n))));
        hs.into_iter().map(|h| h.join().unwrap_or(Res { name: "?", summary: "scenario thread panicked".into(), viols: vec![("bb-infra".into(), "scenario thread panicked".into())] })).collect()
    });
    for r in &results {
        println!("obs {} {}", r.name, r.summary.replace(' ', "_"));
        for (c, t) in &r.viols {
            println!("viol {c} {t}");
        }
    }
    if std::env::var_os("C15BB_DEBUG").is_some() {
        for l in hf_rx.try_iter() {
            println!("obs dbg fault-backend {l}");
        }
    }
    // the worker survived all of it and still serves
    if !w.alive() {
        println!("viol bb-worker-died the worker thread ended during the scenarios");
    }
    let served = (0..3).filter(|_| probe(front)).count();
    if served < 3 {
        println!("viol bb-probe-starved only {served} of 3 well-formed requests were served after the scenarios");
    }
    // the h2c backend really is behind /h2
    {
        let mut ok = false;
        if let Some(mut p) = Peer::connect(front) {
            if p.handshake(&[]) {
                p.send(&frame(T_HEADERS, 0x5, 1, &request_block(false, "/h2/probe")));
                let fr = p.read_until(Duration::from_secs(3), |f| f.iter().any(|x| x.t == T_DATA && x.sid == 1 && x.flags & 1 == 1));
                ok = fr.iter().any(|x| x.t == T_DATA && x.sid == 1 && x.payload == b"h2pong");
            }
        }
        if !ok {
            println!("viol bb-infra the /h2 frontend is not served by the h2c backend");
        }
    }
    let shutdown = only.is_none() || only.as_deref() == Some("graceful_shutdown");
    if shutdown {
        graceful_shutdown(front, &mut w);
    }
    println!("obs done scenarios={} probes_ok={served} worker_alive={}", results.len(), w.alive());
    std::process::exit(0);
}
