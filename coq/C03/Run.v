(** C03 — token interface of the model for the correspondence check. *)
From Coq Require Import List ZArith NArith String Bool.
From SV Require Import Common.Tok C13.Model C03.Model.
Import ListNotations.
Open Scope string_scope.
Open Scope list_scope.

Definition summary (s : list N) : list tok :=
  match strict_h1 s with
  | None => [TS "S"; TS "bad"]
  | Some l =>
    TS "S" :: tn_nat (List.length l) ::
    flat_map (fun r => [TB (rq_method r); TB (rq_target r); TB (rq_host r);
                        tn_nat (List.length (rq_headers r)); tn_nat (List.length (rq_body r));
                        tn_nat (List.length (rq_trailers r))]) l
  end.

Fixpoint pairs (ts : list tok) : list header :=
  match ts with
  | TB k :: TB v :: t => (k, v) :: pairs t
  | _ => []
  end.

(** the body the driver appends after the head so that the message is complete *)
Definition tail_of (a : accepted) (es : bool) : list N :=
  if es then []
  else match values_of (B "content-length") (headers_of (a_items a)) with
       | c :: _ => if (4096 <? dec_value 0 c)%N then [] else repeat 120%N (N.to_nat (dec_value 0 c))
       | [] => B "0" ++ crlf ++ crlf
       end.

Definition step_op (op : list tok) : list tok :=
  match op with
  | TS name :: args =>
    if name =? "h2" then
      match args with
      | TN es :: kv =>
        let e := Z.eqb es 1 in
        match accept_h2 (pairs kv) e with
        | Reject => [TS "reject"]
        | Accept a => let bytes := serialize_h1 a in
                      [TS "accept"; TB bytes] ++ summary (bytes ++ tail_of a e)
        end
      | _ => [TS "badop"] end
    else if name =? "h1" then
      match args with [TB raw] => summary raw | _ => [TS "badop"] end
    else if name =? "guard" then
      match args with
      | TB m :: kv => [TS (if h1_guard m (pairs kv) then "forward" else "refuse")]
      | _ => [TS "badop"] end
    else if name =? "ledger" then
      (* Content-Length / DATA ledger: ledger <declared? 0|1> <declared> (<0|1 end_stream> <len> | 2 = trailers | 3 = cancel)* *)
      match args with
      | TN hasd :: TN d :: evs =>
        let fix evl (fuel : nat) (l : list tok) : list ev :=
            match fuel with O => [] | S f =>
            match l with
            | TN 2 :: t => Trailers :: evl f t
            | TN 3 :: t => Cancel :: evl f t
            | TN k :: TN len :: t => Data (Z.to_N len) (Z.eqb k 1) :: evl f t
            | _ => []
            end end in
        match data_agree (if Z.eqb hasd 1 then Some (Z.to_N d) else None) 0%N (evl (List.length evs) evs) with
        | Open n => [TS "open"; tn_N n]
        | Complete n => [TS "complete"; tn_N n]
        | Reset => [TS "reset"]
        end
      | _ => [TS "badop"] end
    else if name =? "h2t" then
      (* a request trailer block: h2t <length_framed 0|1> (name value)* *)
      match args with
      | TN lf :: kv =>
        match accept_trailers (Z.eqb lf 1) (pairs kv) with
        | None => [TS "reject"]
        | Some ts => [TS "accept"; TB (if Z.eqb lf 1 then [] else serialize_trailers ts)]
        end
      | _ => [TS "badop"] end
    else if name =? "cuts" then []
    else [TS "badop"]
  | _ => [TS "badop"]
  end.

Definition run_case (ops : list (list tok)) : list (list tok) := map step_op ops.
