"""C09 — the main process's verdict to a client matches what the workers did."""
import os, re
import vlib
from vlib import Case

ID = "C09"
COQ_DIRS = ["Common", "C09"]
COQ_TARGETS = ["C09/Props.vo", "C09/Run.vo"]
PROPS_MODULES = ["C09.Props"]
RUN_MODULE = "C09.Run"
RUN_FN = "run_case"
HARNESS_BIN = "c09"
HARNESS_BINS = ["c09"]
SHRINK_KEEP = ("hub", "hub2", "end")
RULE = ("cases: the real CommandHub runs in a thread with 0-3 fake workers registered over socketpairs and 1-3 scripted "
        "clients on the command socket; a case is a script of client requests (worker verbs accepted/refused by the "
        "state, queries, status, metrics, local verbs, unserved verbs, load-state of n requests, hard/soft stop), worker "
        "behaviours (ok, failure, processing, undecodable status, duplicate, late, answer with another worker's id, unknown "
        "id, silence, channel close), client disconnects and real-time sleeps on either side of the worker timeout; every "
        "step is followed by a double ListWorkers barrier so its observation is deterministic. Non-trivial and distinct: "
        ">=1 scattered request, >=2 worker events of which at least one is a fault (failure, duplicate, late, foreign id, "
        "close or silence past the timeout), and a final verdict observed; distinct by op text.")
ASSUMPTIONS = [
    "a worker request id '{verb}-{worker}-{task}-{index}' is injective in (worker, task, index): the three numbers are recovered from the right; the model uses the triple",
    "one scripted step = one batch of the run loop followed by a loop top; the double barrier makes the real loop reach that point (mio delivers a socket's readiness no later than the readiness of a socket written afterwards)",
    "time: the model's clock advances only by explicit ticks; the driver checks with its own clock that real time is on the same side of every pending deadline and re-runs the case otherwise",
    "ConfigState::dispatch, the state-file parser and the audit trail are outside the model: a verb is 'accepted' or 'rejected' as data of the case (checked against the real dispatch by the correspondence run)",
    "process management (fork/exec of workers, upgrade of the main process or of a worker, automatic restart) is excluded; workers are socket peers",
]
TRUSTED = [
    "translator props/c09.py:translate extracts from bin/src/command/{server,requests}.rs: the argument of on_finish in handle_finishing_task, the two flags and comparisons of the run loop, has_finished, the on_message arms, the in-flight retire/purge, the scatter filter, the verdict conditions of WorkerTask/LoadStateTask/StopTask, the Timeout of every scatter, the answers to unserved verbs",
]
LEVEL_TEXT = ("Machine-checked proof (Coq 8.16) over an executable model of the main process' scatter/gather loop whose decision "
              "tables are regenerated from bin/src/command/{server,requests}.rs on every run; the model is tied to the real "
              "CommandHub by a differential correspondence run (hub thread + fake workers + scripted clients, deterministic "
              "barriers) with the property's own oracle evaluated on the implementation.")
LEVEL_NOTE = ("Trusted: Coq kernel; extraction and ocaml/driver.ml for the correspondence only; the translator's regexes; the "
              "barrier argument for determinism. Outside the model: ConfigState::dispatch (accepted/rejected is case data), audit "
              "emission, event subscription fan-out, fork/exec and upgrade of processes, the Channel (C11). ok_is_sound covers the "
              "tasks whose OK claims application (worker verbs, load-state, soft/hard stop). Query, metrics and status tasks answer OK "
              "with whatever was gathered: by design for status (the per-worker run state is the content of the answer); for "
              "query/metrics the content lists only the workers that answered and the status stays OK — kept as an open finding, not "
              "changed (a CLI-visible semantic decision). Deadlines (theorem deadline_coverage, driven by the silent_<verb> cases): worker verbs, query/status/metrics, hard "
              "stop and load-state have the worker timeout; the soft stop has none by design (sessions may take arbitrarily long to "
              "drain) and waits without bound for a worker that is alive but silent — open finding no-deadline-softstop; the "
              "static-configuration reload has none either (not driven: it needs a full configuration file). A worker whose channel "
              "closes is counted as failed at once, deadline or not. A response that arrives in the same loop batch as the request "
              "that scattered it would be dropped (the task is still in queued_tasks): impossible for a real worker, the request is "
              "only flushed to it one loop iteration later; a client that pipelines two requests in one read has all but the last dropped "
              "(responses carry no id, the protocol is one request at a time). Hot upgrade of the main process: the fork/exec itself is "
              "not run; what is tied is the rest of UpgradeData (JSON round trip through the real serde types: fds, config, state, id "
              "counters, workers, boot generation) and CommandHub::from_upgrade_data (the hub2 cases run every scenario against a hub "
              "re-created that way; stopped workers are not taken over). Read, not run: UpgradeData carries no task, in-flight id, client "
              "or event subscription, so a request pending at upgrade time is dropped (theorem upgrade_drops_pending, open finding "
              "upgrade-drops-pending); upgrade_main goes on after a failed disable_cloexec_before_upgrade (finish_failure without return: "
              "a second final answer would follow).")
TECHNIQUE = "Rocq/Coq proof over an executable Gallina model + source translator (decision tables) + differential correspondence (extracted OCaml vs real CommandHub)"
CLAIMED = True

SERVER = "bin/src/command/server.rs"
REQUESTS = "bin/src/command/requests.rs"


# ---------------------------------------------------------------------------
# translator (T-table): decision tables of the scatter/gather loop -> coq/C09/Gen.v

def body_after(src, start_re, what, fails):
    """text of the brace-balanced block that follows the first match of start_re"""
    m = re.search(start_re, src)
    if not m:
        fails.append("%s: not found (%s)" % (what, start_re))
        return ""
    i = src.find("{", m.end() - 1)
    if i < 0:
        fails.append("%s: no body" % what)
        return ""
    depth, j = 0, i
    while j < len(src):
        ch = src[j]
        if ch == "{":
            depth += 1
        elif ch == "}":
            depth -= 1
            if depth == 0:
                return src[i:j + 1]
        j += 1
    fails.append("%s: unbalanced body" % what)
    return ""


def strip_comments(s):
    return re.sub(r"//[^\n]*", "", s)


CMP_NAT = {">=": "Nat.leb {b} ({a})", ">": "Nat.ltb {b} ({a})", "==": "Nat.eqb ({a}) {b}",
           "<=": "Nat.leb ({a}) {b}", "<": "Nat.ltb ({a}) {b}", "!=": "negb (Nat.eqb ({a}) {b})"}
CMP_N = {"<": "N.ltb {a} {b}", "<=": "N.leb {a} {b}", ">": "N.ltb {b} {a}", ">=": "N.leb {b} {a}"}


def cond_to_coq(expr, atoms, fails, what):
    """tiny boolean-expression translator: atoms joined by || && ! ( )"""
    toks = re.findall(r"\|\||&&|!(?!=)|\(|\)|[A-Za-z_][A-Za-z_0-9.]*\s*(?:>=|<=|==|!=|>|<)\s*\d+|[A-Za-z_][A-Za-z_0-9.]*", expr)
    if "".join(toks).replace(" ", "") != expr.replace(" ", "").replace("\n", ""):
        fails.append("%s: condition %r not understood" % (what, expr))
        return "false"
    pos = [0]

    def atom():
        t = toks[pos[0]]
        pos[0] += 1
        if t == "(":
            r = disj()
            pos[0] += 1
            return "(" + r + ")"
        if t == "!":
            return "negb (" + atom() + ")"
        m = re.fullmatch(r"([A-Za-z_][A-Za-z_0-9.]*)\s*(>=|<=|==|!=|>|<)\s*(\d+)", t)
        if m:
            name = m.group(1)
            if name not in atoms:
                fails.append("%s: unknown operand %s" % (what, name))
                return "false"
            return "(" + CMP_NAT[m.group(2)].format(a=atoms[name], b=m.group(3)) + ")"
        if t in atoms:
            return atoms[t]
        fails.append("%s: unknown operand %s" % (what, t))
        return "false"

    def conj():
        r = atom()
        while pos[0] < len(toks) and toks[pos[0]] == "&&":
            pos[0] += 1
            r = "(%s && %s)" % (r, atom())
        return r

    def disj():
        r = conj()
        while pos[0] < len(toks) and toks[pos[0]] == "||":
            pos[0] += 1
            r = "(%s || %s)" % (r, conj())
        return r

    try:
        r = disj()
    except IndexError:
        fails.append("%s: condition %r not understood" % (what, expr))
        return "false"
    if pos[0] != len(toks):
        fails.append("%s: condition %r not understood" % (what, expr))
    return r


def translate():
    fails = []
    srv = strip_comments(open(os.path.join(vlib.REPO, SERVER)).read())
    rq = strip_comments(open(os.path.join(vlib.REPO, REQUESTS)).read())
    g = []

    # 1. handle_finishing_task: what is handed to on_finish; the in-flight purge
    hft = body_after(srv, r"fn handle_finishing_task\(&mut self, task_id: TaskId, task: TaskContainer, timed_out: bool\)\s*\{", "handle_finishing_task", fails)
    m = re.findall(r"task\.job\.on_finish\(&mut self\.server, client, ([^)]*)\);", hft)
    flag = "false"
    if len(m) != 1:
        fails.append("handle_finishing_task: expected exactly one on_finish call")
    else:
        flag = cond_to_coq(m[0].strip(), {"timed_out": "timed_out", "true": "true", "false": "false"}, fails, "on_finish argument")
    g.append("Definition on_finish_flag (timed_out : bool) : bool := %s." % flag)
    purge = bool(re.search(r"self\.in_flight\s*\.retain\(\|_, in_flight_task_id\| \*in_flight_task_id != task_id\)", hft))
    g.append("Definition purge_on_finish : bool := %s." % ("true" if purge else "false"))

    # 2. the run loop: order, flags and comparisons of the two finishing tests
    run = body_after(srv, r"pub fn run\(&mut self\) -> bool\s*\{", "CommandHub::run", fails)
    m1 = re.search(r"if task\.job\.get_gatherer\(\)\.has_finished\(\) \{\s*self\.handle_finishing_task\(task_id, task, (true|false)\);\s*return None;", run)
    m2 = re.search(r"if let Some\(timeout\) = task\.timeout \{\s*if timeout (<=|>=|<|>) now \{\s*self\.handle_finishing_task\(task_id, task, (true|false)\);\s*return None;", run)
    if not m1 or not m2:
        fails.append("CommandHub::run: the has_finished / timeout tests of the task filter are no longer recognised")
        g += ["Definition flag_when_finished : bool := false.", "Definition flag_when_expired : bool := false.",
              "Definition finished_checked_first : bool := true.", "Definition expired (deadline now : N) : bool := false."]
    else:
        g.append("Definition flag_when_finished : bool := %s." % m1.group(1))
        g.append("Definition flag_when_expired : bool := %s." % m2.group(2))
        g.append("Definition finished_checked_first : bool := %s." % ("true" if m1.start() < m2.start() else "false"))
        g.append("Definition expired (deadline now : N) : bool := %s." % CMP_N[m2.group(1)].format(a="deadline", b="now"))
    if len(re.findall(r"handle_finishing_task\(", run)) != 2:
        fails.append("CommandHub::run: expected exactly two calls of handle_finishing_task")

    # 3. DefaultGatherer: has_finished and the on_message arms
    dg = body_after(srv, r"impl Gatherer for DefaultGatherer\s*\{", "impl Gatherer for DefaultGatherer", fails)
    m = re.search(r"fn has_finished\(&self\) -> bool \{\s*self\.ok \+ self\.errors (>=|<=|==|!=|>|<) self\.expected_responses\s*\}", dg)
    if not m:
        fails.append("DefaultGatherer::has_finished: not `self.ok + self.errors <cmp> self.expected_responses`")
        g.append("Definition has_finished (ok errors expected : nat) : bool := false.")
    else:
        g.append("Definition has_finished (ok errors expected : nat) : bool := %s." % CMP_NAT[m.group(1)].format(a="ok + errors", b="expected"))
    if not re.search(r"fn inc_expected_responses\(&mut self, count: usize\) \{\s*let before = self\.expected_responses;\s*self\.expected_responses \+= count;", dg):
        fails.append("DefaultGatherer::inc_expected_responses: no longer `self.expected_responses += count`")
    om = body_after(dg, r"fn on_message\(", "DefaultGatherer::on_message", fails)
    mm = body_after(om, r"match ResponseStatus::try_from\(message\.status\)\s*\{", "on_message match", fails)
    arms = {}
    for name, pat in (("SOk", r"Ok\(ResponseStatus::Ok\)"), ("SFailure", r"Ok\(ResponseStatus::Failure\)"),
                      ("SProcessing", r"Ok\(ResponseStatus::Processing\)"), ("SInvalid", r"Err\(\w+\)")):
        m = re.search(pat + r"\s*=>\s*(.*?)(?=\n\s*(?:Ok\(ResponseStatus::|Err\(|\}\s*$))", mm, re.S)
        if not m:
            fails.append("DefaultGatherer::on_message: no arm for %s" % name)
            arms[name] = "Nothing"
            continue
        a = m.group(1)
        kinds = [k for k, p in (("IncOk", r"self\.ok \+= 1"), ("IncErr", r"self\.errors \+= 1"), ("Notice", r"return_processing")) if re.search(p, a)]
        if len(kinds) > 1:
            fails.append("DefaultGatherer::on_message: arm %s does several things" % name)
        arms[name] = kinds[0] if kinds else "Nothing"
    g.append("Definition on_message_arm (st : status) : arm :=\n  match st with SOk => %s | SProcessing => %s | SFailure => %s | SInvalid => %s end."
             % (arms["SOk"], arms["SProcessing"], arms["SFailure"], arms["SInvalid"]))

    # 4. handle_worker_response: a terminal response retires its request id
    hwr = body_after(srv, r"fn handle_worker_response\(&mut self, worker_id: WorkerId, response: WorkerResponse\)\s*\{", "handle_worker_response", fails)
    retired = set()
    m = re.search(r"let retired_id = match ResponseStatus::try_from\(response\.status\) \{\s*((?:\|?\s*Ok\(ResponseStatus::\w+\)\s*)+)=> Some\(response\.id\.clone\(\)\),\s*_ => None,\s*\};", hwr)
    if m and re.search(r"if let Some\(id\) = retired_id \{\s*self\.server\.in_flight\.remove\(&id\);\s*\}", hwr):
        retired = set(re.findall(r"ResponseStatus::(\w+)", m.group(1)))
    elif "retired_id" in hwr or "in_flight.remove" in hwr:
        fails.append("handle_worker_response: the in-flight retire is no longer recognised")
    if not re.search(r"let Some\(task_id\) = self\.in_flight\.get\(&response\.id\)\.copied\(\) else \{", hwr) or \
       not re.search(r"let task = match self\.tasks\.get_mut\(&task_id\) \{", hwr):
        fails.append("handle_worker_response: the in_flight / tasks lookups are no longer recognised")
    g.append("Definition retire_on_terminal (st : status) : bool :=\n  match st with SOk => %s | SProcessing => %s | SFailure => %s | SInvalid => false end."
             % tuple("true" if n in retired else "false" for n in ("Ok", "Processing", "Failure")))

    # 5. scatter_on: which workers are targeted, one in-flight id and one expected response each
    so = body_after(srv, r"pub fn scatter_on\(", "Server::scatter_on", fails)
    skips = bool(re.search(r"\.map\(\|id\| id == w\.id && w\.run_state != RunState::Stopped\)\s*\.unwrap_or\(w\.run_state != RunState::Stopped\)", so))
    if not skips and "RunState::" in so:
        if not re.search(r"\.unwrap_or\(true\)", so):
            fails.append("Server::scatter_on: worker filter not recognised")
    g.append("Definition scatter_skips_stopped : bool := %s." % ("true" if skips else "false"))
    for pat, what in ((r"worker_count \+= 1;", "worker_count += 1"),
                      (r"worker\.send\(&worker_request\);\s*self\.in_flight\.insert\(worker_request\.id, task_id\);", "send + in_flight.insert"),
                      (r"task\.job\.get_gatherer\(\)\.inc_expected_responses\(worker_count\);", "inc_expected_responses(worker_count)"),
                      (r'"\{\}-\{\}-\{\}-\{\}",\s*worker_request\.content\.short_name\(\),\s*worker\.id,\s*task_id,\s*request_id,', "request id format")):
        if not re.search(pat, so):
            fails.append("Server::scatter_on: `%s` no longer recognised" % what)
    nt = body_after(srv, r"pub fn new_task\(", "Server::new_task", fails)
    if not re.search(r"Timeout::None => None,\s*Timeout::Default => Some\(Duration::from_secs\(self\.config\.worker_timeout as u64\)\),", nt) or \
       not re.search(r"\.map\(\|duration\| Instant::now\(\) \+ duration\);", nt):
        fails.append("Server::new_task: deadline computation no longer recognised")
    closes = bool(re.search(r"WorkerResult::CloseSession => \{\s*self\.handle_worker_close\(&token\);\s*self\.fail_requests_in_flight_to\(worker_id\);\s*\}", run))
    if not closes and not re.search(r"WorkerResult::CloseSession => self\.handle_worker_close\(&token\),", run):
        fails.append("CommandHub::run: the CloseSession arm is no longer recognised")
    if closes:
        ff = body_after(srv, r"fn fail_requests_in_flight_to\(&mut self, worker_id: WorkerId\)\s*\{", "fail_requests_in_flight_to", fails)
        if not re.search(r"\.filter\(\|id\| worker_of_request_id\(id\) == Some\(worker_id\)\)", ff) or \
           not re.search(r"for id in orphans \{\s*self\.handle_worker_response\(\s*worker_id,\s*WorkerResponse \{\s*id,\s*status: ResponseStatus::Failure\.into\(\),", ff):
            fails.append("fail_requests_in_flight_to: no longer answers a failure for every request in flight to that worker")
            closes = False
        if not re.search(r"fn worker_of_request_id\(id: &str\) -> Option<WorkerId> \{\s*id\.rsplitn\(4, '-'\)\.nth\(2\)\?\.parse\(\)\.ok\(\)\s*\}", srv):
            fails.append("worker_of_request_id: no longer the third field from the right of the request id")
            closes = False
    g.append("Definition close_fails_in_flight : bool := %s." % ("true" if closes else "false"))
    ct = body_after(srv, r"pub fn cancel_task\(&mut self, task_id: TaskId\)\s*\{", "Server::cancel_task", fails)
    if not re.search(r"self\.queued_tasks\.remove\(&task_id\);", ct):
        fails.append("Server::cancel_task no longer removes the task")
    g.append("Definition cancel_purges : bool := %s." % ("true" if re.search(r"self\.in_flight\s*\.retain\(\|_, in_flight_task_id\| \*in_flight_task_id != task_id\);", ct) else "false"))
    ls = body_after(rq, r"pub fn load_state\(", "load_state", fails)
    if not re.search(r"Err\(message\) => \{.*?client\.finish_failure\(message\);\s*server\.cancel_task\(task_id\);\s*\}", ls, re.S):
        fails.append("load_state: the parse-error path is no longer `finish_failure(message); cancel_task(task_id)`")
    if not re.search(r"Ok\(\(\)\) => \{\s*client\.return_processing\(", ls) or len(re.findall(r"server\.cancel_task\(", ls)) != 1:
        fails.append("load_state: the success path / the single cancel_task are no longer recognised")
    if len(re.findall(r"client\.finish_(?:ok|failure)\(", ls)) != 3:
        fails.append("load_state: expected three early finish_failure (missing file, unreadable file, parse error) and nothing else")
    cw = body_after(srv, r"pub fn close_worker\(", "Server::close_worker", fails)
    if not re.search(r"worker\.run_state = RunState::Stopped;", cw):
        fails.append("Server::close_worker: no longer marks the worker Stopped")

    # 6. verdicts
    wt = body_after(rq, r"impl GatheringTask for WorkerTask\s*\{", "impl GatheringTask for WorkerTask", fails)
    m = re.search(r"if ([^{}]*?) \{\s*client\.finish_failure\(messages\.join\(\", \"\)\);\s*\} else \{\s*client\.finish_ok\(\"Successfully applied request to all workers\"\);\s*\}", wt)
    if not m:
        fails.append("WorkerTask::on_finish: final answer not recognised")
        g.append("Definition worker_fails (errors : nat) (timed_out : bool) : bool := false.")
    else:
        g.append("Definition worker_fails (errors : nat) (timed_out : bool) : bool := %s."
                 % cond_to_coq(m.group(1), {"errors": "errors", "timed_out": "timed_out"}, fails, "WorkerTask verdict"))
    if not re.search(r"let errors = self\.gatherer\.errors;", wt):
        fails.append("WorkerTask::on_finish: `errors` is no longer the gatherer's error count")
    if len(re.findall(r"client\.finish_(?:ok|failure)", wt)) != 2:
        fails.append("WorkerTask::on_finish: expected exactly one finish_ok and one finish_failure")
    lt = body_after(rq, r"impl GatheringTask for LoadStateTask\s*\{", "impl GatheringTask for LoadStateTask", fails)
    m = re.search(r"if ([^{}]*?) \{\s*client\.finish_ok\(format!\(\s*\"Successfully loaded state[^;]*;\s*return;\s*\}\s*client\.finish_failure\(", lt)
    if not m:
        fails.append("LoadStateTask::on_finish: final answer not recognised")
        g.append("Definition load_ok (errors : nat) (timed_out : bool) : bool := true.")
    else:
        g.append("Definition load_ok (errors : nat) (timed_out : bool) : bool := %s."
                 % cond_to_coq(m.group(1), {"errors": "errors", "timed_out": "timed_out"}, fails, "LoadStateTask verdict"))
    if len(re.findall(r"client\.finish_(?:ok|failure)\(", lt)) != 2:
        fails.append("LoadStateTask::on_finish: expected exactly one finish_ok and one finish_failure")
    st = body_after(rq, r"impl GatheringTask for StopTask\s*\{", "impl GatheringTask for StopTask", fails)
    atoms = {"timed_out": "timed_out", "self.hardness": "hardness", "self.gatherer.errors": "errors"}
    m = re.search(r"let hard_stop_timed_out = ([^;]*);\s*if hard_stop_timed_out \{\s*client\.finish_failure\(", st)
    m2 = re.search(r"if hard_stop_timed_out \{\s*\} else if ([^{}]*?) \{\s*client\.finish_failure\(.*?\} else \{\s*client\.finish_ok\(", st, re.S)
    m2b = re.search(r"if !hard_stop_timed_out \{\s*client\.finish_ok\(", st)
    m_old = re.search(r"if (timed_out && self\.hardness) \{\s*client\.finish_failure\(", st)
    if m and m2:
        g.append("Definition stop_fails (timed_out hardness : bool) (errors : nat) : bool := (%s || %s)."
                 % (cond_to_coq(m.group(1), atoms, fails, "StopTask verdict"), cond_to_coq(m2.group(1), atoms, fails, "StopTask verdict")))
        g.append("Definition stop_ok_after_failure : bool := false.")
    elif m and m2b:
        g.append("Definition stop_fails (timed_out hardness : bool) (errors : nat) : bool := %s." % cond_to_coq(m.group(1), atoms, fails, "StopTask verdict"))
        g.append("Definition stop_ok_after_failure : bool := false.")
    elif m_old:
        g.append("Definition stop_fails (timed_out hardness : bool) (errors : nat) : bool := %s." % cond_to_coq(m_old.group(1), atoms, fails, "StopTask verdict"))
        g.append("Definition stop_ok_after_failure : bool := true.")
    else:
        fails.append("StopTask::on_finish: final answer not recognised")
        g += ["Definition stop_fails (timed_out hardness : bool) (errors : nat) : bool := false.", "Definition stop_ok_after_failure : bool := true."]
    if len(re.findall(r"client\.finish_(?:ok|failure)\(", st)) != 3:
        fails.append("StopTask::on_finish: expected two finish_failure and one finish_ok")
    if not re.search(r"server\.run_state = ServerState::Stopping;", st):
        fails.append("StopTask::on_finish: no longer moves the server to Stopping")
    for name, what in (("QueryClustersTask", "Successfully queried clusters"), ("StatusTask", "Successfully collected the status of workers")):
        b = body_after(rq, r"impl GatheringTask for %s\s*\{" % name, name, fails)
        if len(re.findall(r"client\.finish_\w+\(", b)) != 1 or what not in b:
            fails.append("%s::on_finish: expected a single unconditional finish_ok_with_content" % name)

    # 7. the Timeout of every scatter
    def tmo_in(fn_re, what, nth=0):
        b = body_after(rq, fn_re, what, fails)
        t = re.findall(r"Timeout::(Default|None)", b)
        if len(t) <= nth:
            fails.append("%s: Timeout not found" % what)
            return "TDefault"
        return "T" + t[nth]
    g.append("Definition tmo_worker : tmo := %s." % tmo_in(r"pub fn worker_request\(", "worker_request"))
    tq = {tmo_in(r"pub fn query_clusters\(", "query_clusters"), tmo_in(r"fn query_metrics\(", "query_metrics"), tmo_in(r"fn status\(server", "status")}
    if len(tq) != 1:
        fails.append("query_clusters / query_metrics / status no longer share one Timeout (the model has one query kind)")
    g.append("Definition tmo_query : tmo := %s." % sorted(tq)[0])
    stop = body_after(rq, r"fn stop\(server: &mut Server, client: &mut ClientSession, hardness: bool\)\s*\{", "stop", fails)
    m = re.search(r"if hardness \{.*?RequestType::HardStop.*?Timeout::(Default|None).*?\} else \{.*?RequestType::SoftStop.*?Timeout::(Default|None)", stop, re.S)
    if not m:
        fails.append("stop: the hard/soft scatter calls are no longer recognised")
        g += ["Definition tmo_hardstop : tmo := TDefault.", "Definition tmo_softstop : tmo := TNone."]
    else:
        g.append("Definition tmo_hardstop : tmo := T%s." % m.group(1))
        g.append("Definition tmo_softstop : tmo := T%s." % m.group(2))
    g.append("Definition tmo_load : tmo := %s." % tmo_in(r"pub fn load_state\(", "load_state"))

    # 8. verbs the main process does not serve
    hcr = body_after(rq, r"pub fn handle_client_request\(", "handle_client_request", fails)
    a1 = re.search(r"None => \{\s*error!\(\"empty request sent by client \{:\?\}\", client\);\s*(client\.finish_failure\([^;]*\);)?\s*return;", hcr)
    a2 = re.search(r"RequestType::LaunchWorker\(_\) => \{\s*(client\.finish_failure\()?", hcr)
    a3 = re.search(r"RequestType::ReturnListenSockets\(_\) => \{\s*(client\.finish_failure\()?", hcr)
    if not a1 or not a2 or not a3:
        fails.append("handle_client_request: the arms of the unserved verbs are no longer recognised")
        ans = []
    else:
        ans = [bool(a1.group(1)), bool(a2.group(1)), bool(a3.group(1))]
    if ans and len(set(ans)) != 1:
        fails.append("handle_client_request: unserved verbs are answered inconsistently (%r)" % ans)
    g.append("Definition unserved_answered : bool := %s." % ("true" if ans and all(ans) else "false"))

    # 9. hot upgrade of the main process: what UpgradeData carries, what from_upgrade_data restores
    up = strip_comments(open(os.path.join(vlib.REPO, "bin/src/command/upgrade.rs")).read())
    ud = body_after(up, r"pub struct UpgradeData\s*\{", "UpgradeData", fails)
    fields = re.findall(r"pub (\w+):", ud)
    if sorted(fields) != sorted(["command_socket_fd", "config", "next_client_id", "next_session_id", "next_task_id", "next_worker_id", "workers", "state", "boot_generation"]):
        fails.append("UpgradeData: its fields changed (%s): the hand-over model (C09/Model.v handover) carries state, counters and live workers, nothing else" % fields)
    fu = body_after(srv, r"pub fn from_upgrade_data\(upgrade_data: UpgradeData\) -> Result<Self, HubError>\s*\{", "from_upgrade_data", fails)
    for pat, what in ((r"server\.state = state;", "state"), (r"server\.next_task_id = next_task_id;", "next_task_id"),
                      (r"server\.next_client_id = next_client_id;", "next_client_id"), (r"server\.next_session_id = next_session_id;", "next_session_id"),
                      (r"server\.next_worker_id = next_worker_id;", "next_worker_id"), (r"server\.boot_generation = boot_generation;", "boot_generation"),
                      (r"\.filter\(\|w\| w\.run_state != RunState::Stopped && w\.run_state != RunState::Stopping\)", "live workers only"),
                      (r"clients: HashMap::new\(\),\s*tasks: HashMap::new\(\),", "no client, no task")):
        if not re.search(pat, fu):
            fails.append("from_upgrade_data: `%s` no longer recognised" % what)
    gu = body_after(srv, r"pub fn generate_upgrade_data\(&self\) -> UpgradeData\s*\{", "generate_upgrade_data", fails)
    for f in ("next_client_id", "next_session_id", "next_task_id", "next_worker_id", "boot_generation"):
        if not re.search(r"%s: self\.%s," % (f, f), gu):
            fails.append("generate_upgrade_data: %s is no longer carried over" % f)
    um = body_after(up, r"pub fn upgrade_main\(server: &mut Server, client: &mut ClientSession\)\s*\{", "upgrade_main", fails)
    if not re.search(r"if !received_ok_from_new_process \{\s*client\.finish_failure\([^;]*\);\s*\} else \{\s*client\.finish_ok\(.*?server\.run_state = ServerState::Stopping;", um, re.S):
        fails.append("upgrade_main: the confirmation branch (failure | ok + Stopping) is no longer recognised")

    text = ("(* GENERATED by props/c09.py:translate from %s and %s — do not edit *)\n"
            "From Coq Require Import List Arith NArith Bool.\nFrom SV Require Import C09.Base.\n\n" % (SERVER, REQUESTS)) + "\n".join(g) + "\n"
    vlib.write_if_changed(os.path.join(vlib.COQ, "C09", "Gen.v"), text)
    return fails


# ---------------------------------------------------------------------------
# generator

SCATTER = ["wok", "wok", "wok", "query", "status", "metrics"]
LOCALS = ["local", "wfail", "loadmissing", "none", "launch", "retsock", "reloadbad"]


class Sim:
    """just enough bookkeeping to generate well-formed scripts (which client may
    send, which request index a worker may answer); predicts nothing"""

    def __init__(self, rng, nw, nc):
        self.rng, self.nw, self.nc = rng, nw, nc
        self.closed = set()
        self.cgone = set()
        self.recv = {w: 0 for w in range(nw)}      # requests each worker was sent
        self.busy = {}                               # client -> request descriptor
        self.tasks = []                              # descriptors of scattered requests
        self.ops = []
        self.ntask = 0
        self.logical = 0
        self.stopped = False

    def alive(self):
        return [w for w in range(self.nw) if w not in self.closed]

    def free_clients(self):
        return [c for c in range(self.nc) if c not in self.busy and c not in self.cgone]

    def req(self, c, verb, n=0):
        self.ops.append(["req", c, verb] + ([n] if verb in ("load", "loadbad") else []))
        if verb in ("local", "wfail", "loadmissing", "none", "launch", "retsock", "reloadbad"):
            return None
        if verb == "loadbad":
            # answered at once (failure), but its n requests were scattered: the workers may
            # still acknowledge them — nothing may come of it
            t = dict(client=None, verb=verb, timed=False, at=self.logical,
                     slots={w: list(range(self.recv[w], self.recv[w] + n)) for w in self.alive()},
                     answered=set(), done=False, ghost=True)
            for w in self.alive():
                self.recv[w] += n
            if n and t["slots"]:
                self.tasks.append(t)
            return None
        per = n if verb == "load" else 1
        t = dict(client=c, verb=verb, timed=verb != "softstop", at=self.logical,
                 slots={w: list(range(self.recv[w], self.recv[w] + per)) for w in self.alive()},
                 answered=set(), done=False)
        for w in self.alive():
            self.recv[w] += per
        self.tasks.append(t)
        self.busy[c] = t
        if not t["slots"] or per == 0:
            self.finish(t)
        return t

    def finish(self, t):
        t["done"] = True
        if self.busy.get(t["client"]) is t:
            self.busy.pop(t["client"], None)
        if t["verb"] in ("hardstop", "softstop"):
            self.stopped = True

    def resp(self, w, w2, k, st):
        self.ops.append(["resp", w, w2, k, st])
        for t in self.tasks:
            if t["done"]:
                continue
            if w2 in t["slots"] and k in t["slots"][w2] and st in (0, 2) and (w2, k) not in t["answered"]:
                t["answered"].add((w2, k))
                if len(t["answered"]) >= sum(len(v) for v in t["slots"].values()):
                    self.finish(t)

    def sleep(self, ms):
        self.ops.append(["sleep", ms])
        self.logical += ms
        for t in self.tasks:
            if not t["done"] and t["timed"] and self.logical > t["at"] + 1000:
                self.finish(t)


def gen_case(rng, cid, allow_sleep, allow_stop, handover=None):
    nw = rng.choice([0, 1, 2, 2, 2, 3, 3])
    nc = rng.choice([1, 2, 2, 3])
    if handover is not None:
        nw = 3
    s = Sim(rng, nw, nc)
    if handover is not None:
        # the hub is the one from_upgrade_data re-creates; a worker stopped before is not part of it
        s.ops.append(["hub2", nw, 1, nc, handover])
        if handover >= 0:
            s.closed.add(handover)
    else:
        s.ops.append(["hub", nw, 1, nc])
    nsleep = 0
    steps = rng.randint(4, 22)
    for _ in range(steps):
        if s.stopped:
            break
        r = rng.random()
        pend = [t for t in s.tasks if not t["done"]]
        free = s.free_clients()
        if r < 0.30 and free:
            c = rng.choice(free)
            x = rng.random()
            if x < 0.55:
                s.req(c, rng.choice(SCATTER))
            elif x < 0.66:
                s.req(c, "load", rng.choice([0, 1, 2, 3]))
            elif x < 0.72:
                s.req(c, "loadbad", rng.choice([0, 1, 1, 2, 3]))
            elif x < 0.93 or not allow_stop:
                s.req(c, rng.choice(LOCALS))
            else:
                s.req(c, rng.choice(["hardstop", "softstop"]))
        elif r < 0.75 and any(s.recv[w] for w in s.alive()):
            w = rng.choice([w for w in s.alive() if s.recv[w]])
            x = rng.random()
            # mostly: the oldest unanswered request of a pending task
            cand = [(w, k) for t in pend for k in t["slots"].get(w, []) if (w, k) not in t["answered"]]
            if x < 0.62 and cand:
                k = cand[0][1]
                s.resp(w, w, k, rng.choice([0, 0, 0, 0, 2, 1, 7]))
            elif x < 0.74:
                s.resp(w, w, rng.randrange(s.recv[w]), rng.choice([0, 2, 1]))          # duplicate / late / early
            elif x < 0.84:
                others = [v for v in range(nw) if v != w and s.recv[v]]
                if others:
                    v = rng.choice(others)
                    s.resp(w, v, rng.randrange(s.recv[v]), rng.choice([0, 2]))           # another worker's id
                else:
                    s.ops.append(["respu", w, rng.choice([0, 2, 1])])
            else:
                s.ops.append(["respu", w, rng.choice([0, 2, 1, 7])])
        elif r < 0.83 and s.alive():
            w = rng.choice(s.alive())
            s.ops.append(["close", w])
            s.closed.add(w)
        elif r < 0.87 and len(s.cgone) < nc - 1:
            c = rng.choice([c for c in range(nc) if c not in s.cgone])
            s.ops.append(["cclose", c])
            s.cgone.add(c)
            s.busy.pop(c, None)
        elif allow_sleep and nsleep < 2 and pend:
            s.sleep(rng.choice([1300, 1300, 300]))    # two partial sleeps stay 400 ms short of the deadline
            nsleep += 1
    if allow_sleep and nsleep == 0 and any(not t["done"] and t["timed"] for t in s.tasks) and not s.stopped:
        s.sleep(1300)
    s.ops.append(["end"])
    return Case(cid, s.ops, {})


def silent_cases():
    """a worker that is alive but silent past the worker timeout, for every scattering verb"""
    out = []
    for verb, extra in (("wok", []), ("query", []), ("status", []), ("metrics", []), ("hardstop", []), ("load", [2]), ("softstop", [])):
        ops = [["hub", 2, 1, 2], ["req", 0, verb] + extra]
        per = extra[0] if extra else 1
        for k in range(per):
            ops.append(["resp", 0, 0, k, 0])
        if verb == "softstop":
            ops.append(["resp", 1, 1, 0, 1])           # a processing notice only
        ops += [["sleep", 1300], ["end"]]
        out.append(Case("silent_" + verb, ops, {}))
    return out


def gen_cases(rng, tier):
    n, nslow = {"quick": (1500, 56), "thorough": (20000, 480), "search": (1200, 160)}.get(tier, (1500, 56))
    out = silent_cases()
    # a hub re-created by from_upgrade_data from the serialised UpgradeData of another (one worker stopped, or none)
    for i, sw in enumerate((-1, 0, 1, 2, -1, 1)):
        out.append(gen_case(rng, "u%d" % i, i >= 4, i == 3, handover=sw))
    for i in range(n):
        out.append(gen_case(rng, "f%d" % i, False, i % 5 == 0))
    for i in range(nslow):
        out.append(gen_case(rng, "s%d" % i, True, i % 4 == 0))
    return out


def corpus_cases():
    d = os.path.join(vlib.ROOT, "corpus", ID)
    out = []
    if os.path.isdir(d):
        for f in sorted(os.listdir(d)):
            if f.endswith(".case"):
                for c in vlib.parse_cases(open(os.path.join(d, f)).read()):
                    c.id = "k" + c.id
                    out.append(c)
    return out


def nontrivial(case, o):
    scattered = sum(1 for op in case.ops if op[0] == "req" and op[2] in ("wok", "query", "status", "metrics", "load", "loadbad", "hardstop", "softstop"))
    wev = [op for op in case.ops if op[0] in ("resp", "respu", "close", "sleep")]
    fault = [op for op in wev if op[0] in ("respu", "close", "sleep") or (op[0] == "resp" and (op[1] != op[2] or op[4] != 0))]
    seen = {}
    dup = False
    for op in case.ops:
        if op[0] == "resp":
            k = (op[2], op[3])
            dup = dup or k in seen
            seen[k] = 1
    finals = any(t in (0, 2) for ob in o["obs"] for i, t in enumerate(ob) if isinstance(t, int) and "w" in ob and i < ob.index("w"))
    return scattered >= 1 and len(wev) >= 2 and (fault or dup) and finals
