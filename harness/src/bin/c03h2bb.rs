//! C03 / C13 black-box tier, HTTP/2 FRONTEND: a real worker with an HTTPS
//! listener (ALPN h2), a scripted raw TLS HTTP/2 client (harness/src/h2bb.rs),
//! and two RECORDING backends on two clusters:
//!   `/`     -> HTTP/1.1 backend that re-parses what it receives with the strict
//!              RFC 9112 reader (harness/src/recbb.rs);
//!   `/h2/`  -> h2c backend that decodes every HEADERS block it receives.
//!
//! One case = one stream on a fresh connection:
//!   op hdr <end_stream> (<name> <value>)*     HEADERS (HPACK literals, any bytes)
//!   op data <len> <end_stream>                DATA
//!   op trl (<name> <value>)*                  trailer HEADERS (END_STREAM)
//!   op go                                     run; one observation:
//!      client <answered|refused|silent> <status|code>  seen <complete requests> <body length> h2seen <n>
//!
//! Oracle here (the model's prediction of the client outcome is compared by
//! props/c03.py): the HTTP/1 backend never receives bytes that are not a
//! well-formed request, never more than one request for one stream, and a request
//! it reads completely has the body length its Content-Length declared (= what
//! sozu understood); C13: every request either backend reads carries one
//! correlation header, one X-Request-Id, truthful X-Forwarded-For / Forwarded
//! (proto=https), X-Forwarded-Proto/Port, no proxy-owned name in trailers, and
//! toward h2c no connection-specific / upper-case field name.
use std::{
    io::Write,
    net::{SocketAddr, TcpListener},
    sync::{Arc, Mutex},
    time::Duration,
};

#[path = "../h2bb.rs"]
mod h2bb;
#[path = "../recbb.rs"]
mod recbb;
#[path = "../h2rec.rs"]
mod h2rec;
use h2bb::*;
use h2rec::*;
use recbb::*;
use verif_harness::*;

fn block_of(hs: &HL) -> Vec<u8> {
    let mut enc = loona_hpack::Encoder::new();
    let mut b = vec![];
    for (k, v) in hs {
        enc.encode_header_into((&k[..], &v[..]), &mut b).unwrap();
    }
    b
}

fn pairs(a: &[Tok]) -> HL {
    a.chunks(2).filter(|c| c.len() == 2).map(|c| (c[0].b().to_vec(), c[1].b().to_vec())).collect()
}

fn main() {
    let _ = sozu_command_lib::logging::setup_logging("file:///dev/null", false, None, None, None, "error", "C03H2BB");
    let path = std::env::args().nth(1).expect("usage: c03h2bb <cases>");
    let cases = read_cases(&path);

    let back_l = TcpListener::bind("127.0.0.1:0").unwrap();
    let back = back_l.local_addr().unwrap();
    let rec = Arc::new(Mutex::new(Record::default()));
    {
        let rec = rec.clone();
        std::thread::spawn(move || backend(back_l, rec));
    }
    let back2_l = TcpListener::bind("127.0.0.1:0").unwrap();
    let back2 = back2_l.local_addr().unwrap();
    let rec2 = Arc::new(Mutex::new(H2Record::default()));
    {
        let rec2 = rec2.clone();
        std::thread::spawn(move || h2c_recording_backend(back2_l, rec2));
    }
    let front: SocketAddr = format!("127.0.0.1:{}", free_port()).parse().unwrap();
    let mut w = start_worker();
    configure_https(&mut w, https_listener_config(front), front, back, false);
    add_h2_cluster(&mut w, front, back2, "/h2/");
    let mut ready = false;
    for _ in 0..50 {
        if probe(front) {
            ready = true;
            break;
        }
        std::thread::sleep(Duration::from_millis(100));
    }

    let mut outw: Box<dyn Write> = match std::env::var_os("VERIF_OUT") {
        Some(p) => Box::new(std::io::BufWriter::new(std::fs::File::create(p).expect("create $VERIF_OUT"))),
        None => Box::new(std::io::stdout()),
    };
    for case in &cases {
        let mut out = Out::default();
        let mut frames: Vec<u8> = vec![];
        let mut phases: Vec<Phase> = vec![];
        let mut sid: u32 = 1;
        let mut sids: Vec<u32> = vec![];
        if !ready {
            out.note("invalid-case: the worker never answered the probe");
        }
        for op in &case.ops {
            let a = &op.args;
            match op.name.as_str() {
                "sid" => {
                    sid = a[0].n() as u32;
                    out.obs(&[]);
                }
                "hdr" => {
                    let es = a[0].n() == 1;
                    if !sids.contains(&sid) {
                        sids.push(sid);
                    }
                    frames.extend(frame(T_HEADERS, if es { 0x5 } else { 0x4 }, sid, &block_of(&pairs(&a[1..]))));
                    out.obs(&[]);
                }
                "data" => {
                    let n = a[0].n() as usize;
                    frames.extend(frame(T_DATA, if a[1].n() == 1 { 1 } else { 0 }, sid, &vec![b'x'; n]));
                    out.obs(&[]);
                }
                "trl" => {
                    // a fresh encoder is fine: no dynamic-table references are emitted for literals never indexed before
                    frames.extend(frame(T_HEADERS, 0x5, sid, &block_of_cont(&pairs(a))));
                    out.obs(&[]);
                }
                // phases: what was queued so far is sent, then the client waits for the end of the answer on a
                // stream (`await <sid>`) or for a while (`wait <ms>`) before going on
                "await" | "wait" => {
                    phases.push(Phase::Send(std::mem::take(&mut frames)));
                    phases.push(if op.name == "await" { Phase::Await(a[0].n() as u32) } else { Phase::Wait(a[0].n() as u64) });
                    out.obs(&[]);
                }
                "rst" => {
                    frames.extend(frame(T_RST, 0, sid, &(a[0].n() as u32).to_be_bytes()));
                    out.obs(&[]);
                }
                "go" => {
                    phases.push(Phase::Send(std::mem::take(&mut frames)));
                    new_case(&rec);
                    new_case_h2(&rec2);
                    let (outcomes, goaway) = run_conn(front, &phases, &sids);
                    std::thread::sleep(Duration::from_millis(40));
                    let r = take_case(&rec);
                    let r2 = take_case_h2(&rec2);
                    let mut t = vec![ts("client"), tn(outcomes.len())];
                    for (sd, kind, code) in &outcomes {
                        t.push(tn(*sd));
                        t.push(ts(kind));
                        t.push(tn(*code));
                    }
                    t.push(ts("goaway"));
                    t.push(tbool(goaway));
                    t.push(ts("seen"));
                    t.push(tn(r.requests.len()));
                    for q in &r.requests {
                        t.push(tb(&q.target));
                        t.push(tn(q.body_len));
                    }
                    t.push(ts("h2seen"));
                    t.push(tn(r2.streams.len()));
                    for x in &r2.streams {
                        t.push(tb(&x.1));
                        t.push(tn(x.2));
                        t.push(tbool(x.3));
                    }
                    // streams on which the h2c backend received RST_STREAM (paths)
                    t.push(ts("h2rst"));
                    t.push(tn(r2.rsts.len()));
                    for sd in &r2.rsts {
                        t.push(tb(r2.streams.iter().find(|x| x.0 == *sd).map(|x| &x.1[..]).unwrap_or(b"?")));
                    }
                    out.obs(&t);
                    // ---- oracle
                    judge_proto(&r, front, &[], b"https", false, &mut out);
                    if r.requests.len() > sids.len() {
                        out.viol("bb-h2-count", &format!("{} requests reached the HTTP/1.1 backend for {} stream(s)", r.requests.len(), sids.len()));
                    }
                    let mut targets: Vec<&Vec<u8>> = r.requests.iter().map(|q| &q.target).collect();
                    targets.sort();
                    let nt = targets.len();
                    targets.dedup();
                    if targets.len() != nt {
                        out.viol("bb-h2-count", "the HTTP/1.1 backend read two requests for the same stream (same target)");
                    }
                    for q in &r.requests {
                        let cls = values(&q.headers, b"content-length");
                        if cls.len() > 1 {
                            out.viol("bb-h2-dup-cl", "two Content-Length lines reached the backend");
                        }
                    }
                    judge_h2c(&r2, sids.len(), b"https", &mut out);
                    frames.clear();
                    phases.clear();
                    sids.clear();
                    sid = 1;
                }
                _ => out.obs(&[ts("badop")]),
            }
        }
        writeln!(outw, "case {}", case.id).unwrap();
        for l in &out.lines {
            writeln!(outw, "{l}").unwrap();
        }
        writeln!(outw, "end").unwrap();
    }
    outw.flush().unwrap();
    std::process::exit(0);
}

/// trailer block: encoded with its own encoder but WITHOUT indexing side effects that
/// would desynchronise sozu's decoder (loona's encoder only emits literals without
/// indexing and static-table references).
fn block_of_cont(hs: &HL) -> Vec<u8> {
    block_of(hs)
}

enum Phase {
    Send(Vec<u8>),
    Await(u32),
    Wait(u64),
}

/// per stream: ("answered", 200) | ("refused", status or h2 error code) | ("silent", 0); and whether a GOAWAY was seen
fn run_conn(front: SocketAddr, phases: &[Phase], sids: &[u32]) -> (Vec<(u32, &'static str, u32)>, bool) {
    let silent = |c: u32| -> (Vec<(u32, &'static str, u32)>, bool) { (sids.iter().map(|s| (*s, "silent", c)).collect(), false) };
    let Some(mut p) = Peer::connect(front) else { return silent(1) };
    if !p.handshake(&[]) {
        return silent(2);
    }
    let mut fr: Vec<Fr> = vec![];
    for ph in phases {
        match ph {
            Phase::Send(b) => {
                if !b.is_empty() {
                    p.send(b);
                }
            }
            Phase::Wait(ms) => std::thread::sleep(Duration::from_millis(*ms)),
            Phase::Await(sid) => {
                // the end of the answer on that stream: END_STREAM on HEADERS / DATA, RST_STREAM, or GOAWAY
                let got = p.read_until(Duration::from_millis(3000), |f| {
                    f.iter().any(|x| x.t == T_GOAWAY || (x.sid == *sid && (x.t == T_RST || ((x.t == T_HEADERS || x.t == T_DATA) && x.flags & 1 == 1))))
                });
                fr.extend(got);
            }
        }
    }
    let want: Vec<u32> = sids.iter().copied().filter(|s| !fr.iter().any(|x| x.sid == *s && (x.t == T_HEADERS || x.t == T_RST))).collect();
    if !fr.iter().any(|x| x.t == T_GOAWAY) {
        let got = p.read_until(Duration::from_millis(5000), |f| {
            f.iter().any(|x| x.t == T_GOAWAY) || want.iter().all(|s| f.iter().any(|x| x.sid == *s && (x.t == T_HEADERS || x.t == T_RST)))
        });
        fr.extend(got);
    }
    let goaway = fr.iter().any(|x| x.t == T_GOAWAY);
    let mut dec = loona_hpack::Decoder::new();
    let mut out = vec![];
    // decode response HEADERS in arrival order (one HPACK context per connection)
    let mut status: Vec<(u32, u32)> = vec![];
    for x in &fr {
        if x.t == T_HEADERS {
            let mut st = 0u32;
            let _ = dec.decode_with_cb(&x.payload, |k, v| {
                if &k[..] == b":status" {
                    st = std::str::from_utf8(&v).ok().and_then(|s| s.parse().ok()).unwrap_or(0);
                }
            });
            if !status.iter().any(|(s, _)| *s == x.sid) {
                status.push((x.sid, st));
            }
        }
    }
    for s in sids {
        let first = fr.iter().find(|x| x.sid == *s && (x.t == T_HEADERS || x.t == T_RST));
        match first {
            Some(x) if x.t == T_HEADERS => {
                let st = status.iter().find(|(q, _)| q == s).map(|(_, v)| *v).unwrap_or(0);
                out.push((*s, if st == 200 { "answered" } else { "refused" }, st));
            }
            Some(x) => out.push((*s, "refused", x.code().unwrap_or(0))),
            None => {
                if goaway || p.closed {
                    let code = fr.iter().find(|x| x.t == T_GOAWAY).and_then(|x| x.code()).unwrap_or(999);
                    out.push((*s, "refused", code));
                } else {
                    out.push((*s, "silent", 0));
                }
            }
        }
    }
    (out, goaway)
}
