#!/usr/bin/env python3
"""tools/sweep.py seeded|harmless [Cxx ...] -- run the checks against every stored change, on the bench.

  seeded/<Cxx>/<name>/patch.diff   : a breaking change; expected: ./check Cxx exits 1 (VIOLATION line)
  harmless/<name>/patch.diff       : a behaviour-preserving rewrite; expected: every check of a property
                                     anchored in a touched file exits 0

Uses tools/bench.sh (BENCH=<dir>, default /tmp/mut/bench: a private copy of /verif and a scratch worktree of
/repo; nothing is ever applied to /repo itself).  Run `tools/bench.sh sync` first.  Results are written to
<kind>/RESULTS.json (what DESIGN.md 10.4 is generated from) and one line per run is printed.
With SHARD=i/n only every n-th patch (offset i) is run and the results go to RESULTS.<i>.json.
"""
import json, os, re, subprocess, sys

ROOT = os.path.dirname(os.path.dirname(os.path.abspath(__file__)))
kind = sys.argv[1]
only = set(sys.argv[2:])
props = {}
for line in open(os.path.join(ROOT, "properties.jsonl")):
    if line.strip():
        p = json.loads(line)
        props[p["id"]] = p
bench = os.environ.get("BENCH", "/tmp/mut/bench")
shard = os.environ.get("SHARD")
si, sn = (int(x) for x in shard.split("/")) if shard else (0, 1)

jobs = []
if kind == "seeded":
    for pid in sorted(os.listdir(os.path.join(ROOT, "seeded"))):
        d = os.path.join(ROOT, "seeded", pid)
        if not os.path.isdir(d) or (only and pid not in only):
            continue
        for name in sorted(os.listdir(d)):
            pd = os.path.join(d, name, "patch.diff")
            if os.path.exists(pd):
                jobs.append((pid + "/" + name, pd, [pid], 1))
else:
    d = os.path.join(ROOT, "harmless")
    for name in sorted(os.listdir(d)):
        pd = os.path.join(d, name, "patch.diff")
        if not os.path.exists(pd):
            continue
        files = re.findall(r"^\+\+\+ b/(\S+)", open(pd).read(), re.M)
        ps = sorted(k for k in props if any(f in props[k]["anchors"]["files"] for f in files))
        named = name.split("_")[0]
        if named in props and named not in ps:
            ps.append(named)
        if only:
            ps = [p for p in ps if p in only]
        if ps:
            jobs.append((name, pd, ps, 1 if "_changed" in name else 0))

results = {}
for n, (name, pd, ps, want) in enumerate(jobs):
    if n % sn != si:
        continue
    chk = subprocess.run(["git", "-C", os.path.join(bench, "repo"), "apply", "--check", pd], capture_output=True, text=True)
    if chk.returncode != 0:
        results[name] = dict(applies=False, note="patch no longer applies to the current tree")
        print("%-60s does not apply" % name, flush=True)
        continue
    r = subprocess.run([os.path.join(ROOT, "tools", "bench.sh"), "try", pd] + ps, capture_output=True, text=True,
                       env=dict(os.environ, BENCH=bench))
    per = {}
    for line in r.stdout.splitlines():
        m = re.match(r"(C\d\d) rc=(\d+) \| (.*?) \| (.*)", line)
        if m:
            per[m.group(1)] = dict(rc=int(m.group(2)), violation_line=m.group(3).replace(bench, "<bench>"), summary=m.group(4))
    first = [l for l in r.stdout.splitlines() if l.startswith("# property")]
    if kind == "harmless" and want == 1:
        # a breaking variant in an unreadable spelling: the property named in the directory must alarm; the other
        # properties anchored in the touched file do not necessarily observe the changed fact
        named = name.split("_")[0]
        ok = named in per and per[named]["rc"] == 1
    else:
        ok = all(v["rc"] == want for v in per.values()) and len(per) == len(ps)
    results[name] = dict(applies=True, expected_rc=want, checks=per, as_expected=ok, first_report=(first[0][:300] if first else ""))
    print("%-60s %s  %s" % (name, "as expected" if ok else "*** NOT AS EXPECTED ***", " ".join("%s=%d" % (k, v["rc"]) for k, v in per.items())), flush=True)

out = os.path.join(ROOT, kind, "RESULTS%s.json" % ("" if not shard else ".%d" % si))
json.dump(results, open(out, "w"), indent=1, sort_keys=True)
bad = [k for k, v in results.items() if v.get("applies") and not v["as_expected"]]
print("%d run, %d not as expected: %s" % (len([v for v in results.values() if v.get('applies')]), len(bad), ", ".join(bad)))
