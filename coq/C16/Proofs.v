(** C16 — lemmas. *)
From Coq Require Import List Arith ZArith NArith Bool Lia.
From SV Require Import C16.Model.
Import ListNotations.
Open Scope N_scope.

Ltac case_if := match goal with |- context [if ?c then _ else _] => destruct c eqn:? end.

(* ------------------------------------------------------------------ *)
(** * Keys *)

Lemma key_eqb_eq a b : key_eqb a b = true <-> a = b.
Proof.
  unfold key_eqb. destruct a as [a1 a2], b as [b1 b2]; cbn [fst snd].
  rewrite andb_true_iff, !N.eqb_eq. split; [intros [-> ->]; reflexivity|intros E; inversion E; auto].
Qed.

Lemma key_eqb_refl a : key_eqb a a = true.
Proof. apply key_eqb_eq; reflexivity. Qed.

Lemma key_eqb_neq a b : key_eqb a b = false <-> a <> b.
Proof.
  split.
  - intros H E. apply key_eqb_eq in E. congruence.
  - intros H. destruct (key_eqb a b) eqn:E; [|reflexivity]. apply key_eqb_eq in E. contradiction.
Qed.

Lemma mem_In k l : mem k l = true <-> In k l.
Proof.
  induction l as [|x t IH]; cbn [mem In]; [split; [discriminate|tauto]|].
  rewrite orb_true_iff, key_eqb_eq, IH. split; intros [H|H]; auto.
Qed.

Lemma mem_app k l1 l2 : mem k (l1 ++ l2) = mem k l1 || mem k l2.
Proof. induction l1 as [|x t IH]; cbn [mem app]; [reflexivity|]. rewrite IH, orb_assoc. reflexivity. Qed.

(* ------------------------------------------------------------------ *)
(** * The forward count map *)

Definition keys_of (l : list (key * N)) : list key := map fst l.

Lemma fwd_get_notin k l : ~ In k (keys_of l) -> fwd_get k l = 0.
Proof.
  induction l as [|[k' n] t IH]; cbn [fwd_get keys_of map fst In]; [reflexivity|].
  intros H. destruct (key_eqb k k') eqn:E.
  - apply key_eqb_eq in E. subst. tauto.
  - apply IH. tauto.
Qed.

Lemma fwd_get_incr k k' l :
  fwd_get k (fwd_incr k' l) = fwd_get k l + (if key_eqb k k' then 1 else 0).
Proof.
  induction l as [|[k2 n] t IH]; cbn [fwd_incr fwd_get].
  - destruct (key_eqb k k'); reflexivity.
  - destruct (key_eqb k' k2) eqn:E2; cbn [fwd_get].
    + apply key_eqb_eq in E2. subst k2. destruct (key_eqb k k'); lia.
    + destruct (key_eqb k k2) eqn:E3.
      * assert (key_eqb k k' = false).
        { apply key_eqb_neq. intros ->. apply key_eqb_eq in E3. subst. rewrite key_eqb_refl in E2. discriminate. }
        rewrite H. lia.
      * apply IH.
Qed.

Lemma keys_incr k l :
  keys_of (fwd_incr k l) = keys_of l \/ (keys_of (fwd_incr k l) = keys_of l ++ [k] /\ ~ In k (keys_of l)).
Proof.
  induction l as [|[k2 n] t IH]; cbn [fwd_incr keys_of map fst].
  - right. split; [reflexivity|intros []].
  - destruct (key_eqb k k2) eqn:E; cbn [keys_of map fst].
    + left; reflexivity.
    + destruct IH as [IH|[IH Hn]]; fold (keys_of t) in *; fold (keys_of (fwd_incr k t)) in *.
      * left. rewrite IH. reflexivity.
      * right. split; [rewrite IH; reflexivity|]. cbn [In]. intros [H|H]; [|tauto].
        subst. rewrite key_eqb_refl in E. discriminate.
Qed.

Lemma NoDup_snoc {A} (l : list A) x : NoDup l -> ~ In x l -> NoDup (l ++ [x]).
Proof.
  induction l as [|y t IH]; cbn; intros H Hn.
  - constructor; [intros []|constructor].
  - inversion H; subst. constructor.
    + rewrite in_app_iff. cbn. intros [Hi|[->|[]]]; tauto.
    + apply IH; tauto.
Qed.

Lemma nodup_incr k l : NoDup (keys_of l) -> NoDup (keys_of (fwd_incr k l)).
Proof.
  intros H. destruct (keys_incr k l) as [E|[E Hn]]; rewrite E; [assumption|].
  apply NoDup_snoc; auto.
Qed.

Lemma pos_incr k l : (forall e, In e l -> 0 < snd e) -> forall e, In e (fwd_incr k l) -> 0 < snd e.
Proof.
  induction l as [|[k2 n] t IH]; cbn [fwd_incr]; intros H e He.
  - destruct He as [<-|[]]. cbn. lia.
  - destruct (key_eqb k k2); cbn [In] in He.
    + destruct He as [<-|He]; [cbn; lia|]. apply H. right; assumption.
    + destruct He as [<-|He]; [apply H; left; reflexivity|].
      apply IH; auto. intros e' He'. apply H. right; assumption.
Qed.

Lemma keys_decr_incl k l : forall x, In x (keys_of (fwd_decr k l)) -> In x (keys_of l).
Proof.
  induction l as [|[k2 n] t IH]; cbn [fwd_decr keys_of map fst]; [tauto|].
  intros x. destruct (key_eqb k k2).
  - destruct (n - 1 =? 0); cbn [keys_of map fst In]; tauto.
  - cbn [keys_of map fst In]. intros [H|H]; [auto|]. right. apply IH. exact H.
Qed.

Lemma nodup_decr k l : NoDup (keys_of l) -> NoDup (keys_of (fwd_decr k l)).
Proof.
  induction l as [|[k2 n] t IH]; cbn [fwd_decr keys_of map fst]; [auto|].
  intros H. inversion H as [|? ? Hn Ht]; subst. destruct (key_eqb k k2).
  - destruct (n - 1 =? 0); cbn [keys_of map fst]; [assumption|constructor; assumption].
  - cbn [keys_of map fst]. constructor; [|apply IH; assumption].
    intros Hi. apply Hn. eapply keys_decr_incl; eauto.
Qed.

Lemma pos_decr k l : (forall e, In e l -> 0 < snd e) -> forall e, In e (fwd_decr k l) -> 0 < snd e.
Proof.
  induction l as [|[k2 n] t IH]; cbn [fwd_decr]; intros H e He; [destruct He|].
  destruct (key_eqb k k2).
  - destruct (n - 1 =? 0) eqn:Z.
    + apply H. right; assumption.
    + destruct He as [<-|He]; [cbn; apply N.eqb_neq in Z; lia|]. apply H. right; assumption.
  - destruct He as [<-|He]; [apply H; left; reflexivity|].
    apply IH; auto. intros e' He'. apply H. right; assumption.
Qed.

Lemma fwd_get_decr k k' l : NoDup (keys_of l) ->
  fwd_get k (fwd_decr k' l) = fwd_get k l - (if key_eqb k k' then 1 else 0).
Proof.
  induction l as [|[k2 n] t IH]; cbn [fwd_decr fwd_get keys_of map fst]; intros H.
  - destruct (key_eqb k k'); reflexivity.
  - inversion H as [|? ? Hn Ht]; subst.
    destruct (key_eqb k' k2) eqn:E2.
    + apply key_eqb_eq in E2. subst k2.
      destruct (n - 1 =? 0) eqn:Z; cbn [fwd_get].
      * apply N.eqb_eq in Z. destruct (key_eqb k k') eqn:E.
        -- apply key_eqb_eq in E. subst. rewrite fwd_get_notin by assumption. lia.
        -- lia.
      * destruct (key_eqb k k'); lia.
    + cbn [fwd_get]. destruct (key_eqb k k2) eqn:E3.
      * assert (key_eqb k k' = false).
        { apply key_eqb_neq. intros ->. apply key_eqb_eq in E3. subst. rewrite key_eqb_refl in E2. discriminate. }
        rewrite H0. lia.
      * apply IH. assumption.
Qed.

Lemma fold_decr_spec ks : forall l, NoDup (keys_of l) -> NoDup ks ->
  let l' := fold_left (fun f k => fwd_decr k f) ks l in
  NoDup (keys_of l') /\
  ((forall e, In e l -> 0 < snd e) -> forall e, In e l' -> 0 < snd e) /\
  forall k, fwd_get k l' = fwd_get k l - (if mem k ks then 1 else 0).
Proof.
  induction ks as [|k0 t IH]; intros l Hl Hk; cbn [fold_left mem].
  - repeat split; auto. intros k. lia.
  - inversion Hk as [|? ? Hn Ht]; subst.
    destruct (IH (fwd_decr k0 l) (nodup_decr k0 l Hl) Ht) as (H1 & H2 & H3).
    repeat split; auto.
    + intros Hp. apply H2. apply pos_decr. exact Hp.
    + intros k. rewrite H3, fwd_get_decr by assumption.
      destruct (key_eqb k k0) eqn:E; cbn [orb].
      * apply key_eqb_eq in E. subst.
        assert (mem k0 t = false).
        { destruct (mem k0 t) eqn:M; [|reflexivity]. apply mem_In in M. contradiction. }
        rewrite H. lia.
      * destruct (mem k t); lia.
Qed.

(* ------------------------------------------------------------------ *)
(** * The reverse index *)

Definition holders (k : key) (rv : list (N * list key)) : N :=
  N.of_nat (length (filter (fun e => mem k (snd e)) rv)).

Lemma rev_get_add t t' k l :
  rev_get t (rev_add t' k l) = if t =? t' then rev_get t l ++ [k] else rev_get t l.
Proof.
  induction l as [|[t2 ks] r IH]; cbn [rev_add rev_get].
  - destruct (t =? t'); reflexivity.
  - destruct (t' =? t2) eqn:E2; cbn [rev_get].
    + apply N.eqb_eq in E2. subst t2. destruct (t =? t'); reflexivity.
    + destruct (t =? t2) eqn:E3.
      * apply N.eqb_eq in E3. subst t2.
        assert ((t =? t') = false) by (rewrite N.eqb_sym; exact E2). rewrite H. reflexivity.
      * apply IH.
Qed.

Lemma holders_add k' tok k l :
  holders k' (rev_add tok k l) =
  holders k' l + (if key_eqb k' k && negb (mem k' (rev_get tok l)) then 1 else 0).
Proof.
  unfold holders. induction l as [|[t2 ks] r IH]; cbn [rev_add rev_get filter snd length mem].
  - rewrite orb_false_r. cbn [negb]. rewrite andb_true_r. destruct (key_eqb k' k); cbn; lia.
  - destruct (tok =? t2) eqn:E; cbn [filter snd].
    + rewrite mem_app. cbn [mem]. rewrite orb_false_r.
      destruct (mem k' ks); cbn [orb negb length]; [rewrite andb_false_r; lia|].
      rewrite andb_true_r. destruct (key_eqb k' k); cbn [length]; lia.
    + destruct (mem k' ks); cbn [length]; lia.
Qed.

Lemma holders_ge1 k tok l : mem k (rev_get tok l) = true -> 1 <= holders k l.
Proof.
  unfold holders. induction l as [|[t2 ks] r IH]; cbn [rev_get filter snd mem]; [discriminate|].
  destruct (tok =? t2).
  - intros ->. cbn [length]. lia.
  - intros H. specialize (IH H). destruct (mem k ks); cbn [length]; lia.
Qed.

Lemma holders_remove k tok l :
  holders k (rev_remove tok l) = holders k l - (if mem k (rev_get tok l) then 1 else 0).
Proof.
  induction l as [|[t2 ks] r IH]; cbn [rev_remove rev_get]; [reflexivity|].
  destruct (tok =? t2) eqn:E.
  - unfold holders. cbn [filter snd]. destruct (mem k ks); cbn [length]; lia.
  - pose proof (holders_ge1 k tok r) as G.
    unfold holders in *. cbn [filter snd]. destruct (mem k ks); cbn [length]; [|exact IH].
    destruct (mem k (rev_get tok r)); [specialize (G eq_refl)|]; lia.
Qed.

Definition toks_of (l : list (N * list key)) : list N := map fst l.

Lemma toks_add tok k l :
  toks_of (rev_add tok k l) = toks_of l \/ (toks_of (rev_add tok k l) = toks_of l ++ [tok] /\ ~ In tok (toks_of l)).
Proof.
  induction l as [|[t2 ks] r IH]; cbn [rev_add toks_of map fst].
  - right. split; [reflexivity|intros []].
  - destruct (tok =? t2) eqn:E; cbn [toks_of map fst].
    + left; reflexivity.
    + fold (toks_of r) in *. fold (toks_of (rev_add tok k r)) in *.
      destruct IH as [IH|[IH Hn]].
      * left. rewrite IH. reflexivity.
      * right. split; [rewrite IH; reflexivity|]. cbn [In]. intros [H|H]; [|tauto].
        subst. rewrite N.eqb_refl in E. discriminate.
Qed.

Lemma toks_remove_incl tok l : forall x, In x (toks_of (rev_remove tok l)) -> In x (toks_of l).
Proof.
  induction l as [|[t2 ks] r IH]; cbn [rev_remove toks_of map fst]; [tauto|].
  intros x. destruct (tok =? t2); cbn [toks_of map fst In]; [tauto|].
  intros [H|H]; [auto|]. right. apply IH. exact H.
Qed.

Lemma toks_remove_nodup tok l : NoDup (toks_of l) -> NoDup (toks_of (rev_remove tok l)) /\ ~ In tok (toks_of (rev_remove tok l)).
Proof.
  induction l as [|[t2 ks] r IH]; cbn [rev_remove toks_of map fst]; intros H.
  - split; [constructor|intros []].
  - inversion H as [|? ? Hn Ht]; subst. destruct (tok =? t2) eqn:E.
    + apply N.eqb_eq in E. subst. split; assumption.
    + destruct (IH Ht) as [I1 I2]. cbn [toks_of map fst]. split.
      * constructor; [|assumption]. intros Hi. apply Hn. eapply toks_remove_incl; eauto.
      * cbn [In]. intros [Hx|Hx]; [subst; rewrite N.eqb_refl in E; discriminate|tauto].
Qed.

Lemma rev_get_notin t l : ~ In t (toks_of l) -> rev_get t l = [].
Proof.
  induction l as [|[t2 ks] r IH]; cbn [rev_get toks_of map fst In]; [reflexivity|].
  intros H. destruct (t =? t2) eqn:E; [apply N.eqb_eq in E; subst; tauto|]. apply IH. tauto.
Qed.

Lemma rev_get_in t l : rev_get t l <> [] -> In t (toks_of l).
Proof.
  intros H. destruct (in_dec N.eq_dec t (toks_of l)) as [Hi|Hn]; [assumption|].
  rewrite rev_get_notin in H by assumption. congruence.
Qed.

Lemma rev_get_remove t tok l : NoDup (toks_of l) ->
  rev_get t (rev_remove tok l) = if t =? tok then [] else rev_get t l.
Proof.
  induction l as [|[t2 ks] r IH]; cbn [rev_remove rev_get toks_of map fst]; intros H.
  - destruct (t =? tok); reflexivity.
  - inversion H as [|? ? Hn Ht]; subst. fold (toks_of r) in *.
    destruct (tok =? t2) eqn:E.
    + apply N.eqb_eq in E. subst t2. destruct (t =? tok) eqn:E2.
      * apply N.eqb_eq in E2. subst. apply rev_get_notin. assumption.
      * reflexivity.
    + cbn [rev_get]. destruct (t =? t2) eqn:E3.
      * apply N.eqb_eq in E3. subst t2.
        assert ((t =? tok) = false) by (rewrite N.eqb_sym; exact E). rewrite H0. reflexivity.
      * apply IH. assumption.
Qed.

(* ------------------------------------------------------------------ *)
(** * The refinement invariant of the two maps *)

Record sm_ok (s : sm) : Prop := mk_sm_ok {
  ok_nodup : NoDup (keys_of (fwd s));
  ok_pos : forall e, In e (fwd s) -> 0 < snd e;
  ok_count : forall k, fwd_get k (fwd s) = holders k (rev s);
  ok_toks : NoDup (toks_of (rev s));
  ok_sets : forall t, NoDup (rev_get t (rev s)) }.

Lemma sm_ok_maps s s' : fwd s' = fwd s -> rev s' = rev s -> sm_ok s -> sm_ok s'.
Proof. intros E1 E2 [A B C D E]. constructor; rewrite ?E1, ?E2; auto. Qed.

Lemma sm_ok_new mx lim : sm_ok (sm_new mx lim).
Proof.
  constructor; cbn; auto using NoDup_nil; try (intros e []); try (intros t; constructor).
Qed.

Lemma sm_ok_clear s : sm_ok (clear_tracking s).
Proof.
  constructor; cbn; auto using NoDup_nil; try (intros e []); try (intros t; constructor).
Qed.

Lemma track_ok s tok k : sm_ok s -> sm_ok (track s tok k).
Proof.
  intros [A B C D E]. unfold track. destruct (mem k (rev_get tok (rev s))) eqn:M.
  - constructor; auto.
  - constructor; cbn [set_maps fwd rev].
    + apply nodup_incr; assumption.
    + apply pos_incr; assumption.
    + intros k'. rewrite fwd_get_incr, holders_add, C. f_equal.
      destruct (key_eqb k' k) eqn:K; cbn [andb]; [|reflexivity].
      apply key_eqb_eq in K. subst. rewrite M. reflexivity.
    + destruct (toks_add tok k (rev s)) as [T|[T Hn]]; rewrite T; [assumption|].
      apply NoDup_snoc; assumption.
    + intros t. rewrite rev_get_add. destruct (t =? tok) eqn:T; [|apply E].
      apply N.eqb_eq in T. subst. apply NoDup_snoc; [apply E|].
      intros Hi. apply mem_In in Hi. congruence.
Qed.

Lemma untrack_ok s tok : sm_ok s -> sm_ok (untrack_all s tok).
Proof.
  intros [A B C D E]. unfold untrack_all.
  destruct (fold_decr_spec (rev_get tok (rev s)) (fwd s) A (E tok)) as (F1 & F2 & F3).
  constructor; cbn [set_maps fwd rev].
  - exact F1.
  - apply F2. exact B.
  - intros k. rewrite F3, holders_remove, C. reflexivity.
  - apply toks_remove_nodup. assumption.
  - intros t. rewrite rev_get_remove by assumption. destruct (t =? tok); [constructor|apply E].
Qed.

(** no decrement of [untrack_all] ever saturates: every slot the token holds
    has a positive forward count *)
Lemma untrack_no_underflow s tok k :
  sm_ok s -> In k (rev_get tok (rev s)) -> 1 <= fwd_get k (fwd s).
Proof.
  intros [A B C D E] H. rewrite C. apply (holders_ge1 k tok). apply mem_In. exact H.
Qed.

(** idempotence: a connection holds at most one slot per (cluster, ip) *)
Lemma track_holds s tok k : mem k (rev_get tok (rev (track s tok k))) = true.
Proof.
  unfold track. destruct (mem k (rev_get tok (rev s))) eqn:M; [exact M|].
  cbn [set_maps rev]. rewrite rev_get_add, N.eqb_refl, mem_app. cbn [mem].
  rewrite key_eqb_refl. apply orb_true_r.
Qed.

Lemma track_idempotent s tok k : track (track s tok k) tok k = track s tok k.
Proof. unfold track at 1. rewrite track_holds. reflexivity. Qed.

Lemma track_count s tok k k' :
  fwd_get k' (fwd (track s tok k)) =
  fwd_get k' (fwd s) + (if key_eqb k' k && negb (mem k (rev_get tok (rev s))) then 1 else 0).
Proof.
  unfold track. destruct (mem k (rev_get tok (rev s))); cbn [negb set_maps fwd].
  - rewrite andb_false_r. lia.
  - rewrite andb_true_r. apply fwd_get_incr.
Qed.

(* ------------------------------------------------------------------ *)
(** * The invariant of the whole driver state *)

Lemma lmem_In t l : lmem t l = true <-> In t l.
Proof.
  unfold lmem. rewrite existsb_exists. split.
  - intros [x [Hx E]]. apply N.eqb_eq in E. subst. assumption.
  - intros H. exists t. split; [assumption|apply N.eqb_refl].
Qed.

Lemma lremove_In x t l : In x (lremove t l) <-> In x l /\ x <> t.
Proof.
  unfold lremove. rewrite filter_In, negb_true_iff, N.eqb_neq. tauto.
Qed.

Lemma lremove_nodup t l : NoDup l -> NoDup (lremove t l).
Proof. apply NoDup_filter. Qed.

Lemma lremove_length t l : NoDup l -> In t l -> S (length (lremove t l)) = length l.
Proof.
  induction l as [|x r IH]; cbn [lremove filter In length]; intros H Hi; [destruct Hi|].
  inversion H as [|? ? Hn Hr]; subst. destruct (x =? t) eqn:E; cbn [negb].
  - apply N.eqb_eq in E. subst. f_equal.
    assert (F : filter (fun x => negb (x =? t)) r = r).
    { clear -Hn. induction r as [|y r IH]; cbn; [reflexivity|].
      destruct (y =? t) eqn:E; cbn.
      - apply N.eqb_eq in E. subst. exfalso. apply Hn. left; reflexivity.
      - f_equal. apply IH. intros Hi. apply Hn. right; assumption. }
    fold (lremove t r). unfold lremove. rewrite F. reflexivity.
  - cbn [length]. f_equal. apply IH; auto. destruct Hi as [->|Hi]; [rewrite N.eqb_refl in E; discriminate|assumption].
Qed.

Record st_ok (st : state) : Prop := mk_st_ok {
  so_sm : sm_ok (st_sm st);
  so_live : NoDup (live st);
  so_toks : forall t, In t (toks_of (rev (st_sm st))) -> In t (live st);
  so_nb : nb (st_sm st) = N.of_nat (length (live st));
  so_max : nb (st_sm st) <= max (st_sm st);
  so_nopanic : panicked st = false }.

Lemma init_ok : st_ok init.
Proof.
  constructor; cbn; auto using NoDup_nil, sm_ok_new; try lia; try (intros t []).
Qed.

Lemma accept_ok st tok : st_ok st -> st_ok (accept st tok).
Proof.
  intros [A B C D E F]. unfold accept.
  destruct (lmem tok (live st)) eqn:L; [constructor; assumption|].
  destruct (negb (can_accept (st_sm st))); [constructor; assumption|].
  unfold check_limits. destruct (max (st_sm st) <=? nb (st_sm st)) eqn:M.
  - constructor; cbn [st_sm live panicked set_accept fwd rev nb max]; auto.
    eapply sm_ok_maps; [| |exact A]; reflexivity.
  - destruct (at_capacity (st_sm st)).
    + constructor; cbn [st_sm live panicked set_accept fwd rev nb max]; auto.
      eapply sm_ok_maps; [| |exact A]; reflexivity.
    + apply N.leb_gt in M. unfold incr. cbn [set_slab nb max].
      assert (X : (nb (st_sm st) + 1 <=? max (st_sm st)) = true) by (apply N.leb_le; lia).
      rewrite X. constructor; cbn [st_sm live panicked set_nb set_slab fwd rev nb max]; auto.
      * eapply sm_ok_maps; [| |exact A]; reflexivity.
      * apply NoDup_snoc; [assumption|]. intros Hi. apply lmem_In in Hi. congruence.
      * intros t Ht. apply in_or_app. left. apply C. exact Ht.
      * rewrite app_length. cbn [length]. lia.
      * lia.
Qed.

Lemma toks_after_remove tok l t :
  NoDup (toks_of l) -> In t (toks_of (rev_remove tok l)) -> In t (toks_of l) /\ t <> tok.
Proof.
  intros H Ht. split; [eapply toks_remove_incl; exact Ht|].
  intros ->. destruct (toks_remove_nodup tok l H) as [_ Hn]. contradiction.
Qed.

Lemma close_fields st tok s2 :
  st_ok st -> In tok (live st) ->
  fwd s2 = fwd (untrack_all (st_sm st) tok) -> rev s2 = rev (untrack_all (st_sm st) tok) ->
  nb s2 = nb (st_sm st) - 1 -> max s2 = max (st_sm st) ->
  st_ok (mkSt s2 (lremove tok (live st)) (filler st) (backs st) (panicked st)).
Proof.
  intros [A B C D E F] L E1 E2 E3 E4.
  assert (Hlen : (0 < length (live st))%nat) by (destruct (live st); [destruct L|cbn; lia]).
  pose proof (lremove_length tok (live st) B L) as LL.
  constructor; cbn [st_sm live panicked].
  - eapply sm_ok_maps; [exact E1|exact E2|]. apply untrack_ok. exact A.
  - apply lremove_nodup. exact B.
  - intros t Ht. rewrite E2 in Ht. unfold untrack_all in Ht. cbn [set_maps rev] in Ht.
    destruct A as [_ _ _ A4 _].
    destruct (toks_after_remove tok _ t A4 Ht) as [H1 H2].
    apply lremove_In. split; [apply C; exact H1|exact H2].
  - rewrite E3. lia.
  - rewrite E3, E4. lia.
  - exact F.
Qed.

Lemma close_ok st tok : st_ok st -> st_ok (close st tok).
Proof.
  intros OK. unfold close.
  destruct (lmem tok (live st)) eqn:L; [|assumption].
  apply lmem_In in L.
  assert (Z : (nb (st_sm st) =? 0) = false).
  { destruct OK as [A B C D E F]. apply N.eqb_neq. destruct (live st); [destruct L|cbn in D; lia]. }
  unfold decr. cbn [untrack_all set_maps set_slab nb max can_accept]. rewrite Z.
  match goal with |- context [if ?c then _ else _] => destruct c end;
    apply close_fields; auto.
Qed.

Lemma gate_track_ok st tok k ov : st_ok st -> st_ok (gate_track st tok k ov).
Proof.
  intros [A B C D E F]. unfold gate_track.
  destruct (lmem tok (live st)) eqn:L; cbn [negb]; [|constructor; assumption].
  destruct (at_limit (st_sm st) tok k ov); [constructor; assumption|].
  apply lmem_In in L.
  constructor; cbn [st_sm live panicked]; auto.
  - apply track_ok. assumption.
  - intros t. unfold track. destruct (mem k (rev_get tok (rev (st_sm st)))); [apply C|].
    cbn [set_maps rev]. destruct (toks_add tok k (rev (st_sm st))) as [T|[T _]]; rewrite T; [apply C|].
    rewrite in_app_iff. cbn [In]. intros [H|[<-|[]]]; [apply C; assumption|assumption].
  - unfold track. destruct (mem k _); assumption.
  - unfold track. destruct (mem k _); assumption.
Qed.

Lemma apply_op_ok st o : st_ok st -> st_ok (apply_op st o).
Proof.
  intros H. destruct o; cbn [apply_op].
  - constructor; cbn; auto using NoDup_nil, sm_ok_new; try lia; try (intros t []).
  - apply accept_ok; assumption.
  - apply close_ok; assumption.
  - apply gate_track_ok; assumption.
  - destruct H as [A B C D E F]. unfold set_limit_op.
    destruct (n =? 0); constructor; cbn [st_sm live panicked set_limit clear_tracking set_maps fwd rev nb max]; auto.
    + apply sm_ok_clear.
    + intros t [].
    + eapply sm_ok_maps; [| |exact A]; reflexivity.
  - destruct H as [A B C D E F].
    constructor; cbn [st_sm live panicked set_slab set_base fwd rev nb max]; auto.
    eapply sm_ok_maps; [| |exact A]; reflexivity.
  - destruct H as [A B C D E F].
    constructor; cbn [st_sm live panicked set_slab set_base fwd rev nb max]; auto.
    eapply sm_ok_maps; [| |exact A]; reflexivity.
  - destruct H as [A B C D E F].
    constructor; cbn [st_sm live panicked set_slab set_base fwd rev nb max]; auto.
    eapply sm_ok_maps; [| |exact A]; reflexivity.
  - destruct H as [A B C D E F].
    constructor; cbn [st_sm live panicked set_slab set_base fwd rev nb max]; auto.
    eapply sm_ok_maps; [| |exact A]; reflexivity.
  - destruct H as [A B C D E F]. unfold check_limits.
    destruct (max (st_sm st) <=? nb (st_sm st)); [|destruct (at_capacity (st_sm st))];
      constructor; cbn [fst st_sm live panicked set_accept fwd rev nb max]; auto;
      (eapply sm_ok_maps; [| |exact A]; reflexivity).
Qed.

Lemma run_ops_ok : forall ops st, st_ok st -> st_ok (run_ops st ops).
Proof.
  unfold run_ops. induction ops as [|o t IH]; intros st H; cbn [fold_left]; [assumption|].
  apply IH. apply apply_op_ok. assumption.
Qed.

(** baseline: nobody live, nothing retained *)
Lemma baseline_lemma st : st_ok st -> live st = [] -> fwd (st_sm st) = [] /\ rev (st_sm st) = [].
Proof.
  intros [A B C D E F] L.
  assert (R : rev (st_sm st) = []).
  { destruct (rev (st_sm st)) as [|[t ks] r] eqn:ER; [reflexivity|].
    exfalso. specialize (C t). rewrite L in C. apply C. left; reflexivity. }
  split; [|exact R].
  destruct A as [A1 A2 A3 A4 A5].
  destruct (fwd (st_sm st)) as [|[k n] r] eqn:EF; [reflexivity|].
  exfalso. specialize (A3 k). rewrite R in A3. cbn [fwd_get] in A3. rewrite key_eqb_refl in A3.
  specialize (A2 (k, n) (or_introl eq_refl)). cbn in A2, A3. lia.
Qed.

(* ------------------------------------------------------------------ *)
(** * Admission *)

Lemma decr_resumes s s' :
  decr s = Some s' -> nb s' < resume_threshold (max s') -> can_accept s' = true.
Proof.
  unfold decr. destruct (nb s =? 0); [discriminate|].
  intros E. inversion E as [E']. clear E. cbn [set_nb can_accept nb max].
  destruct (can_accept s) eqn:CA; cbn [negb andb set_nb can_accept nb max].
  - intros _. exact CA.
  - destruct (nb s - 1 <? resume_threshold (max s)) eqn:T; cbn [set_accept set_nb can_accept nb max].
    + intros _. reflexivity.
    + intros H. apply N.ltb_ge in T. lia.
Qed.

Lemma resume_threshold_pos mx : 1 <= resume_threshold mx.
Proof. unfold resume_threshold. lia. Qed.

Lemma at_limit_sound s tok k ov :
  at_limit s tok k ov = false ->
  let lim := match ov with Some v => v | None => limit s end in
  lim = 0 \/ mem k (rev_get tok (rev s)) = true \/ fwd_get k (fwd s) < lim.
Proof.
  unfold at_limit. cbn zeta. destruct (_ =? 0) eqn:Z; [apply N.eqb_eq in Z; auto|].
  destruct (mem k (rev_get tok (rev s))); [auto|].
  intros H. apply N.leb_gt in H. auto.
Qed.

(** the per-IP bound as an invariant of histories that keep the limit *)
Definition op_plain (o : op) : Prop :=
  match o with
  | OSetLimit _ | ONew _ _ | OTrack _ _ (Some _) => False
  | _ => True
  end.

Definition cap_ok (L : N) (st : state) : Prop :=
  limit (st_sm st) = L /\ (0 < L -> forall k, fwd_get k (fwd (st_sm st)) <= L).

Lemma cap_step L st o : st_ok st -> op_plain o -> cap_ok L st -> cap_ok L (apply_op st o).
Proof.
  intros OK P [HL HC]. destruct o; cbn [apply_op op_plain] in *; try tauto.
  - (* accept *) unfold accept.
    destruct (lmem tok (live st)); [split; assumption|].
    destruct (negb (can_accept (st_sm st))); [split; assumption|].
    unfold check_limits. destruct (max (st_sm st) <=? nb (st_sm st)); [split; assumption|].
    destruct (at_capacity (st_sm st)); [split; assumption|].
    unfold incr. cbn [set_slab nb max]. destruct (_ <=? _); split; assumption.
  - (* close *) unfold close. destruct (lmem tok (live st)); [|split; assumption].
    unfold decr. cbn [untrack_all set_maps set_slab nb max can_accept].
    destruct (nb (st_sm st) =? 0); [split; assumption|].
    destruct OK as [A _ _ _ _ _]. destruct A as [A1 A2 A3 A4 A5].
    destruct (fold_decr_spec (rev_get tok (rev (st_sm st))) (fwd (st_sm st)) A1 (A5 tok)) as (_ & _ & F3).
    match goal with |- context [if ?c then _ else _] => destruct c end;
      (split; cbn [st_sm set_accept set_nb limit fwd]; [assumption|]);
      intros Hp k0; rewrite F3; specialize (HC Hp k0); lia.
  - (* track, no override *) destruct ov; [tauto|]. unfold gate_track.
    destruct (lmem tok (live st)); cbn [negb]; [|split; assumption].
    destruct (at_limit (st_sm st) tok k None) eqn:AL; [split; assumption|].
    split; cbn [st_sm]; [unfold track; destruct (mem k _); assumption|].
    intros Hp k'. rewrite track_count.
    destruct (key_eqb k' k) eqn:K; cbn [andb]; [|specialize (HC Hp k'); lia].
    apply key_eqb_eq in K. subst k'.
    apply at_limit_sound in AL. cbn zeta in AL. rewrite HL in AL.
    destruct AL as [Z|[M|Lt]]; [lia| |].
    + rewrite M. cbn [negb]. specialize (HC Hp k). lia.
    + destruct (mem k _); cbn [negb]; lia.
  - split; cbn [st_sm set_slab set_base limit fwd]; assumption.
  - split; cbn [st_sm set_slab set_base limit fwd]; assumption.
  - split; cbn [st_sm set_slab set_base limit fwd]; assumption.
  - split; cbn [st_sm set_slab set_base limit fwd]; assumption.
  - unfold check_limits. destruct (_ <=? _); [|destruct (at_capacity _)];
      split; cbn [fst st_sm set_accept limit fwd]; assumption.
Qed.

(* ------------------------------------------------------------------ *)
(** * Buffer pool *)

Definition pool_ok (p : pool) : Prop :=
  p_used p = N.of_nat (length (p_held p)) /\ p_used p <= p_cap p /\ p_cap p <= p_max p /\ NoDup (p_held p).

Lemma pool_new_ok mn mx : pool_ok (pool_new mn mx).
Proof. unfold pool_ok, pool_new. cbn. repeat split; try lia. constructor. Qed.

Lemma pool_checkout_ok p id : pool_ok p -> pool_ok (fst (pool_checkout p id)).
Proof.
  intros (A & B & C & D). unfold pool_checkout.
  destruct (lmem id (p_held p)) eqn:L; [repeat split; assumption|].
  set (cap := if (p_used p =? p_cap p) && (p_cap p <? p_max p)
              then N.max (p_cap p) (N.min (N.max (p_cap p * 2) 1) (p_max p)) else p_cap p).
  assert (Hc : p_cap p <= cap /\ cap <= p_max p).
  { unfold cap. destruct ((p_used p =? p_cap p) && (p_cap p <? p_max p)); lia. }
  destruct (p_used p <? cap) eqn:U; cbn [fst]; unfold pool_ok; cbn [p_used p_cap p_max p_held].
  - apply N.ltb_lt in U. repeat split; try lia.
    + rewrite app_length. cbn [length]. lia.
    + apply NoDup_snoc; [assumption|]. intros Hi. apply lmem_In in Hi. congruence.
  - repeat split; try lia; assumption.
Qed.

Lemma pool_checkin_ok p id : pool_ok p -> pool_ok (pool_checkin p id).
Proof.
  intros (A & B & C & D). unfold pool_checkin.
  destruct (lmem id (p_held p)) eqn:L; [|repeat split; assumption].
  apply lmem_In in L. pose proof (lremove_length id (p_held p) D L) as LL.
  unfold pool_ok. cbn [p_used p_cap p_max p_held]. repeat split; try lia.
  apply lremove_nodup. assumption.
Qed.

Lemma pool_run_ok : forall ops p, pool_ok p -> pool_ok (fold_left pool_step ops p).
Proof.
  induction ops as [|o t IH]; intros p H; cbn [fold_left]; [assumption|].
  apply IH. destruct o; cbn [pool_step]; [apply pool_checkout_ok|apply pool_checkin_ok]; assumption.
Qed.

(** a buffer is refused only when the pool is exhausted *)
Lemma pool_checkout_live p id :
  pool_ok p -> lmem id (p_held p) = false -> p_used p < p_max p -> snd (pool_checkout p id) = true.
Proof.
  intros (A & B & C & D) L U. unfold pool_checkout. rewrite L.
  destruct ((p_used p =? p_cap p) && (p_cap p <? p_max p)) eqn:G.
  - apply andb_prop in G. destruct G as [G1 G2]. apply N.eqb_eq in G1. apply N.ltb_lt in G2.
    assert (X : (p_used p <? N.max (p_cap p) (N.min (N.max (p_cap p * 2) 1) (p_max p))) = true)
      by (apply N.ltb_lt; lia).
    rewrite X. reflexivity.
  - apply andb_false_iff in G. destruct G as [G|G].
    + apply N.eqb_neq in G. assert (X : (p_used p <? p_cap p) = true) by (apply N.ltb_lt; lia).
      rewrite X. reflexivity.
    + apply N.ltb_ge in G. assert (X : (p_used p <? p_cap p) = true) by (apply N.ltb_lt; lia).
      rewrite X. reflexivity.
Qed.

(* ------------------------------------------------------------------ *)
(** * What the slab holds *)

Definition slab_ok (st : state) : Prop :=
  slab (st_sm st) = filler st + N.of_nat (length (live st)) + backs st /\ base (st_sm st) = filler st.

Lemma apply_op_slab st o : st_ok st -> slab_ok st -> slab_ok (apply_op st o).
Proof.
  intros OK [HS HB]. destruct o; cbn [apply_op].
  - split; reflexivity.
  - unfold accept. destruct (lmem tok (live st)); [split; assumption|].
    destruct (negb (can_accept (st_sm st))); [split; assumption|].
    unfold check_limits. destruct (max (st_sm st) <=? nb (st_sm st)); [split; assumption|].
    destruct (at_capacity (st_sm st)); [split; assumption|].
    unfold incr. cbn [set_slab nb max]. destruct (nb (st_sm st) + 1 <=? max (st_sm st)).
    + split; cbn [st_sm live filler backs set_nb set_slab slab base]; [rewrite app_length; cbn [length]; lia|assumption].
    + split; assumption.
  - unfold close. destruct (lmem tok (live st)) eqn:L; [|split; assumption].
    apply lmem_In in L. pose proof (lremove_length tok (live st) (so_live _ OK) L) as LL.
    unfold decr. cbn [untrack_all set_maps set_slab nb max can_accept].
    destruct (nb (st_sm st) =? 0); [split; assumption|].
    match goal with |- context [if ?c then _ else _] => destruct c end;
      (split; unfold untrack_all; cbn [st_sm live filler backs set_accept set_nb set_slab set_maps slab base]; [lia|assumption]).
  - unfold gate_track. destruct (negb (lmem tok (live st))); [split; assumption|].
    destruct (at_limit (st_sm st) tok k ov); [split; assumption|].
    unfold track. destruct (mem k _); split; assumption.
  - unfold set_limit_op. destruct (n =? 0); split; assumption.
  - split; cbn [st_sm live filler backs set_slab set_base slab base]; lia.
  - split; cbn [st_sm live filler backs set_slab set_base slab base]; lia.
  - split; cbn [st_sm live filler backs set_slab set_base slab base]; [lia|assumption].
  - split; cbn [st_sm live filler backs set_slab set_base slab base]; [lia|assumption].
  - unfold check_limits. destruct (max (st_sm st) <=? nb (st_sm st)); [|destruct (at_capacity (st_sm st))];
      split; assumption.
Qed.

Lemma run_ops_slab : forall ops st, st_ok st -> slab_ok st -> slab_ok (run_ops st ops).
Proof.
  unfold run_ops. induction ops as [|o t IH]; intros st OK S; cbn [fold_left]; [assumption|].
  apply IH; [apply apply_op_ok; assumption|apply apply_op_slab; assumption].
Qed.

Lemma init_slab : slab_ok init.
Proof. split; reflexivity. Qed.

(** a worker that serves nobody and holds no session entry admits a connection,
    however many listeners and system entries it has *)
Lemma idle_admits_lemma st :
  st_ok st -> slab_ok st -> live st = [] -> backs st = 0 -> 1 <= max (st_sm st) ->
  snd (check_limits (st_sm st)) = true.
Proof.
  intros OK [HS HB] L K M. pose proof (so_nb _ OK) as NB. rewrite L in NB, HS. cbn [length] in NB, HS.
  unfold check_limits.
  assert (E1 : (max (st_sm st) <=? nb (st_sm st)) = false) by (apply N.leb_gt; lia). rewrite E1.
  assert (E2 : at_capacity (st_sm st) = false).
  { unfold at_capacity. destruct (slab (st_sm st) <? 10 + 2 * max (st_sm st)) eqn:T; [reflexivity|].
    apply N.ltb_ge in T. apply N.leb_gt. lia. }
  rewrite E2. reflexivity.
Qed.

(* ------------------------------------------------------------------ *)
(** * Changing the per-(cluster, ip) limit at run time *)

Lemma set_limit_keeps_slots st n :
  n <> 0 ->
  fwd (st_sm (set_limit_op st n)) = fwd (st_sm st) /\ rev (st_sm (set_limit_op st n)) = rev (st_sm st) /\
  limit (st_sm (set_limit_op st n)) = n /\ live (set_limit_op st n) = live st.
Proof.
  intros H. unfold set_limit_op. assert (E : (n =? 0) = false) by (apply N.eqb_neq; exact H). rewrite E.
  cbn. repeat split.
Qed.

Lemma set_limit_zero_wipes st :
  fwd (st_sm (set_limit_op st 0)) = [] /\ rev (st_sm (set_limit_op st 0)) = [].
Proof. unfold set_limit_op. cbn. split; reflexivity. Qed.

(** right after the limit was set to [n > 0] (enabled from 0, raised or lowered),
    the gate refuses exactly the tokens that hold no slot for a (cluster, ip)
    whose count, as it was before the change, is at least [n] *)
Lemma gate_after_limit_change st n tok k :
  n <> 0 ->
  at_limit (st_sm (set_limit_op st n)) tok k None =
  negb (mem k (rev_get tok (rev (st_sm st)))) && (n <=? fwd_get k (fwd (st_sm st))).
Proof.
  intros H. destruct (set_limit_keeps_slots st n H) as (F & R & L & _).
  unfold at_limit. rewrite F, R, L. assert (E : (n =? 0) = false) by (apply N.eqb_neq; exact H). rewrite E.
  destruct (mem k (rev_get tok (rev (st_sm st)))); reflexivity.
Qed.
