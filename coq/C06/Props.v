(** C06 — applying the computed difference always reaches the target.
    Property theorems (statements only; proofs are in CfgState/DiffProofs.v). *)
From stdpp Require Import gmap strings.
From Coq Require Import NArith.
From SV Require Import CfgState.Model CfgState.Spec CfgState.Gen CfgState.GenSteps CfgState.DiffProofs CfgState.DiffApply
  CfgState.ReplayBuckets CfgState.DiffChunks CfgState.DiffClusters CfgState.DiffAbs CfgState.DiffCerts CfgState.DiffCompose
  CfgState.InvRProofs CfgState.DiffBuckets CfgState.DiffTFronts CfgState.DiffBackends.
Open Scope N_scope.

(** [DiffMap] (the merge-join used for clusters and backends) is sound and
    complete on strictly key-sorted inputs, for any key order: it reports
    exactly the keys only in [other] (Added), only in [my] (Removed), and in
    both with different values (Changed). *)
Theorem diff_map_correct :
  forall (K V : Type) (kcmp : K -> K -> comparison) (veq : V -> V -> bool),
    (forall a, kcmp a a = Eq) -> (forall a b, kcmp a b = Eq -> a = b) ->
    (forall a b, kcmp b a = CompOpp (kcmp a b)) ->
    (forall a b c, kcmp a b = Lt -> kcmp b c = Lt -> kcmp a c = Lt) ->
    forall my other, ssorted kcmp my -> ssorted kcmp other ->
    forall k r,
      In (k, r) (diff_map kcmp veq my other) <->
      match r with
      | DAdded => ~ has my k /\ has other k
      | DRemoved => has my k /\ ~ has other k
      | DChanged => exists v1 v2, In (k, v1) my /\ In (k, v2) other /\ veq v1 v2 = false
      end.
Proof. intros. eapply dm_correct; eauto. Qed.

(** ... in particular for the cluster map (keys compared with [N.compare]) *)
Theorem diff_map_correct_clusters :
  forall (veq : cluster -> cluster -> bool) my other,
    ssorted N.compare my -> ssorted N.compare other ->
    forall k r,
      In (k, r) (diff_map N.compare veq my other) <->
      match r with
      | DAdded => ~ has my k /\ has other k
      | DRemoved => has my k /\ ~ has other k
      | DChanged => exists v1 v2, In (k, v1) my /\ In (k, v2) other /\ veq v1 v2 = false
      end.
Proof.
  intros. eapply dm_correct; eauto.
  - apply N.compare_refl.
  - apply N.compare_eq.
  - intros a b. apply N.compare_antisym.
  - intros a b c. rewrite !N.compare_lt_iff. apply N.lt_trans.
Qed.

(** the difference between equal configurations is empty (every section) *)
Theorem diff_same_empty : forall a, diff a a = [].
Proof. exact DiffProofs.diff_same_empty. Qed.

(** C06 at full strength on the model.  For any two configurations reachable
    by any command histories (every verb, valid or not; any behaviour of the
    certificate parser, the validators and the patch handlers), every request of
    diff(A,B) is accepted by an instance holding A, and that instance then
    holds B: all eleven maps, modulo empty buckets and the order inside
    tcp/udp frontend buckets ([norm_set]; the Vec order after a diff follows
    hash-set iteration and is not observable through routing, hash_state or
    any replay path). *)
Theorem apply_diff :
  forall fingerprint inames hc_valid steps A B,
    reachable fingerprint inames hc_valid steps A -> reachable fingerprint inames hc_valid steps B ->
    exists Z, replay fingerprint inames hc_valid steps (diff A B) A = (Z, 0%nat) /\ norm_set Z = norm_set B.
Proof.
  intros fp nm hc st A B HA HB. apply DiffCompose.apply_diff; apply (reachable_InvR fp nm hc st); assumption.
Qed.

(** the same from the invariant alone (what a state loaded from anywhere must satisfy) *)
Theorem apply_diff_inv :
  forall fingerprint inames hc_valid steps A B,
    InvR fingerprint inames hc_valid A -> InvR fingerprint inames hc_valid B ->
    exists Z, replay fingerprint inames hc_valid steps (diff A B) A = (Z, 0%nat) /\ norm_set Z = norm_set B.
Proof. intros. apply DiffCompose.apply_diff; assumption. Qed.

(** The proof is section by section, each for ANY state holding the section's
    map, so the sections compose in the order of [diff]; the composition needs
    NO cross-section precondition: ConfigState checks no reference between maps
    (a frontend may name a missing cluster or listener), so on ConfigState the
    order of the sections is irrelevant for acceptance; it matters only for the
    live proxies of a worker (C08).  The sections: *)
Theorem apply_diff_backends :
  forall fingerprint inames hc_valid steps my other s,
    bIv my -> bIv other -> backends s = my ->
    exists c', replay fingerprint inames hc_valid steps (diff_backends my other) s = (set_backends s c', 0%nat)
               /\ drop_empty c' = drop_empty other.
Proof.
  intros fp nm hc st my other s Hm Ho Hs.
  destruct (piece_backends fp nm hc st my other Hm Ho s Hs) as (c' & Hr & Hi & Ha). exists c'. split; [exact Hr|apply babs_norm; assumption].
Qed.

Theorem apply_diff_tfronts :
  forall fingerprint inames hc_valid steps udp my other s,
    tIv my -> tIv other -> gInvT other -> get_t udp s = my ->
    exists c', replay fingerprint inames hc_valid steps (diff_tfronts udp my other) s = (set_t udp s c', 0%nat)
               /\ isort tf_le <$> drop_empty c' = isort tf_le <$> drop_empty other.
Proof.
  intros fp nm hc st udp my other s Hm Ho Hg Hs.
  destruct (piece_tfronts fp nm hc st udp my other s Hs Hm Ho Hg) as (c' & Hr & Hi & Ha). exists c'. split; [exact Hr|apply tabs_norm_set; assumption].
Qed.

Theorem apply_diff_listeners :
  forall fingerprint inames hc_valid steps k my other s,
    get_l k s = my ->
    let r := replay fingerprint inames hc_valid steps in
    r (diff_listeners_removed k my other) s = (set_l k s (after_removed my other), 0%nat)
    /\ r (diff_listeners_added k my other) (set_l k s (after_removed my other)) = (set_l k s (after_added my other), 0%nat)
    /\ r (diff_listeners_common k my other) (set_l k s (after_added my other)) = (set_l k s other, 0%nat)
    /\ r (diff_late_activate k my other) (set_l k s other) = (set_l k s other, 0%nat).
Proof.
  intros fp nm hc st k my other s Hmy. cbv zeta.
  assert (Hg : forall m, get_l k (set_l k s m) = m) by (intros; destruct k; reflexivity).
  assert (Hs : forall m m', set_l k (set_l k s m) m' = set_l k s m') by (intros; destruct k; reflexivity).
  split; [apply piece_removed; exact Hmy|].
  split; [rewrite piece_added by apply Hg; rewrite Hs; reflexivity|].
  split; [rewrite piece_common by apply Hg; rewrite Hs; reflexivity|].
  apply piece_late. apply Hg.
Qed.

Theorem apply_diff_clusters :
  forall fingerprint inames hc_valid steps my other s,
    clusters s = my ->
    (forall i c v, other !! i = Some c -> c_hc c = Some v -> hc_valid v = true) ->
    replay fingerprint inames hc_valid steps (diff_clusters my other) s = (set_clusters s other, 0%nat).
Proof. intros. apply piece_clusters; assumption. Qed.

Theorem apply_diff_certs :
  forall fingerprint inames hc_valid steps my other s,
    certs s = my ->
    (forall a b fp k, other !! a = Some b -> b !! fp = Some k ->
       fingerprint (k_pem k) = Some fp /\ resolve inames k = Some (k_names k)) ->
    exists c', replay fingerprint inames hc_valid steps (diff_certs my other) s = (set_certs s c', 0%nat)
               /\ filter (fun ab : N * gmap N cert => snd ab <> ∅) c' = filter (fun ab : N * gmap N cert => snd ab <> ∅) other.
Proof.
  intros fp nm hc st my other s Hmy Hok.
  destruct (piece_certs fp nm hc st my other s Hmy Hok) as (c' & Hr & Hc). exists c'. split; [exact Hr|apply cabs_norm; exact Hc].
Qed.

Theorem apply_diff_fronts :
  forall fingerprint inames hc_valid steps tls my other s,
    get_f tls s = my ->
    (forall k f, my !! k = Some f -> k = front_key f) ->
    (forall k f, other !! k = Some f -> k = front_key f /\ (f_pos f <? 3) = true) ->
    replay fingerprint inames hc_valid steps (diff_fronts tls my other) s = (set_f tls s other, 0%nat).
Proof. intros. apply DiffApply.apply_diff_fronts; assumption. Qed.

Theorem apply_diff_fronts_only :
  forall fingerprint inames hc_valid steps A B,
    clusters B = clusters A -> backends B = backends A ->
    http_l B = http_l A -> https_l B = https_l A -> tcp_l B = tcp_l A -> udp_l B = udp_l A ->
    tcp_f B = tcp_f A -> udp_f B = udp_f A -> certs B = certs A ->
    (forall tls k f, get_f tls A !! k = Some f -> k = front_key f) ->
    (forall tls k f, get_f tls B !! k = Some f -> k = front_key f /\ (f_pos f <? 3) = true) ->
    replay fingerprint inames hc_valid steps (diff A B) A = (B, 0%nat).
Proof. intros. apply DiffApply.apply_diff_fronts_only; assumption. Qed.

(** non-vacuity of [apply_diff_fronts_only]: a route whose payload changes, one removed, one added *)
Example apply_diff_nonvacuous :
  let fp := fun _ : N => @None N in
  let nm := fun _ : N => @None (list N) in
  let hc := fun _ : N => true in
  let f1 := Front 0 1 0 2 None (Some 1) 2 5 in
  let f1' := Front 0 1 0 2 None (Some 2) 2 9 in
  let f2 := Front 0 2 0 0 None None 0 0 in
  let f3 := Front 1 0 2 1 (Some 1) (Some 0) 1 3 in
  let A := set_http_f empty_state (<[front_key f1 := f1]> (<[front_key f2 := f2]> ∅)) in
  let B := set_http_f empty_state (<[front_key f1' := f1']> (<[front_key f3 := f3]> ∅)) in
  bool_decide (replay fp nm hc steps_of (diff A B) A = (B, 0%nat)) = true /\ length (diff A B) = 4%nat.
Proof. vm_compute. split; reflexivity. Qed.

(** non-vacuity of [diff_map_correct]: two sorted cluster lists with one key of each kind *)
Example diff_map_nonvacuous :
  diff_map N.compare (fun a b : cluster => bool_decide (a = b))
           [(1, Cluster None 0); (2, Cluster None 0); (3, Cluster None 0)]
           [(2, Cluster None 0); (3, Cluster None 5); (4, Cluster None 0)]
  = [(1, DRemoved); (3, DChanged); (4, DAdded)].
Proof. vm_compute. reflexivity. Qed.
