(** C01 — lemmas. *)
From Coq Require Import List Arith NArith ZArith Bool Lia.
From SV Require Import C01.Model.
Import ListNotations.

(** ** Content-Length *)
Lemma cl_roundtrip body rest :
  cl_decode (fst (cl_encode body)) (snd (cl_encode body) ++ rest) = Some (body, rest).
Proof.
  unfold cl_decode, cl_encode; cbn [fst snd].
  rewrite app_length.
  destruct (Nat.ltb_spec (length body + length rest) (length body)) as [H|_]; [lia|].
  rewrite firstn_app, Nat.sub_diag, firstn_all, firstn_O, app_nil_r.
  rewrite skipn_app, Nat.sub_diag, skipn_all, skipn_O. reflexivity.
Qed.

(** ** Chunked *)
Definition enc_chunks (chs : list (list byte)) : list ctok :=
  flat_map (fun ch => [CSize (length ch); CData ch]) chs.

Lemma decode_one ch rest' :
  ch <> [] ->
  chunked_decode (CSize (length ch) :: CData ch :: rest') =
  match chunked_decode rest' with Some (b, r) => Some (ch ++ b, r) | None => None end.
Proof.
  intros Hne. destruct ch as [|b ch]; [contradiction|].
  cbn [chunked_decode length]. rewrite Nat.eqb_refl. reflexivity.
Qed.

Lemma decode_chunks chs rest :
  Forall (fun ch => ch <> []) chs ->
  chunked_decode (enc_chunks chs ++ [CSize 0; CEnd] ++ rest) = Some (concat chs, rest).
Proof.
  induction chs as [|ch chs IH]; intros Hne.
  - reflexivity.
  - inversion Hne as [|? ? Hch Hrest]; subst.
    change (enc_chunks (ch :: chs) ++ [CSize 0; CEnd] ++ rest)
      with (CSize (length ch) :: CData ch :: (enc_chunks chs ++ [CSize 0; CEnd] ++ rest)).
    rewrite (decode_one ch _ Hch), (IH Hrest). reflexivity.
Qed.

Lemma split_at_spec cuts : forall body,
  concat (split_at cuts body) = body /\ Forall (fun ch => ch <> []) (split_at cuts body).
Proof.
  induction cuts as [|c r IH]; intros body.
  - destruct body; cbn; split; auto. rewrite app_nil_r; reflexivity.
    constructor; [discriminate | constructor].
  - destruct body as [|b body]; [cbn; split; auto|].
    cbn [split_at].
    set (k := if (c =? 0) || (length (b :: body) <? c) then length (b :: body) else c).
    assert (Hk : 0 < k <= length (b :: body)).
    { subst k. destruct (Nat.eqb_spec c 0); cbn [orb]; [cbn; lia|].
      destruct (Nat.ltb_spec (length (b :: body)) c); cbn in *; lia. }
    destruct (IH (skipn k (b :: body))) as [H1 H2].
    split.
    + cbn [concat]. rewrite H1. apply firstn_skipn.
    + constructor; [|exact H2].
      destruct k; [lia|]. cbn. discriminate.
Qed.

Lemma chunked_roundtrip cuts body rest :
  chunked_decode (chunked_encode cuts body ++ rest) = Some (body, rest).
Proof.
  unfold chunked_encode. rewrite <- app_assoc.
  destruct (split_at_spec cuts body) as [H1 H2].
  change (flat_map (fun ch => [CSize (length ch); CData ch]) (split_at cuts body)) with (enc_chunks (split_at cuts body)).
  rewrite (decode_chunks _ rest H2), H1. reflexivity.
Qed.

(** ** HTTP/2 DATA *)
Lemma h2_roundtrip fuel : forall max pads body,
  0 < max -> length body < fuel ->
  h2_deframe (h2_frames fuel max pads body) = Some body.
Proof.
  induction fuel as [|f IH]; intros max pads body Hm Hl; [lia|].
  cbn [h2_frames].
  destruct (Nat.leb_spec (length body) max) as [H|H].
  - reflexivity.
  - cbn [h2_deframe f_end f_payload].
    rewrite IH; [rewrite firstn_skipn; reflexivity | exact Hm |].
    rewrite skipn_length. lia.
Qed.

Lemma h2_frame_sizes fuel : forall max pads body,
  Forall (fun f => length (f_payload f) <= max) (h2_frames fuel max pads body).
Proof.
  induction fuel as [|f IH]; intros max pads body; cbn [h2_frames].
  - constructor; [cbn; lia | constructor].
  - destruct (Nat.leb_spec (length body) max) as [H|H].
    + constructor; [exact H | constructor].
    + constructor; [cbn; rewrite firstn_length; lia | apply IH].
Qed.

(** ** Byte-level chunked decoding *)
Lemma hexval_hexchar d : (d < 16)%N -> hexval (hexchar d) = Some d.
Proof.
  intros H.
  assert (E : (d = 0 \/ d = 1 \/ d = 2 \/ d = 3 \/ d = 4 \/ d = 5 \/ d = 6 \/ d = 7 \/ d = 8 \/ d = 9 \/
               d = 10 \/ d = 11 \/ d = 12 \/ d = 13 \/ d = 14 \/ d = 15)%N) by lia.
  repeat (destruct E as [E|E]; [subst; reflexivity|]). subst; reflexivity.
Qed.

Lemma size_line_digits ds : forall acc seen rest,
  Forall (fun d => (d < 16)%N) ds -> (seen = true \/ ds <> []) ->
  size_line acc seen (map hexchar ds ++ 13%N :: 10%N :: rest) = Some (hex_value acc ds, rest).
Proof.
  induction ds as [|d ds IH]; intros acc seen rest Hd Hs.
  - destruct Hs as [->|Hs]; [reflexivity | contradiction].
  - inversion Hd as [|? ? H1 H2]; subst.
    cbn [map app size_line hex_value]. rewrite (hexval_hexchar d H1).
    apply IH; [exact H2 | left; reflexivity].
Qed.

Lemma dechunk_one f ds data rest :
  Forall (fun d => (d < 16)%N) ds -> ds <> [] -> data <> [] ->
  hex_value 0 ds = N.of_nat (length data) ->
  dechunk (S f) (chunk_bytes ds data ++ rest) =
  (let '(b, c, e) := dechunk f rest in (data ++ b, c, e)).
Proof.
  intros Hd Hn Hdata Hv. unfold chunk_bytes. cbn [dechunk].
  repeat rewrite <- app_assoc. cbn [app].
  rewrite (size_line_digits ds 0%N false _ Hd (or_intror Hn)). rewrite Hv.
  assert (Hz : (N.of_nat (length data) =? 0)%N = false).
  { apply N.eqb_neq. destruct data; [contradiction | cbn; lia]. }
  rewrite Hz, Nat2N.id.
  rewrite firstn_app, Nat.sub_diag, firstn_all, firstn_O, app_nil_r.
  match goal with
  | |- context [?a <? ?b] => destruct (Nat.ltb_spec a b) as [Hlt|_]; [rewrite app_length in Hlt; lia|]
  end.
  rewrite skipn_app, Nat.sub_diag, skipn_all, skipn_O. cbn [app]. reflexivity.
Qed.

Lemma dechunk_last f : dechunk (S f) last_chunk_bytes = ([], true, false).
Proof. reflexivity. Qed.

(** a chunked body written by any encoder that follows the grammar decodes to the concatenation
    of the chunk data, complete *)
Lemma dechunk_roundtrip chunks : forall fuel,
  Forall (fun c : list N * list byte =>
            Forall (fun d => (d < 16)%N) (fst c) /\ fst c <> [] /\ snd c <> [] /\
            hex_value 0 (fst c) = N.of_nat (length (snd c))) chunks ->
  length chunks < fuel ->
  dechunk fuel (flat_map (fun c => chunk_bytes (fst c) (snd c)) chunks ++ last_chunk_bytes) =
  (flat_map snd chunks, true, false).
Proof.
  induction chunks as [|[ds data] cs IH]; intros fuel Hall Hf.
  - destruct fuel; [cbn in Hf; lia | reflexivity].
  - destruct fuel as [|f]; [cbn in Hf; lia|].
    inversion Hall as [|? ? (A & B & C & D) Hrest]; subst. cbn [fst snd] in *.
    cbn [flat_map fst snd]. rewrite <- app_assoc.
    rewrite (dechunk_one f ds data _ A B C D).
    assert (Hf' : length cs < f) by (cbn in Hf; lia).
    rewrite (IH f Hrest Hf'). reflexivity.
Qed.

(** ** H2 upload ended by a trailer block, as HTTP/1.1 bytes *)
(** one step of [trailers_end] on a byte that is not CR *)
Lemma trailers_end_other f x r b : x <> 13%N -> trailers_end (S f) (x :: r) b = trailers_end f r false.
Proof.
  intros Hx. cbn [trailers_end].
  destruct x as [|p]; [reflexivity|].
  repeat (match goal with
          | |- context [match ?q with _ => _ end] => is_var q; destruct q
          end; try reflexivity; try congruence).
Qed.

Lemma trailers_end_line l : forall f b rest,
  Forall (fun x => x <> 13%N) l -> l <> [] -> length l < f ->
  trailers_end f (l ++ 13%N :: 10%N :: rest) b = trailers_end (f - length l - 1) rest true.
Proof.
  induction l as [|x l IH]; intros f b rest Hall Hne Hf; [contradiction|].
  inversion Hall as [|? ? Hx Hl]; subst.
  destruct f as [|f]; [cbn in Hf; lia|].
  cbn [app]. rewrite (trailers_end_other f x _ b Hx).
  destruct l as [|y l'].
  - cbn [app length]. destruct f as [|f]; [cbn in Hf; lia|].
    cbn [trailers_end]. replace (S (S f) - 1 - 1) with f by lia. reflexivity.
  - rewrite IH; [|exact Hl|discriminate|cbn in *; lia].
    f_equal; cbn [length]; lia.
Qed.

Lemma trailer_section_ends fields : forall f,
  Forall field_ok fields ->
  length (trailer_section fields) < f ->
  trailers_end f (trailer_section fields) true = true.
Proof.
  unfold trailer_section.
  induction fields as [|kv fs IH]; intros f Hall Hf.
  - cbn in *. destruct f as [|f]; [lia|]. reflexivity.
  - inversion Hall as [|? ? (Hk & Hv) Hrest]; subst.
    cbn [flat_map]. unfold trailer_line at 1.
    repeat rewrite <- app_assoc.
    rewrite (app_assoc (fst kv)), (app_assoc (fst kv ++ _)). cbn [app].
    cbn [flat_map] in Hf. unfold trailer_line at 1 in Hf.
    repeat rewrite app_length in Hf. cbn [length] in Hf.
    rewrite trailers_end_line.
    + apply IH; [exact Hrest|]. repeat rewrite app_length. cbn [length]. lia.
    + apply Forall_app; split; [|exact Hv].
      apply Forall_app; split; [exact Hk|].
      repeat constructor; discriminate.
    + destruct (fst kv); discriminate.
    + repeat rewrite app_length. cbn [length]. lia.
Qed.

Lemma hex_value_app x : forall a y, hex_value a (x ++ y) = hex_value (hex_value a x) y.
Proof. induction x as [|d x IH]; intros a y; [reflexivity|]. cbn [app hex_value]. apply IH. Qed.

Lemma hex_digit_char_hexchar v : hex_digit_char v = hexchar v.
Proof. reflexivity. Qed.

Lemma to_hex_S f n acc :
  to_hex (S f) n acc = if (n / 16 =? 0)%N then hex_digit_char (n mod 16) :: acc
                       else to_hex f (n / 16) (hex_digit_char (n mod 16) :: acc).
Proof. reflexivity. Qed.

Lemma to_hex_spec f : forall n acc,
  (n < 16 ^ N.of_nat (S f))%N ->
  exists ds, to_hex (S f) n (map hexchar acc) = map hexchar (ds ++ acc)
             /\ Forall (fun d => (d < 16)%N) ds /\ ds <> []
             /\ forall a, hex_value a ds = (a * 16 ^ N.of_nat (length ds) + n)%N.
Proof.
  induction f as [|f IH]; intros n acc Hn.
  - change (16 ^ N.of_nat 1)%N with 16%N in Hn.
    exists [n]. cbn [to_hex]. rewrite hex_digit_char_hexchar.
    rewrite (N.mod_small n 16 Hn), (N.div_small n 16 Hn). cbn [N.eqb app map].
    split; [reflexivity|]. split; [constructor; [exact Hn|constructor]|]. split; [discriminate|].
    intros a. cbn [hex_value length]. change (16 ^ N.of_nat 1)%N with 16%N. reflexivity.
  - rewrite to_hex_S. rewrite hex_digit_char_hexchar.
    assert (Hd : (n mod 16 < 16)%N) by (apply N.mod_lt; discriminate).
    destruct (N.eqb_spec (n / 16) 0) as [Hq|Hq].
    + exists [n mod 16]%N. cbn [app map].
      split; [reflexivity|]. split; [constructor; [exact Hd|constructor]|]. split; [discriminate|].
      intros a. cbn [hex_value length]. change (16 ^ N.of_nat 1)%N with 16%N.
      pose proof (N.div_mod n 16). lia.
    + assert (Hq' : (n / 16 < 16 ^ N.of_nat (S f))%N).
      { apply N.div_lt_upper_bound; [discriminate|].
        rewrite <- N.pow_succ_r'. rewrite <- Nat2N.inj_succ. exact Hn. }
      destruct (IH (n / 16)%N ((n mod 16)%N :: acc) Hq') as (ds & E & Hds & Hne & Hv).
      exists (ds ++ [n mod 16]%N).
      change (hexchar (n mod 16) :: map hexchar acc) with (map hexchar ((n mod 16)%N :: acc)).
      rewrite E. rewrite <- app_assoc. cbn [app].
      split; [reflexivity|]. split; [|split].
      * apply Forall_app; split; [exact Hds|constructor; [exact Hd|constructor]].
      * destruct ds; discriminate.
      * intros a. rewrite hex_value_app, Hv. cbn [hex_value].
        rewrite app_length. cbn [length]. rewrite Nat.add_1_r, Nat2N.inj_succ, N.pow_succ_r'.
        pose proof (N.div_mod n 16). lia.
Qed.

(** a DATA frame written as a chunk is a chunk of the grammar *)
Lemma h2_data_as_chunk_grammar data :
  data <> [] -> (N.of_nat (length data) < 16 ^ 20)%N ->
  exists ds, h2_data_as_chunk data = chunk_bytes ds data
             /\ Forall (fun d => (d < 16)%N) ds /\ ds <> []
             /\ hex_value 0 ds = N.of_nat (length data).
Proof.
  intros Hne Hlen.
  destruct (to_hex_spec 19 (N.of_nat (length data)) [] Hlen) as (ds & E & Hds & Hn & Hv).
  exists ds. rewrite app_nil_r in E. cbn [map] in E.
  split.
  - unfold h2_data_as_chunk, chunk_bytes. destruct data; [contradiction|]. rewrite E. reflexivity.
  - split; [exact Hds|]. split; [exact Hn|]. rewrite Hv. lia.
Qed.

Lemma dechunk_h2_frames frames : forall fuel tail R,
  Forall frame_ok frames -> length frames < fuel ->
  (forall f, dechunk (S f) tail = R) ->
  dechunk fuel (flat_map h2_data_as_chunk frames ++ tail) =
  (let '(b, c, e) := R in (concat frames ++ b, c, e)).
Proof.
  induction frames as [|d fs IH]; intros fuel tail R Hall Hf HR.
  - destruct fuel as [|f]; [cbn in Hf; lia|].
    cbn [flat_map app concat]. rewrite HR. destruct R as [[b c] e]. reflexivity.
  - inversion Hall as [|? ? Hd Hrest]; subst.
    cbn [flat_map concat].
    destruct d as [|x d'].
    + cbn [h2_data_as_chunk app].
      apply IH; [exact Hrest | cbn in Hf; lia | exact HR].
    + destruct fuel as [|f]; [cbn in Hf; lia|].
      destruct (h2_data_as_chunk_grammar (x :: d')) as (ds & E & Hds & Hn & Hv); [discriminate | exact Hd |].
      rewrite E, <- app_assoc.
      rewrite (dechunk_one f ds (x :: d') _ Hds Hn); [|discriminate|exact Hv].
      rewrite (IH f tail R Hrest); [|cbn in Hf; lia|exact HR].
      destruct R as [[b c] e]. rewrite <- app_assoc. reflexivity.
Qed.

Lemma dechunk_last_line f w :
  dechunk (S f) (48%N :: 13%N :: 10%N :: w) = ([], trailers_end (S (length w)) w true, false).
Proof. reflexivity. Qed.

Lemma h2_upload_trailers_exact_proof frames fields fuel :
  Forall frame_ok frames -> Forall field_ok fields -> length frames < fuel ->
  dechunk fuel (h2_upload_trailers_as_h1 frames true false fields) = (concat frames, true, false).
Proof.
  intros Hfr Hfi Hf. unfold h2_upload_trailers_as_h1, h2_trailers_as_h1.
  rewrite (dechunk_h2_frames frames fuel _ ([], true, false) Hfr Hf).
  - rewrite app_nil_r. reflexivity.
  - intros f. unfold h2_end_as_chunk. rewrite app_nil_r. cbn [app].
    rewrite dechunk_last_line. rewrite trailer_section_ends; [reflexivity | exact Hfi | apply Nat.lt_succ_diag_r].
Qed.

(** the defect the tie is there for: with [end_chunk] set on the end-of-body flags the last-chunk
    line is followed by an empty line BEFORE the fields — a complete message with no trailers,
    then stray bytes: the strict recipient does not see the message end where the bytes end *)
Lemma h2_upload_trailers_end_chunk_refuted_proof frames kv fields fuel :
  Forall frame_ok frames -> length frames < fuel ->
  dechunk fuel (h2_upload_trailers_as_h1 frames true true (kv :: fields)) = (concat frames, false, false).
Proof.
  intros Hfr Hf. unfold h2_upload_trailers_as_h1, h2_trailers_as_h1.
  rewrite (dechunk_h2_frames frames fuel _ ([], false, false) Hfr Hf).
  - rewrite app_nil_r. reflexivity.
  - intros f. unfold h2_end_as_chunk, trailer_section. cbn [app flat_map].
    rewrite dechunk_last_line. unfold trailer_line.
    destruct (fst kv); cbn [app length trailers_end]; reflexivity.
Qed.

(** ** H2 block converter *)
Lemma body_of_cons_chunk d r : body_of (BChunk d :: r) = d ++ body_of r.
Proof. reflexivity. Qed.

Lemma blocks_after_body pl d r :
  body_of (match skipn pl d with [] => r | _ => BChunk (skipn pl d) :: r end) = skipn pl d ++ body_of r.
Proof. destruct (skipn pl d) eqn:E; reflexivity. Qed.

(** nothing lost, duplicated or reordered by one prepare: emitted payload ++ queued body = body *)
Lemma h2_prepare_conserves fuel : forall window max blocks,
  let '(fs, bl, _) := h2_prepare fuel window max blocks in
  payload_of fs ++ body_of bl = body_of blocks.
Proof.
  induction fuel as [|f IH]; intros window max blocks; cbn [h2_prepare]; [reflexivity|].
  destruct blocks as [|[d|] r]; [reflexivity| |].
  - destruct ((Z.of_nat (length d) <=? window)%Z && (length d <=? max)) eqn:Efit.
    + specialize (IH (window - Z.of_nat (length d))%Z max r).
      destruct (h2_prepare f (window - Z.of_nat (length d))%Z max r) as [[fs bl] w].
      cbn [payload_of flat_map f_payload]. rewrite <- app_assoc. fold (payload_of fs).
      rewrite IH. reflexivity.
    + destruct (0 <? window)%Z eqn:Epos; [|reflexivity].
      set (pl := Z.to_nat (Z.min (Z.of_nat max) window)).
      destruct (Z.of_nat max <? window)%Z eqn:Ecan.
      * specialize (IH (window - Z.of_nat pl)%Z max
                       (match skipn pl d with [] => r | _ => BChunk (skipn pl d) :: r end)).
        destruct (h2_prepare f (window - Z.of_nat pl)%Z max _) as [[fs bl] w].
        cbn [payload_of flat_map f_payload]. rewrite <- app_assoc. fold (payload_of fs).
        rewrite IH, blocks_after_body, body_of_cons_chunk, app_assoc, firstn_skipn. reflexivity.
      * cbn [payload_of flat_map f_payload]. rewrite app_nil_r.
        rewrite blocks_after_body, body_of_cons_chunk, app_assoc, firstn_skipn. reflexivity.
  - specialize (IH window max r).
    destruct (h2_prepare f window max r) as [[fs bl] w].
    cbn [payload_of flat_map f_payload app]. fold (payload_of fs). exact IH.
Qed.

(** frame sizes, window accounting: every payload fits the frame size, the window
    decreases by exactly the payload sent and never goes below zero if it started at or above *)
Lemma h2_prepare_budget fuel : forall window max blocks,
  let '(fs, _, w') := h2_prepare fuel window max blocks in
  Forall (fun fr => length (f_payload fr) <= max) fs /\
  (w' = window - Z.of_nat (length (payload_of fs)))%Z /\
  ((0 <= window)%Z -> (0 <= w')%Z).
Proof.
  induction fuel as [|f IH]; intros window max blocks; cbn [h2_prepare].
  - cbn. split; [constructor | split; lia].
  - destruct blocks as [|[d|] r].
    + cbn. split; [constructor | split; lia].
    + destruct ((Z.of_nat (length d) <=? window)%Z && (length d <=? max)) eqn:Efit.
      * apply andb_true_iff in Efit as [E1 E2]. apply Z.leb_le in E1. apply Nat.leb_le in E2.
        specialize (IH (window - Z.of_nat (length d))%Z max r).
        destruct (h2_prepare f (window - Z.of_nat (length d))%Z max r) as [[fs bl] w].
        destruct IH as (A & B & C).
        cbn [payload_of flat_map f_payload]. fold (payload_of fs). rewrite app_length.
        split; [constructor; [exact E2 | exact A] | split; lia].
      * destruct (0 <? window)%Z eqn:Epos.
        -- apply Z.ltb_lt in Epos.
           set (pl := Z.to_nat (Z.min (Z.of_nat max) window)).
           assert (Hpl : (Z.of_nat pl <= window)%Z) by (subst pl; lia).
           assert (Hfl : length (firstn pl d) <= max) by (rewrite firstn_length; subst pl; lia).
           assert (Hfl2 : (Z.of_nat (length (firstn pl d)) <= Z.of_nat pl)%Z) by (rewrite firstn_length; lia).
           destruct (Z.of_nat max <? window)%Z eqn:Ecan.
           ++ specialize (IH (window - Z.of_nat pl)%Z max
                             (match skipn pl d with [] => r | _ => BChunk (skipn pl d) :: r end)).
              destruct (h2_prepare f (window - Z.of_nat pl)%Z max _) as [[fs bl] w].
              destruct IH as (A & B & C).
              cbn [payload_of flat_map f_payload]. fold (payload_of fs). rewrite app_length.
              split; [constructor; assumption|].
              (* the frame header announces pl; the payload has pl bytes when the chunk is longer than pl *)
              assert (Hlen : length (firstn pl d) = pl).
              { rewrite firstn_length. apply Nat.min_l.
                apply andb_false_iff in Efit. subst pl.
                destruct Efit as [E|E]; [apply Z.leb_gt in E | apply Nat.leb_gt in E]; lia. }
              rewrite Hlen. split; lia.
           ++ cbn [payload_of flat_map f_payload]. rewrite app_nil_r.
              assert (Hlen : length (firstn pl d) = pl).
              { rewrite firstn_length. apply Nat.min_l.
                apply andb_false_iff in Efit. subst pl.
                destruct Efit as [E|E]; [apply Z.leb_gt in E | apply Nat.leb_gt in E]; lia. }
              split; [constructor; [exact Hfl | constructor] | rewrite Hlen; split; lia].
        -- cbn. split; [constructor | split; lia].
    + specialize (IH window max r).
      destruct (h2_prepare f window max r) as [[fs bl] w]. destruct IH as (A & B & C).
      cbn [payload_of flat_map f_payload app]. fold (payload_of fs).
      split; [constructor; [cbn; lia | exact A] | split; assumption].
Qed.

(** END_STREAM is only emitted once the queue before it is empty: with the end
    marker last, an END_STREAM frame means the whole body went out and nothing is left *)
Lemma h2_prepare_end fuel : forall window max chunks,
  let blocks := map BChunk chunks ++ [BEnd] in
  let '(fs, bl, _) := h2_prepare fuel window max blocks in
  existsb f_end fs = true -> bl = [] /\ payload_of fs = concat chunks.
Proof.
  induction fuel as [|f IH]; intros window max chunks; cbn [h2_prepare]; [cbn; discriminate|].
  destruct chunks as [|d cs]; cbn [map app].
  - destruct f as [|f']; cbn [h2_prepare]; cbn; auto.
  - destruct ((Z.of_nat (length d) <=? window)%Z && (length d <=? max)) eqn:Efit.
    + specialize (IH (window - Z.of_nat (length d))%Z max cs). cbn zeta in IH.
      destruct (h2_prepare f (window - Z.of_nat (length d))%Z max (map BChunk cs ++ [BEnd])) as [[fs bl] w].
      cbn [existsb f_end orb]. intros H. destruct (IH H) as [A B].
      split; [exact A|]. cbn [payload_of flat_map f_payload concat]. fold (payload_of fs). rewrite B. reflexivity.
    + destruct (0 <? window)%Z eqn:Epos; [|cbn; discriminate].
      set (pl := Z.to_nat (Z.min (Z.of_nat max) window)).
      destruct (Z.of_nat max <? window)%Z eqn:Ecan; [|cbn; discriminate].
      destruct (skipn pl d) as [|b after] eqn:Eafter.
      * specialize (IH (window - Z.of_nat pl)%Z max cs). cbn zeta in IH.
        destruct (h2_prepare f (window - Z.of_nat pl)%Z max (map BChunk cs ++ [BEnd])) as [[fs bl] w].
        cbn [existsb f_end orb]. intros H. destruct (IH H) as [A B].
        split; [exact A|]. cbn [payload_of flat_map f_payload concat]. fold (payload_of fs). rewrite B.
        rewrite <- (firstn_skipn pl d) at 2. rewrite Eafter, app_nil_r. reflexivity.
      * specialize (IH (window - Z.of_nat pl)%Z max ((b :: after) :: cs)). cbn zeta in IH. cbn [map app] in IH.
        destruct (h2_prepare f (window - Z.of_nat pl)%Z max (BChunk (b :: after) :: map BChunk cs ++ [BEnd])) as [[fs bl] w].
        cbn [existsb f_end orb]. intros H. destruct (IH H) as [A B].
        split; [exact A|]. cbn [payload_of flat_map f_payload concat]. fold (payload_of fs). rewrite B.
        cbn [concat]. rewrite app_assoc, <- Eafter, firstn_skipn. reflexivity.
Qed.

(** over any window schedule: what went out so far, then what is queued, is the body *)
Lemma h2_rounds_conserve fuel max : forall windows blocks,
  let '(rs, final) := h2_rounds fuel max windows blocks in
  flat_map (fun r => payload_of (fst r)) rs ++ body_of final = body_of blocks.
Proof.
  induction windows as [|w ws IH]; intros blocks; cbn [h2_rounds]; [reflexivity|].
  pose proof (h2_prepare_conserves fuel w max blocks) as H1.
  destruct (h2_prepare fuel w max blocks) as [[fs bl] w'].
  specialize (IH bl). destruct (h2_rounds fuel max ws bl) as [rest final].
  cbn [flat_map fst]. rewrite <- app_assoc, IH. exact H1.
Qed.

(** ** Relay *)
Definition relay_inv (body : list byte) (r : relay) : Prop :=
  r_sent r ++ r_out r ++ r_buf r ++ r_in r = body.

Lemma relay_step_inv cap body r o : relay_inv body r -> relay_inv body (relay_step cap r o).
Proof.
  unfold relay_inv; intros H; destruct o as [k|k|k]; cbn [relay_step r_sent r_out r_buf r_in].
  - rewrite <- (app_assoc (r_buf r)), firstn_skipn. exact H.
  - rewrite <- (app_assoc (r_out r)), (app_assoc (firstn k (r_buf r))), firstn_skipn. exact H.
  - rewrite <- (app_assoc (r_sent r)), (app_assoc (firstn k (r_out r))), firstn_skipn. exact H.
Qed.

Lemma relay_run_inv cap body ops : forall r, relay_inv body r -> relay_inv body (relay_run cap r ops).
Proof.
  induction ops as [|o ops IH]; intros r H; cbn; [exact H|].
  apply IH, relay_step_inv, H.
Qed.

(** one draining round: ingest what fits, convert everything, flush everything *)
Definition round (cap big : nat) : list rop := [Ingest cap; Convert big; Flush big].
Fixpoint rounds (cap big n : nat) : list rop :=
  match n with O => [] | S m => round cap big ++ rounds cap big m end.

Lemma round_effect cap big body r :
  relay_inv body r -> length body <= big ->
  let r' := relay_run cap r (round cap big) in
  r_buf r' = [] /\ r_out r' = [] /\
  length (r_in r') = length (r_in r) - Nat.min cap (cap - length (r_buf r)).
Proof.
  intros Hinv Hbig. unfold relay_inv in Hinv.
  assert (Hlen : length (r_sent r) + length (r_out r) + length (r_buf r) + length (r_in r) = length body).
  { rewrite <- Hinv. rewrite !app_length. lia. }
  cbn [round relay_run fold_left relay_step r_in r_buf r_out r_sent].
  set (n := Nat.min cap (cap - length (r_buf r))).
  assert (Hb : length (r_buf r ++ firstn n (r_in r)) <= big).
  { rewrite app_length, firstn_length. lia. }
  repeat split.
  - apply skipn_all2. exact Hb.
  - apply skipn_all2. rewrite !app_length, !firstn_length, !app_length, !firstn_length. lia.
  - rewrite skipn_length. reflexivity.
Qed.

Lemma rounds_drain n : forall cap big body r,
  0 < cap -> relay_inv body r -> length body <= big ->
  r_buf r = [] -> r_out r = [] -> length (r_in r) <= n * cap ->
  r_sent (relay_run cap r (rounds cap big n)) = body.
Proof.
  induction n as [|m IH]; intros cap big body r Hc Hinv Hbig Hb Ho Hn.
  - cbn in *. unfold relay_inv in Hinv. rewrite Hb, Ho in Hinv.
    assert (r_in r = []) by (destruct (r_in r); [reflexivity | cbn in Hn; lia]).
    rewrite H in Hinv. rewrite !app_nil_r in Hinv. exact Hinv.
  - cbn [rounds]. unfold relay_run. rewrite fold_left_app. fold (relay_run cap r (round cap big)).
    fold (relay_run cap (relay_run cap r (round cap big)) (rounds cap big m)).
    destruct (round_effect cap big body r Hinv Hbig) as (E1 & E2 & E3).
    apply IH; auto.
    + apply relay_run_inv, Hinv.
    + rewrite E3, Hb. cbn [length]. rewrite Nat.sub_0_r, Nat.min_id. cbn in Hn. lia.
Qed.

(** ** TCP write loops *)
Lemma write_loops_agree fuel : forall len size sched,
  size <= len ->
  tcp_write fuel len size sched = tcp_writev_loop fuel len size sched.
Proof.
  induction fuel as [|f IH]; intros len size sched Hle; [reflexivity|].
  cbn [tcp_write tcp_writev_loop].
  destruct (Nat.eqb_spec size len) as [E|E]; [reflexivity|].
  destruct sched as [|[n| | |] r]; cbn [tcp_writev]; try reflexivity.
  destruct n as [|n]; [reflexivity|].
  assert (Hpos : (Nat.min (S n) (len - size) =? 0) = false) by (apply Nat.eqb_neq; lia).
  rewrite Hpos. apply IH. lia.
Qed.

Lemma tcp_write_bounds fuel : forall len size sched,
  size <= len ->
  let '(n, st, _) := tcp_write fuel len size sched in
  size <= n <= len /\ (st = Continue -> n = len \/ exists r, In (KWrote 0) (sched) /\ r = n) .
Proof.
  induction fuel as [|f IH]; intros len size sched Hle; cbn [tcp_write]; [split; [lia | discriminate]|].
  destruct (Nat.eqb_spec size len) as [E|E]; [split; [lia | auto]|].
  destruct sched as [|[n| | |] r]; try (split; [lia | discriminate]).
  destruct n as [|n].
  - split; [lia|]. intros _. right. exists size. split; [left; reflexivity | reflexivity].
  - specialize (IH len (size + Nat.min (S n) (len - size)) r ltac:(lia)).
    destruct (tcp_write f len (size + Nat.min (S n) (len - size)) r) as [[m st] rest].
    destruct IH as [IH1 IH2]. split; [lia|].
    intros Hs. destruct (IH2 Hs) as [H|[x [H1 H2]]]; [left; exact H|].
    right. exists x. split; [right; exact H1 | exact H2].
Qed.

(** ** rustls write loops *)
Definition tls_total (t : tls) : nat := t_pending t + t_flushed t.

Lemma tls_accept_le t n : tls_accept t n <= n.
Proof. unfold tls_accept; destruct (t_limit t); lia. Qed.

Lemma tls_flush_conserves fuel : forall t w sched,
  let '(t', _, _) := tls_flush fuel t w sched in
  tls_total t' = tls_total t /\ t_pending t' <= t_pending t /\ t_limit t' = t_limit t.
Proof.
  induction fuel as [|f IH]; intros t w sched; cbn [tls_flush]; [auto|].
  destruct (t_pending t =? 0); [auto|].
  destruct sched as [|[n| | |] r]; auto.
  destruct n as [|n]; [auto|].
  specialize (IH (mkTls (t_pending t - Nat.min (S n) (t_pending t)) (t_limit t)
                        (t_flushed t + Nat.min (S n) (t_pending t))) w r).
  destruct (tls_flush f _ w r) as [[t' w'] s'].
  unfold tls_total in *; cbn [t_pending t_flushed t_limit] in IH.
  destruct IH as (A & B & C). split; [lia | split; [lia | exact C]].
Qed.

Lemma tls_write_loop_conserves fuel : forall len buffered t w sched,
  buffered <= len ->
  let '(b, t', _, _) := tls_write_loop fuel len buffered t w sched in
  buffered <= b <= len /\ tls_total t' = tls_total t + (b - buffered).
Proof.
  induction fuel as [|f IH]; intros len buffered t w sched Hle; cbn [tls_write_loop]; [lia|].
  destruct (buffered =? len); [lia|].
  destruct (negb (w_can w) || w_err w || w_closed w); [lia|].
  set (a := tls_accept t (len - buffered)).
  assert (Ha : a <= len - buffered) by apply tls_accept_le.
  pose proof (tls_flush_conserves (S (t_pending (mkTls (t_pending t + a) (t_limit t) (t_flushed t))))
                                  (mkTls (t_pending t + a) (t_limit t) (t_flushed t)) w sched) as F.
  destruct (tls_flush _ (mkTls (t_pending t + a) (t_limit t) (t_flushed t)) w sched) as [[t2 w2] s2].
  destruct F as (F1 & _ & _).
  specialize (IH len (buffered + a) t2 w2 s2 ltac:(lia)).
  destruct (tls_write_loop f len (buffered + a) t2 w2 s2) as [[[b t'] w'] s'].
  unfold tls_total in *; cbn [t_pending t_flushed] in F1. lia.
Qed.

Lemma tls_writev_loop_conserves fuel : forall len buffered t w sched,
  buffered <= len ->
  let '(b, t', _, _) := tls_writev_loop fuel len buffered t w sched in
  buffered <= b <= len /\ tls_total t' = tls_total t + (b - buffered).
Proof.
  induction fuel as [|f IH]; intros len buffered t w sched Hle; cbn [tls_writev_loop]; [lia|].
  destruct (buffered =? len); [lia|].
  destruct (negb (w_can w) || w_err w || w_closed w); [lia|].
  set (a := if buffered =? 0 then tls_accept t len else 0).
  assert (Ha : a <= len - buffered).
  { subst a. destruct (Nat.eqb_spec buffered 0); [subst; rewrite Nat.sub_0_r; apply tls_accept_le | lia]. }
  pose proof (tls_flush_conserves (S (t_pending (mkTls (t_pending t + a) (t_limit t) (t_flushed t))))
                                  (mkTls (t_pending t + a) (t_limit t) (t_flushed t)) w sched) as F.
  destruct (tls_flush _ (mkTls (t_pending t + a) (t_limit t) (t_flushed t)) w sched) as [[t2 w2] s2].
  destruct F as (F1 & _ & _).
  destruct ((0 <? buffered + a) && (buffered + a <? len)).
  - unfold tls_total in *; cbn [t_pending t_flushed] in F1. lia.
  - specialize (IH len (buffered + a) t2 w2 s2 ltac:(lia)).
    destruct (tls_writev_loop f len (buffered + a) t2 w2 s2) as [[[b t'] w'] s'].
    unfold tls_total in *; cbn [t_pending t_flushed] in F1. lia.
Qed.

Lemma tls_tail_conserves fuel t w sched :
  let '(t', _, _) := tls_tail fuel t w sched in tls_total t' = tls_total t.
Proof.
  unfold tls_tail. destruct (negb (w_err w) && negb (w_closed w) && w_can w && negb (t_pending t =? 0)); [|reflexivity].
  pose proof (tls_flush_conserves fuel t w sched) as F.
  destruct (tls_flush fuel t w sched) as [[t' w'] s']. tauto.
Qed.

(** ** Readiness *)
Definition y_inv (y : rdy) : bool :=
  implb (y_queued y) ((y_event y && y_interest y) || (negb (y_sock y) && y_interest y)).

Lemma y_step_inv y o :
  (forall b, o = YQueue b -> b = true) -> y_inv y = true -> y_inv (y_step y o) = true.
Proof.
  intros Harm H. destruct o as [b| | |].
  - rewrite (Harm b eq_refl). reflexivity.
  - destruct y as [[|] [|] [|] [|]]; cbn in *; try reflexivity; try discriminate.
  - destruct y as [[|] [|] [|] [|]]; cbn in *; try reflexivity; try discriminate.
  - destruct y as [[|] [|] [|] [|]]; cbn in *; try reflexivity; try discriminate.
Qed.

Lemma y_run_inv ops : forall y,
  Forall (fun o => forall b, o = YQueue b -> b = true) ops -> y_inv y = true -> y_inv (y_run y ops) = true.
Proof.
  induction ops as [|o ops IH]; intros y Hall H; cbn; [exact H|].
  inversion Hall; subst. apply IH; [assumption|]. apply y_step_inv; assumption.
Qed.

Lemma inv_not_stalled y : y_inv y = true -> stalled y = false.
Proof. destruct y as [[|] [|] [|] [|]]; cbn; intros H; try reflexivity; discriminate. Qed.

(** ** Statements *)
From SV Require Import C01.Census C01.Gen.
From Coq Require Import String.
Open Scope list_scope.
Open Scope nat_scope.

Lemma framing_roundtrip_proof :
  (forall body rest, cl_decode (fst (cl_encode body)) (snd (cl_encode body) ++ rest) = Some (body, rest)) /\
  (forall cuts body rest, chunked_decode (chunked_encode cuts body ++ rest) = Some (body, rest)) /\
  (forall fuel max pads body, 0 < max -> List.length body < fuel ->
      h2_deframe (h2_frames fuel max pads body) = Some body /\
      Forall (fun f => List.length (f_payload f) <= max) (h2_frames fuel max pads body)).
Proof.
  split; [exact cl_roundtrip | split; [exact chunked_roundtrip|]].
  intros fuel max pads body Hm Hl. split; [apply h2_roundtrip; assumption | apply h2_frame_sizes].
Qed.

Lemma framing_injective_proof :
  forall c1 c2 b1 b2, chunked_encode c1 b1 = chunked_encode c2 b2 -> b1 = b2.
Proof.
  intros c1 c2 b1 b2 H.
  pose proof (chunked_roundtrip c1 b1 []) as H1. pose proof (chunked_roundtrip c2 b2 []) as H2.
  rewrite H in H1. rewrite H1 in H2. inversion H2. reflexivity.
Qed.

Lemma relay_prefix_proof :
  forall cap body ops,
    let r := relay_run cap (relay_init body) ops in
    r_sent r ++ r_out r ++ r_buf r ++ r_in r = body /\
    exists rest, body = r_sent r ++ rest.
Proof.
  intros cap body ops r.
  assert (H : relay_inv body r) by (apply relay_run_inv; reflexivity).
  split; [exact H|]. exists (r_out r ++ r_buf r ++ r_in r). symmetry; exact H.
Qed.

Lemma relay_complete_proof :
  forall cap body ops,
    0 < cap ->
    let r := relay_run cap (relay_init body) ops in
    r_sent (relay_run cap r (rounds cap (List.length body) (S (List.length body)))) = body.
Proof.
  intros cap body ops Hc r.
  assert (H : relay_inv body r) by (apply relay_run_inv; reflexivity).
  cbn [rounds]. unfold relay_run at 1. rewrite fold_left_app.
  fold (relay_run cap r (round cap (List.length body))).
  fold (relay_run cap (relay_run cap r (round cap (List.length body))) (rounds cap (List.length body) (List.length body))).
  destruct (round_effect cap (List.length body) body r H (le_n _)) as (E1 & E2 & E3).
  apply rounds_drain; auto.
  - apply relay_run_inv, H.
  - assert (List.length (r_in r) <= List.length body).
    { unfold relay_inv in H. rewrite <- H. rewrite !app_length. lia. }
    rewrite E3. nia.
Qed.

Lemma write_loops_symmetric_proof :
  forall fuel len sched,
    tcp_write fuel len 0 sched = tcp_writev_loop fuel len 0 sched /\
    (let '(n, _, _) := tcp_write fuel len 0 sched in n <= len).
Proof.
  intros fuel len sched. split; [apply write_loops_agree; lia|].
  pose proof (tcp_write_bounds fuel len 0 sched (Nat.le_0_l _)) as H.
  destruct (tcp_write fuel len 0 sched) as [[n st] r]. destruct H as [H _]. lia.
Qed.

Lemma wake_not_lost_proof :
  forall ops,
    Forall (fun o => forall b, o = YQueue b -> b = true) ops ->
    stalled (y_run (mkY false false false true) ops) = false.
Proof. intros ops H. apply inv_not_stalled, y_run_inv; [exact H | reflexivity]. Qed.

Lemma wake_lost_without_arm_proof :
  exists ops, stalled (y_run (mkY false false false true) ops) = true.
Proof. exists [YQueue false]. reflexivity. Qed.

Lemma census_unchanged_proof :
  gen_census = committed_census /\
  forallb (fun f => existsb (fun r : census_row =>
                               let '(file, fn, arms, _) := r in
                               (String.eqb file (fst f) && String.eqb fn (snd f) && arms)%bool) gen_census)
          entry_points = true.
Proof. split; vm_compute; reflexivity. Qed.

Lemma h2_converter_exact_proof :
  forall fuel max windows chunks (ended : bool),
    let blocks := map BChunk chunks ++ (if ended then [BEnd] else []) in
    let '(rs, final) := h2_rounds fuel max windows blocks in
    (* no loss, duplication, reordering across any window schedule *)
    flat_map (fun r => payload_of (fst r)) rs ++ body_of final = List.concat chunks /\
    (* every round: frame sizes, exact window accounting, never below zero *)
    (forall w blocks',
        let '(fs, _, w') := h2_prepare fuel w max blocks' in
        Forall (fun fr => List.length (f_payload fr) <= max) fs /\
        (w' = w - Z.of_nat (List.length (payload_of fs)))%Z /\ ((0 <= w)%Z -> (0 <= w')%Z)) /\
    (* END_STREAM in a round only with the whole remaining body out and nothing queued *)
    (forall w cs,
        let '(fs, bl, _) := h2_prepare fuel w max (map BChunk cs ++ [BEnd]) in
        existsb f_end fs = true -> bl = [] /\ payload_of fs = List.concat cs).
Proof.
  intros fuel max windows chunks ended blocks.
  pose proof (h2_rounds_conserve fuel max windows blocks) as H.
  destruct (h2_rounds fuel max windows blocks) as [rs final].
  split; [|split].
  - rewrite H. subst blocks. unfold body_of. rewrite flat_map_app.
    assert (E : flat_map (fun b => match b with BChunk d => d | BEnd => [] end) (map BChunk chunks) = List.concat chunks).
    { clear. induction chunks as [|c cs IH]; cbn; [reflexivity | rewrite IH; reflexivity]. }
    rewrite E. destruct ended; cbn; rewrite app_nil_r; reflexivity.
  - intros w blocks'. exact (h2_prepare_budget fuel w max blocks').
  - intros w cs. exact (h2_prepare_end fuel w max cs).
Qed.

Lemma tls_loops_conserve_proof :
  forall fuel len t sched,
    (let '(b, _, t', _) := tls_write fuel len t sched in
     b <= len /\ t_pending t' + t_flushed t' = t_pending t + t_flushed t + b) /\
    (let '(b, _, t', _) := tls_writev fuel len t sched in
     b <= len /\ t_pending t' + t_flushed t' = t_pending t + t_flushed t + b).
Proof.
  intros fuel len t sched. split.
  - unfold tls_write.
    pose proof (tls_write_loop_conserves fuel len 0 t (mkW true false false) sched (Nat.le_0_l _)) as H.
    destruct (tls_write_loop fuel len 0 t (mkW true false false) sched) as [[[b t1] w1] s1].
    pose proof (tls_tail_conserves (S (t_pending t1)) t1 w1 s1) as T.
    destruct (tls_tail (S (t_pending t1)) t1 w1 s1) as [[t2 w2] s2].
    unfold tls_total in *. lia.
  - unfold tls_writev.
    pose proof (tls_writev_loop_conserves fuel len 0 t (mkW true false false) sched (Nat.le_0_l _)) as H.
    destruct (tls_writev_loop fuel len 0 t (mkW true false false) sched) as [[[b t1] w1] s1].
    pose proof (tls_tail_conserves (S (t_pending t1)) t1 w1 s1) as T.
    destruct (tls_tail (S (t_pending t1)) t1 w1 s1) as [[t2 w2] s2].
    unfold tls_total in *. lia.
Qed.

Lemma tls_loops_not_symmetric_proof :
  exists fuel len t sched,
    (let '(b, st, _, _) := tls_write fuel len t sched in (b, st)) <>
    (let '(b, st, _, _) := tls_writev fuel len t sched in (b, st)).
Proof.
  exists 50, 10, (mkTls 0 (Some 4) 0), [KWrote 100; KWrote 100; KWrote 100; KWrote 100].
  vm_compute. discriminate.
Qed.

(** ** A response ended by trailers toward an H2 client *)
Lemma h2_prepare_end_last fuel : forall w max cs fs bl w',
  h2_prepare fuel w max (map BChunk cs ++ [BEnd]) = (fs, bl, w') ->
  existsb f_end fs = true ->
  exists bf, fs = bf ++ [mkF [] 0 true] /\ existsb f_end bf = false.
Proof.
  induction fuel as [|f IH]; intros w max cs fs bl w' H E.
  - cbn in H. inversion H; subst. discriminate E.
  - destruct cs as [|d r].
    + cbn [map app h2_prepare] in H.
      destruct f; cbn in H; inversion H; subst; exists []; split; reflexivity.
    + cbn [map app] in H. cbn [h2_prepare] in H.
      destruct ((Z.of_nat (List.length d) <=? w)%Z && (List.length d <=? max)) eqn:Efit.
      * destruct (h2_prepare f (w - Z.of_nat (List.length d))%Z max (map BChunk r ++ [BEnd])) as [[fs1 bl1] w1] eqn:E1.
        inversion H; subst. cbn [existsb f_end orb] in E.
        destruct (IH _ _ _ _ _ _ E1 E) as (bf & -> & Hb).
        exists (mkF d 0 false :: bf). split; [reflexivity | cbn; exact Hb].
      * destruct (0 <? w)%Z eqn:Ew.
        -- set (pl := Z.to_nat (Z.min (Z.of_nat max) w)) in *.
           assert (Hbl : (match skipn pl d with [] => map BChunk r ++ [BEnd] | _ => BChunk (skipn pl d) :: map BChunk r ++ [BEnd] end)
                         = map BChunk (match skipn pl d with [] => r | a => a :: r end) ++ [BEnd])
             by (destruct (skipn pl d); reflexivity).
           rewrite Hbl in H.
           destruct (Z.of_nat max <? w)%Z.
           ++ destruct (h2_prepare f (w - Z.of_nat pl)%Z max _) as [[fs1 bl1] w1] eqn:E1.
              inversion H; subst. cbn [existsb f_end orb] in E.
              destruct (IH _ _ _ _ _ _ E1 E) as (bf & -> & Hb).
              exists (mkF (firstn pl d) 0 false :: bf). split; [reflexivity | cbn; exact Hb].
           ++ inversion H; subst. cbn in E. discriminate E.
        -- inversion H; subst. discriminate E.
Qed.

Lemma existsb_trailers_end n fs :
  existsb is_trailers (h2_out_with_trailers n fs) = true -> existsb f_end fs = true.
Proof.
  induction fs as [|f r IH]; cbn; [discriminate|].
  destruct (f_end f); cbn; [reflexivity|]. exact IH.
Qed.

Lemma out_no_end n bf :
  existsb f_end bf = false ->
  h2_out_with_trailers n bf = map (fun f => OData (f_payload f) false) bf.
Proof.
  induction bf as [|f r IH]; cbn; [reflexivity|].
  destruct (f_end f); cbn; [discriminate|]. intros H. f_equal. apply IH, H.
Qed.

Lemma h2_trailers_after_body_proof :
  forall fuel w max cs n,
    n <> 0 ->
    let '(fs, bl, _) := h2_prepare fuel w max (map BChunk cs ++ [BEnd]) in
    let out := h2_out_with_trailers n fs in
    existsb is_trailers out = true ->
    exists body_frames,
      out = map (fun f => OData (f_payload f) false) body_frames ++ [OTrailers n] /\
      payload_of body_frames = List.concat cs /\ bl = [].
Proof.
  intros fuel w max cs n Hn.
  destruct (h2_prepare fuel w max (map BChunk cs ++ [BEnd])) as [[fs bl] w'] eqn:E.
  intros out Ht. subst out.
  pose proof (existsb_trailers_end n fs Ht) as He.
  destruct (h2_prepare_end_last fuel w max cs fs bl w' E He) as (bf & -> & Hb).
  pose proof (h2_converter_exact_proof fuel max [] cs true) as X.
  cbn [h2_rounds] in X. destruct X as (_ & _ & X).
  specialize (X w cs). rewrite E in X. destruct (X He) as (Hbl & Hp).
  exists bf. split; [|split].
  - unfold h2_out_with_trailers. rewrite map_app. fold (h2_out_with_trailers n bf).
    rewrite (out_no_end n bf Hb). cbn [map f_end andb].
    destruct n; [contradiction|]. reflexivity.
  - unfold payload_of in *. rewrite flat_map_app in Hp. cbn in Hp. rewrite app_nil_r in Hp. exact Hp.
  - exact Hbl.
Qed.
