(** C16 — executable model of [SessionManager] (lib/src/server.rs): admission
    ([check_limits], [incr], [decr] with the 90% hysteresis, [at_capacity]) and
    the per-(cluster, source-IP) accounting ([cluster_ip_at_limit],
    [track_cluster_ip], [untrack_all_cluster_ip], [clear_cluster_ip_tracking]),
    method by method, plus the call-site disciplines of the accept path
    ([Server::ready] gate on [can_accept], [create_sessions]), of session
    teardown and of the per-IP gate in [Router::connect] / [TcpSession], which
    the driver replicates.

    The two private maps are association lists here: [fwd] maps (cluster, ip)
    to a count, [rev] maps a token to the list of (cluster, ip) it holds (the
    Rust nests both one level deeper; the nesting is not observable).

    The model is of the tree after the [fix:] commit that clamps the re-enable
    threshold of [decr] to 1. *)
From Coq Require Import List Arith ZArith NArith Bool Lia.
Import ListNotations.
Open Scope N_scope.

Definition key := (N * N)%type.                    (* (cluster, ip) *)
Definition key_eqb (a b : key) : bool := (fst a =? fst b) && (snd a =? snd b).

Record sm := mkSM {
  max : N; nb : N; can_accept : bool; slab : N; base : N; limit : N;
  fwd : list (key * N);
  rev : list (N * list key) }.

Definition sm_new (mx lim : N) : sm := mkSM mx 0 true 0 0 lim [] [].

Fixpoint fwd_get (k : key) (l : list (key * N)) : N :=
  match l with
  | [] => 0
  | (k', n) :: t => if key_eqb k k' then n else fwd_get k t
  end.

Fixpoint mem (k : key) (l : list key) : bool :=
  match l with [] => false | k' :: t => key_eqb k k' || mem k t end.

Fixpoint rev_get (tok : N) (l : list (N * list key)) : list key :=
  match l with
  | [] => []
  | (t, ks) :: r => if tok =? t then ks else rev_get tok r
  end.

(** [cluster_ip_at_limit]; [ov] is the cluster-level override *)
Definition at_limit (s : sm) (tok : N) (k : key) (ov : option N) : bool :=
  let lim := match ov with Some v => v | None => limit s end in
  if lim =? 0 then false
  else if mem k (rev_get tok (rev s)) then false
  else lim <=? fwd_get k (fwd s).

Fixpoint fwd_incr (k : key) (l : list (key * N)) : list (key * N) :=
  match l with
  | [] => [(k, 1)]
  | (k', n) :: t => if key_eqb k k' then (k', n + 1) :: t else (k', n) :: fwd_incr k t
  end.

(** [saturating_sub(1)], and the entry is reaped at zero *)
Fixpoint fwd_decr (k : key) (l : list (key * N)) : list (key * N) :=
  match l with
  | [] => []
  | (k', n) :: t =>
    if key_eqb k k' then (if n - 1 =? 0 then t else (k', n - 1) :: t)
    else (k', n) :: fwd_decr k t
  end.

Fixpoint rev_add (tok : N) (k : key) (l : list (N * list key)) : list (N * list key) :=
  match l with
  | [] => [(tok, [k])]
  | (t, ks) :: r => if tok =? t then (t, ks ++ [k]) :: r else (t, ks) :: rev_add tok k r
  end.

Fixpoint rev_remove (tok : N) (l : list (N * list key)) : list (N * list key) :=
  match l with
  | [] => []
  | (t, ks) :: r => if tok =? t then r else (t, ks) :: rev_remove tok r
  end.

Definition set_maps (s : sm) (f : list (key * N)) (r : list (N * list key)) : sm :=
  mkSM (max s) (nb s) (can_accept s) (slab s) (base s) (limit s) f r.

(** [track_cluster_ip]: idempotent per token *)
Definition track (s : sm) (tok : N) (k : key) : sm :=
  if mem k (rev_get tok (rev s)) then s
  else set_maps s (fwd_incr k (fwd s)) (rev_add tok k (rev s)).

(** [untrack_all_cluster_ip] *)
Definition untrack_all (s : sm) (tok : N) : sm :=
  set_maps s (fold_left (fun f k => fwd_decr k f) (rev_get tok (rev s)) (fwd s)) (rev_remove tok (rev s)).

(** [clear_cluster_ip_tracking] *)
Definition clear_tracking (s : sm) : sm := set_maps s [] [].

(** [at_capacity]: [slab.len() >= 10 + 2 * max_connections], where the entries
    that are not sessions ([base]: channel, metrics, timer, listeners) beyond the
    10 reserved for them do not count against the sessions' budget (after the
    fix; before it a worker with more than 10 of them and a small
    [max_connections] was at capacity with no session at all) *)
Definition at_capacity (s : sm) : bool :=
  if slab s <? 10 + 2 * max s then false
  else 10 + 2 * max s + (base s - 10) <=? slab s.

Definition set_accept (s : sm) (b : bool) : sm :=
  mkSM (max s) (nb s) b (slab s) (base s) (limit s) (fwd s) (rev s).
Definition set_nb (s : sm) (n : N) : sm :=
  mkSM (max s) n (can_accept s) (slab s) (base s) (limit s) (fwd s) (rev s).
Definition set_slab (s : sm) (n : N) : sm :=
  mkSM (max s) (nb s) (can_accept s) n (base s) (limit s) (fwd s) (rev s).
Definition set_base (s : sm) (n : N) : sm :=
  mkSM (max s) (nb s) (can_accept s) (slab s) n (limit s) (fwd s) (rev s).
Definition set_limit (s : sm) (n : N) : sm :=
  mkSM (max s) (nb s) (can_accept s) (slab s) (base s) n (fwd s) (rev s).

(** [check_limits] *)
Definition check_limits (s : sm) : sm * bool :=
  if max s <=? nb s then (set_accept s false, false)
  else if at_capacity s then (set_accept s false, false)
  else (s, true).

(** [incr] (its [assert!(nb <= max)] is a panic: [None]) *)
Definition incr (s : sm) : option sm :=
  if nb s + 1 <=? max s then Some (set_nb s (nb s + 1)) else None.

(** the re-enable threshold of [decr]: [(max * 90 / 100).max(1)] *)
Definition resume_threshold (mx : N) : N := N.max (mx * 90 / 100) 1.

(** [decr] ([assert!(nb != 0)]: [None]) *)
Definition decr (s : sm) : option sm :=
  if nb s =? 0 then None
  else
    let s1 := set_nb s (nb s - 1) in
    Some (if negb (can_accept s1) && (nb s1 <? resume_threshold (max s1)) then set_accept s1 true else s1).

(* ------------------------------------------------------------------ *)
(** * The driver's operations (call-site disciplines) *)

Record state := mkSt { st_sm : sm; live : list N; filler : N; backs : N; panicked : bool }.

Inductive op :=
| ONew (mx lim : N)
| OAccept (tok : N)
| OClose (tok : N)
| OTrack (tok : N) (k : key) (ov : option N)
| OSetLimit (n : N)
| OFill (n : N)
| OUnfill (n : N)
| OBackfill (n : N)
| OUnbackfill (n : N)
| OCheck.

Definition lmem (t : N) (l : list N) : bool := existsb (N.eqb t) l.
Definition lremove (t : N) (l : list N) : list N := filter (fun x => negb (x =? t)) l.

(** accept path: [Server::ready] only accepts while [can_accept];
    [create_sessions]: [check_limits], create the session (one slab entry), [incr] *)
Definition accept (st : state) (tok : N) : state :=
  let s := st_sm st in
  if lmem tok (live st) then st
  else if negb (can_accept s) then st
  else
    let '(s1, ok) := check_limits s in
    if ok then
      match incr (set_slab s1 (slab s1 + 1)) with
      | Some s2 => mkSt s2 (live st ++ [tok]) (filler st) (backs st) (panicked st)
      | None => mkSt s1 (live st) (filler st) (backs st) true
      end
    else mkSt s1 (live st) (filler st) (backs st) (panicked st).

(** teardown: slab remove, [close()] -> [untrack_all_cluster_ip], [decr] *)
Definition close (st : state) (tok : N) : state :=
  let s := st_sm st in
  if lmem tok (live st) then
    match decr (untrack_all (set_slab s (slab s - 1)) tok) with
    | Some s2 => mkSt s2 (lremove tok (live st)) (filler st) (backs st) (panicked st)
    | None => mkSt s (live st) (filler st) (backs st) true
    end
  else st.

(** the per-IP gate of [Router::connect]: refuse at the limit, else track *)
Definition gate_track (st : state) (tok : N) (k : key) (ov : option N) : state :=
  let s := st_sm st in
  if negb (lmem tok (live st)) then st
  else if at_limit s tok k ov then st
  else mkSt (track s tok k) (live st) (filler st) (backs st) (panicked st).

(** the [SetMaxConnectionsPerIp] handler *)
Definition set_limit_op (st : state) (n : N) : state :=
  let s := set_limit (st_sm st) n in
  mkSt (if n =? 0 then clear_tracking s else s) (live st) (filler st) (backs st) (panicked st).

Definition apply_op (st : state) (o : op) : state :=
  match o with
  | ONew mx lim => mkSt (sm_new mx lim) [] 0 0 false
  | OAccept t => accept st t
  | OClose t => close st t
  | OTrack t k ov => gate_track st t k ov
  | OSetLimit n => set_limit_op st n
  | OFill n =>
    (* n more entries that are not sessions (listeners, channel, ...) *)
    let s := st_sm st in
    mkSt (set_base (set_slab s (slab s + n)) (base s + n)) (live st) (filler st + n) (backs st) (panicked st)
  | OUnfill n =>
    let k := N.min n (filler st) in
    let s := st_sm st in
    mkSt (set_base (set_slab s (slab s - k)) (base s - k)) (live st) (filler st - k) (backs st) (panicked st)
  | OBackfill n =>
    (* n more session-side entries (the backend tokens of live sessions) *)
    mkSt (set_slab (st_sm st) (slab (st_sm st) + n)) (live st) (filler st) (backs st + n) (panicked st)
  | OUnbackfill n =>
    let k := N.min n (backs st) in
    mkSt (set_slab (st_sm st) (slab (st_sm st) - k)) (live st) (filler st) (backs st - k) (panicked st)
  | OCheck => mkSt (fst (check_limits (st_sm st))) (live st) (filler st) (backs st) (panicked st)
  end.

Definition init : state := mkSt (sm_new 0 0) [] 0 0 false.
Definition run_ops (st : state) (ops : list op) : state := fold_left apply_op ops st.

(* ------------------------------------------------------------------ *)
(** * Buffer pool accounting ([lib/src/pool.rs] over [poule::Pool]) *)

Record pool := mkPool { p_used : N; p_cap : N; p_max : N; p_held : list N }.

(** [Pool::with_capacity(minimum, maximum, _)] *)
Definition pool_new (mn mx : N) : pool := mkPool 0 (N.min mn mx) mx [].

(** [Pool::checkout]: doubles the capacity (at least 1, up to the maximum) when full, then
    hands out a buffer iff one is free; [id] names the checkout the caller keeps *)
Definition pool_checkout (p : pool) (id : N) : pool * bool :=
  if lmem id (p_held p) then (p, false)
  else
    let cap := if (p_used p =? p_cap p) && (p_cap p <? p_max p)
               then N.max (p_cap p) (N.min (N.max (p_cap p * 2) 1) (p_max p)) else p_cap p in
    if p_used p <? cap then (mkPool (p_used p + 1) cap (p_max p) (p_held p ++ [id]), true)
    else (mkPool (p_used p) cap (p_max p) (p_held p), false).

(** dropping a [Checkout] returns the buffer *)
Definition pool_checkin (p : pool) (id : N) : pool :=
  if lmem id (p_held p) then mkPool (p_used p - 1) (p_cap p) (p_max p) (lremove id (p_held p)) else p.

Inductive pop := PCheckout (id : N) | PCheckin (id : N).
Definition pool_step (p : pool) (o : pop) : pool :=
  match o with PCheckout id => fst (pool_checkout p id) | PCheckin id => pool_checkin p id end.
