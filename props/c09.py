"""C09 — the main process's verdict to a client matches what the workers did."""
import json, os, re
import rustmini
import vlib
from vlib import Case

ID = "C09"
COQ_DIRS = ["Common", "C09"]
COQ_TARGETS = ["C09/Props.vo", "C09/Run.vo"]
PROPS_MODULES = ["C09.Props"]
RUN_MODULE = "C09.Run"
RUN_FN = "run_case"
HARNESS_BIN = "c09"
HARNESS_BINS = ["c09"]
SHRINK_KEEP = ("hub", "hub2", "end")
RULE = ("cases: the real CommandHub runs in a thread with 0-3 fake workers registered over socketpairs and 1-3 scripted "
        "clients on the command socket; a case is a script of client requests (worker verbs accepted/refused by the "
        "state, queries, status, metrics, local verbs, unserved verbs, load-state of n requests, hard/soft stop), worker "
        "behaviours (ok, failure, processing, undecodable status, duplicate, late, answer with another worker's id, unknown "
        "id, silence, channel close), client disconnects and real-time sleeps on either side of the worker timeout; every "
        "step is followed by a double ListWorkers barrier so its observation is deterministic. Non-trivial and distinct: "
        ">=1 scattered request, >=2 worker events of which at least one is a fault (failure, duplicate, late, foreign id, "
        "close or silence past the timeout), and a final verdict observed; distinct by op text.")
ASSUMPTIONS = [
    "a worker request id '{verb}-{worker}-{task}-{index}' is injective in (worker, task, index): the three numbers are recovered from the right; the model uses the triple",
    "one scripted step = one batch of the run loop followed by a loop top; the double barrier makes the real loop reach that point (mio delivers a socket's readiness no later than the readiness of a socket written afterwards)",
    "time: the model's clock advances only by explicit ticks; the driver checks with its own clock that real time is on the same side of every pending deadline and re-runs the case otherwise",
    "ConfigState::dispatch, the state-file parser and the audit trail are outside the model: a verb is 'accepted' or 'rejected' as data of the case (checked against the real dispatch by the correspondence run)",
    "process management (fork/exec of workers, upgrade of the main process or of a worker, automatic restart) is excluded; workers are socket peers",
]
TRUSTED = [
    "translator props/c09.py:translate extracts from bin/src/command/{server,requests}.rs: the argument of on_finish in handle_finishing_task, the two flags and comparisons of the run loop, has_finished, the on_message arms, the in-flight retire/purge, the scatter filter, the verdict tables of WorkerTask/LoadStateTask/StopTask (their if/else/return skeleton is run for every combination of no-error/some-error, timed_out, hardness), the Timeout of every scatter, the answers to unserved verbs. Private functions are found through their call sites and locals may have any name; a construct it cannot read is reported `unreadable:`, the corresponding piece of Gen.v then comes from the committed snapshot props/c09_facts.json and the run falls back on the correspondence (TRANSLATE_FALLBACK); the two in-flight purges and the hand-over layout are not covered by that fallback and stay hard failures",
]
LEVEL_TEXT = ("Machine-checked proof (Coq 8.16) over an executable model of the main process' scatter/gather loop whose decision "
              "tables are regenerated from bin/src/command/{server,requests}.rs on every run; the model is tied to the real "
              "CommandHub by a differential correspondence run (hub thread + fake workers + scripted clients, deterministic "
              "barriers) with the property's own oracle evaluated on the implementation.")
LEVEL_NOTE = ("Trusted: Coq kernel; extraction and ocaml/driver.ml for the correspondence only; the translator (props/c09.py) and, when it reports `unreadable:`, the snapshot props/c09_facts.json; the "
              "barrier argument for determinism. Outside the model: ConfigState::dispatch (accepted/rejected is case data), audit "
              "emission, event subscription fan-out, fork/exec and upgrade of processes, the Channel (C11). ok_is_sound covers the "
              "tasks whose OK claims application (worker verbs, load-state, soft/hard stop). Query, metrics and status tasks answer OK "
              "with whatever was gathered: by design for status (the per-worker run state is the content of the answer); for "
              "query/metrics the content lists only the workers that answered and the status stays OK — kept as an open finding, not "
              "changed (a CLI-visible semantic decision). Deadlines (theorem deadline_coverage, driven by the silent_<verb> cases): worker verbs, query/status/metrics, hard "
              "stop and load-state have the worker timeout; the soft stop has none by design (sessions may take arbitrarily long to "
              "drain) and waits without bound for a worker that is alive but silent — open finding no-deadline-softstop; the "
              "static-configuration reload has none either (not driven: it needs a full configuration file). A worker whose channel "
              "closes is counted as failed at once, deadline or not. A response that arrives in the same loop batch as the request "
              "that scattered it would be dropped (the task is still in queued_tasks): impossible for a real worker, the request is "
              "only flushed to it one loop iteration later; a client that pipelines two requests in one read has all but the last dropped "
              "(responses carry no id, the protocol is one request at a time). Hot upgrade of the main process: the fork/exec itself is "
              "not run; what is tied is the rest of UpgradeData (JSON round trip through the real serde types: fds, config, state, id "
              "counters, workers, boot generation) and CommandHub::from_upgrade_data (the hub2 cases run every scenario against a hub "
              "re-created that way; stopped workers are not taken over). Read, not run: UpgradeData carries no task, in-flight id, client "
              "or event subscription, so a request pending at upgrade time is dropped (theorem upgrade_drops_pending, open finding "
              "upgrade-drops-pending); upgrade_main goes on after a failed disable_cloexec_before_upgrade (finish_failure without return: "
              "a second final answer would follow).")
TECHNIQUE = "Rocq/Coq proof over an executable Gallina model + source translator (decision tables) + differential correspondence (extracted OCaml vs real CommandHub)"
CLAIMED = True

SERVER = "bin/src/command/server.rs"
REQUESTS = "bin/src/command/requests.rs"


# ---------------------------------------------------------------------------
# translator (T-table): decision tables of the scatter/gather loop -> coq/C09/Gen.v
#
# The reader looks for what the code does, not for how it is spelled: comments and string contents are dropped,
# functions are found by brace matching (any signature layout), locals and parameters may have any name, private
# helpers are found through their call sites (the function called from the CloseSession arm, the function the run
# loop hands a finished task to, ...), comparisons may be written either way round, and the verdict of every
# on_finish is computed by *executing* its if/else/return skeleton for every combination of (errors = 0 | > 0,
# timed_out, hardness) instead of matching its text.
#
# A construct that is not recognised is reported `unreadable: ...`; the piece of Gen.v it feeds is then generated
# from the committed snapshot props/c09_facts.json (`python3 props/c09.py --snapshot` rewrites it; ./check never
# does) and ./check falls back on the driver/model correspondence (TRANSLATE_FALLBACK).  A construct that IS
# recognised and carries another value goes into Gen.v as read, and the gen_* lemmas of C09/Proofs.v fail.
# The two facts no driver observation depends on (the in-flight purges) and the layout of UpgradeData are reported
# without the `unreadable:` prefix: they stay hard failures.

FACTS = os.path.join(os.path.dirname(os.path.abspath(__file__)), "c09_facts.json")
W = r"[A-Za-z_]\w*"

TRANSLATE_FALLBACK = (
    "the only facts ever reported `unreadable:` are the verdict tables of WorkerTask / LoadStateTask / StopTask::on_finish, "
    "and only when a finish_* call or a return sits inside a construct the skeleton interpreter does not execute (a match, a "
    "closure, an `if let`); a recognised skeleton giving another table, or 0 / 2 final answers on some path, is a hard failure. "
    "Every final status the real CommandHub sends is compared with the model's case by case, and the generator drives each of "
    "the three task kinds with failing, silent (past the worker timeout) and closed workers, so another verdict for any "
    "combination of (some error, timed out, hardness) is a violation of the correspondence: harmless/C09_mine_unreadable_changed, "
    "C09_mine_unreadable_load_changed and C09_mine_unreadable_stop_changed are such changes in an unreadable spelling and exit 1. Everything else the translator "
    "reads (flags, comparisons, arms, retire, purges, scatter, ids, timeouts, unserved verbs, hand-over) is a hard failure "
    "when it is not recognised")


CMP_NAT = {">=": "Nat.leb {b} ({a})", ">": "Nat.ltb {b} ({a})", "==": "Nat.eqb ({a}) {b}",
           "<=": "Nat.leb ({a}) {b}", "<": "Nat.ltb ({a}) {b}", "!=": "negb (Nat.eqb ({a}) {b})"}
CMP_N = {"<": "N.ltb {a} {b}", "<=": "N.leb {a} {b}", ">": "N.ltb {b} {a}", ">=": "N.leb {b} {a}"}


class Unreadable(Exception):
    """the construct could not be found / parsed at all"""


class Differs(Exception):
    """the construct was found and does not say what the model says: always a hard failure"""


def drop_macros(src, name_re=r"debug_assert\w*"):
    """remove every `<name>!( ... )` (the assertions restate what the code does; they are not the code)"""
    out, i = [], 0
    for m in re.finditer(r"\b(?:%s)!\s*\(" % name_re, src):
        if m.start() < i:
            continue
        out.append(src[i:m.start()])
        i = rustmini.match_brace(src, m.end() - 1, "(", ")") + 1
    out.append(src[i:])
    return "".join(out)


def rs(path):
    return drop_macros(rustmini.strip(open(os.path.join(vlib.REPO, path)).read()))


def fn_at(src, name_re, what=None):
    """-> (params text, body text) of the first `fn <name_re>`; any generics / layout / return type"""
    m = re.search(r"\bfn\s+(?:%s)\b" % name_re, src)
    if not m:
        raise Unreadable("%s: function not found" % (what or name_re))
    i = src.find("(", m.end())
    try:
        j = rustmini.match_brace(src, i, "(", ")")
        k = j
        depth = 0
        while k < len(src):
            c = src[k]
            if c in "([":
                depth += 1
            elif c in ")]":
                depth -= 1
            elif c == "{" and depth <= 0:
                break
            elif c == ";" and depth <= 0:
                raise Unreadable("%s: no body" % (what or name_re))
            k += 1
        e = rustmini.match_brace(src, k)
    except rustmini.Unrecognised as ex:
        raise Unreadable("%s: %s" % (what or name_re, ex))
    return src[i + 1:j], src[k + 1:e]


def params(ptext):
    """[(name, type)] of a parameter list (self receivers are skipped)"""
    out, depth, cur = [], 0, ""
    for c in ptext + ",":
        if c in "(<[":
            depth += 1
        elif c in ")>]":
            depth -= 1
        if c == "," and depth == 0:
            cur = " ".join(cur.split())
            if cur and not re.match(r"(&\s*(mut\s+)?)?self\b|mut\s+self\b", cur):
                m = re.match(r"(?:mut\s+)?(%s)\s*:\s*(.*)$" % W, cur)
                if m:
                    out.append((m.group(1), m.group(2)))
            cur = ""
        else:
            cur += c
    return out


def block_at(src, start_re, what):
    """inside of the `{...}` that follows the first match of start_re"""
    m = re.search(start_re, src)
    if not m:
        raise Unreadable("%s: not found" % what)
    i = src.find("{", m.end() - 1)
    if i < 0:
        raise Unreadable("%s: no block" % what)
    try:
        return src[i + 1:rustmini.match_brace(src, i)]
    except rustmini.Unrecognised as ex:
        raise Unreadable("%s: %s" % (what, ex))


def arms_of(body, scrutinee_re, what):
    """arms [(pattern, body)] of the first `match <scrutinee_re> {`"""
    inner = block_at(body, r"\bmatch\s+" + scrutinee_re + r"\s*\{", what)
    try:
        return rustmini.match_arms(inner)
    except rustmini.Unrecognised as ex:
        raise Unreadable("%s: %s" % (what, ex))


def squash(s):
    return re.sub(r"\s+", "", s)


# --- a tiny evaluator for the conditions of the verdicts -------------------------------------------------------

def eval_cond(expr, env):
    """value of a boolean expression over env (names -> bool | int); Unreadable if anything else occurs in it"""
    toks = re.findall(r"\|\||&&|>=|<=|==|!=|>|<|!|\(|\)|\d+|[A-Za-z_][\w.]*", expr)
    if "".join(toks) != squash(expr):
        raise Unreadable("condition `%s` is outside the vocabulary (names, numbers, comparisons, ! && || ( ))" % " ".join(expr.split()))
    pos = [0]

    def peek():
        return toks[pos[0]] if pos[0] < len(toks) else None

    def eat():
        pos[0] += 1
        return toks[pos[0] - 1]

    def p_or():
        a = p_and()
        while peek() == "||":
            eat()
            b = p_and()
            a = bool(a) or bool(b)
        return a

    def p_and():
        a = p_cmp()
        while peek() == "&&":
            eat()
            b = p_cmp()
            a = bool(a) and bool(b)
        return a

    def p_cmp():
        a = p_un()
        if peek() in (">=", "<=", "==", "!=", ">", "<"):
            op = eat()
            b = p_un()
            if isinstance(a, bool) != isinstance(b, bool):
                raise Unreadable("condition `%s` compares a flag with a number" % expr)
            return {">=": a >= b, "<=": a <= b, "==": a == b, "!=": a != b, ">": a > b, "<": a < b}[op]
        return a

    def p_un():
        t = peek()
        if t is None:
            raise Unreadable("condition `%s` ends early" % expr)
        eat()
        if t == "!":
            return not p_un()
        if t == "(":
            v = p_or()
            if peek() != ")":
                raise Unreadable("condition `%s`: unbalanced" % expr)
            eat()
            return v
        if t.isdigit():
            return int(t)
        if t == "true":
            return True
        if t == "false":
            return False
        if t in env:
            return env[t]
        raise Unreadable("condition `%s` depends on `%s`, which is not one of %s" % (" ".join(expr.split()), t, sorted(env)))

    v = p_or()
    if pos[0] != len(toks):
        raise Unreadable("condition `%s`: trailing tokens" % expr)
    return v


FINISH = re.compile(r"\.\s*(finish_ok_with_content|finish_ok|finish_failure)\s*\(")
HAS_EFFECT = re.compile(r"\bfinish_\w+\s*\(|\breturn\b")


def exec_block(text, env, out):
    """Run the if / else / return / let skeleton of a block under `env`; the finish_* calls met are appended to
    `out`.  -> True when the block returned.  Anything that may hide a finish_* call or a return and is not part of
    the skeleton (a match, a closure, an `if let`) is Unreadable; everything else is skipped."""
    scan = re.compile(r"\bif\b|\breturn\b|\blet\s+(?:mut\s+)?(%s)\s*(?::[^=;]*)?=(?!=)|\blet\s+DefaultGatherer\s*\{([^}]*)\}\s*=\s*self\s*\.\s*gatherer\s*;|" % W
                      + FINISH.pattern + r"|[({\[]")
    i = 0
    while True:
        m = scan.search(text, i)
        if not m:
            return False
        t = m.group(0)
        if t in "({[":
            close = {"(": ")", "{": "}", "[": "]"}[t]
            try:
                j = rustmini.match_brace(text, m.start(), t, close)
            except rustmini.Unrecognised as ex:
                raise Unreadable(str(ex))
            if HAS_EFFECT.search(text[m.start():j]):
                raise Unreadable("a finish_*/return sits inside a construct that is not an if/else chain: `%s...`"
                                 % " ".join(text[max(0, m.start() - 40):m.start() + 40].split()))
            i = j + 1
        elif t == "return":
            j = text.find(";", m.end())
            j = len(text) if j < 0 else j
            for f in FINISH.finditer(text[m.end():j]):
                out.append(f.group(1))
            return True
        elif t == "if":
            i = exec_if(text, m.start(), env, out)
            if i is None:
                return True
        elif m.group(2) is not None:                       # let DefaultGatherer { ok, errors: e, .. } = self.gatherer;
            for field in m.group(2).split(","):
                field = field.strip()
                fm = re.fullmatch(r"(%s)(?:\s*:\s*(%s))?" % (W, W), field)
                if fm and ("self.gatherer." + fm.group(1)) in env:
                    env[fm.group(2) or fm.group(1)] = env["self.gatherer." + fm.group(1)]
            i = m.end()
        elif m.group(1) is not None:                       # let name = expr;
            depth, j = 0, m.end()
            while j < len(text) and not (text[j] == ";" and depth == 0):
                depth += text[j] in "({["
                depth -= text[j] in ")}]"
                j += 1
            expr = text[m.end():j]
            try:
                env[m.group(1)] = eval_cond(expr, env)
            except Unreadable:
                env.pop(m.group(1), None)
                if HAS_EFFECT.search(expr):
                    raise Unreadable("a finish_*/return sits inside the initialiser of `%s`" % m.group(1))
            i = j + 1
        else:                                              # a finish_* call
            out.append(m.group(3))
            j = rustmini.match_brace(text, m.end() - 1, "(", ")")
            i = j + 1


def _cond_end(text, i):
    """text[i:] starts with `if`; -> index of the `{` that opens its block"""
    depth, k = 0, i + 2
    while k < len(text) and not (text[k] == "{" and depth == 0):
        depth += text[k] in "(["
        depth -= text[k] in ")]"
        k += 1
    if k >= len(text):
        raise Unreadable("an `if` without a block")
    return k


def exec_if(text, start, env, out):
    """text[start:] is an `if` chain; runs the branch taken.  -> index after the chain, or None if it returned"""
    blocks = []                                            # [(condition text | None for else, block text)]
    p = start
    while True:
        k = _cond_end(text, p)
        e = rustmini.match_brace(text, k)
        blocks.append((text[p + 2:k], text[k + 1:e]))
        end = e + 1
        m = re.match(r"\s*else\b\s*", text[end:])
        if not m:
            break
        p = end + m.end()
        if re.match(r"if\b", text[p:]):
            continue
        e = rustmini.match_brace(text, p)
        blocks.append((None, text[p + 1:e]))
        end = e + 1
        break
    effectful = any(HAS_EFFECT.search(b) for _, b in blocks)
    for cond, block in blocks:
        if cond is None:
            v = True
        else:
            try:
                if re.match(r"\s*let\b", cond):
                    raise Unreadable("`if %s ...` guards a finish_*/return" % " ".join(cond.split())[:40])
                v = eval_cond(cond, env)
            except Unreadable:
                if effectful:
                    raise
                return end                                 # a chain without any effect: skipped altogether
        if v:
            return None if exec_block(block, env, out) else end
    return end


def verdict_table(body, env_base, combos, what):
    """{combo: tuple of finish_* calls} of an on_finish body"""
    table = {}
    for combo in combos:
        env = dict(env_base)
        env.update(combo)
        out = []
        try:
            exec_block(body, env, out)
        except rustmini.Unrecognised as ex:
            raise Unreadable("%s: %s" % (what, ex))
        except Unreadable as ex:
            raise Unreadable("%s: %s" % (what, ex))
        table[tuple(sorted(combo.items()))] = tuple(out)
    return table


def on_finish_of(rq, task, what):
    """-> (body of `impl GatheringTask for <task>`::on_finish, name of its timed_out parameter)"""
    impl = block_at(rq, r"\bimpl\s+GatheringTask\s+for\s+%s\s*\{" % task, "impl GatheringTask for %s" % task)
    ptext, body = fn_at(impl, "on_finish", what)
    ps = params(ptext)
    flags = [n for n, ty in ps if ty == "bool"]
    if len(flags) != 1:
        raise Unreadable("%s: expected one bool parameter (timed_out)" % what)
    return body, flags[0]


# --- the facts ---------------------------------------------------------------------------------------------------

def read_facts(fails):
    """-> {fact name: Coq text of the definition body, or None when the construct could not be read}"""
    facts = {}
    srv = rs(SERVER)
    rq = rs(REQUESTS)
    up = rs("bin/src/command/upgrade.rs")
    raw_srv = open(os.path.join(vlib.REPO, SERVER)).read()

    def soft(names, fn):
        """run a reader; what it cannot read is reported `unreadable:` and left to the snapshot"""
        try:
            got = fn()
        except Differs as ex:
            fails.append(str(ex))
            got = {}
        except Unreadable as ex:
            fails.append("unreadable: %s" % ex)
            got = {}
        except rustmini.Unrecognised as ex:
            fails.append("unreadable: %s: %s" % ("/".join(names) or "source", ex))
            got = {}
        for n in names:
            facts[n] = got.get(n)

    def hard(names, fn):
        try:
            got = fn()
        except (Unreadable, Differs, rustmini.Unrecognised) as ex:
            fails.append("%s (not one of the pins the translator fallback covers)" % ex)
            got = {}
        for n in names:
            facts[n] = got.get(n)

    def B(b):
        return "true" if b else "false"

    # the body of CommandHub::run and, found through it, the private functions it hands work to
    try:
        _, run = fn_at(srv, "run", "CommandHub::run")
        if "has_finished" not in run:
            raise Unreadable("CommandHub::run: the task filter (has_finished) is not in the first `fn run`")
    except Unreadable as ex:
        fails.append(str(ex))
        run = ""
    calls = re.findall(r"self\s*\.\s*(%s)\s*\(\s*(%s)\s*,\s*(%s)\s*,\s*(true|false)\s*\)" % (W, W, W), run)
    finisher = calls[0][0] if len(calls) == 2 and calls[0][0] == calls[1][0] else None

    # 1. the function the run loop hands a finished task to: what it passes on_finish; the in-flight purge
    def finishing():
        if not finisher:
            raise Unreadable("CommandHub::run: expected exactly two calls `self.<f>(task_id, task, true|false)` of one private function")
        ptext, body = fn_at(srv, re.escape(finisher), finisher)
        ps = params(ptext)
        flags = [n for n, ty in ps if ty == "bool"]
        ids = [n for n, ty in ps if ty == "TaskId"]
        if len(flags) != 1 or len(ids) != 1:
            raise Unreadable("%s: expected one TaskId and one bool parameter" % finisher)
        m = re.findall(r"\.\s*on_finish\s*\(", body)
        if len(m) != 1:
            raise Unreadable("%s: expected exactly one on_finish call" % finisher)
        i = body.index("(", re.search(r"\.\s*on_finish\s*\(", body).start())
        args = body[i + 1:rustmini.match_brace(body, i, "(", ")")]
        last = args.rstrip().rstrip(",").rsplit(",", 1)[-1].strip()
        vals = {}
        for t in (False, True):
            env = {flags[0]: t}
            pre = body[:i]
            for lm in re.finditer(r"\blet\s+(%s)\s*=\s*([^;{}]*);" % W, pre):
                try:
                    env[lm.group(1)] = eval_cond(lm.group(2), env)
                except Unreadable:
                    pass
            vals[t] = eval_cond(last, env)
        if not isinstance(vals[True], bool) or not isinstance(vals[False], bool):
            raise Unreadable("%s: the flag handed to on_finish is not a boolean" % finisher)
        flag = {(False, True): "timed_out", (True, False): "negb timed_out", (True, True): "true", (False, False): "false"}[(vals[False], vals[True])]
        return {"on_finish_flag": flag, "_finisher_body": body, "_finisher_id": ids[0]}
    hard(["on_finish_flag", "_finisher_body", "_finisher_id"], finishing)

    def purge_in(body, idname, what):
        """does `body` drop from in_flight every request id of task `idname`?"""
        if body is None:
            raise Unreadable("%s: body not found" % what)
        for m in re.finditer(r"in_flight\s*\.\s*retain\s*\(\s*\|\s*_\w*\s*,\s*(?:&\s*)?(%s)\s*\|" % W, body):
            i = body.index("(", m.start())
            clo = squash(body[m.end():rustmini.match_brace(body, i, "(", ")")])
            v = re.escape(m.group(1))
            t = re.escape(idname)
            if re.fullmatch(r"\{?(\*?%s!=&?%s|&?%s!=\*?%s|!\(\*?%s==&?%s\))\}?" % (v, t, t, v, v, t), clo):
                return True
            raise Unreadable("%s: the in_flight.retain closure `%s` is not `<entry's task> != %s`" % (what, clo, idname))
        if re.search(r"\bin_flight\b", body):
            raise Unreadable("%s: in_flight is touched, but not by a recognised retain" % what)
        return False
    hard(["purge_on_finish"], lambda: {"purge_on_finish": B(purge_in(facts.get("_finisher_body"), facts.get("_finisher_id") or "task_id", finisher or "the finishing function"))})

    # 2. the run loop: order, flags and comparison of the two finishing tests
    def loop():
        if not finisher:
            raise Unreadable("CommandHub::run: the finishing calls are not recognised")
        f = re.escape(finisher)
        call = r"self\s*\.\s*%s\s*\(\s*%s\s*,\s*%s\s*,\s*(true|false)\s*\)\s*;\s*return\s+None\s*;" % (f, W, W)
        m1 = re.search(r"\bif\s+[\w.\s()]*?\.\s*has_finished\s*\(\s*\)\s*\{\s*" + call, run)
        nowm = re.search(r"\blet\s+(%s)\s*=\s*Instant::now\s*\(\s*\)\s*;" % W, run)
        if not m1 or not nowm:
            raise Unreadable("CommandHub::run: the has_finished test of the task filter is not recognised")
        now = nowm.group(1)
        m2 = re.search(r"\bif\s+let\s+Some\s*\(\s*(%s)\s*\)\s*=\s*%s\s*\.\s*timeout\s*(?:\{\s*if|&&)\s*(%s)\s*(<=|>=|<|>)\s*(%s)\s*\{\s*" % (W, W, W, W) + call, run)
        if not m2:
            m2g = re.search(r"\bSome\s*\(\s*(%s)\s*\)\s+if\s+(%s)\s*(<=|>=|<|>)\s*(%s)\s*=>\s*\{\s*" % (W, W, W) + call, run)
            if not m2g:
                raise Unreadable("CommandHub::run: the deadline test of the task filter is not recognised")
            m2 = m2g
        dl, a, op, b, flag2 = m2.groups()
        if (a, b) == (dl, now):
            pass
        elif (a, b) == (now, dl):
            op = {"<": ">", ">": "<", "<=": ">=", ">=": "<="}[op]
        else:
            raise Unreadable("CommandHub::run: the deadline test does not compare the task's deadline with `%s`" % now)
        return {"flag_when_finished": m1.group(1), "flag_when_expired": flag2,
                "finished_checked_first": B(m1.start() < m2.start()),
                "expired": CMP_N[op].format(a="deadline", b="now")}
    hard(["flag_when_finished", "flag_when_expired", "finished_checked_first", "expired"], loop)

    # 2b. the next wake-up of the loop when no socket event happens: the earliest pending deadline
    def wake():
        nowm = re.search(r"\blet\s+(%s)\s*=\s*Instant::now\s*\(\s*\)\s*;" % W, run)
        m = re.search(r"\blet\s+(%s)\s*=\s*self\s*\.\s*tasks\s*\.\s*values\s*\(\s*\)\s*\.\s*filter_map\s*\(\s*\|\s*(%s)\s*\|\s*\2\s*\.\s*timeout\s*\)\s*\.\s*(min|max)\s*\(\s*\)\s*;" % (W, W), run)
        if not m or not nowm:
            if re.search(r"\.map\(\|(\w+)\|\1\.timeout\)\.(?:min|max)\(\)", squash(run)):
                raise Differs("CommandHub::run: the poll timeout is the min/max of OPTIONAL deadlines: one task without deadline (soft stop, reload) removes or distorts the wake-up of every other task")
            raise Unreadable("CommandHub::run: the computation of the poll timeout from the pending deadlines is not recognised")
        if not re.search(r"\blet\s+(?:mut\s+)?%s\s*=\s*%s\s*\.\s*map\s*\(\s*\|\s*(%s)\s*\|\s*\1\s*\.\s*saturating_duration_since\s*\(\s*%s\s*\)\s*\)\s*;" % (W, re.escape(m.group(1)), W, re.escape(nowm.group(1))), run):
            raise Unreadable("CommandHub::run: the poll timeout is no longer `<next deadline> - now`")
        return {"wake_is_earliest": B(m.group(3) == "min")}
    hard(["wake_is_earliest"], wake)

    # 3. DefaultGatherer: has_finished and the on_message arms
    try:
        dg = block_at(srv, r"\bimpl\s+Gatherer\s+for\s+DefaultGatherer\s*\{", "impl Gatherer for DefaultGatherer")
    except Unreadable as ex:
        fails.append(str(ex))
        dg = ""

    def has_finished():
        _, body = fn_at(dg, "has_finished", "DefaultGatherer::has_finished")
        e = squash(body).replace("returnself", "self").rstrip(";")
        m = re.fullmatch(r"(.+?)(>=|<=|==|!=|>|<)(.+)", e)
        if not m:
            raise Unreadable("DefaultGatherer::has_finished: not a comparison (`%s`)" % e)
        l, op, r = m.groups()
        tally = ("self.ok+self.errors", "self.errors+self.ok")
        if l in tally and r == "self.expected_responses":
            pass
        elif r in tally and l == "self.expected_responses":
            op = {"<": ">", ">": "<", "<=": ">=", ">=": "<=", "==": "==", "!=": "!="}[op]
        else:
            raise Unreadable("DefaultGatherer::has_finished: not `ok + errors <cmp> expected_responses` (`%s`)" % e)
        return {"has_finished": CMP_NAT[op].format(a="ok + errors", b="expected")}
    hard(["has_finished"], has_finished)

    def inc_expected():
        ptext, body = fn_at(dg, "inc_expected_responses", "DefaultGatherer::inc_expected_responses")
        ps = params(ptext)
        if len(ps) != 1 or not re.search(r"self\s*\.\s*expected_responses\s*\+=\s*%s\s*;" % re.escape(ps[0][0]), body):
            raise Unreadable("DefaultGatherer::inc_expected_responses: not `self.expected_responses += <count>`")
        return {}
    hard([], inc_expected)

    def status_of(pat):
        """the statuses a match pattern on ResponseStatus::try_from(..) covers"""
        if re.fullmatch(r"Err\s*\(\s*\w+\s*\)", pat):
            return ["SInvalid"]
        names = re.findall(r"ResponseStatus::(\w+)", pat)
        if not names or not re.fullmatch(r"[\sA-Za-z_:()|]*", pat) or "Ok" not in pat:
            return None
        return ["S" + n for n in names]

    def on_message():
        ptext, body = fn_at(dg, "on_message", "DefaultGatherer::on_message")
        msg = [n for n, ty in params(ptext) if ty == "WorkerResponse"]
        if len(msg) != 1:
            raise Unreadable("DefaultGatherer::on_message: expected one WorkerResponse parameter")
        arms = arms_of(body, r"ResponseStatus::try_from\s*\(\s*%s\s*\.\s*status\s*\)" % re.escape(msg[0]), "DefaultGatherer::on_message: the match on the response status")
        kinds = {}
        for pat, arm in arms:
            sts = status_of(pat) if pat != "_" else [s for s in ("SOk", "SFailure", "SProcessing", "SInvalid") if s not in kinds]
            if sts is None:
                raise Unreadable("DefaultGatherer::on_message: arm pattern `%s` not recognised" % pat)
            k = [k for k, p in (("IncOk", r"self\s*\.\s*ok\s*\+=\s*1\b"), ("IncErr", r"self\s*\.\s*errors\s*\+=\s*1\b"), ("Notice", r"\.\s*return_processing\s*\(")) if re.search(p, arm)]
            if len(k) > 1:
                raise Unreadable("DefaultGatherer::on_message: arm `%s` does several things" % pat)
            for s in sts:
                kinds.setdefault(s, k[0] if k else "Nothing")
        if sorted(kinds) != sorted(["SOk", "SFailure", "SProcessing", "SInvalid"]):
            raise Unreadable("DefaultGatherer::on_message: the arms do not cover Ok/Failure/Processing/undecodable (%s)" % sorted(kinds))
        return {"on_message_arm": "match st with SOk => %s | SProcessing => %s | SFailure => %s | SInvalid => %s end"
                                  % (kinds["SOk"], kinds["SProcessing"], kinds["SFailure"], kinds["SInvalid"])}
    hard(["on_message_arm"], on_message)

    # 4. the function the run loop hands every worker response to: a terminal response retires its request id
    hm = re.search(r"for\s+(%s)\s+in\s+%s\s*\{\s*self\s*\.\s*(%s)\s*\(\s*(%s)\s*,\s*\1\s*\)\s*;?\s*\}" % (W, W, W, W), run)
    responder = hm.group(2) if hm else None

    def retire():
        if not responder:
            raise Unreadable("CommandHub::run: the NewResponses arm (`for r in responses { self.<f>(worker_id, r) }`) is not recognised")
        ptext, body = fn_at(srv, re.escape(responder), responder)
        resp = [n for n, ty in params(ptext) if ty == "WorkerResponse"]
        if len(resp) != 1:
            raise Unreadable("%s: expected one WorkerResponse parameter" % responder)
        r = re.escape(resp[0])
        # the lookups: request id -> task id -> task
        lk = re.search(r"\blet\s+Some\s*\(\s*(%s)\s*\)\s*=\s*self\s*\.\s*in_flight\s*\.\s*get\s*\(\s*&\s*%s\s*\.\s*id\s*\)\s*\.\s*(?:copied|cloned)\s*\(\s*\)\s*else\s*\{" % (W, r), body) or \
            re.search(r"\blet\s+(%s)\s*=\s*match\s+self\s*\.\s*in_flight\s*\.\s*get\s*\(\s*&\s*%s\s*\.\s*id\s*\)" % (W, r), body)
        if not lk or not re.search(r"self\s*\.\s*tasks\s*\.\s*get_mut\s*\(\s*&\s*%s\s*\)" % re.escape(lk.group(1)), body):
            raise Unreadable("%s: the in_flight / tasks lookups are not recognised" % responder)
        if not re.search(r"\.\s*on_message\s*\(", body):
            raise Unreadable("%s: the response is no longer handed to the gatherer's on_message" % responder)
        retired = None
        m = re.search(r"\blet\s+(%s)\s*=\s*match\s+ResponseStatus::try_from\s*\(\s*%s\s*\.\s*status\s*\)\s*\{" % (W, r), body)
        if m:
            arms = rustmini.match_arms(body[m.end():rustmini.match_brace(body, m.end() - 1)])
            some = [status_of(p) for p, a in arms if re.fullmatch(r"Some\(%s\.id\.clone\(\)\)" % r, squash(a))]
            none = [p for p, a in arms if squash(a) == "None"]
            if len(some) + len(none) != len(arms) or any(s is None for s in some):
                raise Unreadable("%s: the arms of the retire decision are not recognised" % responder)
            v = re.escape(m.group(1))
            if not re.search(r"\bif\s+let\s+Some\s*\(\s*(%s)\s*\)\s*=\s*%s\s*\{\s*self\s*\.\s*(?:server\s*\.\s*)?in_flight\s*\.\s*remove\s*\(\s*&\s*\1\s*\)\s*;\s*\}" % (W, v), body):
                raise Unreadable("%s: the decision `%s` is computed but the removal from in_flight is not recognised" % (responder, m.group(1)))
            retired = set(s for ss in some for s in ss)
        else:
            m = re.search(r"\b(?:let\s+(%s)\s*=|if)\s*matches!\s*\(\s*ResponseStatus::try_from\s*\(\s*%s\s*\.\s*status\s*\)\s*,([^;{]*?)\)\s*[;{]" % (W, r), body)
            if m and re.search(r"in_flight\s*\.\s*remove\s*\(", body):
                sts = status_of(" ".join(m.group(2).split()))
                if sts is None:
                    raise Unreadable("%s: the statuses of the retire test are not recognised" % responder)
                retired = set(sts)
            elif re.search(r"in_flight\s*\.\s*remove\s*\(", body):
                raise Unreadable("%s: in_flight.remove is there but the retire decision is not recognised" % responder)
            else:
                retired = set()
        return {"retire_on_terminal": "match st with SOk => %s | SProcessing => %s | SFailure => %s | SInvalid => %s end"
                                      % tuple(B(s in retired) for s in ("SOk", "SProcessing", "SFailure", "SInvalid"))}
    hard(["retire_on_terminal"], retire)

    # 5. scatter_on: which workers are targeted, one in-flight id and one expected response each
    def scatter_on():
        ptext, so = fn_at(srv, "scatter_on", "Server::scatter_on")
        ps = params(ptext)
        tid = [n for n, ty in ps if ty == "TaskId"]
        tgt = [n for n, ty in ps if squash(ty) == "Option<WorkerId>"]
        idx = [n for n, ty in ps if ty == "usize"]
        if len(tid) != 1 or len(tgt) != 1 or len(idx) != 1:
            raise Unreadable("Server::scatter_on: parameters (task id, request index, target) not recognised")
        fm = re.search(r"\.\s*filter\s*\(\s*\|\s*(%s)\s*\|" % W, so)
        if not fm:
            raise Unreadable("Server::scatter_on: the worker filter is not recognised")
        i = so.index("(", fm.start())
        clo = squash(so[fm.end():rustmini.match_brace(so, i, "(", ")")]).strip("{}")
        w = re.escape(fm.group(1))
        t = re.escape(tgt[0])
        live = r"(?:%s\.run_state!=RunState::Stopped|!\(%s\.run_state==RunState::Stopped\))" % (w, w)
        if re.fullmatch(r"%s\.map\(\|(\w+)\|(?:\1==%s\.id|%s\.id==\1)&&%s\)\.unwrap_or\(%s\)" % (t, w, w, live, live), clo) or \
           re.fullmatch(r"%s&&%s\.(?:map\(\|(\w+)\|(?:\1==%s\.id|%s\.id==\1)\)\.unwrap_or\(true\)|is_none_or\(\|(\w+)\|(?:\2==%s\.id|%s\.id==\2)\))" % (live, t, w, w, w, w), clo):
            skips = True
        elif re.fullmatch(r"%s\.map\(\|(\w+)\|(?:\1==%s\.id|%s\.id==\1)\)\.unwrap_or\(true\)" % (t, w, w), clo):
            skips = False
        else:
            raise Unreadable("Server::scatter_on: the worker filter `%s` is not recognised" % clo)
        cm = re.search(r"\blet\s+mut\s+(%s)\s*=\s*0\s*;" % W, so)
        lm = re.search(r"\bfor\s+(%s)\s+in\b" % W, so)
        if not cm or not lm:
            raise Unreadable("Server::scatter_on: the counter / the loop over the workers are not recognised")
        cnt, wk = re.escape(cm.group(1)), re.escape(lm.group(1))
        if len(re.findall(r"\b%s\s*\+=\s*1\s*;" % cnt, so)) != 1:
            raise Unreadable("Server::scatter_on: `%s += 1` per targeted worker is not recognised" % cm.group(1))
        sm = re.search(r"\b%s\s*\.\s*send\s*\(\s*&\s*(%s)\s*\)\s*;\s*self\s*\.\s*in_flight\s*\.\s*insert\s*\(\s*\1\s*\.\s*id(?:\s*\.\s*clone\s*\(\s*\))?\s*,\s*%s\s*\)\s*;" % (wk, W, re.escape(tid[0])), so)
        if not sm:
            raise Unreadable("Server::scatter_on: `worker.send(&request); in_flight.insert(request.id, task_id)` is not recognised")
        if not re.search(r"\.\s*inc_expected_responses\s*\(\s*%s\s*\)\s*;" % cnt, so):
            raise Unreadable("Server::scatter_on: inc_expected_responses(<count of targeted workers>) is not recognised")
        rqv = re.escape(sm.group(1))
        raw_so = fn_at(re.sub(r"//[^\n]*", "", raw_srv), "scatter_on", "Server::scatter_on")[1]
        im = re.search(r"%s\s*\.\s*id\s*=\s*format!\s*\(\s*\"([^\"]*)\"\s*((?:,[^;]*)?)\)\s*;" % rqv, raw_so)
        if not im:
            raise Unreadable("Server::scatter_on: the request id is no longer built by one format!")
        fmt, args = im.group(1), [squash(a) for a in im.group(2).split(",") if a.strip()]
        holes = re.findall(r"\{(\w*)\}", fmt)
        if re.sub(r"\{\w*\}", "{}", fmt) != "{}-{}-{}-{}" or len(holes) != 4:
            raise Unreadable("Server::scatter_on: request id format `%s` is not verb-worker-task-index" % fmt)
        named = dict(a.split("=", 1) for a in args if re.match(r"\w+=[^=]", a))
        positional = [a for a in args if not re.match(r"\w+=[^=]", a)]
        got = []
        for h in holes:
            if h == "":
                got.append(positional.pop(0) if positional else "?")
            else:
                got.append(named.get(h, h))
        want = [r"%s\.content\.short_name\(\)" % rqv, r"%s\.id" % wk, re.escape(tid[0]), re.escape(idx[0])]
        for g_, w_ in zip(got, want):
            if not re.fullmatch(w_, g_):
                bound = re.search(r"\blet\s+%s\s*=\s*([^;]*);" % re.escape(g_), so)
                if not (bound and re.fullmatch(w_, squash(bound.group(1)))):
                    raise Unreadable("Server::scatter_on: the request id is no longer verb-worker-task-index (got `%s`)" % "-".join(got))
        return {"scatter_skips_stopped": B(skips)}
    hard(["scatter_skips_stopped"], scatter_on)

    def new_task():
        ptext, nt = fn_at(srv, "new_task", "Server::new_task")
        tm = [n for n, ty in params(ptext) if ty == "Timeout"]
        if len(tm) != 1:
            raise Unreadable("Server::new_task: expected one Timeout parameter")
        arms = dict((squash(p), squash(a)) for p, a in arms_of(nt, re.escape(tm[0]), "Server::new_task: the match on the Timeout"))
        if arms.get("Timeout::None") != "None" or \
           not re.fullmatch(r"Some\(Duration::from_secs\((?:self\.config\.worker_timeoutasu64|u64::from\(self\.config\.worker_timeout\)|self\.config\.worker_timeout\.into\(\))\)\)", arms.get("Timeout::Default", "")):
            raise Unreadable("Server::new_task: the deadline of Timeout::None / Timeout::Default is not recognised")
        if not re.search(r"\.map\(\|(\w+)\|(?:Instant::now\(\)\+\1|\1\+Instant::now\(\))\)", squash(nt)):
            raise Unreadable("Server::new_task: the deadline is no longer now + duration")
        return {}
    hard([], new_task)

    def close_session():
        am = re.search(r"WorkerResult::CloseSession\s*=>\s*", run)
        if not am:
            raise Unreadable("CommandHub::run: no WorkerResult::CloseSession arm")
        rest = run[am.end():]
        if rest.startswith("{"):
            arm = rest[1:rustmini.match_brace(rest, 0)]
        else:
            arm = rest[:rest.index(",")]
        stmts = [s.strip() for s in arm.split(";") if s.strip()]
        if not stmts or not re.fullmatch(r"self\s*\.\s*handle_worker_close\s*\(\s*&\s*\w+\s*\)", stmts[0]):
            raise Unreadable("CommandHub::run: the CloseSession arm no longer starts with handle_worker_close")
        if len(stmts) == 1:
            return {"close_fails_in_flight": "false"}
        cm = re.fullmatch(r"self\s*\.\s*(%s)\s*\(\s*(%s)\s*\)" % (W, W), stmts[1])
        if len(stmts) != 2 or not cm:
            raise Unreadable("CommandHub::run: the CloseSession arm is not `handle_worker_close(..); self.<f>(worker_id)`")
        callee = cm.group(1)
        ptext, ff = fn_at(srv, re.escape(callee), callee)
        ps = params(ptext)
        if len(ps) != 1 or ps[0][1] != "WorkerId":
            raise Unreadable("%s: expected one WorkerId parameter" % callee)
        wid = re.escape(ps[0][0])
        if not responder:
            raise Unreadable("%s: the response handler it should call is not known" % callee)
        # the ids selected: those of in_flight whose issuing worker is this one
        fm = re.search(r"self\s*\.\s*in_flight\s*\.\s*keys\s*\(\s*\)\s*\.\s*filter\s*\(\s*\|\s*(%s)\s*\|\s*(%s)\s*\(\s*\1\s*\)\s*==\s*Some\s*\(\s*%s\s*\)\s*\)" % (W, W, wid), ff)
        if not fm:
            raise Unreadable("%s: no longer selects the in-flight request ids issued to that worker" % callee)
        helper = fm.group(2)
        hp, hb = fn_at(srv, re.escape(helper), helper)
        hps = params(hp)
        if len(hps) != 1 or not re.fullmatch(r"(?:return)?%s\.rsplitn\(4,'c'\)\.nth\(2\)\?\.parse(?:::<\w+>)?\(\)\.ok\(\);?" % re.escape(hps[0][0]), squash(hb)):
            raise Unreadable("%s: no longer the third field from the right of the request id" % helper)
        raw_h = fn_at(re.sub(r"//[^\n]*", "", raw_srv), re.escape(helper), helper)[1]
        if "rsplitn(4, '-')" not in raw_h and "rsplitn(4,'-')" not in squash(raw_h):
            raise Unreadable("%s: the request id is no longer split on '-'" % helper)
        lm = re.search(r"\blet\s+(%s)\b[^=;]*=\s*self\s*\.\s*in_flight" % W, ff)
        lp = re.search(r"\bfor\s+(%s)\s+in\s+(%s)\s*\{" % (W, W), ff)
        if not lm or not lp or lp.group(2) != lm.group(1):
            raise Unreadable("%s: the loop over the selected ids is not recognised" % callee)
        idv = re.escape(lp.group(1))
        if not re.search(r"self\s*\.\s*%s\s*\(\s*%s\s*,\s*WorkerResponse\s*\{\s*id(?:\s*:\s*%s)?\s*,\s*status\s*:\s*ResponseStatus::Failure\s*(?:\.\s*into\s*\(\s*\)|as\s+i32)\s*," % (re.escape(responder), wid, idv), ff) \
           or lp.group(1) != "id" and not re.search(r"\bid\s*:\s*%s\b" % idv, ff):
            raise Unreadable("%s: no longer hands a Failure response for every selected id to %s" % (callee, responder))
        return {"close_fails_in_flight": "true"}
    hard(["close_fails_in_flight"], close_session)

    def cancel():
        ptext, ct = fn_at(srv, "cancel_task", "Server::cancel_task")
        ps = params(ptext)
        if len(ps) != 1 or not re.search(r"self\s*\.\s*queued_tasks\s*\.\s*remove\s*\(\s*&\s*%s\s*\)" % re.escape(ps[0][0]), ct):
            raise Unreadable("Server::cancel_task: no longer removes the task from queued_tasks")
        return {"cancel_purges": B(purge_in(ct, ps[0][0], "Server::cancel_task"))}
    hard(["cancel_purges"], cancel)

    def load_state():
        ptext, ls = fn_at(rq, "load_state", "load_state")
        ps = params(ptext)
        if len(ps) != 3:
            raise Unreadable("load_state: expected (server, client, path)")
        sv = re.escape(ps[0][0])
        tm = re.search(r"\blet\s+(%s)\s*=\s*%s\s*\.\s*new_task\s*\(" % (W, sv), ls)
        if not tm:
            raise Unreadable("load_state: the task creation is not recognised")
        tid = re.escape(tm.group(1))
        cancels = list(re.finditer(r"%s\s*\.\s*cancel_task\s*\(\s*%s\s*\)" % (sv, tid), ls))
        if len(cancels) != 1 or len(re.findall(r"\.\s*cancel_task\s*\(", ls)) != 1:
            raise Unreadable("load_state: expected exactly one cancel_task(<the task>)")
        # the error arm: finish_failure + cancel_task; the success arm: a PROCESSING notice, no final answer
        em = None
        for m in re.finditer(r"\bErr\s*\(\s*(%s)\s*\)\s*=>\s*\{" % W, ls):
            arm = ls[m.end():rustmini.match_brace(ls, m.end() - 1)]
            if re.search(r"\.\s*cancel_task\s*\(", arm):
                em = (m.group(1), arm)
        if not em or len(re.findall(r"\.\s*finish_failure\s*\(\s*%s\s*\)" % re.escape(em[0]), em[1])) != 1 or len(FINISH.findall(em[1])) != 1:
            raise Unreadable("load_state: the parse-error path is no longer `finish_failure(message); cancel_task(task)`")
        ok = re.search(r"\bOk\s*\(\s*\(\s*\)\s*\)\s*=>\s*\{", ls)
        okarm = ls[ok.end():rustmini.match_brace(ls, ok.end() - 1)] if ok else ""
        if not ok or not re.search(r"\.\s*return_processing\s*\(", okarm) or FINISH.search(okarm):
            raise Unreadable("load_state: the success path (a PROCESSING notice, no final answer) is not recognised")
        kinds = [f for f in FINISH.findall(ls)]
        if kinds != ["finish_failure"] * 3:
            raise Unreadable("load_state: expected three early finish_failure (missing file, unreadable file, parse error) and nothing else, found %s" % kinds)
        return {}
    hard([], load_state)

    def close_worker():
        _, cw = fn_at(srv, "close_worker", "Server::close_worker")
        if not re.search(r"\b%s\s*\.\s*run_state\s*=\s*RunState::Stopped\s*;" % W, cw):
            raise Unreadable("Server::close_worker: no longer marks the worker Stopped")
        return {}
    hard([], close_worker)

    # 6. verdicts: the if/else/return skeleton of every on_finish is run for every combination of its inputs
    def single(table, what):
        for combo, calls in table.items():
            if len(calls) != 1:
                raise Differs("%s: for %s the client gets %d final answers (%s)" % (what, dict(combo), len(calls), ", ".join(calls) or "none"))

    def flat(table, what):
        """errors = 1 and errors = 2 must agree: the model knows `no error` / `some error`"""
        for combo, calls in table.items():
            d = dict(combo)
            if d["self.gatherer.errors"] == 2:
                d["self.gatherer.errors"] = 1
                if table[tuple(sorted(d.items()))] != calls:
                    raise Differs("%s: the verdict depends on the number of errors beyond zero / non-zero" % what)

    def combos(hardness):
        out = []
        for e in (0, 1, 2):
            for t in (False, True):
                for h in ((False, True) if hardness else (False,)):
                    c = {"self.gatherer.errors": e, "_t": t}
                    if hardness:
                        c["self.hardness"] = h
                    out.append(c)
        return out

    def verdicts_of(task, hardness):
        what = "%s::on_finish" % task
        body, tname = on_finish_of(rq, task, what)
        cs = []
        for c in combos(hardness):
            c = dict(c)
            c[tname] = c.pop("_t")
            cs.append(c)
        table = verdict_table(body, {}, cs, what)
        flat(table, what)
        # re-key on (errors > 0, timed_out, hardness)
        out = {}
        for combo, calls in table.items():
            d = dict(combo)
            if d["self.gatherer.errors"] == 2:
                continue
            out[(d["self.gatherer.errors"] > 0, d[tname], d.get("self.hardness", False))] = calls
        return out, body

    def nat_bool_match(fn):
        """`match errors, timed_out with ...` rows from fn(some_error, timed_out)"""
        return ("match errors, timed_out with | O, false => %s | O, true => %s | S _, false => %s | S _, true => %s end"
                % (B(fn(False, False)), B(fn(False, True)), B(fn(True, False)), B(fn(True, True))))

    def worker_task():
        t, _ = verdicts_of("WorkerTask", False)
        single(t, "WorkerTask::on_finish")
        return {"worker_fails": nat_bool_match(lambda e, to: t[(e, to, False)] == ("finish_failure",))}
    soft(["worker_fails"], worker_task)

    def load_task():
        t, _ = verdicts_of("LoadStateTask", False)
        single(t, "LoadStateTask::on_finish")
        return {"load_ok": nat_bool_match(lambda e, to: t[(e, to, False)] == ("finish_ok",))}
    soft(["load_ok"], load_task)

    def stop_task():
        t, body = verdicts_of("StopTask", True)
        after = False
        for k, calls in t.items():
            if calls == ("finish_failure", "finish_ok"):
                after = True
            elif len(calls) != 1:
                raise Differs("StopTask::on_finish: for (some error, timed out, hard) = %s the client gets %s" % (k, list(calls)))
        rows = []
        for to in (False, True):
            for h in (False, True):
                for e in (False, True):
                    rows.append("| %s, %s, %s => %s" % (B(to), B(h), "S _" if e else "O", B(t[(e, to, h)][0] == "finish_failure")))
        if not re.search(r"\b%s\s*\.\s*run_state\s*=\s*ServerState::Stopping\s*;" % W, body):
            raise Differs("StopTask::on_finish: no longer moves the server to Stopping")
        return {"stop_fails": "match timed_out, hardness, errors with " + " ".join(rows) + " end", "stop_ok_after_failure": B(after)}
    soft(["stop_fails", "stop_ok_after_failure"], stop_task)

    def query_tasks():
        for task in ("QueryClustersTask", "StatusTask", "QueryMetricsTask", "SetMetricDetailTask"):
            what = "%s::on_finish" % task
            body, tname = on_finish_of(rq, task, what)
            # QueryMetricsTask answers early when only the metric names were asked for: both ways are run
            free = ["self.options.list"] if task == "QueryMetricsTask" else []
            cs = [{tname: False}, {tname: True}]
            for f in free:
                cs = [dict(c, **{f: v}) for c in cs for v in (False, True)]
            t = verdict_table(body, {}, cs, what)
            if set(t.values()) != {("finish_ok_with_content",)}:
                raise Unreadable("%s: expected a single unconditional finish_ok_with_content, found %s" % (what, sorted(set(t.values()))))
        return {}
    hard([], query_tasks)

    # 7+8. the dispatch of the verbs: found through the arms of handle_client_request
    def dispatch():
        ptext, hcr = fn_at(rq, "handle_client_request", "handle_client_request")
        tm = re.search(r"\bmatch\s+(%s)\s*\{\s*RequestType::" % W, hcr)
        if not tm:
            raise Unreadable("handle_client_request: the match on the request type is not recognised")
        arms = rustmini.match_arms(hcr[tm.end() - len("RequestType::"):rustmini.match_brace(hcr, hcr.index("{", tm.start()))])
        by_verb = {}
        for pat, arm in arms:
            for v in re.findall(r"RequestType::(\w+)", pat):
                by_verb[v] = arm
        return by_verb, hcr

    def callee_of(by_verb, verb):
        arm = by_verb.get(verb)
        m = re.fullmatch(r"\s*(%s)\s*\((.*)\)\s*;?\s*" % W, arm or "", re.S)
        if not m:
            raise Unreadable("handle_client_request: the %s arm is not a single call" % verb)
        return m.group(1), squash(m.group(2))

    def tmo_of(fname, what, pick=None):
        _, b = fn_at(rq, re.escape(fname), what)
        t = re.findall(r"Timeout::(Default|None)", b)
        if len(t) != 1:
            raise Unreadable("%s: expected exactly one Timeout, found %s" % (what, t))
        return "T" + t[0]

    def timeouts():
        by_verb, hcr = dispatch()
        out = {}
        fw = set(callee_of(by_verb, v)[0] for v in ("AddCluster", "RemoveBackend", "AddHttpFrontend", "ActivateListener", "RemoveListener"))
        if len(fw) != 1:
            raise Unreadable("handle_client_request: the worker verbs no longer share one function")
        out["tmo_worker"] = tmo_of(fw.pop(), "the function serving worker verbs")
        tq = set()
        for v in ("QueryClustersHashes", "QueryMetrics", "Status", "SetMetricDetail"):
            tq.add(tmo_of(callee_of(by_verb, v)[0], "the function serving %s" % v))
        if len(tq) != 1:
            raise Unreadable("the query-kind verbs (clusters, metrics, status, metric detail) no longer share one Timeout (the model has one query kind)")
        out["tmo_query"] = tq.pop()
        (fs, a_soft), (fh, a_hard) = callee_of(by_verb, "SoftStop"), callee_of(by_verb, "HardStop")
        if fs != fh or not a_soft.endswith(",false") or not a_hard.endswith(",true"):
            raise Unreadable("handle_client_request: SoftStop / HardStop are no longer `<stop>(.., false)` / `<stop>(.., true)`")
        ptext, stop = fn_at(rq, re.escape(fs), "the function serving the stops")
        hv = [n for n, ty in params(ptext) if ty == "bool"]
        if len(hv) != 1:
            raise Unreadable("%s: expected one bool parameter (hardness)" % fs)
        th = ts = None
        for im in re.finditer(r"\bif\s+(!?)\s*%s\s*\{" % re.escape(hv[0]), stop):
            e = rustmini.match_brace(stop, im.end() - 1)
            then_b = stop[im.end():e]
            em = re.match(r"\s*else\s*\{", stop[e + 1:])
            if not em or "Timeout::" not in then_b:
                continue
            else_b = stop[e + 1 + em.end():rustmini.match_brace(stop, e + em.end())]
            hard_b, soft_b = (then_b, else_b) if not im.group(1) else (else_b, then_b)
            th, ts = re.findall(r"Timeout::(Default|None)", hard_b), re.findall(r"Timeout::(Default|None)", soft_b)
            if len(th) != 1 or len(ts) != 1 or "RequestType::HardStop" not in hard_b or "RequestType::SoftStop" not in soft_b:
                th = None
            break
        if not th:
            raise Unreadable("%s: the hard/soft scatter calls are not recognised" % fs)
        out["tmo_hardstop"], out["tmo_softstop"] = "T" + th[0], "T" + ts[0]
        out["tmo_load"] = tmo_of(callee_of(by_verb, "LoadState")[0], "the function serving LoadState")
        return out
    hard(["tmo_worker", "tmo_query", "tmo_hardstop", "tmo_softstop", "tmo_load"], timeouts)

    def unserved():
        by_verb, hcr = dispatch()
        nm = re.search(r"\bNone\s*=>\s*\{", hcr)
        if not nm:
            raise Unreadable("handle_client_request: the `no request type` arm is not recognised")
        none_arm = hcr[nm.end():rustmini.match_brace(hcr, nm.end() - 1)]
        if not re.search(r"\breturn\b", none_arm):
            raise Unreadable("handle_client_request: the `no request type` arm no longer returns")
        ans = [len(FINISH.findall(none_arm))]
        for v in ("LaunchWorker", "ReturnListenSockets"):
            if v not in by_verb:
                raise Unreadable("handle_client_request: no arm for %s" % v)
            ans.append(len(FINISH.findall(by_verb[v])))
        if any(a > 1 for a in ans) or len(set(ans)) != 1:
            raise Unreadable("handle_client_request: unserved verbs are answered inconsistently (%r answers)" % ans)
        if ans[0] and ("finish_failure" not in none_arm or any("finish_failure" not in by_verb[v] for v in ("LaunchWorker", "ReturnListenSockets"))):
            raise Unreadable("handle_client_request: an unserved verb is no longer answered by a failure")
        return {"unserved_answered": B(ans[0] == 1)}
    hard(["unserved_answered"], unserved)

    # 9. hot upgrade of the main process: what UpgradeData carries, what from_upgrade_data restores (hard: layout)
    def upgrade():
        ud = block_at(up, r"\bpub\s+struct\s+UpgradeData\s*\{", "UpgradeData")
        fields = re.findall(r"\bpub\s+(\w+)\s*:", ud)
        if sorted(fields) != sorted(["command_socket_fd", "config", "next_client_id", "next_session_id", "next_task_id", "next_worker_id", "workers", "state", "boot_generation"]):
            raise Unreadable("UpgradeData: its fields changed (%s): the hand-over model (C09/Model.v handover) carries state, counters and live workers, nothing else" % fields)
        _, fu = fn_at(srv, "from_upgrade_data", "from_upgrade_data")
        fq = squash(fu)
        for f in ("state", "next_task_id", "next_client_id", "next_session_id", "next_worker_id", "boot_generation"):
            if not re.search(r"\b\w+\.%s=%s;" % (f, f), fq):
                raise Unreadable("from_upgrade_data: `%s` is no longer restored" % f)
        if not re.search(r"\.filter\(\|(\w+)\|\1\.run_state!=RunState::Stopped&&\1\.run_state!=RunState::Stopping\)", fq) and \
           not re.search(r"\.filter\(\|(\w+)\|\1\.run_state!=RunState::Stopping&&\1\.run_state!=RunState::Stopped\)", fq):
            raise Unreadable("from_upgrade_data: `live workers only` is no longer recognised")
        if not re.search(r"\bclients:HashMap::new\(\),", fq) or not re.search(r"\btasks:HashMap::new\(\),", fq):
            raise Unreadable("from_upgrade_data: the new hub no longer starts without client and without task")
        _, gu = fn_at(srv, "generate_upgrade_data", "generate_upgrade_data")
        gq = squash(gu)
        for f in ("next_client_id", "next_session_id", "next_task_id", "next_worker_id", "boot_generation"):
            if not re.search(r"\b%s:self\.%s," % (f, f), gq):
                raise Unreadable("generate_upgrade_data: %s is no longer carried over" % f)
        ptext, um = fn_at(up, "upgrade_main", "upgrade_main")
        ps = params(ptext)
        tree_ok = False
        for m in re.finditer(r"\bif\s+(!?)\s*(%s)\s*\{" % W, um):
            e = rustmini.match_brace(um, m.end() - 1)
            a = um[m.end():e]
            em = re.match(r"\s*else\s*\{", um[e + 1:])
            if not em:
                continue
            b = um[e + 1 + em.end():rustmini.match_brace(um, e + em.end())]
            bad, good = (a, b) if m.group(1) else (b, a)
            if FINISH.findall(bad) == ["finish_failure"] and FINISH.findall(good) == ["finish_ok"] and \
               re.search(r"\b%s\s*\.\s*run_state\s*=\s*ServerState::Stopping\s*;" % re.escape(ps[0][0] if ps else "server"), good) and \
               not re.search(r"ServerState::Stopping", bad):
                tree_ok = True
        if not tree_ok:
            raise Unreadable("upgrade_main: the confirmation branch (failure | ok + Stopping) is no longer recognised")
        return {}
    hard([], upgrade)

    return {k: v for k, v in facts.items() if not k.startswith("_")}


GEN_SHAPE = [
    ("on_finish_flag", "Definition on_finish_flag (timed_out : bool) : bool := %s."),
    ("purge_on_finish", "Definition purge_on_finish : bool := %s."),
    ("flag_when_finished", "Definition flag_when_finished : bool := %s."),
    ("flag_when_expired", "Definition flag_when_expired : bool := %s."),
    ("finished_checked_first", "Definition finished_checked_first : bool := %s."),
    ("expired", "Definition expired (deadline now : N) : bool := %s."),
    ("wake_is_earliest", "Definition wake_is_earliest : bool := %s."),
    ("has_finished", "Definition has_finished (ok errors expected : nat) : bool := %s."),
    ("on_message_arm", "Definition on_message_arm (st : status) : arm :=\n  %s."),
    ("retire_on_terminal", "Definition retire_on_terminal (st : status) : bool :=\n  %s."),
    ("scatter_skips_stopped", "Definition scatter_skips_stopped : bool := %s."),
    ("close_fails_in_flight", "Definition close_fails_in_flight : bool := %s."),
    ("cancel_purges", "Definition cancel_purges : bool := %s."),
    ("worker_fails", "Definition worker_fails (errors : nat) (timed_out : bool) : bool :=\n  %s."),
    ("load_ok", "Definition load_ok (errors : nat) (timed_out : bool) : bool :=\n  %s."),
    ("stop_fails", "Definition stop_fails (timed_out hardness : bool) (errors : nat) : bool :=\n  %s."),
    ("stop_ok_after_failure", "Definition stop_ok_after_failure : bool := %s."),
    ("tmo_worker", "Definition tmo_worker : tmo := %s."),
    ("tmo_query", "Definition tmo_query : tmo := %s."),
    ("tmo_hardstop", "Definition tmo_hardstop : tmo := %s."),
    ("tmo_softstop", "Definition tmo_softstop : tmo := %s."),
    ("tmo_load", "Definition tmo_load : tmo := %s."),
    ("unserved_answered", "Definition unserved_answered : bool := %s."),
]


def translate(snapshot=False):
    fails = []
    facts = read_facts(fails)
    if snapshot:
        if fails:
            raise SystemExit("not writing a snapshot from a tree the translator cannot read completely:\n  " + "\n  ".join(fails))
        json.dump(facts, open(FACTS, "w"), indent=1, sort_keys=True)
        return fails
    try:
        snap = json.load(open(FACTS))
    except (OSError, ValueError):
        snap = {}
    missing = [k for k, _ in GEN_SHAPE if facts.get(k) is None and snap.get(k) is None]
    if missing:
        fails.append("the facts %s can neither be read from the source nor from props/c09_facts.json" % missing)
        return fails
    g = [shape % (facts[k] if facts.get(k) is not None else snap[k]) for k, shape in GEN_SHAPE]
    text = ("(* GENERATED by props/c09.py:translate from %s and %s — do not edit *)\n"
            "From Coq Require Import List Arith NArith Bool.\nFrom SV Require Import C09.Base.\n\n" % (SERVER, REQUESTS)) + "\n".join(g) + "\n"
    vlib.write_if_changed(os.path.join(vlib.COQ, "C09", "Gen.v"), text)
    return fails


# ---------------------------------------------------------------------------
# generator

SCATTER = ["wok", "wok", "wok", "query", "status", "metrics", "mdetail"]
LOCALS = ["local", "wfail", "loadmissing", "none", "launch", "retsock", "reloadbad", "mdetailbad"]


class Sim:
    """just enough bookkeeping to generate well-formed scripts (which client may
    send, which request index a worker may answer); predicts nothing"""

    def __init__(self, rng, nw, nc):
        self.rng, self.nw, self.nc = rng, nw, nc
        self.closed = set()
        self.cgone = set()
        self.recv = {w: 0 for w in range(nw)}      # requests each worker was sent
        self.busy = {}                               # client -> request descriptor
        self.tasks = []                              # descriptors of scattered requests
        self.ops = []
        self.ntask = 0
        self.logical = 0
        self.stopped = False

    def alive(self):
        return [w for w in range(self.nw) if w not in self.closed]

    def free_clients(self):
        return [c for c in range(self.nc) if c not in self.busy and c not in self.cgone]

    def req(self, c, verb, n=0):
        self.ops.append(["req", c, verb] + ([n] if verb in ("load", "loadbad") else []))
        if verb in LOCALS:
            return None
        if verb == "loadbad":
            # answered at once (failure), but its n requests were scattered: the workers may
            # still acknowledge them — nothing may come of it
            t = dict(client=None, verb=verb, timed=False, at=self.logical,
                     slots={w: list(range(self.recv[w], self.recv[w] + n)) for w in self.alive()},
                     answered=set(), done=False, ghost=True)
            for w in self.alive():
                self.recv[w] += n
            if n and t["slots"]:
                self.tasks.append(t)
            return None
        per = n if verb == "load" else 1
        t = dict(client=c, verb=verb, timed=verb != "softstop", at=self.logical,
                 slots={w: list(range(self.recv[w], self.recv[w] + per)) for w in self.alive()},
                 answered=set(), done=False)
        for w in self.alive():
            self.recv[w] += per
        self.tasks.append(t)
        self.busy[c] = t
        if not t["slots"] or per == 0:
            self.finish(t)
        return t

    def finish(self, t):
        t["done"] = True
        if self.busy.get(t["client"]) is t:
            self.busy.pop(t["client"], None)
        if t["verb"] in ("hardstop", "softstop"):
            self.stopped = True

    def resp(self, w, w2, k, st):
        self.ops.append(["resp", w, w2, k, st])
        for t in self.tasks:
            if t["done"]:
                continue
            if w2 in t["slots"] and k in t["slots"][w2] and st in (0, 2) and (w2, k) not in t["answered"]:
                t["answered"].add((w2, k))
                if len(t["answered"]) >= sum(len(v) for v in t["slots"].values()):
                    self.finish(t)

    def sleep(self, ms):
        self.ops.append(["sleep", ms])
        self.logical += ms
        for t in self.tasks:
            if not t["done"] and t["timed"] and self.logical > t["at"] + 1000:
                self.finish(t)


def stop_race(s):
    """a hard stop pending beside another request: the loop wakes up for each deadline in turn (real time), so
    whether the other request is still answered before the hard stop's own timeout stops the main process
    (open finding stop-drops-pending) depends on milliseconds the logical clock does not have: no sleep then"""
    pend = [t for t in s.tasks if not t["done"]]
    return len(pend) > 1 and any(t["verb"] == "hardstop" for t in pend)


def gen_case(rng, cid, allow_sleep, allow_stop, handover=None):
    nw = rng.choice([0, 1, 2, 2, 2, 3, 3])
    nc = rng.choice([1, 2, 2, 3])
    if handover is not None:
        nw = 3
    s = Sim(rng, nw, nc)
    if handover is not None:
        # the hub is the one from_upgrade_data re-creates; a worker stopped before is not part of it
        s.ops.append(["hub2", nw, 1, nc, handover])
        if handover >= 0:
            s.closed.add(handover)
    else:
        s.ops.append(["hub", nw, 1, nc])
    nsleep = 0
    steps = rng.randint(4, 22)
    for _ in range(steps):
        if s.stopped:
            break
        r = rng.random()
        pend = [t for t in s.tasks if not t["done"]]
        free = s.free_clients()
        if r < 0.30 and free:
            c = rng.choice(free)
            x = rng.random()
            if x < 0.55:
                s.req(c, rng.choice(SCATTER))
            elif x < 0.66:
                s.req(c, "load", rng.choice([0, 1, 2, 3]))
            elif x < 0.72:
                s.req(c, "loadbad", rng.choice([0, 1, 1, 2, 3]))
            elif x < 0.93 or not allow_stop:
                s.req(c, rng.choice(LOCALS))
            else:
                s.req(c, rng.choice(["hardstop", "softstop"]))
        elif r < 0.75 and any(s.recv[w] for w in s.alive()):
            w = rng.choice([w for w in s.alive() if s.recv[w]])
            x = rng.random()
            # mostly: the oldest unanswered request of a pending task
            cand = [(w, k) for t in pend for k in t["slots"].get(w, []) if (w, k) not in t["answered"]]
            if x < 0.62 and cand:
                k = cand[0][1]
                s.resp(w, w, k, rng.choice([0, 0, 0, 0, 2, 1, 7]))
            elif x < 0.74:
                s.resp(w, w, rng.randrange(s.recv[w]), rng.choice([0, 2, 1]))          # duplicate / late / early
            elif x < 0.84:
                others = [v for v in range(nw) if v != w and s.recv[v]]
                if others:
                    v = rng.choice(others)
                    s.resp(w, v, rng.randrange(s.recv[v]), rng.choice([0, 2]))           # another worker's id
                else:
                    s.ops.append(["respu", w, rng.choice([0, 2, 1])])
            else:
                s.ops.append(["respu", w, rng.choice([0, 2, 1, 7])])
        elif r < 0.83 and s.alive():
            w = rng.choice(s.alive())
            s.ops.append(["close", w])
            s.closed.add(w)
        elif r < 0.87 and len(s.cgone) < nc - 1:
            c = rng.choice([c for c in range(nc) if c not in s.cgone])
            s.ops.append(["cclose", c])
            s.cgone.add(c)
            s.busy.pop(c, None)
        elif allow_sleep and nsleep < 2 and pend and not stop_race(s):
            s.sleep(rng.choice([1300, 1300, 300]))    # two partial sleeps stay 400 ms short of the deadline
            nsleep += 1
    if allow_sleep and nsleep == 0 and any(not t["done"] and t["timed"] for t in s.tasks) and not s.stopped and not stop_race(s):
        s.sleep(1300)
    s.ops.append(["end"])
    return Case(cid, s.ops, {})


def silent_cases():
    """a worker that is alive but silent past the worker timeout, for every scattering verb"""
    out = []
    for verb, extra in (("wok", []), ("query", []), ("status", []), ("metrics", []), ("mdetail", []), ("hardstop", []), ("load", [2]), ("softstop", [])):
        ops = [["hub", 2, 1, 2], ["req", 0, verb] + extra]
        per = extra[0] if extra else 1
        for k in range(per):
            ops.append(["resp", 0, 0, k, 0])
        if verb == "softstop":
            ops.append(["resp", 1, 1, 0, 1])           # a processing notice only
        ops += [["sleep", 1300], ["end"]]
        out.append(Case("silent_" + verb, ops, {}))
    return out


def second_round_cases():
    """the three families added after the second round of seeded changes"""
    out = []
    def case(cid, ops):
        out.append(Case(cid, ops + [["end"]], {}))
    # the loop's own wake-up: a pending soft stop (no deadline) beside a request whose worker stays silent;
    # two requests with different deadlines, the check falling between them
    case("quiet0", [["hub", 2, 1, 2], ["req", 0, "softstop"], ["resp", 0, 0, 0, 1], ["req", 1, "wok"], ["resp", 0, 0, 1, 0], ["sleep", 1300]])
    case("quiet1", [["hub", 2, 1, 2], ["req", 0, "wok"], ["resp", 0, 0, 0, 0], ["sleep", 300], ["sleep", 300], ["req", 1, "query"],
                    ["resp", 0, 0, 1, 0], ["sleep", 800], ["sleep", 300], ["sleep", 300]])
    case("quiet2", [["hub", 1, 1, 3], ["req", 0, "softstop"], ["req", 1, "load", 2], ["resp", 0, 0, 1, 0], ["sleep", 300], ["req", 2, "status"], ["sleep", 1300]])
    # a main process re-created by from_upgrade_data whose predecessor had issued task ids: late answers to the
    # predecessor's requests, then new requests of the same verb
    case("ids0", [["hub2", 2, 1, 2, -1, 4], ["req", 0, "wok"], ["respold", 0, 0, 0], ["resp", 0, 0, 0, 2], ["resp", 1, 1, 0, 0]])
    case("ids1", [["hub2", 2, 1, 2, -1, 3], ["respold", 1, 2, 0], ["req", 0, "wok"], ["respold", 0, 0, 2], ["respold", 0, 1, 0],
                  ["req", 1, "wok"], ["respold", 1, 1, 0], ["resp", 0, 0, 0, 0], ["resp", 1, 1, 0, 0], ["resp", 0, 0, 1, 0], ["resp", 1, 1, 1, 2]])
    case("ids2", [["hub2", 3, 1, 2, 1, 1], ["req", 0, "wok"], ["respold", 0, 0, 0], ["respold", 2, 0, 0], ["resp", 2, 2, 0, 2], ["resp", 0, 0, 0, 0]])
    # a state file larger than the parse buffer of load_state: request indices go on across chunks
    case("big0", [["hub", 1, 1, 1], ["req", 0, "loadbig", 1000], ["respall", 0, 0]])
    case("big1", [["hub", 2, 1, 2], ["req", 0, "loadbig", 900], ["respall", 0, 0], ["req", 1, "wok"], ["respall", 1, 0]])
    return out


def gen_cases(rng, tier):
    n, nslow = {"quick": (1500, 56), "thorough": (20000, 480), "search": (1200, 160)}.get(tier, (1500, 56))
    out = silent_cases() + second_round_cases()
    # a hub re-created by from_upgrade_data from the serialised UpgradeData of another (one worker stopped, or none)
    for i, sw in enumerate((-1, 0, 1, 2, -1, 1)):
        out.append(gen_case(rng, "u%d" % i, i >= 4, i == 3, handover=sw))
    for i in range(n):
        out.append(gen_case(rng, "f%d" % i, False, i % 5 == 0))
    for i in range(nslow):
        out.append(gen_case(rng, "s%d" % i, True, i % 4 == 0))
    return out


def corpus_cases():
    d = os.path.join(vlib.ROOT, "corpus", ID)
    out = []
    if os.path.isdir(d):
        for f in sorted(os.listdir(d)):
            if f.endswith(".case"):
                for c in vlib.parse_cases(open(os.path.join(d, f)).read()):
                    c.id = "k" + c.id
                    out.append(c)
    return out


def nontrivial(case, o):
    scattered = sum(1 for op in case.ops if op[0] == "req" and op[2] in ("wok", "query", "status", "metrics", "mdetail", "load", "loadbad", "hardstop", "softstop"))
    wev = [op for op in case.ops if op[0] in ("resp", "respu", "close", "sleep")]
    fault = [op for op in wev if op[0] in ("respu", "close", "sleep") or (op[0] == "resp" and (op[1] != op[2] or op[4] != 0))]
    seen = {}
    dup = False
    for op in case.ops:
        if op[0] == "resp":
            k = (op[2], op[3])
            dup = dup or k in seen
            seen[k] = 1
    finals = any(t in (0, 2) for ob in o["obs"] for i, t in enumerate(ob) if isinstance(t, int) and "w" in ob and i < ob.index("w"))
    return scattered >= 1 and len(wev) >= 2 and (fault or dup) and finals


if __name__ == "__main__":
    import sys
    if sys.argv[1:] == ["--snapshot"]:
        translate(snapshot=True)
        print("wrote", FACTS)
    else:
        for f in translate():
            print(f)
