(** C12 — the lists of the backend map never hold two entries with the same
    (backend id, address), whatever the history. *)
From Coq Require Import List Arith ZArith NArith Bool Lia.
From SV Require Import C12.Model C12.Counters C12.HModel C12.HProofs.
Import ListNotations.
Open Scope N_scope.

Definition lists (s : state) (c : nat) : list nat := c_list (cget s c).

Definition keeps (s s' : state) : Prop :=
  (forall c, lists s' c = lists s c) /\ length (s_heap s') = length (s_heap s) /\
  forall hd, bkey s' hd = bkey s hd.

Definition lists_ok (s : state) : Prop :=
  forall c, NoDup (map (bkey s) (lists s c)) /\ forall hd, In hd (lists s c) -> (hd < length (s_heap s))%nat.

Lemma keeps_refl s : keeps s s.
Proof. repeat split. Qed.

Lemma keeps_trans a b c : keeps a b -> keeps b c -> keeps a c.
Proof.
  intros (A1 & A2 & A3) (B1 & B2 & B3). split; [|split].
  - intros x. rewrite B1. apply A1.
  - congruence.
  - intros hd. rewrite B3. apply A3.
Qed.

Lemma keeps_ok s s' : keeps s s' -> lists_ok s -> lists_ok s'.
Proof.
  intros (A1 & A2 & A3) K c. destruct (K c) as [N B]. rewrite A1, A2. split; [|exact B].
  rewrite (map_ext (bkey s') (bkey s)); [exact N|exact A3].
Qed.

Lemma nth_upd {A} (l : list A) : forall i j v d,
  nth j (upd l i v) d = if ((i =? j) && (i <? length l))%nat then v else nth j l d.
Proof.
  induction l as [|x t IH]; intros [|i] [|j] v d; cbn [upd nth length]; try reflexivity.
  - rewrite andb_false_r. reflexivity.
  - rewrite IH. cbn [Nat.eqb]. replace (S i <? S (length t))%nat with (i <? length t)%nat; [reflexivity|].
    destruct (i <? length t)%nat eqn:E; symmetry.
    + apply Nat.ltb_lt in E. apply Nat.ltb_lt. lia.
    + apply Nat.ltb_ge in E. apply Nat.ltb_ge. lia.
Qed.

Lemma lists_with_cluster s c cl c' :
  lists (with_cluster s c cl) c' =
  if ((c =? c') && (c <? length (s_cl s)))%nat then c_list cl else lists s c'.
Proof.
  unfold lists, cget, with_cluster. cbn [s_cl]. rewrite nth_upd.
  destruct (_ && _); reflexivity.
Qed.

(** replacing a cluster's policy (same list) keeps everything *)
Lemma keeps_policy s c p : keeps s (with_cluster s c (mkC (c_list (cget s c)) p)).
Proof.
  split; [|split; [reflexivity|intros hd; reflexivity]].
  intros c'. rewrite lists_with_cluster. cbn [c_list].
  destruct ((c =? c')%nat) eqn:E; cbn [andb]; [|reflexivity].
  apply Nat.eqb_eq in E. subst c'. destruct (_ <? _)%nat; reflexivity.
Qed.

Lemma keeps_on_handle s h f :
  (forall b, b_id (f b) = b_id b /\ b_addr (f b) = b_addr b) -> keeps s (on_handle s h f).
Proof.
  intros Hf. destruct (on_handle_frame s h f Hf) as (A & _ & B).
  split; [|split; [apply on_handle_length|exact B]].
  intros c. unfold lists, cget. rewrite A. reflexivity.
Qed.

Lemma keeps_hset s h b' :
  b_id b' = b_id (hget (s_heap s) h) -> b_addr b' = b_addr (hget (s_heap s) h) ->
  keeps s (with_heap s (hset (s_heap s) h b')).
Proof.
  intros I A. split; [intros c; reflexivity|]. cbn [with_heap s_heap]. split; [apply hset_length|].
  intros hd. unfold bkey. cbn [with_heap s_heap].
  destruct (Nat.eq_dec h hd) as [->|Hn].
  - destruct (Nat.lt_ge_cases hd (length (s_heap s))) as [L|L].
    + rewrite hget_hset_same by exact L. rewrite I, A. reflexivity.
    + rewrite hset_out by exact L. reflexivity.
  - rewrite hget_hset_other by exact Hn. reflexivity.
Qed.

Ltac idaddr :=
  intros b; repeat match goal with
  | |- context [match ?x with _ => _ end] => destruct x
  | |- context [if ?x then _ else _] => destruct x
  end; cbn; auto.

Lemma keeps_connect s h w : keeps s (fst (connect_handle s h w)).
Proof.
  unfold connect_handle. destruct (try_connect (s_now s) w (hget (s_heap s) h)) as [b' code] eqn:E.
  cbn [fst]. pose proof (f_equal fst E) as Q. cbn [fst] in Q.
  apply keeps_hset; rewrite <- Q; unfold try_connect, inc_connections;
    destruct (b_status (hget (s_heap s) h)); try reflexivity;
    destruct (connectable _); reflexivity.
Qed.

Lemma keeps_select s c key : keeps s (fst (select s c key)).
Proof.
  unfold select. destruct (candidates s (c_list (cget s c))) as [|x t]; [apply keeps_refl|].
  destruct (lb_next s (c_lb (cget s c)) key (x :: t)) as [p' r]. cbn [fst]. apply keeps_policy.
Qed.

Lemma keeps_from_cluster s c w : keeps s (fst (fst (backend_from_cluster s c w))).
Proof.
  unfold backend_from_cluster. pose proof (keeps_select s c None) as KS.
  destruct (select s c None) as [s1 r]. cbn [fst] in KS.
  destruct r as [[hh|]|hs]; cbn [fst]; try exact KS.
  pose proof (keeps_connect s1 hh w) as KC. destruct (connect_handle s1 hh w) as [s2 code]. cbn [fst] in *.
  eapply keeps_trans; eassumption.
Qed.

Lemma keeps_reset l : forall s, keeps s (fold_left (fun s0 h0 => on_handle s0 h0 (fun b => set_health b true 0 0)) l s).
Proof.
  induction l as [|x t IH]; intros s; cbn [fold_left]; [apply keeps_refl|].
  eapply keeps_trans; [|apply IH]. apply keeps_on_handle. intros b. cbn. auto.
Qed.

Lemma hget_app_new hp x : hget (hp ++ [x]) (length hp) = x.
Proof. unfold hget. rewrite app_nth2 by lia. rewrite Nat.sub_diag. reflexivity. Qed.

Lemma add_ok s c nb : lists_ok s -> lists_ok (fst (add_backend s c nb)).
Proof.
  intros K. unfold add_backend.
  destruct (find _ (c_list (cget s c))) as [h0|] eqn:F; cbn [fst].
  - set (s1 := with_heap s (hset (s_heap s) h0 _)).
    assert (K1 : keeps s s1) by (apply keeps_hset; reflexivity).
    eapply keeps_ok; [|exact K].
    eapply keeps_trans; [exact K1|].
    assert (E : c_list (cget s c) = c_list (cget s1 c)) by reflexivity.
    rewrite E. apply keeps_policy.
  - set (s1 := with_heap s (s_heap s ++ [nb])).
    assert (B1 : forall hd, (hd < length (s_heap s))%nat -> bkey s1 hd = bkey s hd).
    { intros hd L. unfold bkey, s1. cbn [with_heap s_heap]. rewrite hget_app_old by exact L. reflexivity. }
    intros c'. rewrite lists_with_cluster. cbn [c_list with_cluster s_heap].
    assert (HL : length (s_heap s ++ [nb]) = S (length (s_heap s))) by (rewrite app_length; cbn; lia).
    assert (BK : forall hd, bkey (with_cluster s1 c (mkC (c_list (cget s c) ++ [length (s_heap s)])
                       (lb_rebuild s1 (c_lb (cget s c)) (c_list (cget s c) ++ [length (s_heap s)])))) hd = bkey s1 hd)
      by reflexivity.
    destruct (K c') as [N B].
    assert (Old : NoDup (map (bkey s1) (lists s c')) /\
                  forall hd, In hd (lists s c') -> (hd < length (s_heap s ++ [nb]))%nat).
    { split.
      - rewrite (map_ext_in (bkey s1) (bkey s)); [exact N|]. intros hd H. apply B1, B, H.
      - intros hd H. rewrite HL. specialize (B hd H). lia. }
    change (s_cl s1) with (s_cl s).
    destruct ((c =? c')%nat && (c <? length (s_cl s))%nat) eqn:E.
    + apply andb_prop in E. destruct E as [E _]. apply Nat.eqb_eq in E. subst c'.
      split.
      * rewrite (map_ext _ _ BK). rewrite map_app. apply nodup_app; [exact (proj1 Old)|repeat constructor; intros []|].
        intros k H1 [H2|[]]. subst k. apply in_map_iff in H1. destruct H1 as (hd & E1 & Hh).
        pose proof (find_none _ _ F hd Hh) as FN. cbn beta in FN.
        unfold bkey, s1 in E1. cbn [with_heap s_heap] in E1. rewrite hget_app_new in E1.
        rewrite hget_app_old in E1 by (apply B, Hh). inversion E1 as [[E2 E3]].
        rewrite E2, E3, !N.eqb_refl in FN. discriminate.
      * intros hd H. apply in_app_or in H. destruct H as [H|[<-|[]]]; [apply (proj2 Old), H|].
        unfold s1; cbn [with_cluster with_heap s_heap]; rewrite HL; lia.
    + split; [|exact (proj2 Old)]. rewrite (map_ext _ _ BK). exact (proj1 Old).
Qed.

Lemma remove_ok s c id a : lists_ok s -> lists_ok (fst (remove_backend s c id a)).
Proof.
  intros K. unfold remove_backend. cbn [fst]. intros c'. rewrite lists_with_cluster. cbn [c_list].
  destruct (K c') as [N B].
  destruct ((c =? c')%nat && (c <? length (s_cl s))%nat) eqn:E; [|split; [exact N|exact B]].
  apply andb_prop in E. destruct E as [E _]. apply Nat.eqb_eq in E. subst c'. split.
  - apply (nodup_map_filter (bkey s)). exact N.
  - intros hd H. apply filter_In in H. apply B, H.
Qed.

Lemma op_ok s o : lists_ok s -> lists_ok (apply_op s o).
Proof.
  intros K.
  assert (OH : forall h f, (forall b, b_id (f b) = b_id b /\ b_addr (f b) = b_addr b) -> lists_ok (on_handle s h f)).
  { intros h f Hf. eapply keeps_ok; [apply keeps_on_handle, Hf|exact K]. }
  destruct o; cbn [apply_op].
  - exact K.
  - exact K.
  - apply add_ok, K.
  - apply remove_ok, K.
  - unfold set_policy. eapply keeps_ok; [apply keeps_policy|exact K].
  - apply OH. intros b. cbn. auto.
  - destruct (find_backend s c a); [|exact K]. apply OH. intros b. destruct ok.
    + unfold record_success. destruct (_ && _); cbn; auto.
    + unfold record_failure. destruct (_ && _); cbn; auto.
  - eapply keeps_ok; [apply keeps_reset|exact K].
  - apply OH. intros b. cbn. auto.
  - apply OH. intros b. cbn. auto.
  - apply OH. intros b. cbn. auto.
  - exact K.
  - apply OH. intros b. unfold inc_connections. destruct (b_status b); cbn; auto.
  - apply OH. intros b. unfold dec_connections. destruct (b_status b); cbn; auto. destruct (_ =? 0); cbn; auto.
  - destruct (find_backend s c a); [|exact K]. apply OH. intros b.
    unfold dec_connections. destruct (b_status b); cbn; auto. destruct (_ =? 0); cbn; auto.
  - apply OH. intros b. cbn. auto.
  - eapply keeps_ok; [apply keeps_select|exact K].
  - destruct (_ <? _)%nat; [|exact K]. eapply keeps_ok; [apply keeps_connect|exact K].
  - eapply keeps_ok; [apply keeps_from_cluster|exact K].
  - unfold backend_from_sticky. destruct (find_sticky s c sid) as [hh|].
    + pose proof (keeps_connect s hh w) as KC. destruct (connect_handle s hh w) as [s2 code]. cbn [fst] in *.
      eapply keeps_ok; [exact KC|exact K].
    + eapply keeps_ok; [apply keeps_from_cluster|exact K].
  - apply OH. intros b. cbn. auto.
Qed.

Lemma frame_keeps s s' : same_frame s s' -> length (s_heap s') = length (s_heap s) -> keeps s s'.
Proof.
  intros (A & _ & B) L. split; [|split; [exact L|exact B]]. intros c. unfold lists, cget. rewrite A. reflexivity.
Qed.

(* ------------------------------------------------------------------ *)
(** * Through the checker's steps *)

Lemma record_result_length s c a v cf : length (s_heap (record_result s c a v cf)) = length (s_heap s).
Proof. unfold record_result. destruct (find_backend s c a); [apply on_handle_length|reflexivity]. Qed.

Lemma fold_record_length (f : probe -> bool) l : forall s,
  length (s_heap (fold_left (fun s0 p => record_result s0 (p_c p) (p_addr p) (f p) (p_cfg p)) l s)) = length (s_heap s).
Proof.
  induction l as [|p t IH]; intros s; cbn [fold_left]; [reflexivity|]. rewrite IH. apply record_result_length.
Qed.

Lemma poll_length h s : length (s_heap (snd (hc_poll h s))) = length (s_heap s).
Proof.
  unfold hc_poll.
  assert (G : forall h1, length (s_heap (snd (progress_timeouts h1 s))) = length (s_heap s)).
  { intros h1. unfold progress_timeouts. cbn [snd]. apply (fold_record_length (fun _ => false)). }
  destruct (hc_inflight h); [|apply G].
  destruct (hc_cfg h) as [|[c0|] [|[c1|] [|x y]]]; try apply G. reflexivity.
Qed.

Lemma resolve_length h s : length (s_heap (snd (resolve h s))) = length (s_heap s).
Proof.
  unfold resolve. cbn [snd].
  apply (fold_record_length (fun p => match verdict p with Some v => v | None => false end)).
Qed.

Lemma pump_length h s : length (s_heap (snd (pump h s))) = length (s_heap s).
Proof.
  unfold pump.
  destruct (hc_poll h s) as [h1 s1] eqn:E1. destruct (resolve h1 s1) as [h2 s2] eqn:E2.
  destruct (hc_poll h2 s2) as [h3 s3] eqn:E3. destruct (resolve h3 s3) as [h4 s4] eqn:E4.
  destruct (hc_poll h4 s4) as [h5 s5] eqn:E5.
  rewrite resolve_length.
  change s5 with (snd (h5, s5)). rewrite <- E5, poll_length.
  change s4 with (snd (h4, s4)). rewrite <- E4, resolve_length.
  change s3 with (snd (h3, s3)). rewrite <- E3, poll_length.
  change s2 with (snd (h2, s2)). rewrite <- E2, resolve_length.
  change s1 with (snd (h1, s1)). rewrite <- E1, poll_length. reflexivity.
Qed.

Definition checker_ok (sh : state * hc) : Prop :=
  lists_ok (fst sh) /\ NoDup (map probe_key (hc_inflight (snd sh))).

Lemma hstep_ok sh o : checker_ok sh -> checker_ok (hstep sh o).
Proof.
  destruct sh as [s h]. unfold checker_ok. cbn [fst snd]. intros [K N].
  destruct o; cbn [hstep fst snd hc_set_kind hc_set_config hc_inflight].
  - split; [apply op_ok, K|exact N].
  - split; assumption.
  - split; assumption.
  - pose proof (remove_nodup h s c N) as R. unfold hc_remove in *. cbn [fst snd] in *.
    split; [apply (op_ok s (OHealthReset c)), K|exact R].
  - destruct (hc_made h); [|split; assumption].
    pose proof (pump_frame h s) as F. pose proof (pump_length h s) as L.
    pose proof (pump_nodup h s (proj1 (K 0%nat)) (proj1 (K 1%nat)) N) as P.
    destruct (pump h s) as [h' s']. cbn [fst snd] in *.
    split; [|exact P]. eapply keeps_ok; [apply frame_keeps; eassumption|exact K].
Qed.

Lemma hrun_ok ops : checker_ok (hrun ops).
Proof.
  unfold hrun.
  assert (G : forall l sh, checker_ok sh -> checker_ok (fold_left hstep l sh)).
  { induction l as [|o t IH]; intros sh I; cbn [fold_left]; [exact I|]. apply IH, hstep_ok, I. }
  apply G. split; cbn [fst snd].
  - intros c. unfold lists, cget, init. cbn [s_cl s_heap].
    destruct c as [|[|[|c]]]; cbn; (split; [constructor|intros hd []]).
  - constructor.
Qed.

(* ------------------------------------------------------------------ *)
(** * Removal *)

Lemma find_filter_none {A} (f : A -> bool) l : find f (filter (fun x => negb (f x)) l) = None.
Proof.
  induction l as [|x t IH]; [reflexivity|]. cbn [filter]. destruct (f x) eqn:E; cbn [negb]; [exact IH|].
  cbn [find]. rewrite E. exact IH.
Qed.

(** what [remove_backend] does to the lists: in the cluster named, exactly the entries that are the backend
    (id, address) go — every other entry stays, in order; the other cluster and every backend object are untouched *)
Lemma remove_lists s c id a c' :
  lists (fst (remove_backend s c id a)) c' =
  if (c =? c')%nat then filter (fun h => negb (is_backend (s_heap s) id a h)) (lists s c') else lists s c'.
Proof.
  unfold remove_backend. cbn [fst]. rewrite lists_with_cluster. cbn [c_list].
  destruct (c =? c')%nat eqn:E; cbn [andb]; [|reflexivity].
  apply Nat.eqb_eq in E. subst c'. destruct (c <? length (s_cl s))%nat eqn:L; [reflexivity|].
  unfold lists, cget. rewrite nth_overflow by (apply Nat.ltb_ge, L). reflexivity.
Qed.

Lemma remove_heap s c id a : s_heap (fst (remove_backend s c id a)) = s_heap s.
Proof. reflexivity. Qed.

Lemma removed_not_listed s c id a hd :
  b_id (hget (s_heap s) hd) = id -> b_addr (hget (s_heap s) hd) = a ->
  ~ In hd (c_list (cget (fst (remove_backend s c id a)) c)).
Proof.
  intros I A H. change (In hd (lists (fst (remove_backend s c id a)) c)) in H.
  rewrite remove_lists, Nat.eqb_refl in H. apply filter_In in H. destruct H as [_ H].
  unfold is_backend in H. rewrite I, A, !N.eqb_refl in H. discriminate.
Qed.

Lemma remove_keeps_others s c id a hd :
  In hd (lists s c) -> (b_id (hget (s_heap s) hd), b_addr (hget (s_heap s) hd)) <> (id, a) ->
  In hd (lists (fst (remove_backend s c id a)) c).
Proof.
  intros H Hn. rewrite remove_lists, Nat.eqb_refl. apply filter_In. split; [exact H|].
  unfold is_backend. destruct (b_addr (hget (s_heap s) hd) =? a) eqn:E1; [|reflexivity].
  destruct (b_id (hget (s_heap s) hd) =? id) eqn:E2; [|reflexivity].
  apply N.eqb_eq in E1, E2. exfalso. apply Hn. congruence.
Qed.

(** with the keys of a list distinct (an invariant of every history, [hrun_ok] / [op_ok]) at most one entry goes *)
Lemma filter_one_key {A B} (key : A -> B) (p : A -> bool) (k : B) (l : list A) :
  NoDup (map key l) -> (forall x, p x = true -> key x = k) ->
  (length (filter p l) <= 1)%nat.
Proof.
  intros N P. induction l as [|x t IH]; [cbn; lia|]. cbn in N. inversion N; subst. cbn [filter].
  destruct (p x) eqn:E; [|apply IH; exact H2]. cbn [length].
  assert (Z : filter p t = []).
  { destruct (filter p t) as [|y r] eqn:F; [reflexivity|]. exfalso.
    assert (Hy : In y (filter p t)) by (rewrite F; left; reflexivity).
    apply filter_In in Hy. destruct Hy as [Hy1 Hy2]. apply H1. rewrite (P x E), <- (P y Hy2).
    apply in_map. exact Hy1. }
  rewrite Z. cbn. lia.
Qed.

Lemma remove_at_most_one s c id a :
  lists_ok s -> (length (snd (remove_backend s c id a)) <= 1)%nat.
Proof.
  intros K. unfold remove_backend. cbn [snd]. rewrite map_length.
  apply (filter_one_key (bkey s) _ (id, a)); [apply (proj1 (K c))|].
  intros x H. unfold is_backend in H. apply andb_prop in H. destruct H as [H1 H2].
  apply N.eqb_eq in H1, H2. unfold bkey. congruence.
Qed.

Lemma record_result_not_listed s c a v cf hd :
  (hd < length (s_heap s))%nat -> ~ In hd (c_list (cget s c)) ->
  hget (s_heap (record_result s c a v cf)) hd = hget (s_heap s) hd.
Proof.
  intros L H. apply record_result_only_found; [exact L|]. intros F. apply H.
  unfold find_backend in F. apply find_some in F. tauto.
Qed.

Lemma filter_split_length {A} (p : A -> bool) (l : list A) :
  (length (filter p l) + length (filter (fun x => negb (p x)) l) = length l)%nat.
Proof. induction l as [|x t IH]; [reflexivity|]. cbn [filter]. destruct (p x); cbn [negb length]; lia. Qed.
