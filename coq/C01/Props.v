(** C01 — property theorems (proofs in C01/Proofs.v). *)
From Coq Require Import String.
From Coq Require Import List Arith NArith ZArith Bool.
From SV Require Import C01.Model C01.Census C01.Gen C01.Proofs.
Import ListNotations.
Open Scope list_scope.
Open Scope nat_scope.

(** 1. framing_roundtrip: every decoder inverts its encoder, whatever follows on
    the wire, for every body, every chunk cut schedule, every padding schedule
    and every maximum frame size; decoders are functions, so two bodies never
    share an encoding. *)
Theorem framing_roundtrip :
  (forall body rest, cl_decode (fst (cl_encode body)) (snd (cl_encode body) ++ rest) = Some (body, rest)) /\
  (forall cuts body rest, chunked_decode (chunked_encode cuts body ++ rest) = Some (body, rest)) /\
  (forall fuel max pads body, 0 < max -> length body < fuel ->
      h2_deframe (h2_frames fuel max pads body) = Some body /\
      Forall (fun f => length (f_payload f) <= max) (h2_frames fuel max pads body)).
Proof. exact framing_roundtrip_proof. Qed.

(** 1a. byte level: a chunked body written by ANY encoder that follows the grammar
    (hex size line, CR LF, data, CR LF, ..., "0" CR LF CR LF; any chunking, any case or
    leading zeros of the digits) is decoded by [dechunk] — the decoder the correspondence
    run applies to the real bytes — to the concatenation of the chunk data, complete, not
    malformed. *)
Theorem chunked_bytes_roundtrip :
  forall chunks fuel,
    Forall (fun c : list N * list byte =>
              Forall (fun d => (d < 16)%N) (fst c) /\ fst c <> [] /\ snd c <> [] /\
              hex_value 0 (fst c) = N.of_nat (length (snd c))) chunks ->
    length chunks < fuel ->
    dechunk fuel (flat_map (fun c => chunk_bytes (fst c) (snd c)) chunks ++ last_chunk_bytes) =
    (flat_map snd chunks, true, false).
Proof. exact dechunk_roundtrip. Qed.

(** An HTTP/2 upload without content-length that ends with a trailer block (DATA frames, then
    HEADERS with END_STREAM) is written toward an HTTP/1.1 backend — one chunk per non-empty DATA
    frame, the last-chunk line, one line per trailer field, the closing empty line; the bytes
    the in-process tie compares with what the real `pkawa::handle_trailer` and kawa's H1
    converter produce — as a chunked message the strict decoder reads as exactly the
    concatenated payloads, complete, with nothing after its end. *)
Theorem h2_upload_trailers_exact :
  forall frames fields fuel,
    Forall frame_ok frames -> Forall field_ok fields -> length frames < fuel ->
    dechunk fuel (h2_upload_trailers_as_h1 frames true false fields) = (concat frames, true, false).
Proof. exact h2_upload_trailers_exact_proof. Qed.

(** The same message with [end_chunk] set on the end-of-body flags (the empty line written
    before the fields instead of after them) does not end where its bytes end: the trailer
    lines are stray bytes after a complete message. *)
Theorem h2_upload_trailers_end_chunk_refuted :
  forall frames kv fields fuel,
    Forall frame_ok frames -> length frames < fuel ->
    dechunk fuel (h2_upload_trailers_as_h1 frames true true (kv :: fields)) = (concat frames, false, false).
Proof. exact h2_upload_trailers_end_chunk_refuted_proof. Qed.

Theorem framing_injective :
  forall c1 c2 b1 b2, chunked_encode c1 b1 = chunked_encode c2 b2 -> b1 = b2.
Proof. exact framing_injective_proof. Qed.

(** 1b. h2_converter_exact: the DATA path of the H2 block converter (mirror of
    converter.rs, tied in-process to the real converter on every run), for every
    fuel, frame size, window schedule (any sign), chunking of the body and end
    marker: what went out over the rounds followed by what is still queued is
    the body; every frame fits the frame size; a round's window decreases by
    exactly its payload and never crosses zero downwards; END_STREAM only appears
    when the whole body is out and nothing is queued. *)
Theorem h2_converter_exact :
  forall fuel max windows chunks (ended : bool),
    let blocks := map BChunk chunks ++ (if ended then [BEnd] else []) in
    let '(rs, final) := h2_rounds fuel max windows blocks in
    flat_map (fun r => payload_of (fst r)) rs ++ body_of final = List.concat chunks /\
    (forall w blocks',
        let '(fs, _, w') := h2_prepare fuel w max blocks' in
        Forall (fun fr => length (f_payload fr) <= max) fs /\
        (w' = w - Z.of_nat (length (payload_of fs)))%Z /\ ((0 <= w)%Z -> (0 <= w')%Z)) /\
    (forall w cs,
        let '(fs, bl, _) := h2_prepare fuel w max (map BChunk cs ++ [BEnd]) in
        existsb f_end fs = true -> bl = [] /\ payload_of fs = List.concat cs).
Proof. exact h2_converter_exact_proof. Qed.

(** 1c. h2_trailers_after_body: a response that ends with a trailer section (HTTP/1.1 chunked with
    trailers, toward an H2 client; the op h2convt runs the real kawa parser and the real converter on
    such responses): in any prepare — any window, frame size, chunking — the HEADERS frame that carries
    the trailers and END_STREAM comes at most once, as the last frame, only when the whole body is out
    and nothing is queued, and no DATA frame before it carries END_STREAM. *)
Theorem h2_trailers_after_body :
  forall fuel w max cs n,
    n <> 0 ->
    let '(fs, bl, _) := h2_prepare fuel w max (map BChunk cs ++ [BEnd]) in
    let out := h2_out_with_trailers n fs in
    existsb is_trailers out = true ->
    exists body_frames,
      out = map (fun f => OData (f_payload f) false) body_frames ++ [OTrailers n] /\
      payload_of body_frames = List.concat cs /\ bl = [].
Proof. exact h2_trailers_after_body_proof. Qed.

(** 2. relay_prefix: for every buffer capacity and every schedule of ingest /
    convert / flush steps, what has been written so far, followed by what is
    queued, buffered and unread, is the body: the receiver holds a prefix —
    nothing duplicated, reordered or altered. *)
Theorem relay_prefix :
  forall cap body ops,
    let r := relay_run cap (relay_init body) ops in
    r_sent r ++ r_out r ++ r_buf r ++ r_in r = body /\
    exists rest, body = r_sent r ++ rest.
Proof. exact relay_prefix_proof. Qed.

(** 3. relay_complete: after ANY schedule, draining rounds (ingest what fits,
    convert, flush) deliver the whole body, for every capacity > 0. *)
Theorem relay_complete :
  forall cap body ops,
    0 < cap ->
    let r := relay_run cap (relay_init body) ops in
    r_sent (relay_run cap r (rounds cap (length body) (S (length body)))) = body.
Proof. exact relay_complete_proof. Qed.

(** 4. write_loops_symmetric (plain TCP): the looping [socket_write] and the
    caller's loop around the single-shot [socket_write_vectored] compute the
    same (written, status, remaining schedule) for every kernel schedule; the
    cursor never passes the end of the buffer. *)
Theorem write_loops_symmetric :
  forall fuel len sched,
    tcp_write fuel len 0 sched = tcp_writev_loop fuel len 0 sched /\
    (let '(n, _, _) := tcp_write fuel len 0 sched in n <= len).
Proof. exact write_loops_symmetric_proof. Qed.

(** 4b. the two rustls write loops of FrontRustls.  Full symmetry is REFUTED by
    the source itself (kept visible):
      forall fuel len t sched, tls_write fuel len t sched = tls_writev fuel len t sched
    — the vectored loop offers the data to rustls once and returns a partial
    count with status Continue when rustls takes only part of it
    ([write_loops_symmetric_tls_refuted]; replayed on the real FrontRustls by the
    driver's `tls` op).  What both loops do guarantee, for every rustls buffer
    limit and every socket schedule: the count they report is at most what was
    offered, and every reported byte is accounted for exactly once — still in
    rustls' buffer or written to the socket (no loss, no duplication).  The
    remainder of a partial vectored write stays in the caller's kawa and is
    retried because the status is Continue (WRITABLE event kept). *)
Theorem write_loops_tls_conserve :
  forall fuel len t sched,
    (let '(b, _, t', _) := tls_write fuel len t sched in
     b <= len /\ t_pending t' + t_flushed t' = t_pending t + t_flushed t + b) /\
    (let '(b, _, t', _) := tls_writev fuel len t sched in
     b <= len /\ t_pending t' + t_flushed t' = t_pending t + t_flushed t + b).
Proof. exact tls_loops_conserve_proof. Qed.

Theorem write_loops_symmetric_tls_refuted :
  exists fuel len t sched,
    (let '(b, st, _, _) := tls_write fuel len t sched in (b, st)) <>
    (let '(b, st, _, _) := tls_writev fuel len t sched in (b, st)).
Proof. exact tls_loops_not_symmetric_proof. Qed.

(** 5. wake_not_lost: in the readiness model, if every transition that queues
    output arms WRITABLE (interest + event), no schedule of loop turns and
    kernel edges reaches the stall (output queued, socket writable, writer
    not scheduled).  The hypothesis is tied to the code by the census below. *)
Theorem wake_not_lost :
  forall ops,
    Forall (fun o => forall b, o = YQueue b -> b = true) ops ->
    stalled (y_run (mkY false false false true) ops) = false.
Proof. exact wake_not_lost_proof. Qed.

(** without the arming the stall is reachable (the hypothesis is not vacuous) *)
Theorem wake_lost_without_arm :
  exists ops, stalled (y_run (mkY false false false true) ops) = true.
Proof. exact wake_lost_without_arm_proof. Qed.

(** the census of arming / queueing sites regenerated from the source equals the
    committed one, and every entry point that queues output arms *)
Theorem census_unchanged :
  gen_census = committed_census /\
  forallb (fun f => existsb (fun r : census_row =>
                               let '(file, fn, arms, _) := r in
                               (String.eqb file (fst f) && String.eqb fn (snd f) && arms)%bool) gen_census)
          entry_points = true.
Proof. exact census_unchanged_proof. Qed.

Example framing_nonvacuous :
  chunked_encode [2; 0] [1; 2; 3; 4; 5]%N = [CSize 2; CData [1; 2]%N; CSize 3; CData [3; 4; 5]%N; CSize 0; CEnd]
  /\ h2_frames 10 2 [1] [7; 8; 9; 10; 11]%N
     = [mkF [7; 8]%N 1 false; mkF [9; 10]%N 0 false; mkF [11]%N 0 true]
  /\ chunked_decode [CSize 3; CData [1; 2]%N; CSize 0; CEnd] = None
  /\ dechunk 9 [51; 13; 10; 120; 121; 122; 13; 10; 48; 13; 10; 13; 10]%N = ([120; 121; 122]%N, true, false)
  /\ dechunk 9 [51; 13; 10; 120; 121]%N = ([120; 121]%N, false, false)
  /\ dechunk 9 [51; 59; 97; 13; 10; 120]%N = ([], false, true)
  /\ dechunk 9 (h2_upload_as_h1 [[120; 121; 122]%N; []] true true) = ([120; 121; 122]%N, true, false)
  /\ dechunk 9 (h2_upload_as_h1 [[120; 121; 122]%N; []] true false) = ([120; 121; 122]%N, false, false)
  /\ h2_upload_trailers_as_h1 [[120; 121]%N] true false [([97]%N, [98]%N)]
     = [50; 13; 10; 120; 121; 13; 10; 48; 13; 10; 97; 58; 32; 98; 13; 10; 13; 10]%N
  /\ h2_upload_trailers_as_h1 [[120; 121]%N] false false [([97]%N, [98]%N)] = [120; 121]%N
  /\ r_sent (relay_run 2 (relay_init [1; 2; 3]%N) [Ingest 5; Convert 1; Flush 9; Flush 1]) = [1]%N
  /\ h2_prepare 10 5%Z 3 [BChunk [1; 2; 3; 4; 5; 6; 7]%N; BEnd]
     = ([mkF [1; 2; 3]%N 0 false; mkF [4; 5]%N 0 false], [BChunk [6; 7]%N; BEnd], 0%Z)
  /\ h2_prepare 10 50%Z 4 [BChunk [1; 2; 3]%N; BEnd] = ([mkF [1; 2; 3]%N 0 false; mkF [] 0 true], [], 47%Z)
  /\ h2_out_with_trailers 2 (fst (fst (h2_prepare 10 50%Z 4 [BChunk [1; 2; 3]%N; BEnd])))
     = [OData [1; 2; 3]%N false; OTrailers 2]
  /\ tcp_write 100 10 0 [KWrote 3; KWrote 20] = (10, Continue, [])
  /\ tcp_write 100 10 0 [KWrote 3; KWouldBlock] = (3, WouldBlock, []).
Proof. vm_compute. repeat split; reflexivity. Qed.
