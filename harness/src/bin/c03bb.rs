//! C03 / C13 black-box tier: a real worker (own thread, plain HTTP listener), a
//! RECORDING backend that re-parses everything it receives with a strict RFC
//! 9112 reader, and a raw client that sends the case's bytes at the case's
//! segmentation.
//!
//! The property's own oracle (no model involved), per case:
//!   * every byte a backend connection received belongs to a well-formed request
//!     (strict reader), nothing is left over;
//!   * every such request was ROUTED by sozu: it carries exactly one correlation
//!     header (the connection's id, which a request sozu did not parse itself
//!     cannot know) and one X-Request-Id, i.e. the number and boundaries of
//!     the requests the backend sees are those sozu understood;
//!   * C13: the last X-Forwarded-For element is the client's address, Forwarded's
//!     last element is sozu's, X-Forwarded-Proto/Port describe the listener when
//!     the client sent none, and no trailer carries a proxy-owned name;
//!   * the client gets exactly one answer per request the backend saw, plus
//!     sozu's own 4xx for what it refused.
//!
//! input  (argv[1]): the usual case file; ops: `cuts <n>...`, `raw <bytes>`
//! output: `obs` per op + `viol` lines.
use std::{
    io::{Read, Write},
    net::{SocketAddr, TcpListener, TcpStream},
    os::fd::IntoRawFd,
    os::unix::net::UnixStream,
    sync::{Arc, Mutex},
    time::{Duration, Instant},
};

use sozu_command_lib::{
    channel::Channel,
    config::{ConfigBuilder, FileConfig, ListenerBuilder},
    proto::command::{
        request::RequestType, ActivateListener, AddBackend, Cluster, ListenerType, LoadBalancingParams, PathRule,
        Request, RequestHttpFrontend, RulePosition, ServerConfig, SocketAddress, WorkerRequest, WorkerResponse,
    },
    scm_socket::{Listeners, ScmSocket},
    state::ConfigState,
};
use sozu_lib::server::Server;
use verif_harness::*;

#[path = "../recbb.rs"]
mod recbb;
use recbb::*;

// ---------------------------------------------------------------- worker
struct Worker {
    channel: Channel<WorkerRequest, WorkerResponse>,
    n: usize,
}
impl Worker {
    fn send(&mut self, r: RequestType) {
        self.n += 1;
        self.channel
            .write_message(&WorkerRequest { id: format!("ID-{}", self.n), content: Request { request_type: Some(r) } })
            .expect("write to worker");
    }
    fn drain(&mut self) {
        let mut done = 0;
        while done < self.n {
            match self.channel.read_message() {
                Ok(resp) => {
                    if resp.status != 1 {
                        done += 1;
                    }
                }
                Err(e) => panic!("worker channel: {e}"),
            }
        }
    }
}

fn start_worker() -> Worker {
    let config = ConfigBuilder::new(FileConfig::default(), "").into_config().expect("config");
    let sc = ServerConfig::from(&config);
    let (mut main_ch, worker_ch): (Channel<WorkerRequest, WorkerResponse>, Channel<WorkerResponse, WorkerRequest>) =
        Channel::generate(sc.command_buffer_size, sc.max_command_buffer_size).expect("channel");
    let (s1, s2) = UnixStream::pair().unwrap();
    let scm_main = ScmSocket::new(s1.into_raw_fd()).expect("scm");
    let scm_worker = ScmSocket::new(s2.into_raw_fd()).expect("scm");
    scm_main.send_listeners(&Listeners::default()).expect("send listeners");
    std::thread::spawn(move || {
        let _ = sozu_command_lib::logging::setup_logging("file:///dev/null", false, None, None, None, "error", "WRK");
        let mut server =
            Server::try_new_from_config(worker_ch, scm_worker, sc, ConfigState::new().produce_initial_state(), false).expect("worker");
        server.run();
    });
    main_ch.blocking().expect("blocking");
    Worker { channel: main_ch, n: 0 }
}

fn free_addr() -> SocketAddr {
    TcpListener::bind("127.0.0.1:0").unwrap().local_addr().unwrap()
}


fn main() {
    let _ = sozu_command_lib::logging::setup_logging("file:///dev/null", false, None, None, None, "error", "C03BB");
    let path = std::env::args().nth(1).expect("usage: c03bb <cases>");
    let cases = read_cases(&path);

    let back_l = TcpListener::bind("127.0.0.1:0").unwrap();
    let back = back_l.local_addr().unwrap();
    let rec = Arc::new(Mutex::new(Record::default()));
    {
        let rec = rec.clone();
        std::thread::spawn(move || backend(back_l, rec));
    }
    let front = free_addr();
    let mut w = start_worker();
    let fa: SocketAddress = front.into();
    let mut lc = ListenerBuilder::new_http(fa.clone()).to_http(None).expect("listener");
    lc.front_timeout = 5;
    lc.request_timeout = 3;
    lc.back_timeout = 3;
    lc.connect_timeout = 2;
    w.send(RequestType::AddHttpListener(lc));
    w.send(RequestType::ActivateListener(ActivateListener { address: fa.clone(), proxy: ListenerType::Http.into(), from_scm: false }));
    w.send(RequestType::AddCluster(Cluster { cluster_id: "c".into(), ..Default::default() }));
    for host in ["x", "example.com", "a.b"] {
        w.send(RequestType::AddHttpFrontend(RequestHttpFrontend {
            cluster_id: Some("c".into()),
            address: fa.clone(),
            hostname: host.into(),
            path: PathRule::prefix("/".to_string()),
            position: RulePosition::Tree.into(),
            ..Default::default()
        }));
    }
    w.send(RequestType::AddBackend(AddBackend {
        cluster_id: "c".into(),
        backend_id: "c-0".into(),
        address: back.into(),
        load_balancing_parameters: Some(LoadBalancingParams::default()),
        sticky_id: None,
        backup: None,
    }));
    w.drain();

    let mut outw: Box<dyn Write> = match std::env::var_os("VERIF_OUT") {
        Some(p) => Box::new(std::io::BufWriter::new(std::fs::File::create(p).expect("create $VERIF_OUT"))),
        None => Box::new(std::io::stdout()),
    };
    for case in &cases {
        let mut out = Out::default();
        let mut cuts: Vec<usize> = vec![];
        for op in &case.ops {
            match op.name.as_str() {
                "cuts" => {
                    cuts = op.args.iter().map(|t| t.n() as usize).collect();
                    out.obs(&[]);
                }
                "raw" => {
                    let raw = op.args[0].b().to_vec();
                    new_case(&rec);
                    let (answers, statuses) = drive_client(front, &raw, &cuts);
                    // give the backend threads the time to record the tail
                    std::thread::sleep(Duration::from_millis(30));
                    let r = take_case(&rec);
                    out.obs(&[ts("seen"), tn(r.requests.len()), ts("answers"), tn(answers)]);
                    judge(&r, front, &statuses, &mut out);
                }
                _ => out.obs(&[ts("badop")]),
            }
        }
        writeln!(outw, "case {}", case.id).unwrap();
        for l in &out.lines {
            writeln!(outw, "{l}").unwrap();
        }
        writeln!(outw, "end").unwrap();
    }
    outw.flush().unwrap();
    std::process::exit(0);
}

/// Sends `raw` at the given cuts; reads answers until the connection is quiet or closed.
/// -> (number of status lines received, their codes)
fn drive_client(front: SocketAddr, raw: &[u8], cuts: &[usize]) -> (usize, Vec<u16>) {
    let Ok(mut c) = TcpStream::connect(front) else { return (0, vec![]) };
    let _ = c.set_nodelay(true);
    let mut cs: Vec<usize> = cuts.iter().copied().filter(|x| *x > 0 && *x < raw.len()).collect();
    cs.sort();
    cs.dedup();
    cs.push(raw.len());
    let mut pos = 0;
    for x in cs {
        if c.write_all(&raw[pos..x]).is_err() {
            break;
        }
        pos = x;
        std::thread::sleep(Duration::from_millis(3));
    }
    let mut acc: Vec<u8> = vec![];
    let mut buf = [0u8; 8192];
    let _ = c.set_read_timeout(Some(Duration::from_millis(250)));
    let t0 = Instant::now();
    while t0.elapsed() < Duration::from_secs(4) {
        match c.read(&mut buf) {
            Ok(0) => break,
            Ok(n) => acc.extend_from_slice(&buf[..n]),
            Err(_) => break, // quiet for 250 ms
        }
    }
    let mut codes = vec![];
    let mut i = 0;
    while let Some(p) = acc[i..].windows(9).position(|w| w == b"HTTP/1.1 ") {
        let at = i + p;
        if at == 0 || acc[at - 1] == b'\n' || acc[at - 1] == b'k' {
            if let Some(code) = acc.get(at + 9..at + 12).and_then(|b| std::str::from_utf8(b).ok()).and_then(|s| s.parse::<u16>().ok()) {
                codes.push(code);
            }
        }
        i = at + 9;
    }
    (codes.len(), codes)
}
