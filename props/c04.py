"""C04 — routing depends only on the configured frontends, by documented precedence."""
import os, re, subprocess, tempfile
import vlib
from vlib import Case

ID = "C04"
COQ_DIRS = ["Common", "C04"]
COQ_TARGETS = ["C04/Props.vo", "C04/Run.vo"]
PROPS_MODULES = ["C04.Props"]
RUN_MODULE = "C04.Run"
RUN_FN = "run_case"
HARNESS_BIN = "c04"
HARNESS_BINS = ["c04", "c04bb"]
SHRINK_KEEP = ("rx", "idna", "probe", "hashost", "permcheck", "tget")
CLAIMED = True
RULE = ("cases: histories of 1-14 add/del of HttpFrontend (position pre/tree/post; hostnames from a colliding pool of "
        "exact, wildcard, '*', nested, regex-segment and malformed names; PREFIX/EQUALS/REGEX paths that are prefixes of "
        "each other; optional method; cluster / deny / redirect / auth policies), pre/post families with 3-8 overlapping rules and removals of first/middle elements, probes (host, path, method) after the "
        "history and between its operations, `hashost` (Router::has_hostname) right after removals, after some adds and over the probed names at the end, then `permcheck` (the implementation is rebuilt from the live tree "
        "frontends in every order for <= 4 of them). Regex answers for every (regex, string) pair of the case are "
        "computed by the real regex crate (c04 --tables) and given to the model as `rx` rows. Non-trivial and distinct: "
        ">= 2 successful adds to the tree, >= 1 successful removal or refused duplicate, and probes with >= 2 distinct "
        "outcomes; distinct by op text.")
ASSUMPTIONS = [
    "regex compilation and matching are oracles (answers of the real regex crate, passed in the case); theorems are quantified over them",
    "idna::domain_to_ascii is an oracle: its answers (real crate, `idna` rows checked by the driver) are applied to the configured hostname ahead of the model, which is faithful for hostnames without '/' (idna keeps '*' and is idempotent there, both checked per row); /regex/ hostnames are generated in lower-case ASCII only. Method::new canonicalisation is not modelled (methods are upper-case tokens)",
    "the children HashMap of TrieNode is modelled as an association list with unique keys (its iteration order is never observed by lookup/insert/remove)",
    "Route::Frontend is observed through RouteResult.{cluster_id, redirect, required_auth} only (no rewrite templates, headers, HSTS)",
    "the listener glue of lib/src/http.rs (add/remove_http_frontend, frontend_from_request) is tied to the Router by the black-box tier only (real worker, real HTTP/1.1 requests answered by per-frontend redirects); https.rs shares the same Router calls and is not exercised",
]
TRUSTED = ["translator props/c04.py:translate reads (by meaning: locals free, comments ignored, named constants resolved) the PartialEq arms of PathRule/DomainRule, the rank numbers and the comparison of the selection loop, de-duplication / retain / own-leaf filter, and the trie's refusal, pruning and fall-through sites in lib/src/router/{mod,pattern_trie}.rs; unrecognised constructs fall back on the correspondence run (TRANSLATE_FALLBACK) with Gen.v from props/c04_facts.json; the documentation sentences stay hard"]


def _src(rel):
    return open(os.path.join(vlib.REPO, rel)).read()


TRANSLATE_FALLBACK = ("every source fact read here (other than the documentation sentences) is a behaviour of Router / TrieNode "
                      "that the driver observes: the answers to add/remove and the route of every probe after histories over "
                      "colliding exact, wild-card, regex and malformed hostnames, EQUALS/REGEX/PREFIX rules that are prefixes of "
                      "each other with and without methods, removals of the last rule of a host, duplicates, and the trie API "
                      "itself (insert/remove/lookup/lookup_mut on the same keys); rank numbers, equality arms, the strict `>`, "
                      "de-duplication, retain, own-leaf filter, pruning, fall-through and the refusal of un-storable names were "
                      "each seen to produce model/driver disagreements and oracle violations in the quick batch when changed")
FACTS_SNAPSHOT = os.path.join(os.path.dirname(os.path.abspath(__file__)), "c04_facts.json")


from props import _tutil as TU


def _const(src, tok):
    """a literal, or a named constant of the same file"""
    if re.fullmatch(r"\d+", tok):
        return int(tok)
    m = re.search(r"\bconst\s+%s\s*:\s*\w+\s*=\s*(\d+)\s*;" % re.escape(tok), src)
    return int(m.group(1)) if m else None


def _read_arms(m):
    """which same-variant arms `impl PartialEq for PathRule` has -> (set, hard failures) | (None, []) when the impl
    is not in a form this reader understands (or-patterns are understood; anything left over is not)"""
    pe = re.search(r"impl\s+(?:std::cmp::)?PartialEq\s+for\s+PathRule\s*\{(.*?)\n\}", m, re.S)
    if not pe:
        return None, []
    body = pe.group(1)
    tup = r"\(\s*PathRule::\w+\(\w+\)\s*,\s*PathRule::\w+\(\w+\)\s*\)"
    arm = re.compile(r"((?:%s\s*\|?\s*)+)=>\s*([^,]+)," % tup)
    found = arm.findall(body)
    if not found:
        return None, []          # not a match over pairs of variants at all: another way of writing equality
    hard = []
    if "PathRule::" in arm.sub("", body) or not re.search(r"_\s*=>\s*false", body):
        return set(), ["router/mod.rs: impl PartialEq for PathRule: the match over variant pairs is there but has arms this "
                       "reader does not understand (found but different)"]
    arms = set()
    for pats, rhs in found:
        rhs = rhs.strip()
        for a, x, b, y in re.findall(r"PathRule::(\w+)\((\w+)\)\s*,\s*PathRule::(\w+)\((\w+)\)", pats):
            same = re.fullmatch(r"(\w+)(\.as_str\(\))? == (\w+)(\.as_str\(\))?", rhs)
            if a == b and same and {same.group(1), same.group(3)} == {x, y}:
                arms.add(a)
            else:
                hard.append("router/mod.rs: PathRule equality arm (%s, %s) => %s is not `value == value` of one variant" % (a, b, rhs))
    return arms, hard


def _read_ranks(m):
    """-> dict | None (arms not found at all) ; raises ValueError(text) when found but not a number / constant"""
    pats = (("equals", r"PathRuleResult::Equals\s*=>\s*\(\s*(\w+)\s*,\s*0\s*\)", r"PathRuleResult::Equals\s*=>\s*\("),
            ("regex", r"PathRuleResult::Regex\s*=>\s*\(\s*(\w+)\s*,\s*0\s*\)", r"PathRuleResult::Regex\s*=>\s*\("),
            ("prefix", r"PathRuleResult::Prefix\(\s*(\w+)\s*\)\s*=>\s*\(\s*(\w+)\s*,\s*\1\s*\)", r"PathRuleResult::Prefix\(\s*\w+\s*\)\s*=>\s*\("),
            ("m_equals", r"MethodRuleResult::Equals\s*=>\s*(\w+)\s*,", r"MethodRuleResult::Equals\s*=>\s*\w"),
            ("m_all", r"MethodRuleResult::All\s*=>\s*(\w+)\s*,", r"MethodRuleResult::All\s*=>\s*\w"))
    ranks, missing = {}, 0
    for name, pat, loc in pats:
        mm = re.search(pat, m)
        if not mm:
            if re.search(loc, m):
                raise ValueError("the arm giving the rank of %s is there but is not `(number, 0)` / `(number, size)` / `number`" % name)
            missing += 1
            continue
        v = _const(m, mm.group(mm.lastindex))
        if v is None:
            raise ValueError("the rank of %s is `%s`, which is neither a literal nor a constant of the file" % (name, mm.group(mm.lastindex)))
        ranks[name] = v
    if missing == len(pats):
        return None
    if missing:
        raise ValueError("only some of the five rank arms can be read")
    return ranks


def translate():
    """T-table: the arms of PathRule's PartialEq and the rank numbers of the selection loop are read from the
    source into coq/C04/Gen.v (named constants and or-patterns resolved; comments, local names and layout free).
    The other facts the model mirrors are read where they live (props/_tutil.py): a construct that is found but
    reads otherwise is a hard failure; one that is not found at all is `unreadable:` only for the facts declared
    soft (SOFT_TESTED: a breaking variant in an unrecognisable spelling was seen to exit 1 through the
    correspondence run), Gen.v then coming from the committed snapshot props/c04_facts.json."""
    import json
    fails = []
    try:
        m = TU.strip(_src("lib/src/router/mod.rs"))
        t = TU.strip(_src("lib/src/router/pattern_trie.rs"))
        doc = _src("doc/configure.md")
    except OSError as ex:
        return ["router sources cannot be read: %r" % (ex,)]
    snap = json.load(open(FACTS_SNAPSHOT))
    arms, hard = _read_arms(m)
    fails += hard
    if arms is None:
        fails.append("unreadable: router/mod.rs: impl PartialEq for PathRule is not a match over variant pairs; "
                     "the model assumes the arms %s" % snap["arms"])
        arms = set(snap["arms"])
    try:
        ranks = _read_ranks(m)
    except ValueError as ex:
        fails.append("router/mod.rs: selection loop: %s" % ex)
        ranks = snap["ranks"]
    if ranks is None:
        fails.append("router/mod.rs: the rank arms of the selection loop (PathRuleResult::{Equals,Regex,Prefix}, "
                     "MethodRuleResult::{Equals,All}) are not found; the model assumes %s" % snap["ranks"])
        ranks = snap["ranks"]
    gen = ("(* GENERATED by props/c04.py:translate from lib/src/router/mod.rs -- do not edit *)\n"
           "Definition path_eq_arm_prefix : bool := %s.\nDefinition path_eq_arm_regex : bool := %s.\n"
           "Definition path_eq_arm_equals : bool := %s.\n"
           "Definition rank_equals : nat := %d.\nDefinition rank_regex : nat := %d.\nDefinition rank_prefix : nat := %d.\n"
           "Definition mrank_equals : nat := %d.\nDefinition mrank_all : nat := %d.\n"
           % tuple(["true" if x in arms else "false" for x in ("Prefix", "Regex", "Equals")] +
                   [ranks[k] for k in ("equals", "regex", "prefix", "m_equals", "m_all")]))
    vlib.write_if_changed(os.path.join(vlib.COQ, "C04", "Gen.v"), gen)
    # the documentation is the reference of the spec: nothing observes it, so these stay hard
    for pat, what in DOC_PINS:
        if not re.search(pat, doc, re.S):
            fails.append("doc/configure.md: " + what)
    F = TU.fact
    add, rem = TU.fn_body(m, "add_tree_rule"), TU.fn_body(m, "remove_tree_rule")
    own = r"domain_lookup_mut\([^;{]*?\)\s*\.filter\(\|\(%(W)s, _\)\|\s*%(W)s(\.as_slice\(\))?\s*==\s*&?%(W)s(\.as_bytes\(\))?\)"
    F(fails, add, "router/mod.rs add_tree_rule", "only the leaf stored under the hostname itself is used", r"domain_lookup_mut\(", [own], 1)
    F(fails, rem, "router/mod.rs remove_tree_rule", "only the leaf stored under the hostname itself is used (removal and its debug check)",
      r"domain_lookup_mut\(", [own], 2)
    F(fails, rem, "router/mod.rs remove_tree_rule", "exactly the rules with that (path, method) are dropped", r"\.retain\(",
      [r"\.retain\(\|\(%(W)s, %(W)s, _\)\|\s*%(W)s\s*!=\s*%(W)s\s*\|\|\s*%(W)s\s*!=\s*%(W)s\)",
       r"\.retain\(\|\(%(W)s, %(W)s, _\)\|\s*!\(\s*%(W)s\s*==\s*%(W)s\s*&&\s*%(W)s\s*==\s*%(W)s\s*\)\)"], 1, soft=True)
    F(fails, add, "router/mod.rs add_tree_rule", "a duplicate (path, method) is refused", r"if\s+!\s*%(W)s\s*\.iter\(\)\s*\.any\(",
      [r"if\s+!\s*%(W)s\s*\.iter\(\)\s*\.any\(\|\(%(W)s, %(W)s, _\)\|\s*%(W)s\s*==\s*%(W)s\s*&&\s*%(W)s\s*==\s*%(W)s\)"], 1)
    F(fails, add, "router/mod.rs add_tree_rule", "a hostname the trie refuses answers false", r"domain_insert\(",
      [r"domain_insert\([^;]*?\)\s*==\s*InsertResult::Failed\s*\{[^}]*return false", r"match[^;{]*domain_insert\([^;]*?\{[^}]*InsertResult::Failed\s*=>\s*(\{\s*)?return false"], 1)
    F(fails, m, "router/mod.rs lookup", "the tree is walked accepting wild-cards", r"\.lookup_with_path\(", [r"\.lookup_with_path\(\s*%(W)s\s*,\s*true\s*,"], 1)
    F(fails, m, "router/mod.rs selection", "a rule whose path does not match is skipped", r"PathRuleResult::None\s*=>", [r"PathRuleResult::None\s*=>\s*continue"], 1)
    F(fails, m, "router/mod.rs selection", "a rule whose method does not match is skipped", r"MethodRuleResult::None\s*=>", [r"MethodRuleResult::None\s*=>\s*continue"], 1)
    F(fails, m, "router/mod.rs selection", "a rule replaces the current best only when its rank is strictly greater (first of equals kept)",
      r"%(W)s\.is_none\(\)\s*\|\|", [r"%(W)s\.is_none\(\)\s*\|\|\s*%(W)s\s*>\s*%(W)s\s*\{", r"%(W)s\.is_none\(\)\s*\|\|\s*%(W)s\s*<\s*%(W)s\s*\{"], 1, soft=True)
    # the rank tuple is (kind, prefix length, method), in that order: names followed from their bindings
    k = re.search(r"let\s+\(\s*(%s)\s*,\s*(%s)\s*\)\s*=\s*match\s+%s\.matches\(" % (TU.W, TU.W, TU.W), m)
    mr = re.search(r"let\s+(%s)\s*=\s*match\s+%s\.matches\(" % (TU.W, TU.W), m)
    tp = re.search(r"let\s+%s\s*=\s*\(\s*(%s)\s*,\s*(%s)\s*,\s*(%s)\s*\)\s*;" % (TU.W, TU.W, TU.W, TU.W), m)
    if k and mr and tp:
        if (tp.group(1), tp.group(2), tp.group(3)) != (k.group(1), k.group(2), mr.group(1)):
            fails.append("router/mod.rs selection: the rank tuple is (%s, %s, %s), the model assumes (kind, prefix length, method) = (%s, %s, %s)"
                         % (tp.group(1), tp.group(2), tp.group(3), k.group(1), k.group(2), mr.group(1)))
    else:
        fails.append("unreadable: router/mod.rs selection: the rank tuple (kind, prefix length, method) and the bindings of its components are not found")
    conv = TU.fn_body(m, "convert_regex_domain_rule")
    F(fails, conv, "router/mod.rs convert_regex_domain_rule", "the loop stops (None) when nothing follows the last '.'", r"\bloop\s*\{",
      [r"\bloop\s*\{\s*if\s+%(W)s\s*(==|>=)\s*%(W)s\.len\(\)\s*\{\s*return None"], 1)
    de = re.search(r"impl\s+(?:std::cmp::)?PartialEq\s+for\s+DomainRule\s*\{(.*?)\n\}", m, re.S)
    if not de:
        fails.append("router/mod.rs: impl PartialEq for DomainRule not found (the model compares Any/Wildcard/Exact/Regex variant-wise)")
    elif len(re.findall(r"\(\s*DomainRule::\w+(?:\(\w+\))?\s*,\s*DomainRule::\w+(?:\(\w+\))?\s*\)", de.group(1))) != 4:
        fails.append("router/mod.rs: PartialEq for DomainRule: not exactly the four same-variant arms Any/Wildcard/Exact/Regex")
    if not re.search(r"#\[derive\([^)]*PartialEq[^)]*\)\]\s*pub struct MethodRule", m):
        fails.append("router/mod.rs: MethodRule is not seen to derive PartialEq")
    # ---- the trie
    ins, insr, remr = TU.fn_body(t, "insert"), TU.fn_body(t, "insert_recursive"), TU.fn_body(t, "remove_recursive")
    F(fails, t, "pattern_trie.rs remove_recursive", "a regex subtree emptied by a removal is pruned, and only an EMPTY one (both sites)",
      r"regexps\s*\.retain\(", [r"regexps\s*\.retain\(\|\(%(W)s, %(W)s\)\|\s*\{?\s*%(W)s\.as_str\(\)\s*!=\s*%(W)s\s*\|\|\s*!%(W)s\.is_empty\(\)\s*\}?\s*\)"], 2, soft=True)
    F(fails, remr, "pattern_trie.rs remove_recursive", "removing a leftmost-regex host clears only that host's value",
      r"%(W)s\.1\.key_value\s*=\s*None", [r"key_value\.is_some\(\)\s*\{\s*%(W)s\.1\.key_value\s*=\s*None"], 1)
    F(fails, remr, "pattern_trie.rs remove_recursive", "a child emptied by the removal is pruned", r"self\.children\.remove\(",
      [r"if\s+%(W)s\.is_empty\(\)\s*\{\s*self\.children\.remove\(%(W)s\)",
       r"let\s+(%(W)s)\s*=\s*%(W)s\.is_empty\(\);\s*if\s+\1\s*\{\s*self\.children\.remove\(%(W)s\)"], 1)
    F(fails, insr, "pattern_trie.rs insert_recursive", "a leftmost-regex host on an existing value-less regex node stores its value (Ok), Existing otherwise",
      r"%(W)s\.1\.key_value\s*=\s*Some\(", [r"key_value\.is_some\(\)\s*\{\s*return InsertResult::Existing;?\s*\}\s*else\s*\{\s*%(W)s\.1\.key_value\s*=\s*Some\(\(%(W)s\.to_vec\(\),\s*%(W)s\)\);\s*return InsertResult::Ok"], 1)
    F(fails, insr, "pattern_trie.rs insert_recursive", "an empty label is refused", r"^\s*(assert|if)",
      [r"^\s*if\s+%(W)s\.is_empty\(\)\s*\{\s*return InsertResult::Failed"], 1)
    F(fails, ins, "pattern_trie.rs insert", "a failed recursion answers Failed (no assertion)", r"insert_recursive\(",
      [r"insert_recursive\([^;]*;\s*if\s+%(W)s\s*==\s*InsertResult::Failed\s*\{\s*return InsertResult::Failed",
       r"insert_recursive\([^;]*;\s*if let InsertResult::Failed = %(W)s\s*\{\s*return InsertResult::Failed",
       r"insert_recursive\([^;]*;\s*if matches!\(%(W)s, InsertResult::Failed\)\s*\{\s*return InsertResult::Failed"], 1)
    # both lookups (with and without the capture trace; the resolver and has_hostname use the second)
    for fn in ("lookup_with_path", "lookup"):
        b = TU.fn_body(t, fn)
        wh = "pattern_trie.rs " + fn
        F(fails, b, wh, "falls through to the wild-card / regexes when the literal child yields nothing", r"self\.children\.get\(",
          [r"if let Some\(%(W)s\) = self\.children\.get\(%(W)s\)\s*\{\s*if let Some\(%(W)s\) = %(W)s\." + fn + r"\([^;]*?\)\s*\{\s*return Some\(%(W)s\)"], 1, soft=(fn == "lookup_with_path"))
        F(fails, b, wh, "tries the next matching regex when one yields nothing", r"\.is_match\(",
          [r"\.is_match\(%(W)s\)\s*\{(?:(?!\.is_match\().)*?if let Some\(%(W)s\) = %(W)s\." + fn + r"\([^;]*?\)\s*\{\s*return Some\(%(W)s\)"], 1)
        if b is not None:
            cj = TU.conjuncts(b, "self.wildcard.is_some()")
            if not cj:
                fails.append("%s: the wild-card test (an `if` on self.wildcard.is_some()) is not found" % wh)
            for c in cj:
                rest = c - {"self.wildcard.is_some()", "accept_wildcard"}
                if not ({"self.wildcard.is_some()", "accept_wildcard"} <= c and len(rest) == 1 and re.fullmatch(r"%s\.is_empty\(\)" % TU.W, next(iter(rest)))):
                    fails.append("%s: the wild-card applies when %s; the model assumes: leftmost label only (prefix.is_empty()), a wild-card stored, wild-cards accepted" % (wh, sorted(c)))
    return fails


# facts declared soft above, and the breaking variant in an unrecognisable spelling that was seen to exit 1 through
# the correspondence run (harmless/C04_*_unreadable_changed.diff)
SOFT_TESTED = ["PathRule equality arms", "strict rank comparison", "remove_tree_rule retain", "regex subtree pruning",
               "lookup_with_path fall-through"]

# the documented precedence the spec (is_best / documented_choice) formalises
DOC_PINS = [
    (r"1\. `path_type = \"EQUALS\"` — exact match wins first\.\s*2\. `path_type = \"REGEX\"`.*?3\. `path_type = \"PREFIX\"` — fall-through default\. Longest prefix wins among\s*PREFIX rules\.",
     "the precedence list EQUALS, REGEX, PREFIX (longest) changed: the spec must be revisited"),
    (r"\*\*Configuration order does not affect routing\*\*", "the order-independence promise is gone"),
    (r"multiple\s+regex rules competing on the same authority produce undefined ordering", "regex-vs-regex is no longer documented as undefined"),
]
# ---------------------------------------------------------------------------
# pools

PLAIN_HOSTS = [b"a.com", b"x.a.com", b"*.a.com", b"b.com", b"*", b"*.com", b"y.x.a.com", b"*.x.a.com", b"com"]
REGEX_HOSTS = [b"/x[0-9]/.a.com", b"w./[a-z]+/.a.com", b"/[a-z]+/.a.com", b"/x.*/.a.com", b"v./x[0-9]/.a.com", b"/.*/"]
BAD_HOSTS = [b"abc/", b"/x/.", b".com", b"a*.com", b"", b"./x/.com", b"/[/.a.com", b"a/b.com", b"x/.a.com", b".", b"a..com"]
# hostnames on which idna::domain_to_ascii is not the identity (U-labels, capitals, odd punycode); the real crate
# answers (rows added by `c04 --tables`)
IDN_HOSTS = ["bücher.a.com".encode(), "*.bücher.a.com".encode(), b"xn--bcher-kva.a.com", b"A.com", b"X.A.COM",
             "münchen.a.com".encode(), b"xn--a.com", "a\u200d.com".encode()]
IDN_PROBES = [b"xn--bcher-kva.a.com", b"w.xn--bcher-kva.a.com", b"xn--mnchen-3ya.a.com", "bücher.a.com".encode()]
PATHS = [(0, b"/"), (0, b"/a"), (0, b"/a/b"), (0, b""), (2, b"/a"), (2, b"/a/b"), (2, b"/"),
         (1, b"^/a.*"), (1, b"/[0-9]+"), (1, b"/a/b$")]
BAD_PATHS = [(1, b"("), (7, b"/a"), (1, b"a(?!b)")]
METHODS = [None, None, b"GET", b"POST"]
PROBE_HOSTS = [b"a.com", b"x.a.com", b"x1.a.com", b"w.xyz.a.com", b"b.com", b"c.org", b"localhost", b"y.x.a.com",
               b"zz.a.com", b"v.x1.a.com", b"com"]
ODD_PROBE_HOSTS = [b".a.com", b"", b"a.com.", b"x..a.com", b"*.a.com", b"abc/"]
PROBE_PATHS = [b"/", b"/a", b"/a/b", b"/a/b/c", b"/ab", b"/12", b""]
PROBE_METHODS = [b"GET", b"POST", b"PUT"]
POLICIES = ["cluster"] * 6 + ["deny", "redirect", "auth", "fwd_nocluster", "red9", "unauth"]


def front(ident_ids, pos, host, kind, pval, method, policy):
    key = (pos, host, kind, pval, method)
    cid = ident_ids.setdefault(key, len(ident_ids))
    c = b"c%d" % cid
    hasc, red, auth = 1, -1, -1
    if policy == "deny":
        hasc = 0
    elif policy == "redirect":
        red = 1
    elif policy == "auth":
        auth = 1
    elif policy == "fwd_nocluster":
        hasc, red = 0, 0
    elif policy == "red9":
        red = 9
    elif policy == "unauth":
        red = 2
    return [pos, host, kind, pval, 1 if method is not None else 0, method or b"", hasc, c if hasc else b"", red, auth]


def history_case(rng, cid, family):
    ids = {}
    hosts = list(PLAIN_HOSTS)
    if family == "regex":
        hosts = PLAIN_HOSTS[:4] + REGEX_HOSTS + [b"v.xyz.a.com", b"q.x1.a.com", b"xyz.a.com"]   # literal siblings of the regex hosts
    elif family == "idn":
        hosts = PLAIN_HOSTS[:3] + IDN_HOSTS
    elif family == "bad":
        hosts = PLAIN_HOSTS[:3] + BAD_HOSTS + REGEX_HOSTS[:1]
    # a small colliding sub-pool per case
    hs = rng.sample(hosts, min(len(hosts), rng.randint(2, 4) if family != "regex" else rng.randint(3, 6)))
    ps = rng.sample(PATHS, rng.randint(2, 5))
    if family == "bad" and rng.random() < 0.5:
        ps.append(rng.choice(BAD_PATHS))
    ms = rng.sample(METHODS, rng.randint(1, 3))
    treeish = rng.random()
    ops, added = [], []
    probes_h = rng.sample(PROBE_HOSTS, rng.randint(3, 6)) + [h for h in hs if b"*" not in h and b"/" not in h][:2]
    if family == "idn":
        probes_h += IDN_PROBES
    if rng.random() < 0.2 or family == "bad":
        probes_h += rng.sample(ODD_PROBE_HOSTS, 2)
    probes_p = rng.sample(PROBE_PATHS, rng.randint(3, 5))
    probes_m = rng.sample(PROBE_METHODS, rng.randint(1, 2))

    def some_probes(k):
        out = []
        for _ in range(k):
            out.append(["probe", rng.choice(probes_h), rng.choice(probes_p), rng.choice(probes_m)])
        return out

    for _ in range(rng.randint(1, 14)):
        r = rng.random()
        if r < 0.68 or not added:
            pos = 2 if rng.random() < (0.8 if treeish < 0.7 else 0.4) else rng.choice([0, 1])
            host = rng.choice(hs)
            if pos != 2 and family == "plain" and rng.random() < 0.15:
                host = rng.choice(REGEX_HOSTS[:2])       # regex DomainRule in pre/post
            kind, pval = rng.choice(ps)
            f = front(ids, pos, host, kind, pval, rng.choice(ms), rng.choice(POLICIES))
            ops.append(["add"] + f)
            added.append(f)
        elif r < 0.93:
            f = rng.choice(added)
            ops.append(["del"] + f)
        else:
            # removal of something never added
            kind, pval = rng.choice(ps)
            ops.append(["del"] + front(ids, rng.choice([0, 1, 2, 2]), rng.choice(hs), kind, pval, rng.choice(ms), "cluster"))
        if rng.random() < 0.3:
            ops += some_probes(2)
    allp = [["probe", h, p, m] for h in probes_h for p in probes_p for m in probes_m]
    rng.shuffle(allp)
    ops += allp[:rng.randint(8, 30)]
    ops.append(["permcheck"])
    return Case(cid, ops, dict(family=family))


FLAT_HOSTS = [b"*", b"*.a.com", b"a.com", b"x.a.com", b"/x[0-9]/.a.com", b"*.com", b"/.*/.a.com"]
FLAT_PATHS = [(0, b"/"), (0, b"/a"), (0, b"/a/b"), (0, b""), (2, b"/a"), (1, b"^/a.*"), (0, b"/a/b/c")]
FLAT_PROBE_HOSTS = [b"a.com", b"x.a.com", b"x1.a.com", b"q.a.com", b"b.com"]


def flat_case(rng, cid):
    """pre / post rules: 3-8 rules on overlapping hosts and paths (cluster / deny / redirect policies), removals of
    first and middle elements, every probe after every removal (so that >= 2 remaining rules match it)"""
    ids = {}
    pos_pool = rng.choice([[0], [1], [0, 1], [0, 0, 1, 2]])
    rules = []
    ops = []
    for _ in range(rng.randint(3, 8)):
        pos = rng.choice(pos_pool)
        kind, pval = rng.choice(FLAT_PATHS)
        host = rng.choice(FLAT_HOSTS if pos != 2 else PLAIN_HOSTS[:4])
        f = front(ids, pos, host, kind, pval, rng.choice([None, None, None, b"GET"]),
                  rng.choice(["cluster", "cluster", "deny", "redirect", "unauth", "auth"]))
        ops.append(["add"] + f)
        rules.append(f)
    probes = [["probe", h, p, m] for h in FLAT_PROBE_HOSTS for p in (b"/a/b/c", b"/a", b"/") for m in (b"GET", b"POST")]
    rng.shuffle(probes)
    probes = probes[:rng.randint(8, 16)]
    ops += probes
    for _ in range(rng.randint(1, 4)):
        if not rules:
            break
        # first or middle element rather than the last one
        i = rng.randrange(0, max(1, len(rules) - 1))
        f = rules.pop(i)
        ops.append(["del"] + f)
        ops += probes
        if rng.random() < 0.3:
            ops.append(["add"] + f)          # comes back at the END of its list
            rules.append(f)
            ops += probes[:6]
    ops.append(["permcheck"])
    return Case(cid, ops, dict(family="flat"))


def leaf_case(rng, cid):
    """one host, many path/method rules: the selection loop"""
    ids = {}
    host = rng.choice([b"a.com", b"*.a.com"])
    rules = [(k, v, m) for (k, v) in PATHS for m in (None, b"GET", b"POST")]
    pick = rng.sample(rules, rng.randint(2, 4))
    ops = []
    for (k, v, m) in pick:
        ops.append(["add"] + front(ids, 2, host, k, v, m, "cluster"))
    if rng.random() < 0.5:
        (k, v, m) = rng.choice(pick)
        ops.append(["del"] + front(ids, 2, host, k, v, m, "cluster"))
        if rng.random() < 0.5:
            ops.append(["add"] + front(ids, 2, host, k, v, m, "cluster"))
    h = b"a.com" if host == b"a.com" else b"q.a.com"
    for p in PROBE_PATHS:
        for m in (b"GET", b"POST", b"PUT"):
            ops.append(["probe", h, p, m])
    ops.append(["permcheck"])
    return Case(cid, ops, dict(family="leaf"))


TRIE_KEYS = PLAIN_HOSTS + REGEX_HOSTS + BAD_HOSTS + [b"a.b.c.com", b"*.b.c.com", b"/x[0-9]/.b.c.com", b"q./x[0-9]/.b.c.com",
                                                     b"/x.*/.com", b"x1.com", b"a.com.", b"*.*.com", b"**", b"/x/", b"a./x/"]
TRIE_PROBES = PROBE_HOSTS + ODD_PROBE_HOSTS + [b"x1.b.c.com", b"q.x1.b.c.com", b"z.b.c.com", b"x1.com", b"x", b"a.x", b"*", b"*.com"]


def trie_case(rng, cid):
    """the TrieNode API directly: insert / remove / lookup / lookup_mut over colliding keys"""
    keys = rng.sample(TRIE_KEYS, rng.randint(3, 7))
    ops = []
    n = 0
    for _ in range(rng.randint(4, 24)):
        r = rng.random()
        if r < 0.4:
            n += 1
            ops.append(["tins", rng.choice(keys), n])
        elif r < 0.6:
            ops.append(["trem", rng.choice(keys)])
        elif r < 0.75:
            ops.append(["tmut", rng.choice(keys + TRIE_PROBES[:6]), rng.choice([0, 1])])
        else:
            ops.append(["tget", rng.choice(TRIE_PROBES + keys), rng.choice([0, 1, 1])])
    for k in keys:
        ops.append(["tmut", k, 0])
    for pb in rng.sample(TRIE_PROBES, 8):
        ops.append(["tget", pb, 1])
    return Case(cid, ops, dict(family="trie"))


def regex_pair_case(rng, cid):
    """a leftmost-regex hostname and deeper hostnames on the same regex: they share one regex node of the trie, which
    must survive exactly as long as it holds a value or a deeper host"""
    ids = {}
    rx = rng.choice([b"/[a-z]+/.a.com", b"/x.*/.a.com", b"/x[0-9]/.a.com"])
    hosts = [rx, b"w." + rx, b"v." + rx]
    ops, added = [], []
    for h in rng.sample(hosts, rng.randint(2, 3)):
        for _ in range(rng.randint(1, 2)):
            kind, pval = rng.choice(PATHS[:4])
            f = front(ids, 2, h, kind, pval, None, "cluster")
            ops.append(["add"] + f)
            added.append(f)
    probes = [["probe", h, p, b"GET"] for h in (b"xyz.a.com", b"x1.a.com", b"w.xyz.a.com", b"w.x1.a.com", b"v.xyz.a.com", b"v.x1.a.com") for p in (b"/", b"/a/b")]
    ops += probes
    rng.shuffle(added)
    for f in added[:rng.randint(1, len(added))]:
        ops.append(["del"] + f)
        ops += probes
    ops.append(["permcheck"])
    return Case(cid, ops, dict(family="regexpair"))


def with_tables(cases):
    """complete the cases with their rx rows, computed by the real regex crate"""
    if not cases:
        return cases
    binp = vlib.harness_path(HARNESS_BIN)
    d = os.path.join(vlib.BUILD, "run", ID)
    os.makedirs(d, exist_ok=True)
    fd, inp = tempfile.mkstemp(prefix="tab_in_", dir=d)
    os.close(fd)
    outp = inp + ".out"
    try:
        with open(inp, "w") as f:
            for c in cases:
                f.write(c.text())
        subprocess.run([binp, "--tables", inp, outp], check=True, timeout=600)
        done = vlib.parse_cases(open(outp).read())
    finally:
        for p in (inp, outp):
            try:
                os.remove(p)
            except OSError:
                pass
    for c, dcase in zip(cases, done):
        c.ops = dcase.ops
    return cases


def with_hashost(rng, c):
    """Router::has_hostname is asked by the listeners right after a removal, about the removed frontend's name:
    ask it there (and, at the end, about the probed names), for names as configured (Unicode included)"""
    ops = []
    for op in c.ops:
        ops.append(op)
        if op[0] == "del" and rng.random() < 0.8:
            ops.append(["hashost", op[2]])
        elif op[0] == "add" and rng.random() < 0.15:
            ops.append(["hashost", op[2]])
    hosts = sorted({op[1] for op in c.ops if op[0] == "probe"})
    rng.shuffle(hosts)
    tail = [["hashost", h] for h in hosts[:4]]
    pos = next((i for i, op in enumerate(ops) if op[0] == "permcheck"), len(ops))
    ops[pos:pos] = tail
    c.ops = ops
    return c


def gen_cases(rng, tier):
    n = {"quick": 1800, "thorough": 40000, "search": 12000}.get(tier, 1800)
    out = []
    for i in range(n):
        r = i % 10
        if r < 3:
            out.append(history_case(rng, "p%d" % i, "plain"))
        elif r < 4:
            out.append(flat_case(rng, "f%d" % i))
        elif r < 6:
            out.append(leaf_case(rng, "l%d" % i))
        elif r < 7:
            if i % 40 == 6:
                out.append(regex_pair_case(rng, "q%d" % i))
            else:
                out.append(history_case(rng, ("r%d" if i % 20 < 10 else "i%d") % i, "regex" if i % 20 < 10 else "idn"))
        elif r < 8:
            out.append(trie_case(rng, "t%d" % i))
        else:
            out.append(history_case(rng, "b%d" % i, "bad"))
    out = [c if c.id.startswith("t") else with_hashost(rng, c) for c in out]
    return with_tables(out)


def extra_stage(tier, rng, work):
    """black-box tier: the same histories through a real worker (AddHttpFrontend / RemoveHttpFrontend on the command
    channel) and real HTTP/1.1 requests; every frontend redirects to a host naming it, so the answer tells which
    frontend served"""
    n = {"quick": 60, "thorough": 1500}.get(tier, 60)
    gen = []
    for i in range(n):
        r = i % 6
        if r < 2:
            gen.append(history_case(rng, "bbp%d" % i, "plain"))
        elif r == 2:
            gen.append(flat_case(rng, "bbf%d" % i))
        elif r == 3:
            gen.append(leaf_case(rng, "bbl%d" % i))
        elif r == 4:
            gen.append(history_case(rng, "bbr%d" % i, "regex"))
        elif i % 12 == 5:
            gen.append(history_case(rng, "bbi%d" % i, "idn"))
        else:
            gen.append(history_case(rng, "bbb%d" % i, "bad"))
    for c in gen:                          # the request host is case-insensitive: repeat some probes in capitals
        ups = [["probe", op[1].upper(), op[2], op[3]] for op in c.ops if op[0] == "probe" and op[1] != op[1].upper()][:4]
        pos = max(i for i, op in enumerate(c.ops) if op[0] == "probe") + 1 if any(op[0] == "probe" for op in c.ops) else len(c.ops)
        c.ops[pos:pos] = ups
    cases = corpus_cases() + gen          # rx rows are not needed: the driver compares with the real Router
    outs, problems = vlib.run_harness("c04bb", cases, os.path.join(work, "bb"), "release", shards=4, timeout=1800)
    viols, requests, missing = [], 0, 0
    for c in cases:
        o = outs.get(c.id)
        if o is None or o["panic"] is not None:
            missing += 1
            viols.append((c, "blackbox-crash", "the black-box driver did not finish the case: %s" % (o["panic"] if o else "no output")))
            continue
        if any(nn.startswith("invalid-case") for nn in o["notes"]):
            missing += 1
            continue
        requests += sum(1 for ob in o["obs"] if ob and isinstance(ob[0], int))
        for (vc, vt) in o["viol"]:
            viols.append((c, vc, vt))
    fails = list(problems)
    if missing > len(cases) // 4:
        fails.append("black-box tier: %d of %d cases could not be run" % (missing, len(cases)))
    return dict(failures=fails, viols=viols, coverage=dict(blackbox_cases=len(cases) - missing, blackbox_requests=requests))


def corpus_cases():
    d = os.path.join(vlib.ROOT, "corpus", ID)
    out = []
    if os.path.isdir(d):
        for f in sorted(os.listdir(d)):
            if f.endswith(".case"):
                for c in vlib.parse_cases(open(os.path.join(d, f)).read()):
                    c.id = "k" + c.id
                    out.append(c)
    return out


def nontrivial(case, o):
    if case.tags.get("family") == "flat":
        dels = sum(1 for op, ob in zip(case.ops, o["obs"]) if op[0] == "del" and ob == ["ok"])
        return dels >= 1 and len({tuple(ob) for op, ob in zip(case.ops, o["obs"]) if op[0] == "probe"}) >= 3
    if case.ops and case.ops[-1][0] == "tget":
        outs = {tuple(ob[:1]) for ob in o["obs"]}
        return ("ok",) in outs and ("some",) in outs and ("none",) in outs and any(op[0] == "trem" for op in case.ops)
    adds = rem = 0
    outcomes = set()
    for op, ob in zip(case.ops, o["obs"]):
        if op[0] == "add" and op[1] == 2 and ob == ["ok"]:
            adds += 1
        elif op[0] == "del" and ob == ["ok"]:
            rem += 1
        elif op[0] == "add" and ob[:1] == ["err"]:
            rem += 1
        elif op[0] == "probe":
            outcomes.add(tuple(ob))
    return adds >= 2 and rem >= 1 and len(outcomes) >= 2


LEVEL_TEXT = ("Machine-checked proof (Coq 8.16) over an executable model of Router + TrieNode: refinement of lookup to the "
              "documented precedence on the set of live frontends for every add/remove history, with order-independence, "
              "removed-never-routes and unrelated-change corollaries; the model is tied to lib/src/router on every run by "
              "a construct translator and a differential correspondence run of the real Router against the extracted "
              "model, with the property's own oracle (documented precedence, permutation rebuilds) evaluated on the "
              "implementation.")
LEVEL_NOTE = ("Trusted: Coq kernel; extraction and ocaml/driver.ml for the correspondence only; regex and idna are "
              "oracles; HashMap modelled as association list. The refinement theorems cover plain hostnames and "
              "hostnames whose left-most segment is a regex (regex-vs-regex tie explicit as an at-most-one hypothesis); "
              "hostnames with a regex segment elsewhere or several regex segments are modelled and checked by "
              "correspondence, the driver's oracle and the black-box tier only. unrelated_add_remove_irrelevant holds in the _partial form: the faithful model refutes "
              "the unrestricted sentence (unrelated_refuted: a more specific host leaf without a matching rule hides a "
              "wildcard host). doc/configure.md scopes rule precedence to frontends that share one (address, hostname) "
              "and says lookup is by trie specificity; it does not promise fall-through between hostnames, so the "
              "property's last sentence is read as refined by that precedence and the behaviour is kept as an open, "
              "documented deviation (known finding unrelated-shadow).")
TECHNIQUE = "Rocq/Coq proof over an executable Gallina model + differential correspondence (extracted OCaml vs real crate)"
