(** C08 — one row of the arms table generated from Server::notify,
    Server::notify_proxys and Request::get_destinations. *)
From Coq Require Import List String Bool Arith.

Record arm_row := mkArm {
  a_name : string;        (* RequestType variant *)
  wl_push : bool;         (* Server::notify has an arm for it that answers (push_queue) *)
  wl_falls : bool;        (* ... and control reaches notify_proxys afterwards (no trailing return) *)
  early_push : bool;      (* notify_proxys' first match answers and returns *)
  early_falls : bool;     (* control reaches the proxies after the first match *)
  dests : nat;            (* number of proxies get_destinations names *)
  late_push : nat;        (* push_queue calls in the arm of notify_proxys' last match *)
  special : bool;         (* answered in read_channel_messages_and_notify, never reaches notify *)
}.
