"""C16 — resources return to baseline and admission limits are never exceeded."""
import os, re
import vlib
from vlib import Case

ID = "C16"
COQ_DIRS = ["Common", "C16"]
COQ_TARGETS = ["C16/Props.vo", "C16/Run.vo"]
PROPS_MODULES = ["C16.Props"]
RUN_MODULE = "C16.Run"
RUN_FN = "run_case"
HARNESS_BIN = "c16"
HARNESS_BINS = ["c16", "c16bb"]
SHRINK_KEEP = ("new", "bb", "pool_new")
CLAIMED = True
RULE = ("cases: a SessionManager with max_connections in {0,1,2,3,4,5,10} and a per-(cluster,ip) limit in {0..3}, "
        "then histories over 4 connection tokens x 2 clusters x 3 source IPs of accept (gated on can_accept, then "
        "check_limits + incr), close (untrack_all + decr), gated track with and without a cluster override, runtime "
        "limit changes incl. below the current count and to 0 (clear), slab filling up to the accept threshold, "
        "check_limits, dumps; every history ends by closing every connection; one case in eight is a buffer-pool history "
        "(Pool::with_capacity(min,max) incl. min=0, checkouts and returns of 8 named buffers). Non-trivial and distinct: >=2 connections "
        "accepted and (some (cluster,ip) reached a count >= 2, or a track was refused at the limit, or an accept was "
        "refused at the cap / by the can_accept gate), distinct by op text.")
ASSUMPTIONS = [
    "the call-site disciplines (accept only while can_accept, check_limits before incr; untrack_all then decr on close; cluster_ip_at_limit before track_cluster_ip) are replicated by the driver from Server::{ready,create_sessions,shut_down_sessions_by_frontend_tokens}, ProxySession::close and Router::connect; that every exit path of a real session runs them is checked black-box (thorough tier), not proved",
    "the accept queue, eviction and the zombie check (C16/QModel.v) are private to Server: their model is tied to the code by the translator (the statements it mirrors) and exercised by the black-box storms with / without evict_on_queue_full and the zombie-check configurations, not by an in-process correspondence; select_nth_unstable's choice among equally old entries is left open (the theorems do not depend on it)",
    "the nesting of the two private maps (cluster -> ip -> count, token -> cluster -> ips) is flattened in the model; their sizes are compared through the cfg(sozu_verif) footprint accessor",
    "local metrics drain: only gauges are modelled (Gauge / GaugeAdd through the real Aggregator::receive_metric, label filter by detail level, clear, remove_cluster tombstone, add_cluster, remove_backend, the cluster switch); counts, time histograms and the network drain are not; a clamped underflow is observed through the cfg(sozu_verif) counter next to the error! line (a negative first emission is clamped without being counted, as in the code)",
]
TRUSTED = ["poule::Pool hands out a buffer iff used < capacity (modelled, compared on every pool case)", "translator props/c16.py:translate reads from lib/src/server.rs (comments and assertions stripped, functions by name, constants resolved, either operand order, one-level private helpers / let bindings followed) the check_limits comparison, the numbers of the accept gate 10 + 2*max / 10 reserved, the decr re-enable expression and the saturating untrack; and the accept-queue / eviction / zombie statements mirrored by QModel.v (free local names); every pin is hard: found-but-different and not-found both fail the check"]


# The translator reads FACTS (numbers, operators), not spelling: comments and assertions are stripped, functions are
# found by name, locals / private names are `\w+`, named constants are looked up, `a < b` = `b > a`, and a
# sub-expression may sit in a one-level private helper.  Recognised with another value: hard failure; not
# recognised or not found: hard failure as well (no soft pins in this translator).

import rustmini


def _ws(s):
    return re.sub(r"\s+", " ", s).strip()


def _no_asserts(text):
    """drop assert!/debug_assert*!( ... ) invocations (their comparisons are not the code's decisions)"""
    out, i = [], 0
    for m in re.finditer(r"\b(?:debug_)?assert(?:_eq|_ne)?!\s*\(", text):
        if m.start() < i:
            continue
        out.append(text[i:m.start()])
        try:
            i = rustmini.match_brace(text, m.end() - 1, "(", ")") + 1
        except rustmini.Unrecognised:
            i = m.end()
    out.append(text[i:])
    return "".join(out)


def _body(src, name):
    try:
        return _no_asserts(rustmini.fn_body(src, name)[0])
    except rustmini.Unrecognised:
        return None


def _consts(src):
    return {m.group(1): _ws(m.group(2)) for m in re.finditer(r"\bconst\s+(\w+)\s*:\s*[\w:<>]+\s*=\s*([^;]+);", src)}


def _resolve(text, consts):
    """named integer constants replaced by their values, integer suffixes / separators dropped"""
    for _ in range(3):
        text = re.sub(r"\b(?:Self::)?([A-Z][A-Z0-9_]+)\b", lambda m: consts[m.group(1)] if re.fullmatch(r"\d[\d_]*\w*", consts.get(m.group(1), "")) else m.group(0), text)
    return re.sub(r"\b(\d[\d_]*?)_?(?:usize|u64|u32|i32|i64)\b", r"\1", text).replace("_", "_")


_FLIP = {"<": ">", "<=": ">=", ">": "<", ">=": "<="}


def _cmp(text, A, B):
    op = r"(<=|>=|<|>)"
    m = re.search(r"(?:%s)\s*%s\s*(?:%s)" % (A, op, B), text)
    if m:
        return m.group(1), m.start()
    m = re.search(r"(?:%s)\s*%s\s*(?:%s)" % (B, op, A), text)
    if m:
        return _FLIP[m.group(1)], m.start()
    return None, -1


def _inline_helper(src, expr):
    """`self.helper()` / `Self::helper(self)` replaced by the (single-expression) body of the private helper"""
    def sub(m):
        hb = _body(src, m.group(1))
        return "(" + _ws(hb) + ")" if hb is not None and ";" not in hb and "{" not in hb else m.group(0)
    return re.sub(r"\bself\.(\w+)\(\)", sub, expr)


def _inline_lets(body):
    """`let x = <one-line expression>;` substituted into the rest of the body"""
    pos = 0
    rx = re.compile(r"\blet\s+(\w+)(?:\s*:\s*\w+)?\s*=\s*([^;{}]+);")
    while True:
        m = rx.search(body, pos)
        if not m:
            return body
        name, expr = m.group(1), _ws(m.group(2))
        head, tail = body[:m.end()], body[m.end():]
        body = head + re.sub(r"(?<![\w.])%s\b(?!\s*\()" % re.escape(name), "(" + expr + ")", tail)
        pos = m.end()


def _flat(src, body, consts):
    """a function body with let bindings, one-level helpers and constants substituted, blanks removed and the
    parentheses around atoms dropped: the small expressions below are compared in this form"""
    r = _resolve(_inline_helper(src, _inline_lets(body)), consts)
    r = re.sub(r"\s+", "", r)
    for _ in range(6):
        r = re.sub(r"(?<![\w])\((\d+|\w+|self\.\w+(?:\(\))?)\)", r"\1", r)
    return r


def translate():
    """Every pin of this translator is hard: a construct that is found and is not the modelled one, or that is
    not found, fails the check (no TRANSLATE_FALLBACK)."""
    fails = []
    try:
        sv = rustmini.strip(open(os.path.join(vlib.REPO, "lib/src/server.rs")).read())
    except (OSError, rustmini.Unrecognised) as ex:
        return ["server.rs could not be read: %s" % ex]
    consts = _consts(sv)
    mc = r"self\.max_connections"
    # 1. check_limits refuses at nb_connections >= max_connections
    b = _body(sv, "check_limits")
    op, _ = _cmp(b, r"self\.nb_connections", mc) if b else (None, -1)
    if op is None:
        fails.append("server.rs: check_limits: the test `nb_connections >= max_connections` not found (model: take_in refuses at the cap)")
    elif op != ">=":
        fails.append("server.rs: check_limits refuses when nb_connections %s max_connections (model: >=)" % op)
    # 2. the accept gate: 10 + 2 * max_connections
    b = _body(sv, "accept_slab_threshold")
    r = _flat(sv, b, consts) if b else ""
    m = (re.search(r"(?<![\w.])(?P<a>\d+)\+(?P<b>\d+)\*%s" % mc, r) or re.search(r"(?<![\w.])(?P<a>\d+)\+%s\*(?P<b>\d+)" % mc, r)
         or re.search(r"%s\*(?P<b>\d+)\+(?P<a>\d+)" % mc, r) or re.search(r"(?<![\w.])(?P<b>\d+)\*%s\+(?P<a>\d+)" % mc, r))
    if not m:
        fails.append("server.rs: accept_slab_threshold is not recognised as `10 + 2 * max_connections` (model: gate): " + r[:120])
    elif (int(m.group("a")), int(m.group("b"))) != (10, 2):
        fails.append("server.rs: accept_slab_threshold is %s + %s * max_connections (model: 10 + 2 * max_connections)" % (m.group("a"), m.group("b")))
    # 3. at_capacity: slab.len() >= threshold + not_sessions.saturating_sub(10)
    b = _body(sv, "at_capacity")
    r = _flat(sv, b, consts) if b else ""
    thr = r"(?:self\.accept_slab_threshold\(\)|\w+)"
    budget = r"\(?(?:%s\+\w+\.saturating_sub\((?P<n%%d>\d+)\)|\w+\.saturating_sub\((?P<n%%d>\d+)\)\+%s)\)?" % (thr, thr)
    m = re.search(r"self\.slab\.len\(\)(?P<op><=|>=|<|>)" + budget % (1, 2), r)
    flipped = False
    if not m:
        m = re.search(budget % (1, 2) + r"(?P<op><=|>=|<|>)self\.slab\.len\(\)", r)
        flipped = True
    if not m or "accept_slab_threshold" not in r:
        fails.append("server.rs: at_capacity is not recognised as `slab.len() >= accept_slab_threshold() + not_sessions.saturating_sub(10)` (model: gate_closed): " + r[-160:])
    else:
        op = _FLIP[m.group("op")] if flipped else m.group("op")
        n = m.group("n1") or m.group("n2")
        if op != ">=" or n != "10":
            fails.append("server.rs: at_capacity is slab.len() %s threshold + not_sessions.saturating_sub(%s) (model: >=, 10 reserved entries)" % (op, n))
    # 4. decr re-opens the gate below (max_connections * 90 / 100).max(1)
    b = _body(sv, "decr")
    r = _flat(sv, b, consts) if b else ""
    rhs = r"\(?\(%s\*(?P<p>\d+)/(?P<q>\d+)\)\.max\((?P<c>\d+)\)\)?" % mc
    m = re.search(r"!self\.can_accept&&self\.nb_connections(?P<op><=|<|>=|>)" + rhs, r)
    flipped = False
    if not m:
        m = re.search(r"!self\.can_accept&&" + rhs + r"(?P<op><=|<|>=|>)self\.nb_connections", r)
        flipped = True
    if not m:
        fails.append("server.rs: decr is not recognised as re-enabling can_accept when `!can_accept && nb_connections < (max_connections * 90 / 100).max(1)` (model: resume_threshold): "
                     + (re.search(r"if!?self\.can_accept[^{]*", r) or re.search(r"^.{0,160}", r, re.S)).group(0)[:160])
    else:
        op = _FLIP[m.group("op")] if flipped else m.group("op")
        if (op, m.group("p"), m.group("q"), m.group("c")) != ("<", "90", "100", "1"):
            fails.append("server.rs: decr re-enables can_accept at nb_connections %s (max_connections*%s/%s).max(%s) (model: < (max_connections*90/100).max(1))" % (op, m.group("p"), m.group("q"), m.group("c")))
    # 5. untrack: saturating decrement, the entry is reaped at zero
    b = _body(sv, "untrack_all_cluster_ip")
    m = b and re.search(r"\*\s*(\w+)\s*=\s*\1\s*\.\s*saturating_sub\(\s*(\w+)\s*\)\s*;\s*if\s+\*\s*\1\s*==\s*0\s*\{\s*\w+\.remove\(\)\s*;", _resolve(b, consts))
    if not m:
        fails.append("server.rs: untrack_all_cluster_ip is not recognised as `*count = count.saturating_sub(1); if *count == 0 { inner.remove(); }`")
    elif m.group(2) != "1":
        fails.append("server.rs: untrack_all_cluster_ip decrements by %s (model: 1)" % m.group(2))
    # the statements C16/QModel.v mirrors (accept queue, eviction, zombie check are private to Server), spelled with
    # free local names
    flat = _resolve(_no_asserts(sv), consts)
    for pat, what in [
        (r"self\.accept_queue\s*\.\s*push_back\(", "Server::accept no longer push_back()s the accepted socket"),
        (r"=\s*self\.accept_queue\s*\.\s*pop_back\(\)", "create_sessions no longer pops the queue from the back"),
        (r"if\s+(?:\w+\s*>\s*self\.accept_queue_timeout|self\.accept_queue_timeout\s*<\s*\w+)\s*\{[^{}]*continue\s*;", "create_sessions no longer drops a connection that waited longer than accept_queue_timeout"),
        (r"if\s+!\s*self\.evict_on_queue_full\s*\{\s*break\s*;", "create_sessions no longer stops at the cap when evict_on_queue_full is off"),
        (r"\(\s*self\.sessions\.borrow\(\)\.max_connections\s*/\s*100\s*\)\s*\.\s*max\(\s*1\s*\)", "create_sessions no longer evicts max(1, max_connections/100) sessions"),
        (r"\.\s*select_nth_unstable_by_key\(\s*\w+\s*,\s*\|\s*&\(\s*_\s*,\s*(\w+)\s*\)\s*\|\s*\1\s*\)", "evict_least_active_sessions no longer selects by last_event"),
        (r"\w+\s*-\s*\w+\.borrow\(\)\.last_event\(\)\s*>\s*self\.zombie_check_interval|self\.zombie_check_interval\s*<\s*\w+\s*-\s*\w+\.borrow\(\)\.last_event\(\)", "zombie_check no longer reclaims the sessions idle for longer than the interval"),
    ]:
        if not re.search(pat, flat):
            fails.append("server.rs: " + what + " (model: C16/QModel.v)")
    return fails


def history(rng, cid):
    mx = rng.choice([0, 1, 1, 2, 2, 2, 3, 3, 4, 5, 10])
    lim = rng.choice([0, 1, 1, 2, 2, 3])
    ops = [["new", mx, lim]]
    toks = [0, 1, 2, 3]
    for t in rng.sample(toks, rng.randint(1, 4)):      # an opening burst (a storm above the cap when max is small)
        ops.append(["accept", t])
    for _ in range(rng.randint(6, 40)):
        x = rng.random()
        if x < 0.25:
            ops.append(["accept", rng.choice(toks)])
        elif x < 0.42:
            ops.append(["close", rng.choice(toks)])
        elif x < 0.75:
            ov = rng.random() < 0.15
            c, i = rng.choice([0, 0, 1]), rng.choice([0, 0, 1, 2])
            ops.append(["track", rng.choice(toks), c, i, 1 if ov else 0, rng.choice([0, 1, 2, 3]) if ov else 0])
        elif x < 0.80:
            ops.append(["setlimit", rng.choice([0, 1, 1, 2, 3])])
        elif x < 0.83:
            ops.append(["fill", rng.choice([1, 2, 4, 9, 10, 11, 9 + 2 * mx, 10 + 2 * mx, 11 + 2 * mx])])     # listeners, system entries
        elif x < 0.86:
            ops.append(["backfill", rng.choice([1, 2, 2 * mx - 1, 2 * mx, 2 * mx + 1, 9 + 2 * mx, 10 + 2 * mx])])  # backend tokens
        elif x < 0.88:
            ops.append(["unbackfill", rng.choice([1, 2, 50])])
        elif x < 0.90:
            ops.append(["unfill", rng.choice([1, 2, 50])])
        elif x < 0.94:
            ops.append(["check"])
        else:
            ops.append(["dump"])
    ops.append(["dump"])
    ops.append(["unfill", rng.choice([0, 1000])])
    ops.append(["unbackfill", 1000])
    for t in toks:
        ops.append(["close", t])
    ops.append(["dump"])
    for t in rng.sample(toks, 2):
        ops.append(["accept", t])
    ops.append(["dump"])
    return Case(cid, ops, {})


def pool_history(rng, cid):
    mn, mx = rng.choice([(0, 4), (1, 1), (1, 4), (2, 3), (2, 8), (3, 3), (1, 6)])
    ops = [["pool_new", mn, mx]]
    ids = list(range(8))
    for _ in range(rng.randint(5, 40)):
        if rng.random() < 0.6:
            ops.append(["checkout", rng.choice(ids)])
        else:
            ops.append(["checkin", rng.choice(ids)])
    for i in ids:
        ops.append(["checkin", i])
    ops.append(["checkout", 0])
    return Case(cid, ops, {})


def transition_history(rng, cid):
    """the per-ip limit enabled / raised / lowered / disabled at run time with slots held"""
    ops = [["new", rng.choice([3, 4, 5, 10]), rng.choice([0, 0, 3])]]
    toks = [0, 1, 2, 3]
    for t in toks:
        ops.append(["accept", t])
    c, i = rng.choice([0, 1]), rng.choice([0, 1, 2])
    for _ in range(rng.randint(3, 10)):
        x = rng.random()
        if x < 0.55:
            ops.append(["track", rng.choice(toks), c if rng.random() < 0.8 else 1 - c, i if rng.random() < 0.8 else rng.choice([0, 1, 2]), 0, 0])
        elif x < 0.85:
            ops.append(["setlimit", rng.choice([0, 1, 2, 2, 3])])
        elif x < 0.93:
            t = rng.choice(toks)
            ops += [["close", t], ["accept", t]]
        else:
            ops.append(["dump"])
    ops.append(["dump"])
    for t in toks:
        ops.append(["close", t])
    ops.append(["dump"])
    return Case(cid, ops, {})


def drain_history(rng, cid):
    """gauges of the local metrics drain: paired increments / decrements per slot, the odd unpaired decrement
    (underflow), absolute sets, negative first emissions, clear / remove_cluster with sessions in flight (their late
    decrements), add_cluster, remove_backend, the detail level and the cluster switch changed at run time"""
    ops = []
    if rng.random() < 0.7:
        ops.append(["m_detail", rng.choice([3, 3, 3, 2, 1, 0])])
    out = []                                   # outstanding increments (slot)
    def slot():
        sc = rng.choice([0, 1, 1, 2, 2, 2])
        return [sc, rng.choice([0, 0, 1]), rng.choice([0, 1]), rng.choice([0, 0, 1])]
    for _ in range(rng.randint(6, 40)):
        x = rng.random()
        if x < 0.32:
            sl = slot()
            out.append(sl)
            ops.append(["m_recv"] + sl + [1, rng.choice([1, 1, 1, 2])])
        elif x < 0.60 and out:
            sl = out.pop(rng.randrange(len(out)))
            ops.append(["m_recv"] + sl + [1, -1])
        elif x < 0.68:
            ops.append(["m_recv"] + slot() + [1, rng.choice([-1, -1, -2, -3])])         # unpaired: may underflow
        elif x < 0.75:
            ops.append(["m_recv"] + slot() + [0, rng.choice([0, 1, 5, 2 ** 40])])
        elif x < 0.80:
            ops.append(["m_clear"])
        elif x < 0.86:
            ops.append(["m_rmcluster", rng.choice([0, 0, 1])])
        elif x < 0.90:
            ops.append(["m_addcluster", rng.choice([0, 0, 1])])
        elif x < 0.94:
            ops.append(["m_rmbackend", rng.choice([0, 1]), rng.choice([0, 1])])
        elif x < 0.97:
            ops.append(["m_detail", rng.choice([0, 1, 2, 3, 3])])
        else:
            ops.append(["m_enable", rng.choice([0, 1, 1])])
    for sl in out:                             # the sessions end: their decrements arrive whatever happened meanwhile
        ops.append(["m_recv"] + sl + [1, -1])
    return Case(cid, ops, {})


def gen_cases(rng, tier):
    n = {"quick": 2000, "thorough": 80000, "search": 12000}.get(tier, 2000)
    return [transition_history(rng, "t%d" % i) if i % 8 == 4 else drain_history(rng, "d%d" % i) if i % 8 == 6
            else history(rng, "h%d" % i) if i % 8 else pool_history(rng, "p%d" % i) for i in range(n)]


def corpus_cases():
    d = os.path.join(vlib.ROOT, "corpus", ID)
    out = []
    if os.path.isdir(d):
        for f in sorted(os.listdir(d)):
            if f.endswith(".case"):
                for c in vlib.parse_cases(open(os.path.join(d, f)).read()):
                    c.id = "k" + c.id
                    out.append(c)
    return out


NKINDS = 40       # outcomes of harness/src/bin/c16bb.rs


def extra_stage(tier, rng, work):
    """black-box tier: a real worker thread (HTTP, HTTPS with HTTP/1.1 and HTTP/2, TCP listeners), real sockets, a
    seeded mix of 22 session outcomes (see harness/src/bin/c16bb.rs): complete, keep-alive, client resets, backend
    refusal, backend gone mid-response, idle close, idle until the front timeout / zombie check, WebSocket upgrade
    closed by either side, TLS garbage / abandoned handshake, H2 streams incl. RST_STREAM and client gone mid-stream,
    TCP relays, per-ip limit changed / disabled at run time, storms above max_connections with and without eviction;
    QueryMetrics gauges compared with the idle baseline, per-ip slots free again, no clamped gauge underflow, never
    more than max_connections / the per-ip limit served at once; runs through the `bb` op of the driver"""
    # (seed, max_connections, per-ip limit, rounds, evict_on_queue_full, zombie_check_interval, only-outcomes (k = all), revive)
    if tier == "thorough":
        cfgs = [(rng.randrange(1, 10 ** 6), mx, lim, 40, ev, zo, "k", 1)
                for (mx, lim, ev, zo) in [(1, 0, 0, 0), (1, 1, 0, 0), (2, 0, 0, 0), (2, 1, 1, 0), (2, 2, 0, 3), (3, 1, 0, 0),
                                          (5, 0, 1, 0), (5, 1, 0, 3), (5, 2, 0, 0), (8, 3, 1, 3), (3, 0, 0, 3), (4, 2, 1, 0)]]
        kinds = list(range(NKINDS))
        rng.shuffle(kinds)
        cfgs += [(rng.randrange(1, 10 ** 6), mx, lim, len(part), 0, 0, "k" + "_".join(map(str, part)), 1)
                 for part, (mx, lim) in zip([kinds[0::2], kinds[1::2]], [(4, 1), (6, 0)])]
    else:
        # quick: every outcome once (order seeded), a third each to three workers that differ in max_connections,
        # per-ip limit, eviction and zombie check
        kinds = list(range(NKINDS))
        rng.shuffle(kinds)
        parts = [kinds[0::3], kinds[1::3], kinds[2::3]]
        shape = [(3, 0, 0, 0), (4, 1, 0, 0), (5, 2, 1, 3)]
        cfgs = [(rng.randrange(1, 10 ** 6), mx, lim, len(part), ev, zo, "k" + "_".join(map(str, part)), 0)
                for part, (mx, lim, ev, zo) in zip(parts, shape)]
        cfgs.append((rng.randrange(1, 10 ** 6), 1, 0, 6, 0, 0, "k0_21_2_1_21_16", 0))     # max_connections = 1
    cases = [Case("bb%d_%d_%d" % (i, c[1], c[2]), [["bb"] + list(c)], {}) for i, c in enumerate(cfgs)]
    outs, problems = vlib.run_harness(HARNESS_BIN, cases, os.path.join(work, "bb"), "release", timeout=1200, shards=len(cases))
    viols, fails = [], list(problems)
    done = 0
    for c in cases:
        o = outs.get(c.id)
        if o is None:
            fails.append("black-box case %s produced no output" % c.id)
            continue
        if o["panic"] is not None:
            viols.append((c, "panic", o["panic"]))
        for (vc, vt) in o["viol"]:
            viols.append((c, vc, vt))
        if not any(n.startswith("bb:") or n.startswith("invalid-case") for n in o["notes"]):
            done += 1
        for n in o["notes"]:
            if n.startswith("invalid-case"):
                fails.append("black-box case %s: %s" % (c.id, n))
    return dict(failures=fails, viols=viols, coverage=dict(blackbox_runs=len(cases), blackbox_completed=done,
                blackbox_configs=["seed=%d max_connections=%d per_ip=%d rounds=%d evict=%d zombie=%d only=%s revive=%d" % c for c in cfgs]))


def nontrivial(case, o):
    refused_track = any(op[0] == "track" and ob == [1] for op, ob in zip(case.ops, o["obs"]))
    multi = any(op[0] == "dump" and len(ob) > 12 and max(ob[6:12]) >= 2 for op, ob in zip(case.ops, o["obs"]))
    refused_accept = any(op[0] == "accept" and len(ob) == 4 and ob[1] == 0 for op, ob in zip(case.ops, o["obs"]))
    if case.ops and case.ops[0][0].startswith("m_"):  # drain histories: a gauge reached 2 and an underflow was clamped
        last = [ob for op, ob in zip(case.ops, o["obs"]) if op[0].startswith("m_") and len(ob) == 15]
        return bool(last) and last[-1][-1] >= 1 and any(v >= 2 for ob in last for v in ob[:-1])
    if case.ops and case.ops[0][0] == "pool_new":     # pool histories: the capacity grew and a checkout was refused
        caps = set(ob[-2] for op, ob in zip(case.ops, o["obs"]) if len(ob) >= 3)
        refused = any(op[0] == "checkout" and ob and ob[0] == 0 for op, ob in zip(case.ops, o["obs"]))
        return len(caps) >= 2 and refused
    granted = sum(1 for op, ob in zip(case.ops, o["obs"]) if op[0] == "accept" and len(ob) == 4 and ob[1] == 1)
    return granted >= 2 and (refused_track or multi or refused_accept)


LEVEL_TEXT = ("Machine-checked proof (Coq 8.16) over an executable model of SessionManager: the per-(cluster,ip) count "
              "equals the number of live connections holding the slot in every reachable state (one slot per connection "
              "per cluster, empty maps at idle, no underflow), nb_connections never exceeds max_connections and equals the "
              "number of served connections, the per-IP gate never grants a slot at the limit, accepting resumes when the "
              "load drops (any max_connections >= 1, any number of listeners), every accepted connection is queued, served or "
              "dropped exactly once, eviction takes the least recently active sessions and releases exactly their resources, "
              "the zombie check reclaims exactly the sessions idle beyond the interval, pooled buffers in use equal the checkouts held within capacity and "
              "maximum and a checkout is refused only when the pool is exhausted, a gauge of the local metrics drain driven by paired updates is exact and an underflow stores 0 and is counted, a removed cluster's metric rows stay gone; tied to lib/src/server.rs on every run by a constant translator and a "
              "differential correspondence run of the real SessionManager against the extracted model with the property's "
              "own oracle; thorough tier adds a black-box worker run comparing gauges with the idle baseline.")
LEVEL_NOTE = ("Trusted: Coq kernel; extraction + ocaml/driver.ml for the correspondence only; the call-site disciplines are "
              "replicated in the driver. That every session exit path runs them is black-box evidence, not a theorem: a real "
              "worker driven over HTTP/1, TLS, HTTP/2, WebSocket(S) and TCP with 27 scripted outcomes (resets, refusals, "
              "backend gone mid-response, stalled handshakes / bodies, storms, eviction, zombie check, per-ip limit changed at "
              "run time), gauges + per-backend load counters (snapshot hook) + per-ip slots (token-aware probe) back to the idle "
              "baseline, gauge-underflow counter hook at zero. Accept queue and timers are exercised, not modelled.")
TECHNIQUE = "Rocq/Coq proof over an executable Gallina model + differential correspondence (extracted OCaml vs real crate)"
