"""C12 — traffic only goes to backends that are eligible right now."""
import os, re, subprocess
import vlib
from vlib import Case

ID = "C12"
COQ_DIRS = ["Common", "C12"]
COQ_TARGETS = ["C12/Props.vo", "C12/Run.vo"]
PROPS_MODULES = ["C12.Props"]
RUN_MODULE = "C12.Run"
RUN_FN = "run_case"
HARNESS_BIN = "c12"
HARNESS_BINS = ["c12", "c16bb"]
SHRINK_KEEP = ("ohash", "oscore", "bb")
CLAIMED = True
RULE = ("cases: histories over 2 clusters, 7 addresses, 3 backend ids, 3 sticky ids of add / re-add (same "
        "(address,id): config update) / remove-by-address, health-check results with thresholds 1-3 and health "
        "reset, connection failures (back-off windows of seeded length) / successes / forced down+waiting states, "
        "clock advances, inc/dec/close of connections incl. unmatched decrements and Closing backends, request "
        "counts, policy changes over the six policies (Maglev with prime tables 2..31 and the production size), "
        "interleaved with keyed / unkeyed selections, sticky look-ups, the connect entry points (try_connect, "
        "backend_from_cluster_id, backend_from_sticky_session, with one address the kernel refuses synchronously) "
        "and full state dumps; health-checker histories (c*): the real HealthChecker over scripted backends (200, 503, close, "
        "refuse, hang, half a status line) with the clock aged through the hook, backends removed / re-added with "
        "a probe in flight, configuration removed and set again. Non-trivial and "
        "distinct: >=2 selections with >=2 different candidate lists, one of them reached through a health / "
        "back-off / closing / backup change (a non-default eligibility state), distinct by op text.")
ASSUMPTIONS = [
    "the Maglev permutation hashes of an address and the HRW score of (key,address,weight) are data: read from the real code (cfg(sozu_verif) accessors) by `c12 --oracle`, re-verified by the driver on every case, quantified over in the theorems",
    "Random / PowerOfTwo draws are not modelled: the model returns the set the draw is taken from; the implementation's picks (16 resp. 64 draws) must lie in it (Random) / be exactly it (PowerOfTwo's two candidates)",
    "time: one model second = 100000 real seconds; fail()/succeed()/can_try()/is_down() are the real ones; the random window length fail() draws is checked against its range and replaced (hook) by the case's; a clock advance ages every policy's last_try (hook); Instant::now() jitter (<< 1 model second per case) cannot change an outcome",
    "connect outcomes are environment data: a non-blocking tcp connect to a loopback address answers Ok (EINPROGRESS), to 255.255.255.255 fails synchronously (ENETUNREACH in tcp_v4_connect); the driver re-checks this on every connect",
    "health checker: the real HealthChecker runs on a mio Poll against scripted loopback TCP servers (200, 503, close after accept, refuse, hang after accept, half a status line); its clock is aged by the case's `advance` through the cfg(sozu_verif) hook (started_at of the probes in flight, last_check_time), one model second = 100000 real seconds, so the per-cluster jitter on the interval (0 < jitter < interval/5) is strictly inside one model second (the driver checks this for the case's interval) and a round starts after interval+1 whole model seconds; the strict `elapsed > timeout` is `>=` on whole model seconds because real time has advanced by an instant; a backend that floods the reader (more than MAX_HEALTH_RESPONSE_SIZE, delivered in 256-byte reads per edge-triggered event) is in the model as an immediate failure but left out of the generated cases: when its verdict arrives depends on socket buffering, not on the checker; TLS / h2c probes are not exercised (plain HTTP/1.1 GET only)",
    "LoadMetric::ConnectionTime (PeakEWMA, wall-clock data) is not modelled: with that metric the pick of LeastLoaded / PowerOfTwo is checked for membership in the candidate list only; the 65537-slot production Maglev table is modelled over a binary trie proved equal slot for slot to the list-based rebuild, and compared slot by slot with the real table in dedicated cases (the same rebuild code is compared slot by slot at table sizes 2..31)",
]
TRUSTED = ["translator props/c12.py:translate compares DEFAULT_TABLE_SIZE, DEFAULT_WEIGHT, the max_tries of Backend::new, the bodies of can_open / is_available / the fail-open filter and the statements of ExponentialBackoffPolicy::{fail,can_try} with lib/src/{backends,load_balancing,retry}.rs, and for the health checker the order deadline-before-readiness-gate in progress_checks, the in-flight filter and the jittered-interval test of initiate_checks, and the address look-up / thresholds of record_check_result with lib/src/health_check.rs"]


def _norm(s):
    return re.sub(r"\s+", " ", re.sub(r"//[^\n]*", "", s)).strip()


def _fn_body(src, sig):
    i = src.index(sig)
    j = src.index("{", i)
    depth, k = 0, j
    while True:
        if src[k] == "{":
            depth += 1
        elif src[k] == "}":
            depth -= 1
            if depth == 0:
                return src[j:k + 1]
        k += 1


def translate():
    fails = []
    be = open(os.path.join(vlib.REPO, "lib/src/backends.rs")).read()
    lb = open(os.path.join(vlib.REPO, "lib/src/load_balancing.rs")).read()
    if not re.search(r"DEFAULT_TABLE_SIZE:\s*usize\s*=\s*65537\s*;", lb):
        fails.append("load_balancing.rs: Maglev::DEFAULT_TABLE_SIZE is no longer 65537 (model: prime_65537)")
    if not re.search(r"const DEFAULT_WEIGHT:\s*i32\s*=\s*100\s*;", lb):
        fails.append("load_balancing.rs: DEFAULT_WEIGHT is no longer 100")
    if "retry::ExponentialBackoffPolicy::new(6)" not in be:
        fails.append("backends.rs: Backend::new no longer uses ExponentialBackoffPolicy::new(6)")
    try:
        co = _norm(_fn_body(be, "pub fn can_open(&self) -> bool"))
        want = _norm("""{ if !self.health.is_healthy() { return false; }
            if let Some(action) = self.retry_policy.can_try() {
                self.status == BackendStatus::Normal && action == retry::RetryAction::OKAY
            } else { false } }""")
        if co != want:
            fails.append("backends.rs: Backend::can_open is no longer `healthy && Normal && can_try()==OKAY` as modelled: " + co[:200])
        ia = _norm(_fn_body(be, "pub fn is_available(&self) -> bool"))
        want = _norm("{ self.health.is_healthy() && self.status == BackendStatus::Normal && !self.retry_policy.is_down() }")
        if ia != want:
            fails.append("backends.rs: Backend::is_available changed: " + ia[:200])
    except ValueError as ex:
        fails.append("backends.rs: can_open / is_available not found (%s)" % ex)
    if not re.search(r"owned\.status == BackendStatus::Normal\s*&&\s*matches!\(owned\.retry_policy\.can_try\(\), Some\(retry::RetryAction::OKAY\)\)", be):
        fails.append("backends.rs: the fail-open filter is no longer `Normal && can_try()==OKAY`")
    rt = open(os.path.join(vlib.REPO, "lib/src/retry.rs")).read()
    try:
        imp = rt[rt.index("impl RetryPolicy for ExponentialBackoffPolicy"):]
        fl = _norm(_fn_body(imp, "fn fail(&mut self)"))
        for frag, what in [
            ("if self.last_try.elapsed().lt(&self.wait) { return; }", "fail() no longer returns early inside a window"),
            ("self.last_try = time::Instant::now();", "fail() no longer anchors the window at the failure (last_try = now)"),
            ("self.current_tries = cmp::min(self.current_tries + 1, self.max_tries);", "fail() no longer saturates current_tries at max_tries"),
            ("rng.random_range(1..max_secs)", "fail() no longer draws the window from [1, 2^tries)"),
        ]:
            if _norm(frag) not in fl:
                fails.append("retry.rs: " + what)
        ct = _norm(_fn_body(imp, "fn can_try(&self)"))
        if "self.last_try.elapsed().ge(&self.wait)" not in ct:
            fails.append("retry.rs: can_try() is no longer `last_try.elapsed() >= wait`")
    except ValueError as ex:
        fails.append("retry.rs: fail / can_try not found (%s)" % ex)
    # the health checker (model C12/HModel.v)
    hcs = open(os.path.join(vlib.REPO, "lib/src/health_check.rs")).read()
    try:
        pc = _norm(_fn_body(hcs, "fn progress_checks(&mut self, backends: &Rc<RefCell<BackendMap>>, registry: &Registry)"))
        dl = _norm("if now.duration_since(check.started_at) > check.timeout {")
        gate = _norm("if !ready.contains(&check.token) { continue; }")
        if dl not in pc:
            fails.append("health_check.rs: progress_checks no longer fails a probe when `now - started_at > timeout` (model: timed_out)")
        elif gate in pc and pc.index(gate) < pc.index(dl):
            fails.append("health_check.rs: progress_checks tests the deadline after the readiness gate: a silent backend's probe never ends (model: progress_timeouts needs no readiness)")
    except ValueError as ex:
        fails.append("health_check.rs: progress_checks not found (%s)" % ex)
    n = _norm(hcs)
    for frag, what in [
        ("b.status == crate::backends::BackendStatus::Normal && !self.in_flight.iter().any(|f| { f.cluster_id == *cluster_id && f.backend_id == b.backend_id })",
         "initiate_checks no longer probes exactly the Normal backends without a probe in flight for (cluster, backend id) (model: initiate_cluster)"),
        ("Some(last) => now.duration_since(*last) >= jittered_interval,",
         "initiate_checks no longer starts a round when `now - last >= interval + jitter` (model: h_interval + 1 <= now - last)"),
        ("let Some(backend_ref) = backend_list.find_backend(&address) else {",
         "record_check_result no longer finds the backend through the cluster's list by address (model: record_result)"),
        ("backend.health.record_success(config.healthy_threshold)", "record_check_result no longer applies healthy_threshold to a success"),
        ("backend.health.record_failure(config.unhealthy_threshold)", "record_check_result no longer applies unhealthy_threshold to a failure"),
        ("self.in_flight .retain(|check| check.cluster_id != cluster_id);",
         "remove_cluster no longer drops the cluster's probes in flight (model: hc_remove)"),
    ]:
        if _norm(frag) not in n:
            fails.append("health_check.rs: " + what)
    return fails


# ---------------------------------------------------------------------------

ADDRS = list(range(7))          # 6 is an IPv6 address
CONN_ADDRS = [0, 1, 2, 3, 4, 5, 7]   # 7 refuses a tcp connect synchronously; cases that connect avoid 6
ALL_ADDRS = list(range(8))
IDS = [0, 1, 2]
STICKY = [0, 1, 2]
KEYS = [0, 1, 5, 12345, 2 ** 32 + 7, 2 ** 63 + 11, 2 ** 64 - 1]
WEIGHTS = [None, None, 0, -3, 1, 50, 100, 300]
SIZES = [2, 3, 5, 7, 13, 31]
KINDS = ["rr", "random", "least", "p2c", "hrw", "maglev"]

_ORACLE = {}


def oracle():
    """real hashes / scores for the pools, from `c12 --oracle` (the binary is built before cases are generated)"""
    if _ORACLE:
        return _ORACLE
    exe = vlib.harness_path(HARNESS_BIN)
    os.makedirs(os.path.join(vlib.BUILD, "run", ID), exist_ok=True)
    q = os.path.join(vlib.BUILD, "run", ID, "oracle_%d.txt" % os.getpid())
    with open(q, "w") as f:
        for a in ALL_ADDRS:
            f.write("hash %d\n" % a)
        for k in KEYS:
            for a in ALL_ADDRS:
                for w in set(WEIGHTS):
                    f.write("score %d %d %d %d\n" % (k, a, 0 if w is None else 1, 0 if w is None else w))
    out = subprocess.run([exe, "--oracle", q], capture_output=True, text=True, timeout=120).stdout
    os.remove(q)
    for line in out.splitlines():
        w = line.split()
        if w[0] == "hash":
            _ORACLE[("h", int(w[1]))] = (int(w[2]), int(w[3]))
        elif w[0] == "score":
            _ORACLE[("s", int(w[1]), int(w[2]), None if w[3] == "0" else int(w[4]))] = int(w[5])
    return _ORACLE


def with_oracle(ops):
    """prepend the oracle data the ops need (stripping any stale ones)"""
    ops = [op for op in ops if op[0] not in ("ohash", "oscore")]
    orc = oracle()
    pairs, keys = [], []
    for op in ops:
        if op[0] == "add":
            p = (op[3], None if op[5] == 0 else op[6])
            if p not in pairs:
                pairs.append(p)
        elif op[0] == "select" and op[2] >= 0 and op[2] not in keys:
            keys.append(op[2])
    uses_mag = any(op[0] == "policy" and op[2] == "maglev" for op in ops)
    uses_hrw = any(op[0] == "policy" and op[2] == "hrw" for op in ops)
    pre = []
    if uses_mag:
        for a in sorted(set(p[0] for p in pairs)):
            h = orc[("h", a)]
            pre.append(["ohash", a, h[0], h[1]])
    if uses_hrw:
        for k in keys:
            for (a, w) in pairs:
                pre.append(["oscore", k, a, 0 if w is None else 1, 0 if w is None else w, orc[("s", k, a, w)]])
    return pre + ops


class Gen:
    def __init__(self, rng, conn=False):
        self.rng = rng
        self.conn = conn
        self.addrs = CONN_ADDRS if conn else ADDRS
        self.lists = [[], []]      # per cluster: [(addr, id, handle)]
        self.nh = 0
        self.ops = []
        self.kind = ["random", "random"]
        self.timed = [False, False]

    def add(self, c, a=None, i=None):
        r = self.rng
        if a is None:
            a = r.choice(self.addrs if r.random() < 0.3 else self.addrs[:4])
        if i is None:
            i = r.choice(IDS if r.random() < 0.3 else IDS[:1]) if r.random() < 0.7 else a % 3
        w = r.choice(WEIGHTS)
        st = r.choice(STICKY) if r.random() < 0.5 else -1
        bk = r.choice([0, 0, 0, 1, 1, 2])
        self.ops.append(["add", c, i, a, st, 0 if w is None else 1, 0 if w is None else w, bk])
        if not any(x[0] == a and x[1] == i for x in self.lists[c]):
            self.lists[c].append((a, i, self.nh))
            self.nh += 1

    def remove(self, c):
        r = self.rng
        a = r.choice([x[0] for x in self.lists[c]]) if self.lists[c] and r.random() < 0.8 else r.choice(self.addrs)
        self.ops.append(["remove", c, a])
        self.lists[c] = [x for x in self.lists[c] if x[0] != a]

    def policy(self, c, kind=None):
        r = self.rng
        kind = kind or r.choice(KINDS)
        size = 0
        if kind == "maglev":
            size = r.choice(SIZES)
        self.kind[c] = kind
        m = r.choice([0, 0, 1, 2, 3])      # 2: peak-EWMA connection time (pick checked for membership only), 3: default
        self.timed[c] = m == 2 and kind in ("least", "p2c")
        self.ops.append(["policy", c, kind, m, size])

    def handle(self):
        return self.rng.randrange(self.nh)

    def some_addr(self, c):
        r = self.rng
        return r.choice([x[0] for x in self.lists[c]]) if self.lists[c] and r.random() < 0.85 else r.choice(self.addrs)

    def select(self, c):
        r = self.rng
        keyed = self.kind[c] in ("hrw", "maglev") and r.random() < 0.8 or r.random() < 0.15
        self.ops.append(["select", c, r.choice(KEYS[:4] if r.random() < 0.6 else KEYS) if keyed else -1])

    def step(self, c):
        r = self.rng
        x = r.random()
        if self.conn and r.random() < 0.22:
            # the entry points that select and then connect; only with a policy whose pick is not a random draw
            w = r.choice([1, 1, 2, 3, 5, 8])
            det = self.kind[c] in ("rr", "least", "hrw", "maglev") and not self.timed[c]
            y = r.random()
            if y < 0.4 and self.nh:
                self.ops.append(["connect", self.handle(), w])
            elif y < 0.75 and det:
                self.ops.append(["select_conn", c, w])
            elif det:
                self.ops.append(["sticky_conn", c, r.choice(STICKY), w])
            return
        if x < 0.25:
            self.select(c)
        elif x < 0.33:
            self.add(c)
        elif x < 0.37 and self.lists[c]:
            a, i, _ = r.choice(self.lists[c])      # re-add: config update in place
            self.add(c, a, i)
        elif x < 0.43:
            self.remove(c)
        elif x < 0.53:
            self.ops.append(["health", c, self.some_addr(c), r.choice([0, 0, 0, 1, 1]), r.choice([1, 1, 2, 3])])
        elif x < 0.55:
            self.ops.append(["health_reset", c])
        elif x < 0.63 and self.nh:
            self.ops.append(["fail", self.handle(), r.choice([1, 1, 2, 3, 5, 8, 31])])
        elif x < 0.67 and self.nh:
            self.ops.append(["succeed", self.handle()])
        elif x < 0.69 and self.nh:
            self.ops.append(["force", self.handle(), r.choice([0, 1, 5, 6, 6]), r.choice([0, 0, 2, 10])])
        elif x < 0.75:
            self.ops.append(["advance", r.choice([1, 1, 2, 3, 5, 40])])
        elif x < 0.81 and self.nh:
            self.ops.append(["inc", self.handle()])
        elif x < 0.86 and self.nh:
            self.ops.append(["dec", self.handle()])
        elif x < 0.88:
            self.ops.append(["close", c, self.some_addr(c)])
        elif x < 0.90 and self.nh:
            self.ops.append(["reqs", self.handle(), r.choice([0, 1, 2, 7])])
        elif x < 0.915 and self.nh:
            self.ops.append(["closing", self.handle()])
        elif x < 0.95:
            self.policy(c)
        elif x < 0.98:
            self.ops.append(["sticky", c, r.choice(STICKY)])
        else:
            self.ops.append(["dump"])


def history_case(rng, cid, focus=None):
    g = Gen(rng, conn=rng.random() < 0.5)
    main = rng.choice([0, 0, 0, 1])
    if rng.random() < 0.85:
        g.policy(main, focus)
    for _ in range(rng.randint(1, 5)):
        g.add(main)
    if rng.random() < 0.3:
        g.policy(1 - main)
        g.add(1 - main)
    if focus and g.kind[main] != focus:
        g.policy(main, focus)
    for _ in range(rng.randint(8, 45)):
        c = main if rng.random() < 0.85 else 1 - main
        g.step(c)
        if rng.random() < 0.12:
            g.ops.append(["dump"])
    # end of traffic: every open connection is closed (the driver checks the counters are back to zero)
    g.select(main)
    g.ops.append(["sticky", main, rng.choice(STICKY)])
    g.ops.append(["dump"])
    return Case(cid, with_oracle(g.ops), {})


HC_ADDRS = [10, 11, 12, 13, 14, 15]      # 10..14: scripted servers of the driver, 15: nobody listens


def hc_history(rng, cid):
    """the real HealthChecker over scripted backends: answering 200 / 503, closing, refusing, hanging
    after accept, sending half a status line; probes started, deduplicated, timed out, thresholds crossed, backends
    removed / re-added with a probe in flight, the configuration removed and set again"""
    g = Gen(rng)
    g.addrs = HC_ADDRS
    c = 0
    g.ops.append(["policy", c, rng.choice(["rr", "least", "random"]), 0, 0])
    g.kind[c] = g.ops[-1][2]
    for a in rng.sample(HC_ADDRS, rng.randint(2, 4)):
        g.add(c, a, rng.choice(IDS))
    for a in HC_ADDRS[:5]:
        if rng.random() < 0.6:
            g.ops.append(["server", a, rng.choice([0, 0, 1, 2, 3, 3, 4])])

    def config():
        g.ops.append(["hc_config", c, rng.choice([1, 1, 2, 3]), rng.choice([1, 2, 2, 3]), rng.choice([1, 1, 2, 3]),
                      rng.choice([1, 1, 2, 3]), rng.choice([0, 0, 0, 200, 503])])
    config()
    for _ in range(rng.randint(8, 30)):
        x = rng.random()
        if x < 0.30:
            g.ops.append(["pump"])
        elif x < 0.55:
            g.ops.append(["advance", rng.choice([1, 1, 1, 2, 3])])
            g.ops.append(["pump"])
        elif x < 0.65:
            g.ops.append(["server", rng.choice(HC_ADDRS[:5]), rng.choice([0, 0, 1, 2, 3, 3, 4])])
        elif x < 0.72:
            g.add(c, rng.choice(HC_ADDRS), rng.choice(IDS))
        elif x < 0.78:
            g.remove(c)
        elif x < 0.86:
            g.select(c)
        elif x < 0.89 and g.nh:
            g.ops.append(["closing", g.handle()])
        elif x < 0.92:
            g.ops.append(["hc_remove", c])
            if rng.random() < 0.7:
                config()
        elif x < 0.95:
            config()
        else:
            g.ops.append(["dump"])
        if rng.random() < 0.2:
            g.ops.append(["dump"])
    g.ops += [["advance", 3], ["pump"], ["advance", 3], ["pump"], ["dump"]]
    g.select(c)
    return Case(cid, g.ops, {})


def production_case(rng, cid):
    """the production Maglev table (65537 slots): a few backend sets, every slot compared"""
    g = Gen(rng)
    for _ in range(rng.randint(1, 4)):
        g.add(0)
    g.ops.append(["policy", 0, "maglev", 0, 0])     # size 0: set_load_balancing_policy, DEFAULT_TABLE_SIZE
    g.kind[0] = "maglev"
    g.ops.append(["table", 0])
    for _ in range(rng.randint(1, 3)):
        x = rng.random()
        if x < 0.5:
            g.add(0)
        elif x < 0.75:
            g.remove(0)
        else:
            g.ops.append(["health", 0, g.some_addr(0), 0, 1])
        for _ in range(rng.randint(1, 3)):
            g.ops.append(["select", 0, rng.choice(KEYS)])
    g.ops.append(["table", 0])
    g.ops.append(["dump"])
    return Case(cid, with_oracle(g.ops), {})


def gen_cases(rng, tier):
    n = {"quick": 2000, "thorough": 60000, "search": 12000}.get(tier, 2000)
    out = []
    for i in range(n):
        focus = [None, None] + KINDS
        out.append(history_case(rng, "h%d" % i, focus[i % len(focus)]))
    for i in range({"quick": 2, "thorough": 40}.get(tier, 2)):
        out.append(production_case(rng, "m%d" % i))
    for i in range({"quick": 200, "thorough": 6000, "search": 1500}.get(tier, 200)):
        out.append(hc_history(rng, "c%d" % i))
    return out


def corpus_cases():
    d = os.path.join(vlib.ROOT, "corpus", ID)
    out = []
    if os.path.isdir(d):
        for f in sorted(os.listdir(d)):
            if f.endswith(".case"):
                for c in vlib.parse_cases(open(os.path.join(d, f)).read()):
                    c.id = "k" + c.id
                    try:
                        c.ops = with_oracle(c.ops)      # hash / score data always from the current code
                    except Exception:
                        pass
                    out.append(c)
    return out


def extra_stage(tier, rng, work):
    """thin black-box tier (the worker of C16's c16bb, through the `bb` op of the driver): after real sessions over
    HTTP/1, TLS, HTTP/2, WebSocket and TCP the backend snapshot hook must show what the model says the session code
    does to a backend: a refused connect is recorded (tries >= 1, failures >= 1), tries never exceed the maximum nor
    decrease without a success, is_down <=> tries >= max, a served request resets the policy, a revived backend is
    used again once its back-off window allows (thorough) and is then reset, and every backend's connection /
    request counts are zero when traffic has ended"""
    if tier == "thorough":
        cfgs = [(rng.randrange(1, 10 ** 6), mx, 0, 40, 0, 0, "k", 1) for mx in (2, 5, 8)] + \
               [(rng.randrange(1, 10 ** 6), 5, 0, 24, 0, 0, "k0_1_4_18_16_13_7_19", 1)]
    else:
        cfgs = [(rng.randrange(1, 10 ** 6), 5, 0, 10, 0, 0, "k0_1_4_18_16_13_8_7_19", 0)]
    cases = [Case("bb%d" % i, [["bb"] + list(c)], {}) for i, c in enumerate(cfgs)]
    outs, problems = vlib.run_harness(HARNESS_BIN, cases, os.path.join(work, "bb"), "release", timeout=1200, shards=len(cases))
    viols, fails, done = [], list(problems), 0
    for c in cases:
        o = outs.get(c.id)
        if o is None:
            fails.append("black-box case %s produced no output" % c.id)
            continue
        if o["panic"] is not None:
            viols.append((c, "panic", o["panic"]))
        for (vc, vt) in o["viol"]:
            viols.append((c, vc, vt))
        if not any(n.startswith("bb:") or n.startswith("invalid-case") for n in o["notes"]):
            done += 1
        for n in o["notes"]:
            if n.startswith("invalid-case"):
                fails.append("black-box case %s: %s" % (c.id, n))
    return dict(failures=fails, viols=viols, coverage=dict(blackbox_runs=len(cases), blackbox_completed=done))


def nontrivial(case, o):
    cands = set()
    for op, ob in zip(case.ops, o["obs"]):
        if op[0] == "select" and ob:
            n = ob[0]
            cands.add(tuple(ob[1:1 + n]))
    if any(op[0] == "hc_config" for op in case.ops):      # health-checker histories: a probe timed out and a backend changed health
        flights = [ob for op, ob in zip(case.ops, o["obs"]) if op[0] == "pump" and ob]
        return any(ob[0] >= 1 for ob in flights) and any(ob[0] == 0 for ob in flights)
    special = any(op[0] in ("health", "fail", "force", "closing") or (op[0] == "add" and op[7] == 1) for op in case.ops)
    return len([1 for op in case.ops if op[0] == "select"]) >= 2 and len(cands) >= 2 and special


LEVEL_TEXT = ("Machine-checked proof (Coq 8.16) over an executable model of Backend / BackendList / the back-off "
              "policy / HealthState and the six load-balancing policies: every selection of every history returns an "
              "eligible backend (or the documented fail-open one), backups only without primaries, sticky wins, "
              "affinity is stable, the Maglev table is total after every rebuild with a prime size (65537 proved prime), counters balance; "
              "the health checker (probe life-cycle with the clock as a parameter): every probe ends by the first poll at or after its deadline "
              "whatever the backend does, health flips exactly at the consecutive-result thresholds, never two probes in flight for one backend, "
              "a removed backend is never marked; the model is tied "
              "to lib/src/{backends,load_balancing,retry,health_check}.rs on every run by a predicate/constant translator and a "
              "differential correspondence run of the real BackendMap against the extracted model, with the property's "
              "own oracle evaluated on the implementation.")
LEVEL_NOTE = ("Trusted: Coq kernel; extraction + ocaml/driver.ml for the correspondence only; hash values and HRW "
              "scores are data read from the real code; the health checker's network is scripted loopback servers and its clock is aged through a hook (what a probe's socket does under real network loss / TLS is not covered); Random/PowerOfTwo draws compared by membership; PeakEWMA metric not "
              "modelled (membership only); what the session code does to the "
              "backend it was given (inc/dec/fail/succeed call sites) is checked black-box through a real worker and "
              "the backend snapshot hook, not proved.")
TECHNIQUE = "Rocq/Coq proof over an executable Gallina model + differential correspondence (extracted OCaml vs real crate)"
