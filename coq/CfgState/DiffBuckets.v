(** CfgState — list buckets seen as finite maps (C06): a sorted duplicate-free
    list is determined by its elements; the abstract view of a bucket map keyed
    by (bucket key, element key). *)
From stdpp Require Import gmap strings.
From Coq Require Import NArith Lia.
From SV Require Import CfgState.Model CfgState.Spec CfgState.Proofs.
Open Scope N_scope.

(** * Two sorted duplicate-free lists with the same elements are equal *)
Section sorted_eq.
  Context {A : Type} (le : A -> A -> bool).
  Hypothesis le_trans : forall a b c, le a b = true -> le b c = true -> le a c = true.
  Hypothesis le_antisym : forall a b, le a b = true -> le b a = true -> a = b.

  Lemma sorted_head_le x l : sorted le (x :: l) -> forall y, y ∈ l -> le x y = true.
  Proof.
    revert x. induction l as [|z l IH]; intros x Hs y Hin; [inversion Hin|].
    inversion Hs; subst. apply elem_of_cons in Hin as [->|Hin]; [assumption|].
    eapply le_trans; [eassumption|]. apply IH; assumption.
  Qed.

  Theorem sorted_nodup_eq l1 : forall l2,
    sorted le l1 -> sorted le l2 -> NoDup l1 -> NoDup l2 -> (forall x, x ∈ l1 <-> x ∈ l2) -> l1 = l2.
  Proof.
    induction l1 as [|x l1 IH]; intros l2 Hs1 Hs2 Hn1 Hn2 Hm.
    - destruct l2 as [|y l2]; [reflexivity|]. exfalso. assert (H : y ∈ []) by (apply Hm; left). inversion H.
    - destruct l2 as [|y l2].
      + exfalso. assert (H : x ∈ []) by (apply Hm; left). inversion H.
      + apply NoDup_cons in Hn1 as [Hx1 Hn1]. apply NoDup_cons in Hn2 as [Hy2 Hn2].
        assert (Exy : x = y).
        { assert (Hx : x ∈ y :: l2) by (apply Hm; left). assert (Hy : y ∈ x :: l1) by (apply Hm; left).
          apply elem_of_cons in Hx as [E|Hx]; [exact E|]. apply elem_of_cons in Hy as [E|Hy]; [symmetry; exact E|].
          apply le_antisym; [eapply sorted_head_le; eauto|eapply sorted_head_le; eauto]. }
        subst y. f_equal. apply IH; [eapply sorted_tail; eauto|eapply sorted_tail; eauto|assumption|assumption|].
        intros z. split; intros Hz.
        * assert (H : z ∈ x :: l2) by (apply Hm; right; exact Hz). apply elem_of_cons in H as [->|H]; [contradiction|exact H].
        * assert (H : z ∈ x :: l1) by (apply Hm; right; exact Hz). apply elem_of_cons in H as [->|H]; [contradiction|exact H].
  Qed.
End sorted_eq.

(** the lexicographic order on key lists *)
Lemma lex_le_trans a : forall b c, lex_le a b = true -> lex_le b c = true -> lex_le a c = true.
Proof.
  induction a as [|x a IH]; intros b c Hab Hbc; [reflexivity|].
  destruct b as [|y b]; [discriminate|]. destruct c as [|z c]; [cbn in Hbc; discriminate|].
  cbn in *. destruct (x <? y) eqn:Exy.
  - destruct (y <? z) eqn:Eyz.
    + assert (E : (x <? z) = true) by (apply N.ltb_lt; apply N.ltb_lt in Exy, Eyz; lia). rewrite E. reflexivity.
    + destruct (z <? y) eqn:Ezy; [discriminate|].
      assert (y = z) by (apply N.ltb_ge in Eyz, Ezy; lia). subst z. rewrite Exy. reflexivity.
  - destruct (y <? x) eqn:Eyx; [discriminate|].
    assert (x = y) by (apply N.ltb_ge in Exy, Eyx; lia). subst y.
    destruct (x <? z) eqn:Exz; [reflexivity|]. destruct (z <? x) eqn:Ezx; [discriminate|].
    eapply IH; eauto.
Qed.
Lemma lex_le_antisym a : forall b, lex_le a b = true -> lex_le b a = true -> a = b.
Proof.
  induction a as [|x a IH]; intros [|y b] Hab Hba; try reflexivity; try discriminate.
  cbn in *. destruct (x <? y) eqn:Exy.
  - destruct (y <? x) eqn:Eyx; [apply N.ltb_lt in Exy, Eyx; lia|discriminate].
  - destruct (y <? x) eqn:Eyx; [discriminate|].
    assert (x = y) by (apply N.ltb_ge in Exy, Eyx; lia). subst y. f_equal. apply IH; assumption.
Qed.

Lemma bk_key_inj a b : bk_key a = bk_key b -> a = b.
Proof.
  destruct a as [i1 a1 s1 l1 u1], b as [i2 a2 s2 l2 u2]. unfold bk_key, okey. cbn.
  intros H. inversion H as [[E1 E2 E3 E4 E5]]. subst.
  assert (s1 = s2) by (destruct s1, s2; try lia; f_equal; lia).
  assert (l1 = l2) by (destruct l1, l2; try lia; f_equal; lia).
  assert (u1 = u2) by (destruct u1, u2; try lia; f_equal; lia).
  subst. reflexivity.
Qed.
Lemma bk_le_trans a b c : bk_le a b = true -> bk_le b c = true -> bk_le a c = true.
Proof. apply lex_le_trans. Qed.
Lemma bk_le_antisym a b : bk_le a b = true -> bk_le b a = true -> a = b.
Proof. intros H1 H2. apply bk_key_inj. apply lex_le_antisym; assumption. Qed.
Lemma tf_le_total a b : tf_le a b = false -> tf_le b a = true.
Proof. apply lex_le_total. Qed.
Lemma tf_le_trans a b c : tf_le a b = true -> tf_le b c = true -> tf_le a c = true.
Proof. apply lex_le_trans. Qed.
Lemma tf_le_antisym a b : tf_le a b = true -> tf_le b a = true -> a = b.
Proof.
  intros H1 H2. pose proof (lex_le_antisym _ _ H1 H2) as E. destruct a, b. cbn in E. inversion E; subst. reflexivity.
Qed.

(** * Abstract view of a map of list buckets *)
Section labs.
  Context {T K2 : Type} `{EqDecision K2} (kap : T -> K2).

  Definition lfind (l : list T) (k : K2) : option T := List.find (fun t => bool_decide (kap t = k)) l.
  Definition labs (m : gmap N (list T)) (ck : N * K2) : option T :=
    match m !! fst ck with Some l => lfind l (snd ck) | None => None end.

  Lemma lfind_Some l k t : NoDup (kap <$> l) -> (lfind l k = Some t <-> t ∈ l /\ kap t = k).
  Proof.
    induction l as [|x l IH]; intros Hnd.
    - cbn. split; [discriminate|intros [H _]; inversion H].
    - rewrite fmap_cons in Hnd. apply NoDup_cons in Hnd as [Hx Hnd]. unfold lfind. cbn [List.find].
      destruct (bool_decide (kap x = k)) eqn:E.
      + apply bool_decide_eq_true in E. split.
        * intros H. inversion H; subst. split; [left|reflexivity].
        * intros [Hin Hk]. apply elem_of_cons in Hin as [->|Hin]; [reflexivity|].
          exfalso. apply Hx. rewrite E, <- Hk. apply elem_of_list_fmap. exists t. split; [reflexivity|exact Hin].
      + apply bool_decide_eq_false in E. fold (lfind l k). rewrite (IH Hnd). split.
        * intros [Hin Hk]. split; [right; exact Hin|exact Hk].
        * intros [Hin Hk]. apply elem_of_cons in Hin as [->|Hin]; [contradiction|split; assumption].
  Qed.

  Lemma lfind_None l k : lfind l k = None <-> k ∉ (kap <$> l).
  Proof.
    induction l as [|x l IH]; [cbn; split; [intros _ H; inversion H|reflexivity]|].
    unfold lfind. cbn [List.find]. rewrite fmap_cons. destruct (bool_decide (kap x = k)) eqn:E.
    - apply bool_decide_eq_true in E. split; [discriminate|]. intros H. exfalso. apply H. rewrite E. left.
    - apply bool_decide_eq_false in E. fold (lfind l k). rewrite IH. rewrite not_elem_of_cons. intuition.
  Qed.

  (** same abstract view => same elements, bucket by bucket (absent = empty) *)
  Lemma labs_same_elements m1 m2 :
    (forall c l, m1 !! c = Some l -> NoDup (kap <$> l)) -> (forall c l, m2 !! c = Some l -> NoDup (kap <$> l)) ->
    (forall ck, labs m1 ck = labs m2 ck) ->
    forall c t, t ∈ default [] (m1 !! c) <-> t ∈ default [] (m2 !! c).
  Proof.
    assert (Hdir : forall d1 d2 : gmap N (list T),
               (forall c l, d1 !! c = Some l -> NoDup (kap <$> l)) -> (forall c l, d2 !! c = Some l -> NoDup (kap <$> l)) ->
               (forall ck, labs d1 ck = labs d2 ck) -> forall c t, t ∈ default [] (d1 !! c) -> t ∈ default [] (d2 !! c)).
    { intros d1 d2 H1 H2 He c t Hin. destruct (d1 !! c) as [l1|] eqn:E1; [|inversion Hin]. cbn in Hin.
      assert (Hf : labs d1 (c, kap t) = Some t).
      { unfold labs. cbn [fst snd]. rewrite E1. apply lfind_Some; [eapply H1; eauto|split; [exact Hin|reflexivity]]. }
      rewrite He in Hf. unfold labs in Hf. cbn [fst snd] in Hf. destruct (d2 !! c) as [l2|] eqn:E2; [|discriminate].
      cbn. apply (lfind_Some l2 (kap t) t (H2 c l2 E2)) in Hf as [Hin2 _]. exact Hin2. }
    intros H1 H2 He c t. split; [apply Hdir; assumption|apply Hdir; [assumption|assumption|intros; symmetry; apply He]].
  Qed.
End labs.

(** effect of a removal / an upsert on the abstract view of one bucket *)
Section lfind_ops.
  Context {T K2 : Type} `{EqDecision K2} (kap : T -> K2).

  Lemma lfind_remove l l' k0 :
    NoDup (kap <$> l) -> NoDup (kap <$> l') -> (forall t, t ∈ l' <-> t ∈ l /\ kap t <> k0) ->
    forall k, lfind kap l' k = if decide (k = k0) then None else lfind kap l k.
  Proof.
    intros Hn Hn' Hm k. destruct (decide (k = k0)) as [->|Hne].
    - apply lfind_None. intros Hin. apply elem_of_list_fmap in Hin as [t [E Ht]]. apply Hm in Ht as [_ Ht]. congruence.
    - apply option_eq. intros t. rewrite (lfind_Some kap l' k t Hn'), (lfind_Some kap l k t Hn), Hm. intuition congruence.
  Qed.

  Lemma lfind_upsert l l' b :
    NoDup (kap <$> l) -> NoDup (kap <$> l') -> (forall t, t ∈ l' <-> t = b \/ (t ∈ l /\ kap t <> kap b)) ->
    forall k, lfind kap l' k = if decide (k = kap b) then Some b else lfind kap l k.
  Proof.
    intros Hn Hn' Hm k. destruct (decide (k = kap b)) as [->|Hne].
    - apply (lfind_Some kap l' _ b Hn'). split; [apply Hm; left; reflexivity|reflexivity].
    - apply option_eq. intros t. rewrite (lfind_Some kap l' k t Hn'), (lfind_Some kap l k t Hn), Hm. split.
      + intros [[->|[Hin Hk]] Ek]; [congruence|split; assumption].
      + intros [Hin Ek]. split; [right; split; [exact Hin|congruence]|exact Ek].
  Qed.
End lfind_ops.

(** the order on (cluster, backend id, address) used by the backend merge-join *)
Lemma N3_cmp_eq a b : N3_cmp a b = Eq -> a = b.
Proof.
  destruct a as [[a1 a2] a3], b as [[b1 b2] b3]. unfold N3_cmp. cbn.
  destruct (a1 ?= b1) eqn:E1; try discriminate. destruct (a2 ?= b2) eqn:E2; try discriminate. intros E3.
  apply N.compare_eq in E1, E2, E3. congruence.
Qed.
Lemma N3_cmp_antisym a b : N3_cmp b a = CompOpp (N3_cmp a b).
Proof.
  destruct a as [[a1 a2] a3], b as [[b1 b2] b3]. unfold N3_cmp. cbn.
  rewrite (N.compare_antisym a1 b1), (N.compare_antisym a2 b2), (N.compare_antisym a3 b3).
  destruct (a1 ?= b1); cbn; try reflexivity. destruct (a2 ?= b2); reflexivity.
Qed.
Lemma N3_cmp_lt a b : N3_cmp a b = Lt <->
  (fst (fst a) < fst (fst b) \/ (fst (fst a) = fst (fst b) /\ (snd (fst a) < snd (fst b) \/ (snd (fst a) = snd (fst b) /\ snd a < snd b)))).
Proof.
  destruct a as [[a1 a2] a3], b as [[b1 b2] b3]. unfold N3_cmp. cbn.
  destruct (a1 ?= b1) eqn:E1.
  - apply N.compare_eq in E1. subst. destruct (a2 ?= b2) eqn:E2.
    + apply N.compare_eq in E2. subst. rewrite N.compare_lt_iff. split; [intros; right; split; [reflexivity|right; split; [reflexivity|assumption]]|lia].
    + apply N.compare_lt_iff in E2. split; [intros; right; split; [reflexivity|left; assumption]|reflexivity].
    + apply N.compare_gt_iff in E2. split; [discriminate|lia].
  - apply N.compare_lt_iff in E1. split; [intros; left; assumption|reflexivity].
  - apply N.compare_gt_iff in E1. split; [discriminate|lia].
Qed.
Lemma N3_cmp_trans a b c : N3_cmp a b = Lt -> N3_cmp b c = Lt -> N3_cmp a c = Lt.
Proof. rewrite !N3_cmp_lt. lia. Qed.
