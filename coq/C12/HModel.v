(** C12 — executable model of the health checker ([lib/src/health_check.rs],
    [HealthChecker::{poll, initiate_checks, progress_checks, record_check_result,
    remove_cluster}]) on top of the backends of C12/Model.v.

    The clock is the model clock [s_now] (the driver ages the checker's
    [started_at] / [last_check_time] through the cfg(sozu_verif) hook; one model
    second is 100000 real seconds, so the checker's own jitter on the interval —
    strictly between 0 and one model second — makes a new round start after
    [interval + 1] whole model seconds, and the strict [elapsed > timeout] is
    [elapsed >= timeout] on whole model seconds because real time has also
    advanced by an instant).

    What a backend does with a probe is data of the case ([kind]): it answers
    200 or 503, closes at once, refuses the connection, floods the reader, or
    says nothing (hangs after accept / sends half a status line).  A probe
    towards a silent backend stays in flight until its deadline. *)
From Coq Require Import List Arith ZArith NArith Bool Lia.
From SV Require Import C12.Model.
Import ListNotations.
Open Scope N_scope.

Record hcfg := mkHcfg { h_interval : N; h_timeout : N; h_hthr : N; h_uthr : N; h_expected : N }.

(** 0 ok (200) · 1 503 · 2 close / refuse · 3 hang · 4 slow · 5 flood *)
Definition kind := N.

Record probe := mkProbe {
  p_c : nat; p_id : N; p_addr : N; p_start : N; p_kind : kind; p_cfg : hcfg }.

Record hc := mkHc {
  hc_cfg : list (option hcfg);        (* per cluster *)
  hc_last : list (option N);          (* last_check_time per cluster *)
  hc_inflight : list probe;
  hc_kinds : list kind;               (* behaviour of the scripted servers, addresses 10..14 *)
  hc_made : bool                      (* the driver creates its checker with the first configuration *)
}.

Definition hc_init : hc := mkHc [None; None] [None; None] [] [0; 0; 0; 0; 0] false.

Definition kind_of_addr (h : hc) (a : N) : kind :=
  if (10 <=? a) && (a <=? 14) then nth (N.to_nat (a - 10)) (hc_kinds h) 0 else 2.

(** [is_status_healthy] *)
Definition status_healthy (actual expected : N) : bool :=
  if expected =? 0 then (200 <=? actual) && (actual <? 300) else actual =? expected.

(** what the network will eventually tell the checker about a probe, if anything *)
Definition verdict (p : probe) : option bool :=
  let k := p_kind p in
  if k =? 0 then Some (status_healthy 200 (h_expected (p_cfg p)))
  else if k =? 1 then Some (status_healthy 503 (h_expected (p_cfg p)))
  else if (k =? 2) || (k =? 5) then Some false
  else None.

(** [record_check_result]: through the cluster's list, by address *)
Definition record_result (s : state) (c : nat) (addr : N) (success : bool) (cf : hcfg) : state :=
  match find_backend s c addr with
  | Some h =>
    on_handle s h (fun b => fst (if success then record_success b (h_hthr cf) else record_failure b (h_uthr cf)))
  | None => s
  end.

Definition in_flight_for (h : hc) (c : nat) (id : N) : bool :=
  existsb (fun p => (p_c p =? c)%nat && (p_id p =? id)) (hc_inflight h).

(** [initiate_checks] for one cluster *)
Definition initiate_cluster (h : hc) (s : state) (c : nat) : hc :=
  match nth c (hc_cfg h) None with
  | None => h
  | Some cf =>
    let should := match nth c (hc_last h) None with
                  | None => true
                  | Some l => h_interval cf + 1 <=? s_now s - l
                  end in
    if negb should then h
    else
      let todo := filter (fun hd => status_eqb (b_status (hget (s_heap s) hd)) Normal
                                    && negb (in_flight_for h c (b_id (hget (s_heap s) hd))))
                         (c_list (cget s c)) in
      match todo with
      | [] => h
      | _ =>
        let fresh := map (fun hd => let b := hget (s_heap s) hd in
                                    mkProbe c (b_id b) (b_addr b) (s_now s) (kind_of_addr h (b_addr b)) cf) todo in
        mkHc (hc_cfg h) (upd (hc_last h) c (Some (s_now s))) (hc_inflight h ++ fresh) (hc_kinds h) (hc_made h)
      end
  end.

Definition timed_out (now : N) (p : probe) : bool := h_timeout (p_cfg p) <=? now - p_start p.

(** the part of [progress_checks] that needs no readiness: deadlines *)
Definition progress_timeouts (h : hc) (s : state) : hc * state :=
  let dead := filter (timed_out (s_now s)) (hc_inflight h) in
  let alive := filter (fun p => negb (timed_out (s_now s) p)) (hc_inflight h) in
  (mkHc (hc_cfg h) (hc_last h) alive (hc_kinds h) (hc_made h),
   fold_left (fun s0 p => record_result s0 (p_c p) (p_addr p) false (p_cfg p)) dead s).

(** [poll] with no readiness *)
Definition hc_poll (h : hc) (s : state) : hc * state :=
  match hc_inflight h, hc_cfg h with
  | [], [None; None] => (h, s)
  | _, _ =>
    let h1 := initiate_cluster (initiate_cluster h s 0) s 1 in
    progress_timeouts h1 s
  end.

(** the answers that arrive: every probe whose backend says something gets its verdict *)
Definition resolve (h : hc) (s : state) : hc * state :=
  let done := filter (fun p => match verdict p with Some _ => true | None => false end) (hc_inflight h) in
  let rest := filter (fun p => match verdict p with Some _ => false | None => true end) (hc_inflight h) in
  (mkHc (hc_cfg h) (hc_last h) rest (hc_kinds h) (hc_made h),
   fold_left (fun s0 p => record_result s0 (p_c p) (p_addr p)
                                        (match verdict p with Some v => v | None => false end) (p_cfg p)) done s).

(** the event loop run to quiescence at one instant *)
Definition pump (h : hc) (s : state) : hc * state :=
  let '(h1, s1) := hc_poll h s in let '(h2, s2) := resolve h1 s1 in
  let '(h3, s3) := hc_poll h2 s2 in let '(h4, s4) := resolve h3 s3 in
  let '(h5, s5) := hc_poll h4 s4 in resolve h5 s5.

(** [remove_cluster] + [set_health_check_config(None)] *)
Definition hc_remove (h : hc) (s : state) (c : nat) : hc * state :=
  (mkHc (upd (hc_cfg h) c None) (upd (hc_last h) c None)
        (filter (fun p => negb (p_c p =? c)%nat) (hc_inflight h)) (hc_kinds h) (hc_made h),
   apply_op s (OHealthReset c)).

Definition hc_set_config (h : hc) (c : nat) (cf : hcfg) : hc :=
  mkHc (upd (hc_cfg h) c (Some cf)) (hc_last h) (hc_inflight h) (hc_kinds h) true.

Definition hc_set_kind (h : hc) (a : N) (k : kind) : hc :=
  mkHc (hc_cfg h) (hc_last h) (hc_inflight h) (upd (hc_kinds h) (N.to_nat (a - 10)) k) (hc_made h).

(** histories of the pair (backends, checker): the steps of C12/Run.v *)
Inductive hop := HOp (o : op) | HServer (a k : N) | HConfig (c : nat) (cf : hcfg) | HRemove (c : nat) | HPump.

Definition hstep (sh : state * hc) (o : hop) : state * hc :=
  let '(s, h) := sh in
  match o with
  | HOp o => (apply_op s o, h)
  | HServer a k => (s, hc_set_kind h a k)
  | HConfig c cf => (s, hc_set_config h c cf)
  | HRemove c => let '(h', s') := hc_remove h s c in (s', h')
  | HPump => if hc_made h then let '(h', s') := pump h s in (s', h') else sh   (* no checker yet *)
  end.

Definition hrun (ops : list hop) : state * hc := fold_left hstep ops (init, hc_init).
