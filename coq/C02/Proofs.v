(** C02 — lemmas. *)
From Coq Require Import List NArith Bool Arith Lia.
From SV Require Import C02.Model C02.Gen.
Import ListNotations.
