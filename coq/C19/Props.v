(** C19 — property theorems (statements only; proofs are in C19/Proofs.v).

    Vocabulary: [mgr_new c max_flows max_rx] is [UdpManager::new]; [step hash m
    now i] is one public call ([handle_input] / [handle_timeout] / [abort_flow]
    / [close_all]) returning the new manager and the outputs it queued, each
    tagged with the (ghost) incarnation number of the flow it was emitted for;
    [run hash m h] folds [step] over a history [h : list (N * input)] of
    timestamped inputs and returns the final manager and the trace.  [hash] (the
    affinity [DefaultHasher]) is universally quantified everywhere.  No theorem
    restricts the history: clocks may even go backwards. *)
From Coq Require Import List NArith Bool Arith Lia.
From SV Require Import Common.Slab C19.Model C19.Proofs.
Import ListNotations.

(** 1. [invariants]: everything [UdpManager::check_invariants] asserts (and the
    stronger facts listed at [Inv] in Proofs.v: table and slab in bijection
    through each flow's own admission key, no Closing flow, Established <->
    backend address, Awaiting -> a buffered datagram, no live flow with an
    exhausted cap, armed deadline = earliest flow deadline, population under
    the high-water cap, exact slab free list) holds after EVERY history. *)
Theorem invariants :
  forall hash c max_flows max_rx h, Inv (fst (run hash (mgr_new c max_flows max_rx) h)).
Proof. intros. apply run_inv. apply Inv_new. Qed.

Theorem invariants_table_injective :
  forall m k1 k2 id, Inv m ->
    tget (m_table m) k1 = Some id -> tget (m_table m) k2 = Some id -> k1 = k2.
Proof. exact table_injective. Qed.

Theorem invariants_timer_is_earliest_deadline :
  forall m, Inv m ->
    match m_armed m with
    | None => forall id, sget (m_flows m) id = None
    | Some d => (exists id f, sget (m_flows m) id = Some f /\ f_deadline f = d) /\
                (forall id f, sget (m_flows m) id = Some f -> (d <= f_deadline f)%N)
    end.
Proof. exact armed_coherent. Qed.

(** 4. [bounded] *)
Theorem bounded_admission_only_under_cap :
  forall hash m now inp i, Inv m ->
    In (Some i, Metric MCreated) (snd (step hash m now inp)) ->
    m_draining m = false /\ (N.of_nat (slen (m_flows m)) < m_max_flows m)%N /\
    (exists src p, inp = IClient src p /\ p <> [] /\
                   tget (m_table m) (key_of src (c_with_port (m_cluster m))) = None) /\
    i = m_ninc m.
Proof. exact created_only_under_cap. Qed.

Theorem bounded_population_under_high_water :
  forall hash c max_flows max_rx h,
    let m := fst (run hash (mgr_new c max_flows max_rx) h) in
    (N.of_nat (slen (m_flows m)) <= m_hw m)%N /\ (m_max_flows m <= m_hw m)%N.
Proof. intros. apply inv_hw. apply invariants. Qed.

Theorem bounded_existing_flows_keep_forwarding :
  forall hash m now src p id f b, Inv m ->
    (N.of_nat (length p) <= m_max_rx m)%N -> c_cluster (m_cluster m) <> [] -> p <> [] ->
    tget (m_table m) (key_of src (c_with_port (m_cluster m))) = Some id ->
    sget (m_flows m) id = Some f -> f_backend_addr f = Some b ->
    exists hdr, (hdr = [] \/ hdr = dgram_header (f_client f) b) /\
      In (Some (f_inc f), SendToBackend b (hdr ++ p)) (snd (step hash m now (IClient src p))).
Proof. exact established_keeps_forwarding. Qed.

(** 5. [teardown]: timers strictly advance; close_all leaves nothing *)
Theorem timeout_advances :
  forall hash m now, Inv m ->
    let m' := fst (step hash m now ITimeout) in
    (forall id g, sget (m_flows m') id = Some g -> (now < f_deadline g)%N) /\
    (forall d, m_armed m' = Some d -> (now < d)%N).
Proof. exact timeout_advances. Qed.

(** the timer contract with the shell: the shell owns ONE one-shot timer, armed by
    the last [ArmTimer]; a firing spends it.  So after every [handle_timeout], if a
    flow remains (the armed deadline is [Some d]) that very call has emitted
    [ArmTimer d] -- even when nothing was due because the wheel fired early.
    (Before the fix recorded in known_findings.json this failed: witness
    corpus/C19/timer_fires_early.case.) *)
Theorem timeout_rearms_the_shell_timer :
  forall hash m now,
    match m_armed (fst (step hash m now ITimeout)) with
    | Some d => In (None, ArmTimer d) (snd (step hash m now ITimeout))
    | None => True
    end.
Proof. exact timeout_rearms. Qed.

(** ... and over whole histories: replaying the trace through the shell's timer
    ([shell_timer]: every [ArmTimer] replaces the pending timer, every firing
    spends it first), whenever the manager has an armed deadline -- by
    [invariants_timer_is_earliest_deadline], whenever a flow exists -- the shell's
    timer is pending at exactly that deadline.  No flow is ever left without a timer. *)
Theorem shell_timer_always_covers_the_earliest_deadline :
  forall hash c max_flows max_rx h d,
    let m := fst (run hash (mgr_new c max_flows max_rx) h) in
    let tr := snd (run hash (mgr_new c max_flows max_rx) h) in
    m_armed m = Some d -> shell_timer tr None = Some d.
Proof.
  intros hash c mf mrx h d m tr Hd.
  pose proof (run_keeps_timer hash h (mgr_new c mf mrx) None I) as H.
  unfold TP in H. fold m tr in H. rewrite Hd in H. exact H.
Qed.

Theorem close_all_leaves_nothing :
  forall hash m now, Inv m ->
    let m' := fst (step hash m now ICloseAll) in
    (forall id, sget (m_flows m') id = None) /\ slen (m_flows m') = 0 /\
    (forall k, tget (m_table m') k = None) /\ m_armed m' = None.
Proof. exact close_all_leaves_nothing. Qed.

(** 2. [sticky], state part: a stale or duplicate resolution changes nothing *)
Theorem sticky_stale_resolution_is_noop :
  forall hash m now id bid a,
    (forall f, sget (m_flows m) id = Some f -> f_phase f <> Awaiting) ->
    fst (step hash m now (IResolved id bid a)) = m /\
    forall x, In x (snd (step hash m now (IResolved id bid a))) -> fst x = None.
Proof. exact stale_resolution_noop. Qed.

(** 2. [sticky], over whole traces.  [allouts tr] is the output stream of the
    history; the label [Some i] names the incarnation (one admitted flow, from
    its FlowCreated to its CloseFlow) an output was emitted for. *)
Theorem sticky :
  forall hash c max_flows max_rx h i d1 p1 d2 p2,
    let tr := snd (run hash (mgr_new c max_flows max_rx) h) in
    In (Some i, SendToBackend d1 p1) (allouts tr) ->
    In (Some i, SendToBackend d2 p2) (allouts tr) -> d1 = d2.
Proof. intros. eapply ti_sticky; [apply run_TI_init|eassumption|eassumption]. Qed.

(** ... and that one destination is the address of the resolution that established
    the flow: an upstream is opened only by a [BackendResolved], towards its address,
    and everything the incarnation forwards goes there. *)
Theorem sticky_destination_is_the_resolved_address :
  forall hash c max_flows max_rx h,
    let tr := snd (run hash (mgr_new c max_flows max_rx) h) in
    (forall e i id a, In e tr -> In (Some i, OpenUpstream id a) (ev_out e) ->
       exists bid, ev_in e = IResolved id bid a) /\
    (forall i id a d p, In (Some i, OpenUpstream id a) (allouts tr) ->
       In (Some i, SendToBackend d p) (allouts tr) -> d = a).
Proof.
  intros. pose proof (run_TI_init hash c max_flows max_rx h) as T. split.
  - apply (ti_open_res _ _ T).
  - apply (ti_open_tob _ _ T).
Qed.

(** 3. [isolated], replies: a datagram is sent to a client only while handling a
    backend datagram, carries exactly that datagram's payload, and goes to the
    source of the client datagram that created the incarnation (which is unique). *)
Theorem isolated_replies_return_to_the_creating_client :
  forall hash c max_flows max_rx h e i d p,
    let tr := snd (run hash (mgr_new c max_flows max_rx) h) in
    In e tr -> In (Some i, SendToClient d p) (ev_out e) ->
    (exists id, ev_in e = IBackend id p) /\
    (exists e0 p0, In e0 tr /\ ev_in e0 = IClient d p0 /\ In (Some i, Metric MCreated) (ev_out e0)) /\
    (forall e1, In e1 tr -> In (Some i, Metric MCreated) (ev_out e1) -> exists p1, ev_in e1 = IClient d p1).
Proof.
  intros hash c mf mrx h e i d p tr He Hin.
  pose proof (run_TI_init hash c mf mrx h) as T.
  destruct (ti_iso _ _ T _ _ _ _ He Hin) as (H1 & e0 & p0 & H0 & H2 & H3).
  split; [exact H1|]. split; [eauto|].
  intros e1 He1 Hc1. destruct (ti_creator_unique _ _ T _ _ _ H0 He1 H3 Hc1) as (src & q1 & q2 & E1 & E2).
  rewrite H2 in E1. inversion E1; subst. eauto.
Qed.

(** [isolated], forwarding: one step sends at most one datagram to a backend, and it
    is exactly (an optional PROXY v2 header followed by) the client datagram being
    handled, or the datagram buffered for the flow being resolved. *)
Theorem isolated_forward_is_exact :
  forall hash m now inp i d q, Inv m ->
    In (Some i, SendToBackend d q) (snd (step hash m now inp)) ->
    (exists hdr, is_pp_header hdr d /\
       ((exists src p, inp = IClient src p /\ q = hdr ++ p) \/
        (exists id bid p f, inp = IResolved id bid d /\ sget (m_flows m) id = Some f /\
                            f_inc f = i /\ f_pending f = Some p /\ q = hdr ++ p))) /\
    (forall i' d' q', In (Some i', SendToBackend d' q') (snd (step hash m now inp)) ->
                      i' = i /\ d' = d /\ q' = q).
Proof. exact forward_exact. Qed.

(** [isolated], order: over any history, the sequence of payloads an incarnation
    forwarded ([fwd i]) is carried, element by element, by a SUB-SEQUENCE [es] of the
    history's events, each a client datagram whose payload is the forwarded one
    (behind an optional PROXY v2 header).  [sublist] keeps order and uses every event at
    most once: nothing is duplicated, merged, truncated or reordered; what may be missing
    are datagrams dropped on the way (only the newest one received before the resolution
    is kept, see [isolated_buffer_newest_wins]). *)
Theorem isolated_forwarding_in_order_without_duplication :
  forall hash c max_flows max_rx h i,
    let tr := snd (run hash (mgr_new c max_flows max_rx) h) in
    exists es, sublist es tr /\ Forall2 carried es (fwd i (allouts tr)).
Proof. intros. apply (ti_order _ _ (run_TI_init hash c max_flows max_rx h)). Qed.

(** the documented pre-resolution buffering: one slot, the newest datagram wins,
    nothing is forwarded before the resolution; admission buffers the admitting datagram *)
Theorem isolated_buffer_newest_wins :
  forall hash m now src p id f, Inv m ->
    (N.of_nat (length p) <= m_max_rx m)%N -> c_cluster (m_cluster m) <> [] -> p <> [] ->
    tget (m_table m) (key_of src (c_with_port (m_cluster m))) = Some id ->
    sget (m_flows m) id = Some f -> f_phase f = Awaiting ->
    (exists f', sget (m_flows (fst (step hash m now (IClient src p)))) id = Some f' /\
                f_pending f' = Some p /\ f_phase f' = Awaiting /\ f_inc f' = f_inc f) /\
    (forall x, In x (snd (step hash m now (IClient src p))) -> exists dd, x = (None, ArmTimer dd)).
Proof. exact buffer_newest_wins. Qed.

Theorem isolated_admission_buffers_the_datagram :
  forall hash m now src p, Inv m ->
    (N.of_nat (length p) <= m_max_rx m)%N -> c_cluster (m_cluster m) <> [] -> p <> [] ->
    tget (m_table m) (key_of src (c_with_port (m_cluster m))) = None ->
    m_draining m = false -> (N.of_nat (slen (m_flows m)) < m_max_flows m)%N ->
    sget (m_flows (fst (step hash m now (IClient src p)))) (s_next (m_flows m))
      = Some (admit_flow m src p now) /\
    In (Some (m_ninc m), Metric MCreated) (snd (step hash m now (IClient src p))).
Proof. exact admission_buffers. Qed.

(** 5. [teardown_once]: after any history, every incarnation ever created is either
    still live and was never closed, or is gone and was closed exactly once; nothing
    that was not created is ever closed. *)
Theorem teardown_once :
  forall hash c max_flows max_rx h i,
    let m := fst (run hash (mgr_new c max_flows max_rx) h) in
    let tr := snd (run hash (mgr_new c max_flows max_rx) h) in
    closes i (allouts tr) <= 1 /\
    (closes i (allouts tr) = 1 <-> (i < m_ninc m)%N /\ ~ live_inc m i).
Proof. intros. apply closes_le_one; [apply invariants | apply run_TI_init]. Qed.

(* ------------------------------------------------------------------ *)
(** Non-vacuity: a concrete history reaching two established flows, one of them
    at the cap, a shed third source, a reply, a timeout and a close_all. *)
Definition ex_hash (_ : bool) (a : addr) : N := a_port a.
Definition ex_cfg : cfg := mkcfg [99%N] true 0 0 100 100 true false.
Definition ex_a1 := mkaddr [10;0;0;1]%N 9000.
Definition ex_a2 := mkaddr [10;0;0;2]%N 9000.
Definition ex_a3 := mkaddr [10;0;0;3]%N 9000.
Definition ex_b := mkaddr [127;0;0;1]%N 5300.
Definition ex_hist : list (N * input) :=
  [(0, IClient ex_a1 [1;2;3]); (0, IResolved 0 [98] ex_b); (1, IClient ex_a2 [4]);
   (1, IResolved 1 [98] ex_b); (2, IClient ex_a3 [5]); (3, IClient ex_a1 [6;7]);
   (4, IBackend 0 [8;9]); (5, IResolved 0 [97] ex_a3)]%N.

Example invariants_nonvacuous :
  let m := fst (run ex_hash (mgr_new ex_cfg 2 8) ex_hist) in
  slen (m_flows m) = 2 /\ m_armed m = Some 101%N /\
  exists f, sget (m_flows m) 0 = Some f /\ f_backend_addr f = Some ex_b /\ f_req f = 2%N /\ f_resp f = 1%N.
Proof. vm_compute. repeat split. eexists. repeat split. Qed.

Example bounded_nonvacuous :
  let m := fst (run ex_hash (mgr_new ex_cfg 2 8) ex_hist) in
  (* the third source is shed at the cap, the first keeps forwarding *)
  In (None, Metric MShed) (snd (step ex_hash m 6 (IClient ex_a3 [5]%N))) /\
  In (Some 0%N, SendToBackend ex_b [6;6]%N) (snd (step ex_hash m 6 (IClient ex_a1 [6;6]%N))) /\
  In (Some 2%N, Metric MCreated)
     (snd (step ex_hash (fst (step ex_hash m 6 (IAbort 1))) 6 (IClient ex_a3 [5]%N))).
Proof. vm_compute. repeat split; auto 10. Qed.

Example teardown_nonvacuous :
  let m := fst (run ex_hash (mgr_new ex_cfg 2 8) ex_hist) in
  slen (m_flows (fst (step ex_hash m 101 ITimeout))) = 1 /\
  m_armed (fst (step ex_hash m 101 ITimeout)) = Some 104%N /\
  slen (m_flows (fst (step ex_hash m 7 ICloseAll))) = 0.
Proof. vm_compute. repeat split. Qed.

Example sticky_nonvacuous :
  let tr := snd (run ex_hash (mgr_new ex_cfg 2 8) ex_hist) in
  (* flow 0 forwards twice (first with the PROXY header), always to ex_b; the late
     resolution towards ex_a3 is ignored *)
  In (Some 0%N, SendToBackend ex_b (dgram_header ex_a1 ex_b ++ [1;2;3]%N)) (allouts tr) /\
  In (Some 0%N, SendToBackend ex_b [6;7]%N) (allouts tr) /\
  In (Some 0%N, OpenUpstream 0 ex_b) (allouts tr) /\
  In (Some 0%N, SendToClient ex_a1 [8;9]%N) (allouts tr).
Proof. vm_compute. repeat split; auto 30. Qed.

Example teardown_once_nonvacuous :
  let h := (ex_hist ++ [(101, ITimeout); (102, IClient ex_a2 [7]); (103, ICloseAll)])%N in
  let m := fst (run ex_hash (mgr_new ex_cfg 2 8) h) in
  let tr := snd (run ex_hash (mgr_new ex_cfg 2 8) h) in
  m_ninc m = 3%N /\ closes 0 (allouts tr) = 1 /\ closes 1 (allouts tr) = 1 /\ closes 2 (allouts tr) = 1 /\
  closes 3 (allouts tr) = 0.
Proof. vm_compute. repeat split. Qed.

Example timeout_rearms_nonvacuous :
  let m := fst (run ex_hash (mgr_new ex_cfg 2 8) ex_hist) in
  (* fired 50 ms early: nothing is due, both flows remain, the timer is requested again *)
  slen (m_flows (fst (step ex_hash m 51 ITimeout))) = 2 /\
  snd (step ex_hash m 51 ITimeout) = [(None, ArmTimer 101%N)].
Proof. vm_compute. repeat split. Qed.

Example shell_timer_nonvacuous :
  let h := (ex_hist ++ [(51, ITimeout); (60, ITimeout)])%N in
  let m := fst (run ex_hash (mgr_new ex_cfg 2 8) h) in
  let tr := snd (run ex_hash (mgr_new ex_cfg 2 8) h) in
  m_armed m = Some 101%N /\ shell_timer tr None = Some 101%N.
Proof. vm_compute. repeat split. Qed.

Example order_nonvacuous :
  let tr := snd (run ex_hash (mgr_new ex_cfg 2 8) ex_hist) in
  fwd 0 (allouts tr) = [dgram_header ex_a1 ex_b ++ [1;2;3]; [6;7]]%N /\ fwd 1 (allouts tr) <> [].
Proof. vm_compute. split; [reflexivity | discriminate]. Qed.
