(** C17 — token interface of the model for the correspondence check.

    ops:
      add <pool idx> <names overridden?> <expiry overridden?> <fp> <exp> <name>...   (effective parse result)
      addbad                                   (unparsable certificate)
      del <fp>
      rep <pool idx> <ovn> <ove> <fp> <exp> <old parsable?> <old fp> <name>...
      repbad <old parsable?> <old fp>
      sni <name>
      auth <authority> <name>...
    obs: ok [<fp>] | err | fp <fp> <key> <name>... | dangling <fp> | none | some <entry> *)
From Coq Require Import List Arith ZArith NArith String Bool.
From SV Require Import Common.Tok Common.Trie C17.Model.
Import ListNotations.
Open Scope string_scope.
Open Scope list_scope.

Definition no_re_ok (_ : bytes) : bool := false.
Definition no_re_match (_ _ : bytes) : bool := false.

Definition bytes_of (ts : list tok) : list bytes :=
  flat_map (fun t => match t with TB b => [b] | _ => [] end) ts.

Definition step (r : resolver) (op : list tok) : resolver * list tok :=
  let bad := (r, [TS "badop"]) in
  match op with
  | TS name :: args =>
    if name =? "add" then
      match args with
      | TN _ :: TN _ :: TN _ :: TB fp :: TN exp :: names =>
        (add_cert no_re_ok r (parsed_cert fp (bytes_of names) exp), [TS "ok"; TB fp])
      | _ => bad
      end
    else if name =? "addbad" then (r, [TS "err"])
    else if name =? "del" then
      match args with
      | [TB fp] => (remove_cert no_re_ok r fp, [TS "ok"])
      | _ => bad
      end
    else if name =? "rep" then
      match args with
      | TN _ :: TN _ :: TN _ :: TB fp :: TN exp :: TN oldk :: TB old :: names =>
        let '(r', _) := replace_cert no_re_ok r (Some (parsed_cert fp (bytes_of names) exp))
                                     (if (oldk =? 1)%Z then Some old else None) in
        (r', [TS "ok"; TB fp])
      | _ => bad
      end
    else if name =? "repbad" then (r, [TS "err"])
    else if name =? "sni" then
      match args with
      | [TB n] =>
        match resolve no_re_match r n with
        | Some (key, fp) =>
          match aget fp (store r) with
          | Some c => (r, TS "fp" :: TB fp :: TB key :: map TB (c_names c))
          | None => (r, [TS "dangling"; TB fp])
          end
        | None => (r, [TS "none"])
        end
      | _ => bad
      end
    else if name =? "auth" then
      match args with
      | TB a :: names =>
        match authority_matched a (bytes_of names) with
        | Some e => (r, [TS "some"; TB e])
        | None => (r, [TS "none"])
        end
      | _ => bad
      end
    else bad
  | _ => bad
  end.

Fixpoint run_from (r : resolver) (ops : list (list tok)) : list (list tok) :=
  match ops with
  | [] => []
  | op :: ops' => let '(r', o) := step r op in o :: run_from r' ops'
  end.

Definition run_case (ops : list (list tok)) : list (list tok) := run_from empty_resolver ops.
