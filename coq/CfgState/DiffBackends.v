(** CfgState — the backends section of [diff] applied (C06): the merge-join on
    (cluster, backend id, address) composed with add_backend / remove_backend. *)
From stdpp Require Import gmap strings.
From Coq Require Import NArith Lia.
From SV Require Import CfgState.Model CfgState.Spec CfgState.Proofs CfgState.ReplayProofs CfgState.ReplayBuckets
  CfgState.InvRProofs CfgState.DiffProofs CfgState.DiffChunks CfgState.DiffClusters CfgState.DiffAbs CfgState.DiffBuckets.
Open Scope N_scope.

(** * a list sorted by a comparison and duplicate-free on keys is strictly sorted *)
Section cmp_sorted.
  Context {K V : Type} (kcmp : K -> K -> comparison).
  Hypothesis cmp_refl : forall a, kcmp a a = Eq.
  Hypothesis cmp_eq : forall a b, kcmp a b = Eq -> a = b.
  Hypothesis cmp_antisym : forall a b, kcmp b a = CompOpp (kcmp a b).
  Hypothesis cmp_trans : forall a b c, kcmp a b = Lt -> kcmp b c = Lt -> kcmp a c = Lt.

  Definition le_of (x y : K * V) : bool := match kcmp (fst x) (fst y) with Gt => false | _ => true end.

  Lemma le_of_total x y : le_of x y = false -> le_of y x = true.
  Proof. unfold le_of. rewrite (cmp_antisym (fst x) (fst y)). destruct (kcmp (fst x) (fst y)); cbn; congruence. Qed.

  Lemma le_of_trans x y z : le_of x y = true -> le_of y z = true -> le_of x z = true.
  Proof.
    unfold le_of. destruct (kcmp (fst x) (fst y)) eqn:E1; try discriminate; destruct (kcmp (fst y) (fst z)) eqn:E2; try discriminate; intros _ _.
    - apply cmp_eq in E1. rewrite E1, E2. reflexivity.
    - apply cmp_eq in E1. rewrite E1, E2. reflexivity.
    - apply cmp_eq in E2. rewrite <- E2, E1. reflexivity.
    - rewrite (cmp_trans _ _ _ E1 E2). reflexivity.
  Qed.

  Lemma ssorted_of_sorted (l : list (K * V)) : sorted le_of l -> NoDup (l.*1) -> ssorted kcmp l.
  Proof.
    induction l as [|[k v] l IH]; intros Hs Hnd; [exact I|].
    rewrite fmap_cons in Hnd. apply NoDup_cons in Hnd as [Hni Hnd]. cbn [fst] in Hni.
    split; [|apply IH; [eapply sorted_tail; exact Hs|exact Hnd]].
    assert (Hall : forall y, y ∈ l -> kcmp k (fst y) = Lt).
    { intros y Hy. pose proof (sorted_head_le le_of le_of_trans (k, v) l Hs y Hy) as Hle. unfold le_of in Hle. cbn [fst] in Hle.
      destruct (kcmp k (fst y)) eqn:E; [|reflexivity|discriminate].
      exfalso. apply cmp_eq in E. apply Hni. rewrite E. apply elem_of_list_fmap. exists y. split; [reflexivity|exact Hy]. }
    clear -Hall. induction l as [|[k2 v2] l IH]; [exact I|].
    split; [apply (Hall (k2, v2)); left|]. apply IH. intros y Hy. apply Hall. right. exact Hy.
  Qed.
End cmp_sorted.

(** * the (cluster, id, address) view *)
Definition b3 (k : N * N * N) : N * (N * N) := (fst (fst k), (snd (fst k), snd k)).
Definition babs (m : gmap N (list backend)) (k : N * N * N) : option backend := labs bkey m (b3 k).
Definition bIv (c : gmap N (list backend)) : Prop :=
  forall cl l, c !! cl = Some l -> isort bk_le l = l /\ NoDup (bkey <$> l).

Definition flat_backends (m : gmap N (list backend)) : list ((N * N * N) * backend) :=
  flat_map (fun cl : N * list backend => map (fun b => ((fst cl, b_id b, b_addr b), b)) (snd cl)) (map_to_list m).

Lemma In_flat_backends m k b :
  In (k, b) (flat_backends m) <-> exists l, m !! fst (fst k) = Some l /\ b ∈ l /\ k = (fst (fst k), b_id b, b_addr b).
Proof.
  unfold flat_backends. rewrite in_flat_map. split.
  - intros [[c l] [Hl Hin]]. cbn [fst snd] in Hin. apply in_map_iff in Hin as [b' [E Hb]]. inversion E; subst. cbn [fst snd].
    exists l. split; [apply (In_map_to_list _ _ _ Hl)|]. split; [apply elem_of_list_In; exact Hb|reflexivity].
  - intros [l [Hl [Hb Ek]]]. exists (fst (fst k), l). split; [apply elem_of_list_In, elem_of_map_to_list; exact Hl|].
    cbn [fst snd]. apply in_map_iff. exists b. split; [rewrite <- Ek; reflexivity|apply elem_of_list_In; exact Hb].
Qed.

Lemma NoDup_flat_backends m : bIv m -> NoDup ((flat_backends m).*1).
Proof.
  intros Hiv. unfold flat_backends.
  assert (Hall : forall c l, In (c, l) (map_to_list m) -> NoDup (bkey <$> l)).
  { intros c l Hin. eapply Hiv. apply (In_map_to_list _ _ _ Hin). }
  revert Hall. generalize (NoDup_fst_map_to_list m). generalize (map_to_list m). intros L.
  induction L as [|[c l] L IH]; intros Hnd Hall; [constructor|].
  rewrite fmap_cons in Hnd. apply NoDup_cons in Hnd as [Hni Hnd]. cbn [fst] in Hni.
  cbn [flat_map fst snd]. rewrite fmap_app. apply NoDup_app. split; [|split; [|apply IH; [exact Hnd|intros; eapply Hall; right; eauto]]].
  - assert (E : (map (fun b : backend => ((c, b_id b, b_addr b), b)) l).*1 = (fun k2 : N * N => (c, fst k2, snd k2)) <$> (bkey <$> l)).
    { clear. induction l as [|b l IH]; [reflexivity|]. cbn. f_equal. exact IH. }
    rewrite E. apply NoDup_fmap_2; [intros [x1 x2] [y1 y2] H; inversion H; reflexivity|]. eapply Hall. left. reflexivity.
  - intros k Hk Hk'. apply elem_of_list_fmap in Hk as [[k1 b1] [-> H1]]. apply elem_of_list_In, in_map_iff in H1 as [b [E _]].
    inversion E; subst. apply elem_of_list_fmap in Hk' as [[k2 b2] [E2 H2]]. cbn [fst] in E2. subst k2.
    apply elem_of_list_In, in_flat_map in H2 as [[c' l'] [Hcl H2]]. cbn [fst snd] in H2. apply in_map_iff in H2 as [b' [E' _]].
    inversion E'; subst. apply Hni. apply elem_of_list_fmap. exists (c, l'). split; [reflexivity|apply elem_of_list_In; exact Hcl].
Qed.

Lemma backend_map_lookup m k : bIv m -> backend_map m !! k = babs m k.
Proof.
  intros Hiv. apply option_eq. intros b. unfold backend_map. fold (flat_backends m).
  assert (Hnd : NoDup ((reverse (flat_backends m)).*1)).
  { rewrite fmap_reverse, reverse_Permutation. apply NoDup_flat_backends. exact Hiv. }
  rewrite <- elem_of_list_to_map by exact Hnd. rewrite elem_of_reverse, elem_of_list_In, In_flat_backends.
  unfold babs, labs, b3. cbn [fst snd]. destruct k as [[c id] a]. cbn [fst snd]. split.
  - intros [l [Hl [Hb Ek]]]. rewrite Hl. apply lfind_Some; [eapply Hiv; eauto|]. split; [exact Hb|]. inversion Ek. reflexivity.
  - destruct (m !! c) as [l|] eqn:El; [|discriminate]. intros Hf. apply (lfind_Some bkey l _ b (proj2 (Hiv c l El))) in Hf as [Hb Ek].
    exists l. split; [reflexivity|]. split; [exact Hb|]. unfold bkey in Ek. inversion Ek. reflexivity.
Qed.

Definition ble := @le_of (N * N * N) backend N3_cmp.

Lemma backend_entries_eq m : backend_entries m = isort ble (map_to_list (backend_map m)).
Proof. reflexivity. Qed.

Lemma In_backend_entries m k b : bIv m -> (In (k, b) (backend_entries m) <-> babs m k = Some b).
Proof. intros Hiv. rewrite backend_entries_eq, In_isort, <- elem_of_list_In, elem_of_map_to_list, backend_map_lookup by exact Hiv. reflexivity. Qed.

Lemma ssorted_backend_entries m : ssorted N3_cmp (backend_entries m).
Proof.
  rewrite backend_entries_eq.
  apply (ssorted_of_sorted N3_cmp N3_cmp_eq N3_cmp_trans).
  - apply isort_sorted. apply (le_of_total N3_cmp N3_cmp_antisym).
  - rewrite (isort_perm ble). apply NoDup_fst_map_to_list.
Qed.

Lemma same_backend_spec id a x : same_backend id a x = true <-> bkey x = (id, a).
Proof.
  unfold same_backend, bkey. rewrite andb_true_iff, !N.eqb_eq. split; [intros [-> ->]; reflexivity|intros E; inversion E; auto].
Qed.

Lemma lfilter_shorter {A} (f : A -> bool) l x : x ∈ l -> f x = false -> (length (List.filter f l) < length l)%nat.
Proof.
  induction l as [|y l IH]; intros Hin Hf; [inversion Hin|]. cbn. apply elem_of_cons in Hin as [->|Hin].
  - rewrite Hf. pose proof (lfilter_length_le f l). lia.
  - specialize (IH Hin Hf). destruct (f y); cbn; lia.
Qed.

Lemma babs_key m k b : bIv m -> babs m k = Some b -> bkey b = (snd (fst k), snd k).
Proof.
  intros Hiv. unfold babs, labs, b3. cbn [fst snd]. destruct (m !! fst (fst k)) as [l|] eqn:El; [|discriminate].
  intros Hf. apply (lfind_Some bkey l _ b (proj2 (Hiv _ l El))) in Hf as [_ E]. exact E.
Qed.

Section backends.
  Variable fingerprint : N -> option N.
  Variable inames : N -> option (list N).
  Variable hc_valid : N -> bool.
  Variable steps : lkind -> list step.
  Notation replay := (replay fingerprint inames hc_valid steps).

  Lemma step_remove_backend (k : N * N * N) s c :
    bIv c -> is_Some (babs c k) ->
    exists c', replay [RRemoveBackend (fst (fst k)) (snd (fst k)) (snd k)] (set_backends s c) = (set_backends s c', 0%nat) /\ bIv c'
               /\ forall k', babs c' k' = fun_alter (fun _ => None) k (babs c) k'.
  Proof.
    intros Hiv [x Hx]. destruct k as [[cl id] a]. cbn [fst snd].
    pose proof (babs_key c _ x Hiv Hx) as Hxk. cbn [fst snd] in Hxk.
    unfold babs, labs, b3 in Hx. cbn [fst snd] in Hx. destruct (c !! cl) as [l|] eqn:El; [|discriminate].
    destruct (Hiv cl l El) as [Hsl Hnl].
    apply (lfind_Some bkey l _ x Hnl) in Hx as [Hxin _].
    set (l' := isort bk_le (List.filter (fun y => negb (same_backend id a y)) l)).
    assert (Hmem : forall t, t ∈ l' <-> t ∈ l /\ bkey t <> (id, a)).
    { intros t. unfold l'. rewrite elem_of_list_In, In_isort, filter_In, <- elem_of_list_In, negb_true_iff, <- not_true_iff_false, same_backend_spec. reflexivity. }
    assert (Hnl' : NoDup (bkey <$> l')).
    { unfold l'. rewrite (isort_perm bk_le), lfilter_stdpp. apply NoDup_fmap_filter. exact Hnl. }
    cbn [Model.replay Model.dispatch]. unfold remove_backend. cbn [backends set_backends]. rewrite El. fold l'.
    assert (Hlen : (length l' =? length l)%nat = false).
    { apply Nat.eqb_neq. unfold l'. rewrite isort_length.
      pose proof (lfilter_shorter (fun y => negb (same_backend id a y)) l x Hxin) as H.
      assert (negb (same_backend id a x) = false) by (apply negb_false_iff, same_backend_spec; exact Hxk). specialize (H H0). lia. }
    rewrite Hlen. eexists. split; [reflexivity|]. split.
    - intros c2 l2 H2. destruct (decide (c2 = cl)) as [->|Hne].
      + rewrite lookup_insert in H2. inversion H2; subst. split; [apply isort_idem, bk_le_total|exact Hnl'].
      + rewrite lookup_insert_ne in H2 by congruence. eapply Hiv; eauto.
    - intros [[c2 id2] a2]. unfold fun_alter, babs, labs, b3. cbn [fst snd].
      destruct (decide (c2 = cl)) as [->|Hc].
      + rewrite lookup_insert, El. rewrite (lfind_remove bkey l l' (id, a) Hnl Hnl' Hmem).
        destruct (decide ((id2, a2) = (id, a))) as [E|E]; destruct (decide ((cl, id2, a2) = (cl, id, a))) as [E'|E']; try reflexivity; congruence.
      + rewrite lookup_insert_ne by congruence. rewrite decide_False by congruence. reflexivity.
  Qed.

  Lemma step_add_backend (k : N * N * N) (b : backend) s c :
    bIv c -> bkey b = (snd (fst k), snd k) ->
    exists c', replay [RAddBackend (fst (fst k)) b] (set_backends s c) = (set_backends s c', 0%nat) /\ bIv c'
               /\ forall k', babs c' k' = fun_alter (fun _ => Some b) k (babs c) k'.
  Proof.
    intros Hiv Hbk. destruct k as [[cl id] a]. cbn [fst snd] in *.
    set (l := default [] (c !! cl)).
    assert (Hnl : NoDup (bkey <$> l)) by (unfold l; destruct (c !! cl) as [l0|] eqn:El; cbn; [apply (Hiv cl l0 El)|constructor]).
    set (l' := isort bk_le (List.filter (fun y => negb (same_backend (b_id b) (b_addr b) y)) l ++ [b])).
    assert (Hba : (b_id b, b_addr b) = (id, a)) by exact Hbk.
    assert (Hmem : forall t, t ∈ l' <-> t = b \/ (t ∈ l /\ bkey t <> bkey b)).
    { intros t. unfold l'. rewrite elem_of_list_In, In_isort, in_app_iff, filter_In, <- elem_of_list_In, negb_true_iff, <- not_true_iff_false, same_backend_spec.
      cbn [In]. unfold bkey at 3. split; [intros [H|[H|[]]]; [right; exact H|left; symmetry; exact H]|intros [->|H]; [right; left; reflexivity|left; exact H]]. }
    assert (Hnl' : NoDup (bkey <$> l')) by (unfold l'; rewrite (isort_perm bk_le); apply NoDup_keys_upsert; exact Hnl).
    cbn [Model.replay Model.dispatch]. unfold add_backend. cbn [backends set_backends]. fold l. fold l'.
    eexists. split; [reflexivity|]. split.
    - intros c2 l2 H2. destruct (decide (c2 = cl)) as [->|Hne].
      + rewrite lookup_insert in H2. inversion H2; subst. split; [apply isort_idem, bk_le_total|exact Hnl'].
      + rewrite lookup_insert_ne in H2 by congruence. eapply Hiv; eauto.
    - intros [[c2 id2] a2]. unfold fun_alter, babs, labs, b3. cbn [fst snd].
      destruct (decide (c2 = cl)) as [->|Hc].
      + rewrite lookup_insert. rewrite (lfind_upsert bkey l l' b Hnl Hnl' Hmem).
        assert (El : lfind bkey l (id2, a2) = match c !! cl with Some l0 => lfind bkey l0 (id2, a2) | None => None end)
          by (unfold l; destruct (c !! cl); reflexivity).
        destruct (decide ((id2, a2) = bkey b)) as [E|E]; destruct (decide ((cl, id2, a2) = (cl, id, a))) as [E'|E']; try reflexivity.
        * exfalso. apply E'. rewrite Hbk in E. congruence.
        * exfalso. apply E. rewrite Hbk. congruence.
        * exact El.
      + rewrite lookup_insert_ne by congruence. rewrite decide_False by congruence. reflexivity.
  Qed.
End backends.

Lemma buckets_equal (c1 c2 : gmap N (list backend)) :
  bIv c1 -> bIv c2 -> (forall k, babs c1 k = babs c2 k) ->
  forall cl, default [] (c1 !! cl) = default [] (c2 !! cl).
Proof.
  intros H1 H2 He cl.
  assert (Hs : forall (c : gmap N (list backend)), bIv c -> sorted bk_le (default [] (c !! cl)) /\ NoDup (default [] (c !! cl))).
  { intros c Hc. destruct (c !! cl) as [l|] eqn:E; cbn; [|split; constructor].
    destruct (Hc cl l E) as [Hi Hn]. split; [rewrite <- Hi; apply isort_sorted, bk_le_total|eapply NoDup_fmap_1; exact Hn]. }
  destruct (Hs c1 H1) as [S1 N1]. destruct (Hs c2 H2) as [S2 N2].
  apply (sorted_nodup_eq bk_le bk_le_trans bk_le_antisym); try assumption.
  intros t. apply (labs_same_elements bkey c1 c2).
  - intros c l Hl. apply (H1 c l Hl).
  - intros c l Hl. apply (H2 c l Hl).
  - intros [c [id a]]. apply (He (c, id, a)).
Qed.

Lemma babs_norm (c1 c2 : gmap N (list backend)) :
  bIv c1 -> bIv c2 -> (forall k, babs c1 k = babs c2 k) -> drop_empty c1 = drop_empty c2.
Proof.
  intros H1 H2 He. pose proof (buckets_equal c1 c2 H1 H2 He) as Hb.
  unfold drop_empty. apply map_eq. intros cl. apply option_eq. intros l. rewrite !map_filter_lookup_Some. cbn [snd].
  specialize (Hb cl). split; intros [Hl Hne]; split; try exact Hne.
  - rewrite Hl in Hb. cbn in Hb. destruct (c2 !! cl) as [l2|]; cbn in Hb; [congruence|]. subst l. contradiction.
  - rewrite Hl in Hb. cbn in Hb. destruct (c1 !! cl) as [l1|]; cbn in Hb; [congruence|]. subst l. contradiction.
Qed.

Section backends_piece.
  Variable fingerprint : N -> option N.
  Variable inames : N -> option (list N).
  Variable hc_valid : N -> bool.
  Variable steps : lkind -> list step.
  Notation replay := (replay fingerprint inames hc_valid steps).
  Variables my other : gmap N (list backend).
  Hypothesis Hivm : bIv my.
  Hypothesis Hivo : bIv other.

  Definition bg (k : N * N * N) (r : dres) (o : option backend) : option backend :=
    match r with DRemoved => None | _ => babs other k end.
  Definition bP (k : N * N * N) (r : dres) (o : option backend) : Prop :=
    match r with
    | DAdded => is_Some (babs other k)
    | DRemoved => is_Some (babs my k) /\ is_Some o
    | DChanged => is_Some (babs my k) /\ is_Some (babs other k) /\ is_Some o
    end.

  Lemma chunk_backend k r s c :
    bIv c -> bP k r (babs c k) ->
    exists c', replay (backend_chunk my other k r) (set_backends s c) = (set_backends s c', 0%nat) /\ bIv c'
               /\ forall k', babs c' k' = fun_alter (bg k r) k (babs c) k'.
  Proof.
    intros Hiv HP. unfold backend_chunk. rewrite !backend_map_lookup by assumption.
    assert (Hrm : forall bm, babs my k = Some bm ->
              [RRemoveBackend (fst (fst k)) (b_id bm) (b_addr bm)] = [RRemoveBackend (fst (fst k)) (snd (fst k)) (snd k)]).
    { intros bm Hbm. pose proof (babs_key my k bm Hivm Hbm) as E. unfold bkey in E. inversion E. reflexivity. }
    destruct r; cbn [bP bg] in *.
    - destruct HP as [bo Hbo]. rewrite Hbo.
      destruct (step_add_backend fingerprint inames hc_valid steps k bo s c Hiv (babs_key other k bo Hivo Hbo)) as (c' & Hr & Hi & Ha).
      exists c'. split; [exact Hr|]. split; [exact Hi|]. intros k'. rewrite Ha. unfold fun_alter. destruct (decide (k' = k)); [cbn [bg]; rewrite Hbo; reflexivity|reflexivity].
    - destruct HP as [[bm Hbm] Ho]. rewrite Hbm, (Hrm bm Hbm).
      destruct (step_remove_backend fingerprint inames hc_valid steps k s c Hiv Ho) as (c' & Hr & Hi & Ha).
      exists c'. split; [exact Hr|]. split; [exact Hi|]. exact Ha.
    - destruct HP as [[bm Hbm] [[bo Hbo] Ho]]. rewrite Hbm, Hbo, (Hrm bm Hbm).
      destruct (step_remove_backend fingerprint inames hc_valid steps k s c Hiv Ho) as (c1 & Hr1 & Hi1 & Ha1).
      destruct (step_add_backend fingerprint inames hc_valid steps k bo s c1 Hi1 (babs_key other k bo Hivo Hbo)) as (c2 & Hr2 & Hi2 & Ha2).
      exists c2. split; [rewrite replay_app, Hr1, Hr2; reflexivity|]. split; [exact Hi2|].
      intros k'. rewrite Ha2. unfold fun_alter. destruct (decide (k' = k)); [cbn [bg]; rewrite Hbo; reflexivity|].
      rewrite Ha1. unfold fun_alter. rewrite decide_False by assumption. reflexivity.
  Qed.

  Theorem piece_backends s :
    backends s = my ->
    exists c', replay (diff_backends my other) s = (set_backends s c', 0%nat) /\ bIv c' /\ forall k, babs c' k = babs other k.
  Proof.
    intros Hmy. unfold diff_backends.
    set (veq := fun a b : backend => bool_decide (a = b)).
    set (L := diff_map N3_cmp veq (backend_entries my) (backend_entries other)).
    assert (Hnd : NoDup (L.*1)).
    { apply (dm_nodup N3_cmp veq N3_cmp_refl N3_cmp_eq N3_cmp_antisym N3_cmp_trans); apply ssorted_backend_entries. }
    assert (Hcorr := dm_correct N3_cmp veq N3_cmp_refl N3_cmp_eq N3_cmp_antisym N3_cmp_trans
                       (backend_entries my) (backend_entries other) (ssorted_backend_entries my) (ssorted_backend_entries other)).
    fold L in Hcorr.
    assert (Hhas : forall m k, bIv m -> (has (backend_entries m) k <-> is_Some (babs m k))).
    { intros m k Hiv. unfold has. split; intros [v Hv]; exists v; apply (In_backend_entries m k v Hiv); exact Hv. }
    assert (Es : s = set_backends s my) by (destruct s; cbn in *; subst; reflexivity).
    destruct (replay_chunks_abs fingerprint inames hc_valid steps set_backends babs bIv
                (backend_chunk my other) bg bP chunk_backend L my s Hivm Hnd) as (c' & Hr & Hi & Ha).
    { intros k r Hin. apply Hcorr in Hin. destruct r; cbn [bP].
      - destruct Hin as [_ Ho]. apply Hhas in Ho; assumption.
      - destruct Hin as [Hm _]. apply Hhas in Hm; [|assumption]. split; assumption.
      - destruct Hin as (v1 & v2 & H1 & H2 & _). apply In_backend_entries in H1, H2; try assumption.
        rewrite H1, H2. repeat split; eauto. }
    exists c'. split; [rewrite Es at 1; exact Hr|]. split; [exact Hi|]. intros k. rewrite Ha.
    destruct (decide (k ∈ L.*1)) as [Hin|Hnin].
    - apply elem_of_list_fmap in Hin as [[k' r] [-> Hin]]. cbn [fst]. apply elem_of_list_In in Hin.
      rewrite (apply_f_in _ _ _ k' r Hnd Hin). apply Hcorr in Hin. destruct r; cbn [bg]; try reflexivity.
      destruct Hin as [_ Ho]. destruct (babs other k') eqn:E; [|reflexivity]. exfalso. apply Ho. apply Hhas; [assumption|]. rewrite E. eauto.
    - rewrite apply_f_notin by exact Hnin.
      assert (Hno : forall r, ~ In (k, r) L).
      { intros r Hin. apply Hnin. apply elem_of_list_fmap. exists (k, r). split; [reflexivity|apply elem_of_list_In; exact Hin]. }
      destruct (babs my k) as [b1|] eqn:E1; destruct (babs other k) as [b2|] eqn:E2; try reflexivity.
      + destruct (decide (b1 = b2)) as [->|Hne]; [reflexivity|]. exfalso. apply (Hno DChanged). apply Hcorr.
        exists b1, b2. repeat split; [apply In_backend_entries; assumption|apply In_backend_entries; assumption|].
        unfold veq. apply bool_decide_eq_false_2. exact Hne.
      + exfalso. apply (Hno DRemoved). apply Hcorr. split; [apply Hhas; [assumption|rewrite E1; eauto]|].
        intros Hh. apply Hhas in Hh; [|assumption]. rewrite E2 in Hh. destruct Hh as [? Hh]. discriminate.
      + exfalso. apply (Hno DAdded). apply Hcorr. split; [|apply Hhas; [assumption|rewrite E2; eauto]].
        intros Hh. apply Hhas in Hh; [|assumption]. rewrite E1 in Hh. destruct Hh as [? Hh]. discriminate.
  Qed.
End backends_piece.
