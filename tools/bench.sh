#!/bin/bash
# Mutation bench: a private copy of /verif + a scratch worktree of /repo, so seeded
# changes can be tried without disturbing anybody building from /repo.
#   tools/bench.sh sync                 (create or refresh the bench from /verif and /repo HEAD)
#   tools/bench.sh sync-head            (the same from /verif's HEAD commit instead of its working tree)
#   tools/bench.sh try <patch> <Cxx>... (apply patch to the bench repo, run the checks, undo)
B=${BENCH:-/tmp/mut/bench}
set -u
case "$1" in
 sync)
  mkdir -p $B
  if [ ! -d $B/repo ]; then git -C /repo worktree add -q --detach $B/repo HEAD; fi
  git -C $B/repo checkout -q -- . ; git -C $B/repo clean -fdq -e target
  git -C $B/repo checkout -q --detach $(git -C /repo rev-parse HEAD)
  rsync -a --delete --exclude .build --exclude .git --exclude 'evidence/replays' /verif/ $B/verif/
  sed -i "s|path = \"/repo/|path = \"$B/repo/|g" $B/verif/harness/Cargo.toml
  sed -i "s|/verif/.build/cargo-target|$B/verif/.build/cargo-target|" $B/verif/harness/.cargo/config.toml
  rm -f $B/verif/harness/Cargo.lock
  echo "bench at $B synced to $(git -C /repo rev-parse --short HEAD)"
  ;;
 sync-head)
  # like sync, but /verif as committed (HEAD), not the working tree (owners may be in the middle of an edit)
  mkdir -p $B/verif
  if [ ! -d $B/repo ]; then git -C /repo worktree add -q --detach $B/repo HEAD; fi
  git -C $B/repo checkout -q -- . ; git -C $B/repo clean -fdq -e target
  git -C $B/repo checkout -q --detach $(git -C /repo rev-parse HEAD)
  T=$(mktemp -d /tmp/mut/synchead.XXXXXX); git -C /verif archive HEAD | tar -x -C $T
  # by content, without timestamps: a changed source gets a fresh mtime (so Coq rebuilds it), an unchanged one keeps its build products
  rsync -rlpc --delete --exclude .build --exclude '*.vo' --exclude '*.vok' --exclude '*.vos' --exclude '*.glob' --exclude '*.aux' \
        --exclude 'Makefile*' --exclude '.Makefile.d' --exclude '.nia.cache' --exclude '.lia.cache' --exclude 'Gen.v' --exclude 'evidence/replays' $T/ $B/verif/
  rm -rf $T
  sed -i "s|path = \"/repo/|path = \"$B/repo/|g" $B/verif/harness/Cargo.toml
  sed -i "s|/verif/.build/cargo-target|$B/verif/.build/cargo-target|" $B/verif/harness/.cargo/config.toml
  rm -f $B/verif/harness/Cargo.lock
  echo "bench at $B synced to /verif $(git -C /verif rev-parse --short HEAD), /repo $(git -C /repo rev-parse --short HEAD)"
  ;;
 try)
  patch=$(realpath $2); shift 2
  git -C $B/repo apply $patch || { echo "PATCH DOES NOT APPLY"; exit 2; }
  for p in "$@"; do
    out=$(cd $B/verif && VERIF_REPO=$B/repo ./check $p --tier quick 2>&1); rc=$?
    echo "$p rc=$rc | $(echo "$out" | grep '^VIOLATION' | head -1) | $(echo "$out" | grep '^\[check\] C' | tail -1)"
    rp=$(echo "$out" | grep '^VIOLATION' | head -1 | sed 's/.*replay=\([^ ]*\).*/\1/')
    [ -n "$rp" ] && [ -f "$rp" ] && head -3 "$rp" | cut -c1-300
  done
  git -C $B/repo checkout -q -- . ; git -C $B/repo clean -fdq -e target
  ;;
esac
