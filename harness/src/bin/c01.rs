//! C01 driver (in-process tier): the real `SocketHandler::socket_write` and
//! `socket_write_vectored` of a mio `TcpStream` over a loopback pair. After
//! every write the peer reads back exactly the reported count and the driver
//! checks that it is the offered prefix (no loss, duplication, reordering).
use std::{
    io::{IoSlice, Read},
    net::{TcpListener, TcpStream as StdStream},
    time::Duration,
};

use mio::net::TcpStream;
use rustls::{
    client::danger::{HandshakeSignatureValid, ServerCertVerified, ServerCertVerifier},
    pki_types::{pem::PemObject, CertificateDer, PrivateKeyDer, ServerName, UnixTime},
    ClientConfig, DigitallySignedStruct, ServerConfig, ServerConnection, SignatureScheme,
};
use sozu_lib::socket::{FrontRustls, SocketHandler, SocketResult};
use std::sync::{Arc, Mutex};
use verif_harness::*;

#[derive(Debug)]
struct NoVerify;
impl ServerCertVerifier for NoVerify {
    fn verify_server_cert(&self, _: &CertificateDer<'_>, _: &[CertificateDer<'_>], _: &ServerName<'_>, _: &[u8], _: UnixTime) -> Result<ServerCertVerified, rustls::Error> {
        Ok(ServerCertVerified::assertion())
    }
    fn verify_tls12_signature(&self, _: &[u8], _: &CertificateDer<'_>, _: &DigitallySignedStruct) -> Result<HandshakeSignatureValid, rustls::Error> {
        Ok(HandshakeSignatureValid::assertion())
    }
    fn verify_tls13_signature(&self, _: &[u8], _: &CertificateDer<'_>, _: &DigitallySignedStruct) -> Result<HandshakeSignatureValid, rustls::Error> {
        Ok(HandshakeSignatureValid::assertion())
    }
    fn supported_verify_schemes(&self) -> Vec<SignatureScheme> {
        vec![
            SignatureScheme::RSA_PKCS1_SHA256, SignatureScheme::RSA_PKCS1_SHA384, SignatureScheme::RSA_PKCS1_SHA512,
            SignatureScheme::ECDSA_NISTP256_SHA256, SignatureScheme::ECDSA_NISTP384_SHA384, SignatureScheme::ED25519,
            SignatureScheme::RSA_PSS_SHA256, SignatureScheme::RSA_PSS_SHA384, SignatureScheme::RSA_PSS_SHA512,
        ]
    }
}

/// a real FrontRustls (server side) whose peer is a rustls client thread that keeps reading
struct Tls {
    front: FrontRustls,
    got: Arc<Mutex<Vec<u8>>>,
    sent: Vec<u8>,
}

fn new_tls(limit: usize) -> Tls {
    let _ = rustls::crypto::ring::default_provider().install_default();
    let certs: Vec<CertificateDer<'static>> =
        CertificateDer::pem_slice_iter(include_bytes!("/repo/lib/assets/local-certificate.pem")).map(|c| c.unwrap()).collect();
    let key = PrivateKeyDer::from_pem_slice(include_bytes!("/repo/lib/assets/local-key.pem")).unwrap();
    let sc = ServerConfig::builder().with_no_client_auth().with_single_cert(certs, key).unwrap();
    let l = TcpListener::bind("127.0.0.1:0").unwrap();
    let addr = l.local_addr().unwrap();
    let got = Arc::new(Mutex::new(Vec::new()));
    let got2 = got.clone();
    std::thread::spawn(move || {
        let mut cc = ClientConfig::builder().dangerous().with_custom_certificate_verifier(Arc::new(NoVerify)).with_no_client_auth();
        cc.alpn_protocols = vec![];
        let mut conn = rustls::ClientConnection::new(Arc::new(cc), ServerName::try_from("localhost".to_owned()).unwrap()).unwrap();
        let mut tcp = StdStream::connect(addr).unwrap();
        tcp.set_read_timeout(Some(Duration::from_secs(20))).unwrap();
        while conn.is_handshaking() {
            if conn.complete_io(&mut tcp).is_err() {
                return;
            }
        }
        let mut tls = rustls::StreamOwned::new(conn, tcp);
        let mut buf = vec![0u8; 65536];
        loop {
            match tls.read(&mut buf) {
                Ok(0) | Err(_) => return,
                Ok(n) => got2.lock().unwrap().extend_from_slice(&buf[..n]),
            }
        }
    });
    let (mut srv, _) = l.accept().unwrap();
    let mut session = ServerConnection::new(Arc::new(sc)).unwrap();
    while session.is_handshaking() {
        session.complete_io(&mut srv).expect("server handshake");
    }
    // flush the session tickets of TLS 1.3 before going non-blocking
    while session.wants_write() {
        session.write_tls(&mut srv).unwrap();
    }
    session.set_buffer_limit(if limit == 0 { None } else { Some(limit) });
    srv.set_nonblocking(true).unwrap();
    srv.set_nodelay(true).unwrap();
    let front = FrontRustls {
        stream: TcpStream::from_std(srv),
        session,
        peer_disconnected: false,
        peer_reset: false,
        session_ulid: rusty_ulid::Ulid::generate(),
    };
    Tls { front, got, sent: vec![] }
}

/// waits (flushing rustls) until the client has read everything reported as written; checks it
fn tls_settle(t: &mut Tls, out: &mut Out, what: &str) {
    let t0 = std::time::Instant::now();
    loop {
        if t.front.socket_wants_write() {
            let _ = t.front.socket_write_vectored(&[]);
        }
        let n = t.got.lock().unwrap().len();
        if n >= t.sent.len() {
            break;
        }
        if t0.elapsed() > Duration::from_secs(10) {
            out.viol("tls-lost", &format!("{what}: {} bytes reported written, the peer received {n}", t.sent.len()));
            return;
        }
        std::thread::sleep(Duration::from_millis(1));
    }
    let g = t.got.lock().unwrap();
    if g.len() != t.sent.len() || g[..] != t.sent[..] {
        let i = g.iter().zip(t.sent.iter()).position(|(a, b)| a != b).unwrap_or(g.len().min(t.sent.len()));
        out.viol("tls-corrupt", &format!("{what}: peer stream differs from what was reported written at offset {i} ({} vs {})", g.len(), t.sent.len()));
    }
}

struct St {
    sock: TcpStream,
    peer: StdStream,
}

fn new_pair() -> St {
    let l = TcpListener::bind("127.0.0.1:0").unwrap();
    let c = StdStream::connect(l.local_addr().unwrap()).unwrap();
    let (peer, _) = l.accept().unwrap();
    c.set_nonblocking(true).unwrap();
    c.set_nodelay(true).unwrap();
    peer.set_read_timeout(Some(Duration::from_secs(10))).unwrap();
    St { sock: TcpStream::from_std(c), peer }
}

fn pattern(n: usize, seed: u64) -> Vec<u8> {
    let mut x = seed.wrapping_mul(6364136223846793005).wrapping_add(1442695040888963407);
    let mut v = Vec::with_capacity(n);
    for _ in 0..n {
        x ^= x << 13;
        x ^= x >> 7;
        x ^= x << 17;
        v.push((x >> 24) as u8);
    }
    v
}

fn status_name(s: SocketResult) -> &'static str {
    match s {
        SocketResult::Continue => "Continue",
        SocketResult::WouldBlock => "WouldBlock",
        SocketResult::Closed => "Closed",
        SocketResult::Error => "Error",
    }
}

/// the peer reads exactly `n` bytes; they must be `want[..n]`
fn check_prefix(st: &mut St, want: &[u8], n: usize, out: &mut Out, what: &str) {
    if n > want.len() {
        out.viol("overcount", &format!("{what}: reported {n} bytes written, only {} offered", want.len()));
        return;
    }
    let mut got = vec![0u8; n];
    if let Err(e) = st.peer.read_exact(&mut got) {
        out.viol("lost", &format!("{what}: reported {n} bytes written but the peer could not read them: {e}"));
        return;
    }
    if got != want[..n] {
        let i = got.iter().zip(want.iter()).position(|(a, b)| a != b).unwrap_or(0);
        out.viol("corrupt", &format!("{what}: peer's bytes differ from the offered prefix at offset {i}"));
    }
    // nothing more may be in flight
    st.peer.set_nonblocking(true).unwrap();
    let mut one = [0u8; 1];
    if let Ok(k) = st.peer.read(&mut one) {
        if k > 0 {
            out.viol("dup", &format!("{what}: bytes beyond the reported count reached the peer"));
        }
    }
    st.peer.set_nonblocking(false).unwrap();
}


/// strict reader of what a client would get: -> (body bytes, message complete by its own framing)
fn read_h1(wire: &[u8], eof: bool) -> Result<(Vec<u8>, bool), String> {
    let Some(pos) = wire.windows(4).position(|w| w == b"\r\n\r\n") else { return Ok((vec![], false)) };
    let head = String::from_utf8_lossy(&wire[..pos]).to_ascii_lowercase();
    let mut cl: Option<usize> = None;
    let mut chunked = false;
    for l in head.split("\r\n").skip(1) {
        if let Some(v) = l.strip_prefix("content-length:") {
            if cl.is_some() {
                return Err("two content-length headers".into());
            }
            cl = Some(v.trim().parse().map_err(|_| "bad content-length".to_string())?);
        }
        if l.starts_with("transfer-encoding:") && l.contains("chunked") {
            chunked = true;
        }
    }
    let rest = &wire[pos + 4..];
    if chunked && cl.is_some() {
        return Err("both content-length and chunked".into());
    }
    if chunked {
        let mut body = vec![];
        let mut i = 0usize;
        loop {
            let Some(e) = rest[i..].windows(2).position(|w| w == b"\r\n") else { return Ok((body, false)) };
            let line = String::from_utf8_lossy(&rest[i..i + e]).to_string();
            let hex = line.split(';').next().unwrap_or("").trim().to_string();
            let sz = usize::from_str_radix(&hex, 16).map_err(|_| format!("bad chunk size line {line:?}"))?;
            let start = i + e + 2;
            if sz == 0 {
                // trailers up to the empty line
                let mut j = start;
                loop {
                    let Some(e2) = rest[j..].windows(2).position(|w| w == b"\r\n") else { return Ok((body, false)) };
                    if e2 == 0 {
                        return if j + 2 == rest.len() { Ok((body, true)) } else { Err("bytes after the last chunk".into()) };
                    }
                    j += e2 + 2;
                }
            }
            if rest.len() < start + sz {
                body.extend_from_slice(&rest[start..]);
                return Ok((body, false));
            }
            body.extend_from_slice(&rest[start..start + sz]);
            if rest.len() < start + sz + 2 {
                return Ok((body, false));
            }
            if &rest[start + sz..start + sz + 2] != b"\r\n" {
                return Err("chunk data not followed by CRLF".into());
            }
            i = start + sz + 2;
        }
    } else if let Some(n) = cl {
        if rest.len() > n {
            return Err("bytes after the declared length".into());
        }
        Ok((rest.to_vec(), rest.len() == n))
    } else {
        Ok((rest.to_vec(), eof))
    }
}

thread_local! { static LAST_PANIC_AT: std::cell::RefCell<String> = const { std::cell::RefCell::new(String::new()) }; }
static HOOK: std::sync::Once = std::sync::Once::new();

/// Runs a call into /repo's code; a panic in it is re-raised with the place it came from appended to its message
/// (last four path components and the line), so that a finding can be told from another by its text.
fn located<T>(f: impl FnOnce() -> T) -> T {
    HOOK.call_once(|| {
        std::panic::set_hook(Box::new(|info| {
            let at = info.location().map(|l| {
                let parts: Vec<&str> = l.file().split('/').collect();
                format!("{}:{}", parts[parts.len().saturating_sub(4)..].join("/"), l.line())
            });
            LAST_PANIC_AT.with(|c| *c.borrow_mut() = at.unwrap_or_default());
        }));
    });
    match std::panic::catch_unwind(std::panic::AssertUnwindSafe(f)) {
        Ok(v) => v,
        Err(p) => {
            let msg = p.downcast_ref::<&str>().map(|s| s.to_string()).or_else(|| p.downcast_ref::<String>().cloned()).unwrap_or_else(|| "panic".into());
            let at = LAST_PANIC_AT.with(|c| c.borrow().clone());
            panic!("{msg} [at {at}]");
        }
    }
}

fn run(case: &Case, out: &mut Out) {
    let mut st = new_pair();
    let mut tls: Option<Tls> = None;
    for op in &case.ops {
        let a = &op.args;
        match op.name.as_str() {
            "new" => {
                st = new_pair();
                out.obs(&[]);
            }
            "write" | "bigwrite" => {
                let n = a[0].n() as usize;
                let buf = pattern(n, a[1].n() as u64);
                let (w, s) = st.sock.socket_write(&buf);
                out.obs(&[ts(if w == n { "all" } else { "partial" }), ts(status_name(s))]);
                if (s == SocketResult::Continue) != (w == n) {
                    out.viol("status", &format!("socket_write: {w}/{n} bytes with status {}", status_name(s)));
                }
                check_prefix(&mut st, &buf, w, out, &op.name);
            }
            "writev" | "bigwritev" => {
                let seed = a[0].n() as u64;
                let bufs: Vec<Vec<u8>> = a[1..].iter().enumerate().map(|(i, t)| pattern(t.n() as usize, seed + i as u64)).collect();
                let total: usize = bufs.iter().map(|b| b.len()).sum();
                let slices: Vec<IoSlice> = bufs.iter().map(|b| IoSlice::new(b)).collect();
                let (w, s) = st.sock.socket_write_vectored(&slices);
                out.obs(&[ts(if w == total { "all" } else { "partial" }), ts(status_name(s))]);
                let flat: Vec<u8> = bufs.concat();
                check_prefix(&mut st, &flat, w, out, &op.name);
            }
            "tlsnew" => {
                tls = Some(new_tls(a[0].n() as usize));
                out.obs(&[]);
            }
            "tlswrite" => {
                let t = tls.as_mut().expect("tlsnew first");
                let n = a[0].n() as usize;
                let buf = pattern(n, a[1].n() as u64);
                let (w, st) = t.front.socket_write(&buf);
                out.obs(&[ts(if w == n { "all" } else { "partial" }), ts(status_name(st))]);
                if w > n {
                    out.viol("overcount", &format!("tls socket_write reported {w} of {n}"));
                }
                t.sent.extend_from_slice(&buf[..w.min(n)]);
                tls_settle(t, out, "tlswrite");
            }
            "tlswritev" => {
                // one vectored call, then the caller's retry loop on the remainder
                let t = tls.as_mut().expect("tlsnew first");
                // a[0] = the rustls buffer limit of this connection (for the model), a[1] = seed
                let seed = a[1].n() as u64;
                let bufs: Vec<Vec<u8>> = a[2..].iter().enumerate().map(|(i, x)| pattern(x.n() as usize, seed + i as u64)).collect();
                let flat: Vec<u8> = bufs.concat();
                let slices: Vec<IoSlice> = bufs.iter().map(|b| IoSlice::new(b)).collect();
                let (w, st) = t.front.socket_write_vectored(&slices);
                let mut toks = vec![ts(if w == flat.len() { "all" } else { "partial" }), ts(status_name(st))];
                if w > flat.len() {
                    out.viol("overcount", &format!("tls socket_write_vectored reported {w} of {}", flat.len()));
                }
                t.sent.extend_from_slice(&flat[..w.min(flat.len())]);
                let mut done = w.min(flat.len());
                let mut last = st;
                let mut rounds = 0;
                while done < flat.len() && last == SocketResult::Continue && rounds < 10_000 {
                    let rest = [IoSlice::new(&flat[done..])];
                    let (w2, st2) = t.front.socket_write_vectored(&rest);
                    t.sent.extend_from_slice(&flat[done..done + w2.min(flat.len() - done)]);
                    done += w2;
                    last = st2;
                    rounds += 1;
                    if w2 == 0 && st2 == SocketResult::Continue {
                        // rustls full and the socket accepted nothing more right now: let the peer drain
                        std::thread::sleep(Duration::from_millis(1));
                    }
                }
                toks.push(ts(if done == flat.len() { "all" } else { "partial" }));
                out.obs(&toks);
                if done < flat.len() && last == SocketResult::Continue {
                    out.viol("tls-stall", &format!("vectored retry loop stopped at {done}/{} with status Continue", flat.len()));
                }
                tls_settle(t, out, "tlswritev");
            }
            "h1rt" => {
                // h1rt <kind 0 cl | 1 chunked | 2 close-delimited> <whole> <head len> <content-length> <input bytes> S <segment sizes>..
                use sozu_lib::protocol::http::editor::HttpContext;
                let kind = a[0].n();
                let whole = a[1].n() != 0;
                let input_owned: Vec<u8> = a[4].b().to_vec();
                let mut segs: Vec<usize> = vec![];
                let mut mode = 0;
                for t in &a[5..] {
                    match t {
                        Tok::S(m) if m == "S" => mode = 1,
                        Tok::N(n) if mode == 1 => segs.push((*n as usize).max(1)),
                        _ => {}
                    }
                }
                let cut = if whole { -1i128 } else { input_owned.len() as i128 };
                let input = &input_owned[..];
                // the production objects: pool buffer, Kawa<Checkout>, HttpContext as parser callbacks
                let pool = std::rc::Rc::new(std::cell::RefCell::new(sozu_lib::pool::Pool::with_capacity(1, 2, 16_393)));
                let buffer = pool.borrow_mut().checkout().expect("checkout");
                let mut kawa = kawa::Kawa::new(kawa::Kind::Response, kawa::Buffer::new(buffer));
                let mut ctx = HttpContext::new(
                    rusty_ulid::Ulid::generate(), rusty_ulid::Ulid::generate(), sozu_lib::Protocol::HTTP,
                    "127.0.0.1:8080".parse().unwrap(), Some("127.0.0.1:40000".parse().unwrap()),
                    "SOZUBALANCEID".to_string(), "Sozu-Id".to_string(), false, false,
                );
                let mut wire: Vec<u8> = vec![];
                let flush = |kawa: &mut kawa::Kawa<sozu_lib::pool::Checkout>, wire: &mut Vec<u8>| {
                    kawa.prepare(&mut kawa::h1::BlockConverter);
                    let mut n = 0;
                    {
                        let buf = kawa.storage.buffer();
                        for b in kawa.out.iter() {
                            if let kawa::OutBlock::Store(st) = b {
                                let d = st.data(buf);
                                wire.extend_from_slice(d);
                                n += d.len();
                            }
                        }
                    }
                    kawa.consume(n);
                };
                let mut off = 0usize;
                let mut si = 0usize;
                let mut stuck = false;
                while off < input.len() {
                    let seg = segs.get(si % segs.len().max(1)).copied().unwrap_or(input.len());
                    si += 1;
                    let room = kawa.storage.available_space();
                    if room == 0 {
                        stuck = true;
                        break;
                    }
                    let n = seg.min(room).min(input.len() - off);
                    kawa.storage.space()[..n].copy_from_slice(&input[off..off + n]);
                    kawa.storage.fill(n);
                    off += n;
                    kawa::h1::parse(&mut kawa, &mut ctx);
                    if kawa.is_error() {
                        break;
                    }
                    if kawa.is_main_phase() {
                        flush(&mut kawa, &mut wire);
                    }
                }
                if stuck {
                    out.viol("h1-stuck", "kawa storage full with unparsed input and nothing to flush");
                }
                let eof_terminated = whole && kind == 2 && !kawa.is_error() && kawa.is_main_phase();
                if eof_terminated && !kawa.is_terminated() {
                    // mux/h1.rs terminate_close_delimited on a graceful EOF
                    kawa.push_block(kawa::Block::Flags(kawa::Flags { end_body: true, end_chunk: false, end_header: false, end_stream: true }));
                    kawa.parsing_phase = kawa::ParsingPhase::Terminated;
                }
                if !kawa.is_error() {
                    flush(&mut kawa, &mut wire);
                }
                let (got, complete) = match read_h1(&wire, eof_terminated) {
                    Ok(x) => x,
                    Err(e) => {
                        out.viol("h1-malformed-out", &format!("kind {kind}: serialised output is not a valid message: {e}"));
                        (vec![], false)
                    }
                };
                if kawa.is_error() {
                    out.obs(&[tb(&[]), tbool(false), tbool(false), tbool(true)]);
                } else {
                    out.obs(&[tb(&got), tbool(complete), tbool(kawa.is_terminated()), tbool(false)]);
                }
                // the property's own oracle: decode the INPUT with the same strict reader
                let ext = input.windows(1).len() > 0 && kind == 1 && String::from_utf8_lossy(input).contains(";name=value\r\n");
                if kawa.is_error() {
                    let class = if ext { "h1-chunk-ext" } else { "h1-parse-error" };
                    out.viol(class, &format!("kind {kind}: kawa rejected a well-formed response (cut {cut})"));
                } else {
                    match read_h1(input, whole && kind == 2) {
                        Ok((want_body, want_complete)) => {
                            if got != want_body {
                                let i = got.iter().zip(want_body.iter()).position(|(x, y)| x != y).unwrap_or(got.len().min(want_body.len()));
                                out.viol("h1-body", &format!("kind {kind} cut {cut}: body out ({} bytes) differs from body in ({} bytes) at offset {i}", got.len(), want_body.len()));
                            }
                            if complete != want_complete {
                                out.viol("h1-terminator", &format!("kind {kind} cut {cut}: output complete={complete} but input complete={want_complete}"));
                            }
                        }
                        Err(e) => out.note(&format!("invalid-case: the generated input is not a message: {e}")),
                    }
                }
            }
            "h2toh1" => {
                // the blocks ConnectionH2::handle_data_frame pushes for an upload without content-length
                // (shape tied to the source by props/c01.py:translate), written by kawa's H1 converter
                let ended = a[0].n() != 0;
                let end_chunk_flag = a[1].n() != 0;
                let frames: Vec<Vec<u8>> = a[2..].iter().map(|t| t.b().to_vec()).collect();
                let mut storage = vec![0u8; 16];
                let mut kawa = kawa::Kawa::new(kawa::Kind::Request, kawa::Buffer::new(kawa::SliceBuffer(&mut storage)));
                kawa.body_size = kawa::BodySize::Chunked;
                kawa.parsing_phase = kawa::ParsingPhase::Chunks { first: false };
                for (i, f) in frames.iter().enumerate() {
                    let content_len = f.len();
                    let last = ended && i + 1 == frames.len();
                    if content_len > 0 {
                        kawa.push_block(kawa::Block::ChunkHeader(kawa::ChunkHeader { length: kawa::Store::from_vec(format!("{content_len:x}").into_bytes()) }));
                        kawa.push_block(kawa::Block::Chunk(kawa::Chunk { data: kawa::Store::from_vec(f.clone()) }));
                        kawa.push_block(kawa::Block::Flags(kawa::Flags { end_body: false, end_chunk: true, end_header: false, end_stream: false }));
                    }
                    if last {
                        kawa.push_block(kawa::Block::Flags(kawa::Flags { end_body: true, end_chunk: end_chunk_flag, end_header: false, end_stream: true }));
                        kawa.parsing_phase = kawa::ParsingPhase::Terminated;
                    }
                }
                if ended && frames.is_empty() {
                    kawa.push_block(kawa::Block::Flags(kawa::Flags { end_body: true, end_chunk: end_chunk_flag, end_header: false, end_stream: true }));
                }
                kawa.prepare(&mut kawa::h1::BlockConverter);
                let mut wire = vec![];
                for b in kawa.out.iter() {
                    if let kawa::OutBlock::Store(st) = b {
                        wire.extend_from_slice(st.data(kawa.storage.buffer()));
                    }
                }
                // what a strict HTTP/1.1 recipient makes of it
                let mut msg = b"HTTP/1.1 200 OK\r\nTransfer-Encoding: chunked\r\n\r\n".to_vec();
                msg.extend_from_slice(&wire);
                let (body, complete, bad) = match read_h1(&msg, false) {
                    Ok((b, c)) => (b, c, false),
                    Err(_) => (vec![], false, true),
                };
                out.obs(&[tb(&wire), tb(&body), tbool(complete), tbool(bad)]);
                let want: Vec<u8> = frames.concat();
                if bad || body != want {
                    out.viol("h2h1-body", &format!("H2 upload of {} bytes reaches the HTTP/1.1 side as {} bytes (malformed={bad})", want.len(), body.len()));
                }
                if complete != ended {
                    out.viol("h2h1-terminator", &format!("H2 upload ended={ended}: the chunked message on the HTTP/1.1 side is complete={complete} (last-chunk must be `0 CRLF CRLF`)"));
                }
            }
            "h2toh1t" => {
                // h2toh1t <chunked> <nfields> <name> <value>.. <frame payload>.. : an upload ended by a trailer
                // block. The DATA frames as in h2toh1 (shape tied by the translator); the trailer block through
                // the real pkawa::handle_trailer and kawa's H1 converter (verif hook trailers_as_h1)
                let chunked = a[0].n() != 0;
                let nf = a[1].n() as usize;
                let bs: Vec<Vec<u8>> = a[2..].iter().map(|t| t.b().to_vec()).collect();
                let fields: Vec<(Vec<u8>, Vec<u8>)> = bs[..2 * nf].chunks(2).map(|p| (p[0].clone(), p[1].clone())).collect();
                let frames: Vec<Vec<u8>> = bs[2 * nf..].to_vec();
                let total: usize = frames.iter().map(|f| f.len()).sum();
                let mut storage = vec![0u8; 16];
                let mut kawa = kawa::Kawa::new(kawa::Kind::Request, kawa::Buffer::new(kawa::SliceBuffer(&mut storage)));
                if chunked {
                    kawa.body_size = kawa::BodySize::Chunked;
                    kawa.parsing_phase = kawa::ParsingPhase::Chunks { first: false };
                } else {
                    kawa.body_size = kawa::BodySize::Length(total);
                    kawa.parsing_phase = kawa::ParsingPhase::Body;
                }
                for f in frames.iter() {
                    let content_len = f.len();
                    if content_len > 0 {
                        if chunked {
                            kawa.push_block(kawa::Block::ChunkHeader(kawa::ChunkHeader { length: kawa::Store::from_vec(format!("{content_len:x}").into_bytes()) }));
                        }
                        kawa.push_block(kawa::Block::Chunk(kawa::Chunk { data: kawa::Store::from_vec(f.clone()) }));
                        if chunked {
                            kawa.push_block(kawa::Block::Flags(kawa::Flags { end_body: false, end_chunk: true, end_header: false, end_stream: false }));
                        }
                    }
                }
                kawa.prepare(&mut kawa::h1::BlockConverter);
                let mut wire = vec![];
                for b in kawa.out.iter() {
                    if let kawa::OutBlock::Store(st) = b {
                        wire.extend_from_slice(st.data(kawa.storage.buffer()));
                    }
                }
                let body_end = wire.len();
                match located(|| sozu_lib::protocol::mux::verif_c01::trailers_as_h1(&fields, if chunked { None } else { Some(total) })) {
                    Ok(tail) => wire.extend_from_slice(&tail),
                    Err(e) => {
                        out.note(&format!("invalid-case: handle_trailer refused the generated trailer block: {e}"));
                        out.obs(&[tb(&[]), tb(&[]), tbool(false), tbool(true)]);
                        continue;
                    }
                }
                let want: Vec<u8> = frames.concat();
                if chunked {
                    let mut msg = b"HTTP/1.1 200 OK\r\nTransfer-Encoding: chunked\r\n\r\n".to_vec();
                    msg.extend_from_slice(&wire);
                    let (body, complete, bad) = match read_h1(&msg, false) {
                        Ok((b, c)) => (b, c, false),
                        Err(_) => (vec![], false, true),
                    };
                    out.obs(&[tb(&wire), tb(&body), tbool(complete), tbool(bad)]);
                    if bad || body != want {
                        out.viol("h2h1-body", &format!("H2 upload of {} bytes ended by trailers reaches the HTTP/1.1 side as {} bytes (malformed={bad})", want.len(), body.len()));
                    }
                    if !complete {
                        out.viol("h2h1-trailers", "H2 upload ended by trailers: the chunked message on the HTTP/1.1 side does not end where its bytes end (it must be `0 CRLF`, the trailer lines, `CRLF`, and nothing after)");
                    }
                    // the exact tail
                    let mut tail = b"0\r\n".to_vec();
                    for (k, v) in &fields {
                        tail.extend_from_slice(k);
                        tail.extend_from_slice(b": ");
                        tail.extend_from_slice(v);
                        tail.extend_from_slice(b"\r\n");
                    }
                    tail.extend_from_slice(b"\r\n");
                    if wire[body_end..] != tail[..] {
                        out.viol("h2h1-trailers", &format!("the bytes after the last chunk are {:?}, expected {:?}", String::from_utf8_lossy(&wire[body_end..]), String::from_utf8_lossy(&tail)));
                    }
                } else {
                    out.obs(&[tb(&wire), tb(&wire), tbool(true), tbool(false)]);
                    if wire.len() != body_end {
                        out.viol("h2h1-trailers", &format!("content-length framed upload: {} bytes written after the body ({:?}); the HTTP/1.1 peer reads them as the next request", wire.len() - body_end, String::from_utf8_lossy(&wire[body_end..])));
                    }
                    if wire != want {
                        out.viol("h2h1-body", "content-length framed upload: the bytes written differ from the payloads");
                    }
                }
            }
            "h2conv" => {
                // h2conv <max> <ended> <seed> W <w>.. C <n>..
                let max = a[0].n() as usize;
                let ended = a[1].n() != 0;
                let seed = a[2].n() as u64;
                let mut ws: Vec<i32> = vec![];
                let mut cs: Vec<usize> = vec![];
                let mut mode = 0;
                for t in &a[3..] {
                    match t {
                        Tok::S(m) if m == "W" => mode = 1,
                        Tok::S(m) if m == "C" => mode = 2,
                        Tok::N(n) if mode == 1 => ws.push(*n as i32),
                        Tok::N(n) if mode == 2 => cs.push(*n as usize),
                        _ => {}
                    }
                }
                let chunks: Vec<Vec<u8>> = cs.iter().enumerate().map(|(i, n)| pattern(*n, seed + i as u64)).collect();
                let body: Vec<u8> = chunks.concat();
                let (rounds, left) = located(|| sozu_lib::protocol::mux::verif_c01::convert_body(&ws, max, 5, &chunks, ended));
                let mut toks = vec![];
                let mut got: Vec<u8> = vec![];
                let mut end_seen = false;
                for (ri, (bytes, after)) in rounds.iter().enumerate() {
                    toks.push(ts("R"));
                    toks.push(tn(*after));
                    let before = ws[ri];
                    let mut i = 0usize;
                    let mut sent = 0usize;
                    while i + 9 <= bytes.len() {
                        let len = ((bytes[i] as usize) << 16) | ((bytes[i + 1] as usize) << 8) | bytes[i + 2] as usize;
                        let (ty, flags) = (bytes[i + 3], bytes[i + 4]);
                        let sid = u32::from_be_bytes([bytes[i + 5], bytes[i + 6], bytes[i + 7], bytes[i + 8]]);
                        if ty != 0 || sid != 5 || flags & !1 != 0 {
                            out.viol("h2-frame", &format!("round {ri}: frame type {ty} flags {flags} stream {sid} in a body"));
                        }
                        if i + 9 + len > bytes.len() {
                            out.viol("h2-frame", &format!("round {ri}: frame announces {len} bytes, {} follow", bytes.len() - i - 9));
                            break;
                        }
                        if len > max {
                            out.viol("h2-frame-size", &format!("round {ri}: DATA payload {len} above max_frame_size {max}"));
                        }
                        if end_seen {
                            out.viol("h2-after-end", &format!("round {ri}: a frame follows END_STREAM"));
                        }
                        got.extend_from_slice(&bytes[i + 9..i + 9 + len]);
                        sent += len;
                        if flags & 1 != 0 {
                            end_seen = true;
                            toks.push(ts("E"));
                            if len != 0 {
                                toks.push(tn(len));
                            }
                        } else {
                            toks.push(tn(len));
                        }
                        i += 9 + len;
                    }
                    if i != bytes.len() {
                        out.viol("h2-frame", &format!("round {ri}: {} trailing bytes are not a frame", bytes.len() - i));
                    }
                    if before >= 0 && sent as i64 > before as i64 {
                        out.viol("h2-window", &format!("round {ri}: {sent} bytes sent with a window of {before}"));
                    }
                    if *after as i64 != before as i64 - sent as i64 {
                        out.viol("h2-window", &format!("round {ri}: window {before} -> {after} after {sent} bytes"));
                    }
                }
                toks.push(ts("L"));
                for l in &left {
                    if *l == usize::MAX {
                        toks.push(ts("E"));
                    } else {
                        toks.push(tn(*l));
                    }
                }
                out.obs(&toks);
                // the property's own oracle: payload so far is a prefix of the body; END_STREAM iff
                // the body ended cleanly and all of it is out
                if got.len() > body.len() || got[..] != body[..got.len()] {
                    out.viol("h2-corrupt", "DATA payloads are not a prefix of the body");
                }
                if end_seen && (!ended || got.len() != body.len()) {
                    out.viol("h2-early-end", &format!("END_STREAM with {} of {} body bytes out (ended={ended})", got.len(), body.len()));
                }
                let queued: usize = left.iter().filter(|l| **l != usize::MAX).sum();
                if got.len() + queued != body.len() {
                    out.viol("h2-lost", &format!("{} bytes out + {queued} queued != body {}", got.len(), body.len()));
                }
            }
            "h2convt" | "h2convt2" => {
                // h2convt <max> <seed> <nfields> W <w>.. C <n>.. : a chunked HTTP/1.1 response with a trailer section,
                // parsed by kawa and written by the real H2BlockConverter (verif hook convert_h1_response)
                let max = a[0].n() as usize;
                let seed = a[1].n() as u64;
                let nf = a[2].n() as usize;
                let mut ws: Vec<i32> = vec![];
                let mut cs: Vec<usize> = vec![];
                let mut mode = 0;
                for t in &a[3..] {
                    match t {
                        Tok::S(m) if m == "W" => mode = 1,
                        Tok::S(m) if m == "C" => mode = 2,
                        Tok::N(n) if mode == 1 => ws.push(*n as i32),
                        Tok::N(n) if mode == 2 => cs.push(*n as usize),
                        _ => {}
                    }
                }
                let chunks: Vec<Vec<u8>> = cs.iter().enumerate().map(|(i, n)| pattern(*n, seed + i as u64)).collect();
                let body: Vec<u8> = chunks.concat();
                let fields: Vec<(String, String)> = (0..nf).map(|i| (format!("x-trailer-{i}"), format!("v{}-{seed}", i * 7))).collect();
                let mut resp = b"HTTP/1.1 200 OK\r\nTransfer-Encoding: chunked\r\nContent-Type: application/octet-stream\r\n\r\n".to_vec();
                for c in &chunks {
                    if c.is_empty() {
                        out.note("invalid-case: empty chunk");
                    }
                    resp.extend_from_slice(format!("{:x}\r\n", c.len()).as_bytes());
                    resp.extend_from_slice(c);
                    resp.extend_from_slice(b"\r\n");
                }
                resp.extend_from_slice(b"0\r\n");
                // h2convt2: the response comes in two reads, the first one ends inside the trailer section (after the
                // last-chunk line and the first field when there are several): one converter pass happens in between
                let mut cut = resp.len();
                for (i, (k, v)) in fields.iter().enumerate() {
                    resp.extend_from_slice(format!("{k}: {v}\r\n").as_bytes());
                    if i == 0 && fields.len() > 1 {
                        cut = resp.len();
                    }
                }
                resp.extend_from_slice(b"\r\n");
                let split = op.name == "h2convt2";
                let (rounds, left) = match located(|| if split {
                    sozu_lib::protocol::mux::verif_c01::convert_h1_response_split(&ws, max, 5, &resp, cut)
                } else {
                    sozu_lib::protocol::mux::verif_c01::convert_h1_response(&ws, max, 5, &resp)
                }) {
                    Ok(x) => x,
                    Err(e) => {
                        out.viol("h2t-parse", &format!("kawa did not parse the generated chunked response with {nf} trailer fields: {e}"));
                        out.obs(&[]);
                        continue;
                    }
                };
                let mut dec = loona_hpack::Decoder::new();
                let mut toks = vec![];
                let mut got: Vec<u8> = vec![];
                let (mut head_seen, mut end_seen) = (false, false);
                let mut trailers: Vec<(Vec<u8>, Vec<u8>)> = vec![];
                let (mut block, mut block_open, mut block_end_stream): (Vec<u8>, bool, bool) = (vec![], false, false);
                for (ri, (bytes, after)) in rounds.iter().enumerate() {
                    toks.push(ts("R"));
                    toks.push(tn(*after));
                    let before = ws[ri];
                    let (mut i, mut sent) = (0usize, 0usize);
                    while i + 9 <= bytes.len() {
                        let len = ((bytes[i] as usize) << 16) | ((bytes[i + 1] as usize) << 8) | bytes[i + 2] as usize;
                        let (ty, flags) = (bytes[i + 3], bytes[i + 4]);
                        let sid = u32::from_be_bytes([bytes[i + 5], bytes[i + 6], bytes[i + 7], bytes[i + 8]]);
                        if i + 9 + len > bytes.len() || sid != 5 {
                            out.viol("h2-frame", &format!("round {ri}: frame type {ty} of {len} bytes on stream {sid}, {} bytes follow", bytes.len() - i - 9));
                            break;
                        }
                        if end_seen && !(ty == 9 && block_open) {
                            out.viol("h2-after-end", &format!("round {ri}: a frame (type {ty}) follows END_STREAM"));
                        }
                        let payload = &bytes[i + 9..i + 9 + len];
                        match ty {
                            1 | 9 => {
                                // a header block: HEADERS, then CONTINUATION frames up to END_HEADERS (small max_frame_size)
                                if ty == 1 {
                                    if block_open {
                                        out.viol("h2-frame", "HEADERS inside an unfinished header block");
                                    }
                                    block.clear();
                                    block_open = true;
                                    block_end_stream = flags & 1 != 0;
                                } else if !block_open {
                                    out.viol("h2-frame", "CONTINUATION without a header block");
                                }
                                block.extend_from_slice(payload);
                                if flags & 4 != 0 {
                                    block_open = false;
                                    let mut fl: Vec<(Vec<u8>, Vec<u8>)> = vec![];
                                    if dec.decode_with_cb(&block, |k, v| fl.push((k.to_vec(), v.to_vec()))).is_err() {
                                        out.viol("h2t-hpack", "header block does not decode");
                                    }
                                    if !head_seen {
                                        head_seen = true;
                                        toks.push(ts("H"));
                                        if block_end_stream {
                                            out.viol("h2-early-end", "END_STREAM on the response HEADERS of a message with a body");
                                            end_seen = true;
                                        }
                                    } else {
                                        trailers = fl;
                                        if block_end_stream {
                                            end_seen = true;
                                            toks.push(ts("T"));
                                        } else {
                                            toks.push(ts("t"));
                                            out.viol("h2t-no-end", "the HEADERS frame carrying the trailers has no END_STREAM: the stream never ends");
                                        }
                                    }
                                }
                            }
                            0 => {
                                if !head_seen {
                                    out.viol("h2-frame", "DATA before the response HEADERS");
                                }
                                if len > max {
                                    out.viol("h2-frame-size", &format!("round {ri}: DATA payload {len} above max_frame_size {max}"));
                                }
                                got.extend_from_slice(payload);
                                sent += len;
                                if flags & 1 != 0 {
                                    end_seen = true;
                                    toks.push(ts("E"));
                                    if len != 0 {
                                        toks.push(tn(len));
                                    }
                                } else {
                                    toks.push(tn(len));
                                }
                            }
                            _ => out.viol("h2-frame", &format!("round {ri}: frame type {ty} in a response")),
                        }
                        i += 9 + len;
                    }
                    if i != bytes.len() {
                        out.viol("h2-frame", &format!("round {ri}: {} trailing bytes are not a frame", bytes.len() - i));
                    }
                    if before >= 0 && sent as i64 > before as i64 {
                        out.viol("h2-window", &format!("round {ri}: {sent} bytes sent with a window of {before}"));
                    }
                    if *after as i64 != before as i64 - sent as i64 {
                        out.viol("h2-window", &format!("round {ri}: window {before} -> {after} after {sent} bytes"));
                    }
                }
                toks.push(ts("L"));
                for l in left.iter().filter(|l| **l != usize::MAX) {
                    toks.push(tn(*l));
                }
                if left.iter().any(|l| *l == usize::MAX) {
                    toks.push(ts("E"));
                }
                out.obs(&toks);
                // the property's own oracle
                if got.len() > body.len() || got[..] != body[..got.len()] {
                    out.viol("h2-corrupt", "DATA payloads are not a prefix of the body");
                }
                if end_seen && got.len() != body.len() {
                    out.viol("h2-early-end", &format!("END_STREAM with {} of {} body bytes out", got.len(), body.len()));
                }
                if end_seen {
                    let want: Vec<(Vec<u8>, Vec<u8>)> = fields.iter().map(|(k, v)| (k.clone().into_bytes(), v.clone().into_bytes())).collect();
                    if trailers != want {
                        out.viol("h2t-fields", &format!("trailer fields out {:?}, in {:?}", trailers.iter().map(|(k, v)| (String::from_utf8_lossy(k).to_string(), String::from_utf8_lossy(v).to_string())).collect::<Vec<_>>(), fields));
                    }
                }
                let queued: usize = left.iter().filter(|l| **l != usize::MAX).sum();
                if got.len() + queued != body.len() {
                    out.viol("h2-lost", &format!("{} bytes out + {queued} queued != body {}", got.len(), body.len()));
                }
            }
            other => {
                out.note(&format!("invalid-case: unknown op {other}"));
                out.obs(&[]);
            }
        }
    }
}

fn main() {
    drive(run);
}
