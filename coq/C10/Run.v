(** C10 — token interface of the model for the correspondence check. *)
From Coq Require Import List Arith ZArith NArith String Bool.
From SV Require Import Common.Tok C10.Gen C10.Model.
Import ListNotations.
Open Scope string_scope.
Open Scope list_scope.

Definition bytes_of (ts : list tok) : list (list N) :=
  flat_map (fun t => match t with TB b => [b] | _ => [] end) ts.

Definition err_name (e : rerr) : string :=
  match e with ESend => "send" | EReceive => "receive" | EDecode => "decode" | EInconsistent => "inconsistent" end.

(** are the received pairs the sent (address, index) pairs, in family order? *)
Definition paired_ok (sent : listeners (list N)) (got : listeners (list N * nat)) : bool :=
  let all_sent := http sent ++ tls sent ++ tcp sent ++ udp sent in
  let all_got := http got ++ tls got ++ tcp got ++ udp got in
  Nat.eqb (List.length all_got) (List.length all_sent) &&
  forallb (fun p => bytes_eqb (fst (fst p)) (snd p)) (combine all_got all_sent) &&
  forallb (fun p => Nat.eqb (snd (fst p)) (snd p)) (combine all_got (seq 0 (List.length all_sent))).

Definition step (op : list tok) : list tok :=
  match op with
  | TS name :: args =>
    if name =? "consts" then [tn_nat max_fds_out; tn_nat max_bytes_out]
    else if name =? "bb" then []      (* black-box run: no model observation *)
    else if (name =? "xfer") || (name =? "raw") then
      let is_raw := name =? "raw" in
      match args with
      | TN h :: TN t :: TN c :: TN u :: rest =>
        let '(nfds, cut, rest) :=
          if is_raw then match rest with TN f :: TN k :: r => (Some (Z.to_nat f), Z.to_nat k, r) | _ => (None, O, rest) end
          else (None, O, rest) in
        let a := bytes_of rest in
        let h := Z.to_nat h in let t := Z.to_nat t in let c := Z.to_nat c in
        let l := mkl (firstn h a) (firstn t (skipn h a)) (firstn c (skipn (h + t)%nat a)) (skipn (h + t + c)%nat a) in
        let nf := match nfds with Some f => f | None => count l end in
        if Nat.ltb scm_max_fd nf then [TS "err"; TS "send"]
        else
          let msg := firstn (List.length (encode l) - Nat.min cut (List.length (body l)))%nat (encode l) in
          let fds := seq 0 nf in
          let '(r, closed) := receive_acct msg fds in
          let leaked := (List.length fds - List.length (held_after r) - List.length closed)%nat in
          match r with
          | ROk g => [TS "ok"; tn_nat (List.length (http g)); tn_nat (List.length (tls g));
                      tn_nat (List.length (tcp g)); tn_nat (List.length (udp g)); tn_bool (paired_ok l g); tn_nat leaked]
          | RErr e => [TS "err"; TS (err_name e); tn_nat leaked]
          end
      | _ => [TS "badop"]
      end
    else [TS "badop"]
  | _ => [TS "badop"]
  end.

Definition run_case (ops : list (list tok)) : list (list tok) := map step ops.
